(* RouterProofs.v — proofs about Router.v (C11). *)
From Repid Require Import Base Router.

Lemma pair_eqb_eq p p' : pair_eqb p p' = true <-> p = p'.
Proof.
  destruct p as [a b], p' as [c d]. unfold pair_eqb. cbn [fst snd]. rewrite andb_true_iff, !Z.eqb_eq.
  split; [intros [-> ->]; reflexivity | intros H; inversion H; auto].
Qed.

Lemma has_pair_In p l : has_pair p l = true <-> In p l.
Proof.
  unfold has_pair. rewrite existsb_exists. split.
  - intros [x [Hin Hx]]. apply pair_eqb_eq in Hx. subst. exact Hin.
  - intros H. exists p. split; [exact H | apply pair_eqb_eq; reflexivity].
Qed.

Lemma In_add_pair p p' l : In p (add_pair p' l) <-> p = p' \/ In p l.
Proof.
  unfold add_pair. destruct (has_pair p' l) eqn:E.
  - apply has_pair_In in E. split; [auto | intros [->|H]; auto].
  - rewrite in_app_iff. cbn [In]. split; [intros [H|[H|[]]]; auto | intros [->|H]; auto].
Qed.

Lemma In_remove_pair p p' l : In p (remove_pair p' l) <-> p <> p' /\ In p l.
Proof.
  unfold remove_pair. rewrite filter_In. split.
  - intros [H1 H2]. split; [|exact H1]. intros ->. rewrite (proj2 (pair_eqb_eq p' p') eq_refl) in H2. discriminate.
  - intros [H1 H2]. split; [exact H2|]. destruct (pair_eqb p' p) eqn:E; [|reflexivity].
    apply pair_eqb_eq in E. congruence.
Qed.

Lemma find_set_actor n a l : find_actor n (set_actor a l) = if a_name a =? n then Some a else find_actor n l.
Proof.
  induction l as [|x l IH]; cbn [set_actor find_actor].
  - reflexivity.
  - destruct (a_name x =? a_name a) eqn:E.
    + cbn [find_actor]. apply Z.eqb_eq in E. rewrite E. destruct (a_name a =? n); reflexivity.
    + cbn [find_actor]. rewrite IH. destruct (a_name x =? n) eqn:E2; [|reflexivity].
      apply Z.eqb_eq in E2. apply Z.eqb_neq in E. destruct (a_name a =? n) eqn:E3; [|reflexivity].
      apply Z.eqb_eq in E3. congruence.
Qed.

Lemma find_actor_name n l a : find_actor n l = Some a -> a_name a = n.
Proof.
  induction l as [|x l IH]; cbn [find_actor]; [discriminate|].
  destruct (a_name x =? n) eqn:E; [|exact IH]. intros H; inversion H; subst. apply Z.eqb_eq. exact E.
Qed.

Lemma find_actor_In n l a : find_actor n l = Some a -> In a l.
Proof.
  induction l as [|x l IH]; cbn [find_actor]; [discriminate|].
  destruct (a_name x =? n); [intros H; inversion H; left; reflexivity | intros H; right; auto].
Qed.

Lemma find_actor_None n l : find_actor n l = None <-> ~ In n (map a_name l).
Proof.
  induction l as [|x l IH]; cbn [find_actor map In]; [tauto|].
  destruct (a_name x =? n) eqn:E.
  - apply Z.eqb_eq in E. split; [discriminate | intros H; exfalso; apply H; left; exact E].
  - apply Z.eqb_neq in E. rewrite IH. tauto.
Qed.

Lemma names_set_actor a l n : In n (map a_name (set_actor a l)) <-> n = a_name a \/ In n (map a_name l).
Proof.
  induction l as [|x l IH]; cbn [set_actor map In].
  - split; [intros [H|[]]; auto | intros [H|[]]; auto].
  - destruct (a_name x =? a_name a) eqn:E; cbn [map In].
    + apply Z.eqb_eq in E. rewrite E. split; [intros [H|H]; auto | intros [H|[H|H]]; auto].
    + rewrite IH. tauto.
Qed.

Lemma NoDup_set_actor a l : NoDup (map a_name l) -> NoDup (map a_name (set_actor a l)).
Proof.
  induction l as [|x l IH]; cbn [set_actor map]; intros H.
  - constructor; [intros []|constructor].
  - inversion H as [|y ys Hnot Hnd]; subst. destruct (a_name x =? a_name a) eqn:E; cbn [map].
    + apply Z.eqb_eq in E. constructor; [rewrite <- E; exact Hnot | exact Hnd].
    + apply Z.eqb_neq in E. constructor; [|apply IH; exact Hnd].
      rewrite names_set_actor. intros [H1|H1]; [congruence | contradiction].
Qed.

(* topics_by_queue lists a name under a queue iff that is the queue of the actor registered under the name *)
Definition Consistent (r : router) : Prop :=
  NoDup (map a_name (actors r)) /\
  forall q n, In (q, n) (tbq r) <-> exists a, find_actor n (actors r) = Some a /\ a_queue a = q.

Lemma consistent_empty : Consistent empty_router.
Proof. split; [constructor|]. intros q n. cbn. split; [intros [] | intros [a [H _]]; discriminate]. Qed.

Theorem consistent_register r a : Consistent r -> Consistent (register r a).
Proof.
  intros [Hnd Hc]. split; [apply NoDup_set_actor; exact Hnd|].
  intros q n. unfold register. cbn [actors tbq]. rewrite In_add_pair, find_set_actor.
  destruct (a_name a =? n) eqn:En.
  - apply Z.eqb_eq in En. subst n. split.
    + intros [H|H]; [inversion H; subst; exists a; auto|].
      destruct (find_actor (a_name a) (actors r)) as [prev|] eqn:Ef.
      * destruct (a_queue prev =? a_queue a) eqn:Eq.
        -- apply Z.eqb_eq in Eq. apply Hc in H. destruct H as [a' [H1 H2]]. rewrite Ef in H1. inversion H1; subst.
           exists a. split; [reflexivity | congruence].
        -- apply In_remove_pair in H. destruct H as [Hne H]. apply Hc in H. destruct H as [a' [H1 H2]].
           rewrite Ef in H1. inversion H1; subst. exfalso. apply Hne. reflexivity.
      * apply Hc in H. destruct H as [a' [H1 _]]. congruence.
    + intros [a' [H1 H2]]. inversion H1; subst. left. reflexivity.
  - apply Z.eqb_neq in En. split.
    + intros [H|H]; [inversion H; subst; congruence|]. apply Hc.
      destruct (find_actor (a_name a) (actors r)) as [prev|]; [|exact H].
      destruct (a_queue prev =? a_queue a); [exact H|]. apply In_remove_pair in H. tauto.
    + intros H. right. apply Hc in H.
      destruct (find_actor (a_name a) (actors r)) as [prev|]; [|exact H].
      destruct (a_queue prev =? a_queue a); [exact H|]. apply In_remove_pair. split; [|exact H]. intros Heq; inversion Heq; congruence.
Qed.

Lemma consistent_fold l : forall r, Consistent r -> Consistent (fold_left register l r).
Proof. induction l as [|a l IH]; cbn [fold_left]; intros r H; [exact H|]. apply IH, consistent_register, H. Qed.

Theorem consistent_include r r' : Consistent r -> Consistent (include r r').
Proof. intros H. apply consistent_fold, H. Qed.

Lemma Forall_upd_nth (P : router -> Prop) f : (forall r, P r -> P (f r)) -> forall k l, Forall P l -> Forall P (upd_nth k f l).
Proof.
  intros Hf k l. revert k. induction l as [|x l IH]; intros k H; [destruct k; constructor|].
  inversion H; subst. destruct k; cbn [upd_nth]; constructor; auto.
Qed.

Theorem consistent_rstep w o : Forall Consistent w -> Forall Consistent (rstep w o).
Proof.
  intros H. destruct o as [d a|d s]; cbn [rstep].
  - apply Forall_upd_nth; [intros r; apply consistent_register | exact H].
  - destruct (nth_error w s) as [r'|]; [|exact H]. apply Forall_upd_nth; [intros r; apply consistent_include | exact H].
Qed.

(* every router reachable by any sequence of declarations and inclusions is consistent *)
Theorem consistent_reachable n ops : Forall Consistent (rrun n ops).
Proof.
  unfold rrun. assert (H0 : Forall Consistent (repeat empty_router n)).
  { induction n; cbn; constructor; [apply consistent_empty | assumption]. }
  revert H0. generalize (repeat empty_router n). induction ops as [|o ops IH]; cbn [fold_left]; intros w H; [exact H|].
  apply IH, consistent_rstep, H.
Qed.

Theorem consistent_worker rs : Consistent (worker_of rs).
Proof.
  unfold worker_of. generalize consistent_empty. generalize empty_router.
  induction rs as [|r rs IH]; cbn [fold_left]; intros w H; [exact H|]. apply IH, consistent_include, H.
Qed.

(* ---- union, last registration wins ---- *)
Definition find_last (n : Z) (l : list actor) : option actor := find_actor n (rev l).

Lemma find_actor_app n l1 l2 : find_actor n (l1 ++ l2) = match find_actor n l1 with Some a => Some a | None => find_actor n l2 end.
Proof. induction l1 as [|x l1 IH]; cbn [app find_actor]; [reflexivity|]. destruct (a_name x =? n); [reflexivity | exact IH]. Qed.

Lemma fold_register_lookup n l : forall r,
  find_actor n (actors (fold_left register l r)) = match find_last n l with Some a => Some a | None => find_actor n (actors r) end.
Proof.
  induction l as [|a l IH]; intros r; cbn [fold_left].
  - reflexivity.
  - rewrite IH. unfold find_last. cbn [rev]. rewrite find_actor_app. destruct (find_actor n (rev l)); [reflexivity|].
    unfold register. cbn [actors find_actor]. rewrite find_set_actor. destruct (a_name a =? n); reflexivity.
Qed.

Theorem include_last_wins r r' n :
  find_actor n (actors (include r r')) = match find_last n (actors r') with Some a => Some a | None => find_actor n (actors r) end.
Proof. apply fold_register_lookup. Qed.

Lemma find_last_nodup n l : NoDup (map a_name l) -> find_last n l = find_actor n l.
Proof.
  unfold find_last. induction l as [|x l IH]; intros H; [reflexivity|]. inversion H as [|y ys Hnot Hnd]; subst.
  cbn [rev find_actor]. rewrite find_actor_app, IH by exact Hnd. cbn [find_actor].
  destruct (a_name x =? n) eqn:E.
  - apply Z.eqb_eq in E. subst n. destruct (find_actor (a_name x) l) eqn:F; [|reflexivity].
    exfalso. apply Hnot. assert (F' : find_actor (a_name x) l <> None) by congruence. rewrite find_actor_None in F'.
    destruct (in_dec Z.eq_dec (a_name x) (map a_name l)); [assumption | contradiction].
  - destruct (find_actor n l); reflexivity.
Qed.

(* including a (consistent) router: its registrations override, everything else is kept *)
Theorem include_union_last_wins r r' n : Consistent r' ->
  find_actor n (actors (include r r')) = match find_actor n (actors r') with Some a => Some a | None => find_actor n (actors r) end.
Proof. intros [Hnd _]. rewrite include_last_wins, find_last_nodup by exact Hnd. reflexivity. Qed.

Lemma fold_include_flat rs : forall w, fold_left include rs w = fold_left register (flat_map actors rs) w.
Proof.
  induction rs as [|r rs IH]; intros w; cbn [fold_left flat_map]; [reflexivity|].
  rewrite fold_left_app. apply IH.
Qed.

(* the worker's actors are exactly the union of its routers' actors, the last registration of a name winning *)
Theorem worker_actors rs n : find_actor n (actors (worker_of rs)) = find_last n (flat_map actors rs).
Proof.
  unfold worker_of. rewrite fold_include_flat, fold_register_lookup. destruct (find_last n (flat_map actors rs)); reflexivity.
Qed.

Theorem worker_union rs n :
  find_actor n (actors (worker_of rs)) <> None <-> exists r, In r rs /\ find_actor n (actors r) <> None.
Proof.
  rewrite worker_actors. unfold find_last. rewrite !find_actor_None.
  assert (E : forall l, In n (map a_name (rev l)) <-> In n (map a_name l)).
  { intros l. rewrite map_rev, <- in_rev. tauto. }
  split.
  - intros H. destruct (in_dec Z.eq_dec n (map a_name (rev (flat_map actors rs)))) as [Hin|Hn]; [|contradiction].
    apply (proj1 (E _)) in Hin. apply in_map_iff in Hin. destruct Hin as [a [Ha Hin]]. apply in_flat_map in Hin. destruct Hin as [r [Hr Hin]].
    exists r. split; [exact Hr|]. rewrite find_actor_None. intros Hc. apply Hc. apply in_map_iff. exists a. auto.
  - intros [r [Hr Hf]] Hc. apply Hf. rewrite find_actor_None. intros Hin. apply Hc. apply (proj2 (E _)).
    apply in_map_iff in Hin. destruct Hin as [a [Ha Hin]]. apply in_map_iff. exists a. split; [exact Ha|].
    apply in_flat_map. exists r. auto.
Qed.

(* ---- dispatch ---- *)
Theorem dispatch_exact w t q f : Consistent w ->
  (executes w t q = Some f <-> exists a, find_actor t (actors w) = Some a /\ a_queue a = q /\ a_fn a = f).
Proof.
  intros [_ Hc]. unfold executes, serves. destruct (has_pair (q, t) (tbq w)) eqn:E.
  - apply has_pair_In, Hc in E. destruct E as [a [H1 H2]]. rewrite H1. cbn [option_map]. split.
    + intros H; inversion H; subst. exists a. auto.
    + intros [a' [H3 [H4 H5]]]. inversion H3; subst. reflexivity.
  - split; [discriminate|]. intros [a [H1 [H2 H3]]]. exfalso.
    assert (Hin : In (q, t) (tbq w)) by (apply Hc; exists a; auto). apply has_pair_In in Hin. congruence.
Qed.

(* a job is left alone unless its topic is registered in the worker for exactly the queue the job sits in *)
Theorem dispatch_none w t q : Consistent w ->
  (executes w t q = None <-> forall a, find_actor t (actors w) = Some a -> a_queue a <> q).
Proof.
  intros Hc. split.
  - intros H a Ha Hq. assert (E : executes w t q = Some (a_fn a)) by (apply dispatch_exact; [exact Hc | exists a; auto]). congruence.
  - intros H. destruct (executes w t q) as [f|] eqn:E; [|reflexivity]. apply dispatch_exact in E; [|exact Hc].
    destruct E as [a [H1 [H2 _]]]. exfalso. exact (H a H1 H2).
Qed.

(* ---- the registration before the fix violates the property: witness ---- *)
Definition w_before_fix : router := register_old (register_old empty_router (mkA 1 1 10)) (mkA 1 2 20).

Theorem override_before_fix_refuted :
  find_actor 1 (actors w_before_fix) = Some (mkA 1 2 20) /\ executes w_before_fix 1 1 = Some 20 /\ ~ Consistent w_before_fix.
Proof.
  split; [reflexivity|]. split; [reflexivity|]. intros [_ Hc].
  assert (Hin : In (1, 1) (tbq w_before_fix)) by (vm_compute; auto).
  apply Hc in Hin. destruct Hin as [a [H1 H2]]. vm_compute in H1. inversion H1; subst. discriminate.
Qed.

(* non-vacuity: a consistent world with an override across queues *)
Example consistent_example :
  let w := worker_of (rrun 2 [Reg 0 (mkA 1 1 10); Reg 1 (mkA 1 2 20); Reg 0 (mkA 2 1 30); Inc 0 1]) in
  executes w 1 1 = None /\ executes w 1 2 = Some 20 /\ executes w 2 1 = Some 30 /\ queues w = [2; 1].
Proof. vm_compute. repeat split. Qed.
