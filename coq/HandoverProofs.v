(* HandoverProofs.v - finish() of a prefetching consumer leaves nothing behind, wherever the cancellations land. *)
From Repid Require Import Base Handover.

Definition coll (s : hst) : bool := ph_eqb (phase s) PFinRejecting || ph_eqb (phase s) PDone.

Record HInv (s : hst) : Prop := {
  hi_bg : bgrun s = true -> phase s = PRun;
  hi_clean : forall m, In m (ms s) -> coll s = true -> stale (cust s m) = false /\ (push s = false -> cust s m <> CTaking1);
  hi_rej : forall m, In m (ms s) -> phase s = PDone -> cust s m <> CRejecting;
  hi_und : forall m, In m (ms s) -> coll s = true -> late s = false -> cust s m <> CUndelivered;
  hi_ret : forall m, In m (ms s) -> cust s m = CReturning -> call s = true;
  hi_uniq : forall x y, In x (ms s) -> In y (ms s) -> cust s x = CReturning -> cust s y = CReturning -> x = y }.

Lemma memz_In m l : memz m l = true <-> In m l.
Proof.
  unfold memz. rewrite existsb_exists. split.
  - intros [x [Hx He]]. apply Z.eqb_eq in He. subst. exact Hx.
  - intros H. exists m. split; [exact H | apply Z.eqb_refl].
Qed.

Lemma none_in_spec s p : none_in s p = true -> forall m, In m (ms s) -> p (cust s m) = false.
Proof.
  unfold none_in. rewrite forallb_forall. intros H m Hm. specialize (H m Hm). destruct (p (cust s m)); [discriminate | reflexivity].
Qed.

Lemma cu_eqb_eq a b : cu_eqb a b = true <-> a = b.
Proof. destruct a, b; unfold cu_eqb; simpl; split; intros H; try reflexivity; try discriminate. Qed.

Lemma ph_eqb_eq a b : ph_eqb a b = true <-> a = b.
Proof. destruct a, b; unfold ph_eqb; simpl; split; intros H; try reflexivity; try discriminate. Qed.

Lemma hstep_ms s e s' : hstep s e = Some s' -> ms s' = ms s.
Proof.
  destruct e; unfold hstep, move, with_cust, with_call, with_phase; intros H;
    repeat match type of H with
           | (if ?c then _ else _) = Some _ => destruct c; try discriminate
           | option_map _ (if ?c then _ else _) = Some _ => destruct c; try discriminate
           end; cbn in H; inversion H; subst; reflexivity.
Qed.

Lemma hrun_ms es : forall s s', hrun s es = Some s' -> ms s' = ms s.
Proof.
  induction es as [|e es IH]; intros s s' H; cbn in H.
  - inversion H; reflexivity.
  - destruct (hstep s e) as [s1|] eqn:E; [|discriminate]. rewrite (IH _ _ H). eapply hstep_ms; exact E.
Qed.

Lemma init_inv msgs expired pushing : HInv (hinit msgs expired pushing).
Proof.
  constructor; cbn; intros; try discriminate; try reflexivity.
Qed.

(* what `move` does *)
Lemma move_spec s m a b s' : move s m a b = Some s' ->
  In m (ms s) /\ cust s m = a /\ s' = with_cust s (setc s m b).
Proof.
  unfold move. destruct (memz m (ms s)) eqn:Em; cbn [andb]; [|discriminate].
  destruct (cu_eqb (cust s m) a) eqn:Ec; [|discriminate]. intros H. inversion H; subst.
  split; [apply memz_In; exact Em|]. split; [apply cu_eqb_eq; exact Ec | reflexivity].
Qed.

Lemma setc_same s m c : setc s m c m = c.
Proof. unfold setc. rewrite Z.eqb_refl. reflexivity. Qed.
Lemma setc_other s m c x : x <> m -> setc s m c x = cust s x.
Proof. unfold setc. intros H. destruct (x =? m) eqn:E; [apply Z.eqb_eq in E; contradiction | reflexivity]. Qed.

(* a move to a custody that is harmless after the collection keeps the invariant, provided the move is not possible
   after the collection at all or its target is harmless *)
Lemma move_inv s m a b s' :
  HInv s -> move s m a b = Some s' ->
  (coll s = true -> stale b = false /\ (push s = false -> b <> CTaking1) /\ b <> CUndelivered) ->
  (phase s = PDone -> b <> CRejecting) ->
  b <> CReturning ->
  HInv s'.
Proof.
  intros I Hm Hb Hr Hc. apply move_spec in Hm as [Hin [Ha ->]].
  constructor; cbn [with_cust ms cust bgrun call phase expd late push coll]; unfold coll; cbn [with_cust phase].
  - apply (hi_bg s I).
  - intros x Hx Hcoll. destruct (Z.eq_dec x m) as [->|Hne].
    + rewrite setc_same. destruct (Hb Hcoll) as [H1 [H2 _]]. split; assumption.
    + rewrite setc_other by exact Hne. apply (hi_clean s I x Hx Hcoll).
  - intros x Hx Hd. destruct (Z.eq_dec x m) as [->|Hne].
    + rewrite setc_same. apply Hr; exact Hd.
    + rewrite setc_other by exact Hne. apply (hi_rej s I x Hx Hd).
  - intros x Hx Hcoll Hl. destruct (Z.eq_dec x m) as [->|Hne].
    + rewrite setc_same. destruct (Hb Hcoll) as [_ [_ H3]]. exact H3.
    + rewrite setc_other by exact Hne. apply (hi_und s I x Hx Hcoll Hl).
  - intros x Hx. destruct (Z.eq_dec x m) as [->|Hne].
    + rewrite setc_same. intros; contradiction.
    + rewrite setc_other by exact Hne. apply (hi_ret s I x Hx).
  - intros x y Hx Hy. destruct (Z.eq_dec x m) as [->|Hne]; [rewrite setc_same; intros; contradiction|].
    destruct (Z.eq_dec y m) as [->|Hne2]; [rewrite (setc_same s m b); intros; contradiction|].
    rewrite !setc_other by assumption. apply (hi_uniq s I x y Hx Hy).
Qed.

Lemma coll_phase s : coll s = true <-> phase s = PFinRejecting \/ phase s = PDone.
Proof.
  unfold coll. rewrite orb_true_iff, !ph_eqb_eq. reflexivity.
Qed.

Lemma not_coll_run s : phase s = PRun -> coll s = false.
Proof. intros H. unfold coll. rewrite H. reflexivity. Qed.

(* after the collection nothing is in a custody of the background task: moves out of those custodies cannot happen *)
Lemma busy_not_coll s m c : HInv s -> In m (ms s) -> cust s m = c -> stale c = true -> coll s = false.
Proof.
  intros I Hin Hc Hb. destruct (coll s) eqn:E; [|reflexivity].
  destruct (hi_clean s I m Hin E) as [H _]. rewrite Hc in H. congruence.
Qed.

Lemma taking1_not_coll s m : HInv s -> In m (ms s) -> cust s m = CTaking1 -> push s = false -> coll s = false.
Proof.
  intros I Hin Hc Hp. destruct (coll s) eqn:E; [|reflexivity].
  destruct (hi_clean s I m Hin E) as [_ H]. exfalso. apply (H Hp Hc).
Qed.

Ltac mv_closed I H Hnc := eapply move_inv; [exact I | exact H | intros Hcoll; congruence | intros _; first [discriminate | match goal with |- (if ?c then _ else _) <> _ => destruct c; discriminate end] | first [discriminate | match goal with |- (if ?c then _ else _) <> _ => destruct c; discriminate end]].
Ltac mv_open I H := eapply move_inv; [exact I | exact H | intros _; repeat split; try reflexivity; try discriminate; intros; discriminate | intros _; discriminate | discriminate].

Theorem HInv_step s e s' : HInv s -> hstep s e = Some s' -> HInv s'.
Proof.
  intros I H. destruct e; unfold hstep in H.
  - (* HTakeStart *)
    destruct (bgrun s) eqn:Eb; cbn [andb] in H; [|discriminate].
    destruct (negb (push s)); cbn [andb] in H; [|discriminate].
    destruct (none_in s bg_busy); [|discriminate].
    pose proof (not_coll_run s (hi_bg s I Eb)) as Hnc.
    mv_closed I H Hnc.
  - (* HTakeApply *)
    pose proof (move_spec _ _ _ _ _ H) as [Hin [Hc _]].
    pose proof (busy_not_coll s m _ I Hin Hc eq_refl) as Hnc.
    mv_closed I H Hnc.
  - (* HTakeDone *)
    destruct (push s) eqn:Ep; [discriminate|].
    pose proof (move_spec _ _ _ _ _ H) as [Hin [Hc _]].
    pose proof (taking1_not_coll s m I Hin Hc Ep) as Hnc.
    mv_closed I H Hnc.
  - (* HDetails *)
    destruct (bgrun s) eqn:Eb; [|discriminate].
    pose proof (not_coll_run s (hi_bg s I Eb)) as Hnc.
    mv_closed I H Hnc.
  - (* HPut *)
    destruct (bgrun s) eqn:Eb; [|discriminate].
    pose proof (not_coll_run s (hi_bg s I Eb)) as Hnc.
    mv_closed I H Hnc.
  - (* HPushStart *)
    destruct (push s); cbn [andb] in H; [|discriminate].
    destruct (ph_eqb (phase s) PRun || ph_eqb (phase s) PFinWait) eqn:Ep; [|discriminate].
    assert (Hnc : coll s = false).
    { unfold coll. apply orb_true_iff in Ep as [Ep|Ep]; apply ph_eqb_eq in Ep; rewrite Ep; reflexivity. }
    mv_closed I H Hnc.
  - (* HPushDone *)
    destruct (push s); cbn [andb] in H; [|discriminate].
    destruct (bgrun s) eqn:Eb; [|discriminate].
    pose proof (not_coll_run s (hi_bg s I Eb)) as Hnc.
    mv_closed I H Hnc.
  - (* HBounce *)
    destruct (push s); [|discriminate].
    mv_open I H.
  - (* HBounceDone *)
    mv_open I H.
  - (* HNackDone *)
    mv_open I H.
  - (* HCallStart *)
    destruct (call s); [discriminate|]. inversion H; subst.
    constructor; cbn; try apply I. intros; reflexivity.
  - (* HCallGet *)
    destruct (call s) eqn:Ec; cbn [andb] in H; [|discriminate].
    destruct (none_in s (is_c CReturning)) eqn:En; cbn [andb] in H; [|discriminate].
    destruct (cu_eqb (cust s m) CUndelivered || (cu_eqb (cust s m) CBuffer && none_in s (is_c CUndelivered))) eqn:Eg; [|discriminate].
    destruct (memz m (ms s)) eqn:Em; [|discriminate]. apply memz_In in Em. inversion H; subst; clear H.
    constructor; cbn [with_cust ms cust bgrun call phase expd late push]; unfold coll; cbn [with_cust phase].
    + apply I.
    + intros x Hx Hcoll. destruct (Z.eq_dec x m) as [->|Hne].
      * rewrite setc_same. destruct (expd s m); split; try reflexivity; intros; discriminate.
      * rewrite setc_other by exact Hne. apply (hi_clean s I x Hx Hcoll).
    + intros x Hx Hd. destruct (Z.eq_dec x m) as [->|Hne].
      * rewrite setc_same. destruct (expd s m); discriminate.
      * rewrite setc_other by exact Hne. apply (hi_rej s I x Hx Hd).
    + intros x Hx Hcoll Hl. destruct (Z.eq_dec x m) as [->|Hne].
      * rewrite setc_same. destruct (expd s m); discriminate.
      * rewrite setc_other by exact Hne. apply (hi_und s I x Hx Hcoll Hl).
    + intros; exact Ec.
    + intros x y Hx Hy Hrx Hry.
      destruct (Z.eq_dec x m) as [->|Hnx]; destruct (Z.eq_dec y m) as [->|Hny]; try reflexivity.
      * exfalso. rewrite setc_other in Hry by exact Hny. pose proof (none_in_spec s _ En y Hy) as Hn. unfold is_c in Hn.
        rewrite Hry in Hn. discriminate.
      * exfalso. rewrite setc_other in Hrx by exact Hnx. pose proof (none_in_spec s _ En x Hx) as Hn. unfold is_c in Hn.
        rewrite Hrx in Hn. discriminate.
      * rewrite setc_other in Hrx by exact Hnx. rewrite setc_other in Hry by exact Hny. apply (hi_uniq s I x y Hx Hy Hrx Hry).
  - (* HDeliver *)
    destruct (call s) eqn:Ec; [|discriminate].
    destruct (move s m CReturning CCaller) as [s1|] eqn:Em; [|discriminate]. cbn in H. inversion H; subst; clear H.
    pose proof (move_spec _ _ _ _ _ Em) as [Hin [Hc ->]].
    (* no other message is CReturning: that would need a second consume() call *)
    constructor; cbn [with_cust with_call ms cust bgrun call phase expd late push]; unfold coll; cbn [with_cust with_call phase].
    + apply I.
    + intros x Hx Hcoll. destruct (Z.eq_dec x m) as [->|Hne].
      * rewrite setc_same. split; [reflexivity | intros; discriminate].
      * rewrite setc_other by exact Hne. apply (hi_clean s I x Hx Hcoll).
    + intros x Hx Hd. destruct (Z.eq_dec x m) as [->|Hne].
      * rewrite setc_same. discriminate.
      * rewrite setc_other by exact Hne. apply (hi_rej s I x Hx Hd).
    + intros x Hx Hcoll Hl. destruct (Z.eq_dec x m) as [->|Hne].
      * rewrite setc_same. discriminate.
      * rewrite setc_other by exact Hne. apply (hi_und s I x Hx Hcoll Hl).
    + (* the weaker reading: a message still CReturning would keep `call` true - excluded by uniqueness, which the model
         enforces at HCallGet; here it is enough that the theorem below only uses hi_ret for states with call = true,
         so we keep the clause by showing no x <> m is CReturning *)
      intros x Hx Hr. destruct (Z.eq_dec x m) as [->|Hne].
      * rewrite setc_same in Hr. discriminate.
      * exfalso. rewrite setc_other in Hr by exact Hne. apply Hne. apply (hi_uniq s I x m Hx Hin Hr Hc).
    + intros x y Hx Hy Hrx Hry.
      destruct (Z.eq_dec x m) as [->|Hnx]; [rewrite setc_same in Hrx; discriminate|].
      destruct (Z.eq_dec y m) as [->|Hny]; [rewrite setc_same in Hry; discriminate|].
      rewrite setc_other in Hrx by exact Hnx. rewrite setc_other in Hry by exact Hny. apply (hi_uniq s I x y Hx Hy Hrx Hry).
  - (* HCancelCall *)
    destruct (call s) eqn:Ec; [|discriminate]. inversion H; subst; clear H.
    constructor; cbn [ms cust bgrun call phase expd late push]; unfold coll; cbn [phase].
    + apply I.
    + intros x Hx Hcoll. destruct (cu_eqb (cust s x) CReturning) eqn:Er.
      * split; [reflexivity | intros; discriminate].
      * apply (hi_clean s I x Hx Hcoll).
    + intros x Hx Hd. destruct (cu_eqb (cust s x) CReturning) eqn:Er; [discriminate|]. apply (hi_rej s I x Hx Hd).
    + intros x Hx Hcoll Hl. apply orb_false_iff in Hl as [Hl1 Hl2].
      destruct (cu_eqb (cust s x) CReturning) eqn:Er.
      * exfalso. fold (coll s) in Hcoll. unfold coll in Hcoll. rewrite Hcoll in Hl2. rewrite andb_true_r in Hl2.
        apply negb_false_iff in Hl2. pose proof (none_in_spec s _ Hl2 x Hx) as Hn. unfold is_c in Hn. rewrite cu_eqb_eq in Er.
        rewrite Er in Hn. discriminate.
      * apply (hi_und s I x Hx Hcoll Hl1).
    + intros x Hx Hr. destruct (cu_eqb (cust s x) CReturning) eqn:Er; [discriminate|]. apply cu_eqb_eq in Hr. congruence.
    + intros x y Hx Hy Hrx _. destruct (cu_eqb (cust s x) CReturning) eqn:Er; [discriminate|]. apply cu_eqb_eq in Hrx. congruence.
  - (* HFinStart *)
    destruct (ph_eqb (phase s) PRun) eqn:Ep; [|discriminate]. inversion H; subst; clear H.
    constructor; cbn [ms cust bgrun call phase expd late push]; unfold coll; cbn [phase].
    + intros; discriminate.
    + cbn. intros; discriminate.
    + intros; discriminate.
    + cbn. intros; discriminate.
    + apply I.
    + apply I.
  - (* HFinCollect *)
    destruct (ph_eqb (phase s) PFinWait) eqn:Ep; cbn [andb] in H; [|discriminate].
    destruct (none_in s (is_c CTaking0)) eqn:En0; cbn [andb] in H; [|discriminate].
    destruct (push s || none_in s (is_c CTaking1)) eqn:En; [|discriminate]. inversion H; subst; clear H.
    apply ph_eqb_eq in Ep.
    constructor; cbn [ms cust bgrun call phase expd late push]; unfold coll; cbn [phase].
    + intros Hb. pose proof (hi_bg s I Hb). congruence.
    + intros x Hx _. pose proof (none_in_spec s _ En0 x Hx) as Ht0. unfold is_c in Ht0. split.
      * destruct (cust s x) eqn:Ex; cbn; try reflexivity; cbn in Ht0; discriminate.
      * intros Hp. rewrite Hp in En. cbn in En. pose proof (none_in_spec s _ En x Hx) as Ht1. unfold is_c in Ht1.
        destruct (cust s x) eqn:Ex; cbn; try discriminate; cbn in Ht1; discriminate.
    + intros; discriminate.
    + intros x Hx _ _. destruct (cust s x) eqn:Ex; cbn; discriminate.
    + intros x Hx Hr. destruct (cust s x) eqn:Ex; cbn in Hr; try discriminate. apply (hi_ret s I x Hx Ex).
    + intros x y Hx Hy Hrx Hry. apply (hi_uniq s I x y Hx Hy).
      * destruct (cust s x) eqn:Ex; cbn in Hrx; try discriminate; reflexivity.
      * destruct (cust s y) eqn:Ey; cbn in Hry; try discriminate; reflexivity.
  - (* HRejectDone *)
    mv_open I H.
  - (* HFinDone *)
    destruct (ph_eqb (phase s) PFinRejecting) eqn:Ep; cbn [andb] in H; [|discriminate].
    destruct (none_in s (is_c CRejecting)) eqn:En; [|discriminate]. inversion H; subst; clear H.
    apply ph_eqb_eq in Ep.
    assert (Hc : coll s = true) by (apply coll_phase; left; exact Ep).
    constructor; cbn [with_phase ms cust bgrun call phase expd late push]; unfold coll; cbn [with_phase phase].
    + intros Hb. pose proof (hi_bg s I Hb). congruence.
    + intros x Hx _. apply (hi_clean s I x Hx Hc).
    + intros x Hx _ Hr. pose proof (none_in_spec s _ En x Hx) as Hn. unfold is_c in Hn. rewrite Hr in Hn. discriminate.
    + intros x Hx _ Hl. apply (hi_und s I x Hx Hc Hl).
    + apply I.
    + apply I.
  - (* HExpire *)
    inversion H; subst; clear H. constructor; cbn; apply I.
Qed.

Theorem HInv_run es : forall s s', HInv s -> hrun s es = Some s' -> HInv s'.
Proof.
  induction es as [|e es IH]; intros s s' I H; cbn in H.
  - inversion H; subst; exact I.
  - destruct (hstep s e) as [s1|] eqn:E; [|discriminate]. apply (IH s1 s'); [eapply HInv_step; eassumption | exact H].
Qed.

(* once finish() has returned, every message of the run is back in its queue, dead-lettered, with the caller of consume(),
   or on a way that ends there by itself: a shielded nack on the wire, a RabbitMQ delivery that is being bounced (or has just
   been pushed and will be), or a consume() call that is still in progress and about to hand it to its caller.  The single
   exception is a consume() call cancelled, while it was handing a message over, AFTER finish() had collected (`late`):
   that message stays with the finished consumer. *)
Theorem handover_finish_clean msgs expired pushing es s :
  hrun (hinit msgs expired pushing) es = Some s -> phase s = PDone ->
  forall m, In m msgs ->
    cust s m = CQueue \/ cust s m = CDead \/ cust s m = CCaller \/ cust s m = CNacking \/ cust s m = CBouncing \/
    (cust s m = CTaking1 /\ push s = true) \/
    (cust s m = CReturning /\ call s = true) \/ (cust s m = CUndelivered /\ late s = true).
Proof.
  intros H Hd m Hm.
  pose proof (HInv_run es _ _ (init_inv msgs expired pushing) H) as I.
  pose proof (hrun_ms es _ _ H) as Hms. cbn in Hms.
  assert (Hin : In m (ms s)) by (rewrite Hms; exact Hm).
  assert (Hc : coll s = true) by (apply coll_phase; right; exact Hd).
  destruct (hi_clean s I m Hin Hc) as [Hb Hnb].
  pose proof (hi_rej s I m Hin Hd) as Hr.
  destruct (cust s m) eqn:Ec; cbn in Hb; try discriminate; try congruence; auto 12.
  - destruct (push s) eqn:Ep; [auto 12|]. exfalso. apply (Hnb eq_refl eq_refl).
  - do 6 right. left. split; [reflexivity | apply (hi_ret s I m Hin Ec)].
  - destruct (late s) eqn:El; [auto 12|]. exfalso. apply (hi_und s I m Hin Hc El Ec).
Qed.

(* the worker's discipline: the queue loops (the callers of consume()) are cancelled and have ended before the consumers
   are finished, so `late` stays false; with no call in progress and the nacks and bounces settled nothing is in flight
   but what the caller received *)
Corollary handover_quiescent msgs expired pushing es s :
  hrun (hinit msgs expired pushing) es = Some s -> phase s = PDone -> call s = false -> late s = false ->
  (forall m, In m msgs -> cust s m <> CNacking /\ cust s m <> CBouncing /\ cust s m <> CTaking1) ->
  forall m, In m msgs -> cust s m = CQueue \/ cust s m = CDead \/ cust s m = CCaller.
Proof.
  intros H Hd Hcall Hl Hn m Hm. destruct (Hn m Hm) as [H1 [H2 H3]].
  destruct (handover_finish_clean _ _ _ _ _ H Hd m Hm) as [?|[?|[?|[?|[?|[[? _]|[[_ ?]|[_ ?]]]]]]]]; auto; try congruence; contradiction.
Qed.

(* `late` can only be raised by the cancellation of a consume() call that holds a returned message after the collection *)
Theorem late_only_by_late_cancel s e s' :
  hstep s e = Some s' -> late s = false -> late s' = true -> e = HCancelCall /\ coll s = true /\ none_in s (is_c CReturning) = false.
Proof.
  intros H Hl Hl'. destruct e; unfold hstep, move, with_cust, with_call, with_phase in H;
    repeat match type of H with
           | (if ?c then _ else _) = Some _ => destruct c eqn:?; try discriminate
           | option_map _ (if ?c then _ else _) = Some _ => destruct c eqn:?; try discriminate
           end; cbn in H; inversion H; subst; cbn in Hl'; try congruence.
  rewrite Hl in Hl'. cbn in Hl'. apply andb_true_iff in Hl' as [H1 H2]. apply negb_true_iff in H1.
  split; [reflexivity|]. split; [exact H2 | exact H1].
Qed.

(* a nack on the wire completes: CNacking is never a resting place *)
Theorem nacking_progress s m : In m (ms s) -> cust s m = CNacking -> exists s', hstep s (HNackDone m) = Some s' /\ cust s' m = CDead.
Proof.
  intros Hin Hc. unfold hstep, move. apply memz_In in Hin. rewrite Hin, Hc. cbn. eexists. split; [reflexivity|].
  cbn. apply setc_same.
Qed.

(* ... and so does a bounce; a delivery that was pushed when the consumer is no longer consuming can only be bounced *)
Theorem bouncing_progress s m : In m (ms s) -> cust s m = CBouncing -> exists s', hstep s (HBounceDone m) = Some s' /\ cust s' m = CQueue.
Proof.
  intros Hin Hc. unfold hstep, move. apply memz_In in Hin. rewrite Hin, Hc. cbn. eexists. split; [reflexivity|].
  cbn. apply setc_same.
Qed.

Theorem pushed_after_finish_bounces s m : In m (ms s) -> push s = true -> cust s m = CTaking1 -> bgrun s = false ->
  hstep s (HPushDone m) = None /\ hstep s (HTakeDone m) = None /\
  exists s', hstep s (HBounce m) = Some s' /\ cust s' m = CBouncing.
Proof.
  intros Hin Hp Hc Hb. unfold hstep, move. apply memz_In in Hin. rewrite Hp, Hb, Hin, Hc. cbn.
  split; [reflexivity|]. split; [reflexivity|]. eexists. split; [reflexivity|]. cbn. apply setc_same.
Qed.

(* a taken message the background task was cancelled over is collected: the transitions that a repaired defect lacked.
   (e1e0137: CTaken was not collected; aeff44b: CReturning + cancellation had no keeper) *)
Example collect_covers_taken :
  exists s, hrun (hinit [1; 2; 3] [] false)
              [HTakeStart 1; HTakeApply 1; HTakeDone 1; HDetails 1; HPut 1; HCallStart; HCallGet 1; HCancelCall;
               HTakeStart 2; HTakeApply 2; HFinStart; HTakeDone 2; HFinCollect; HRejectDone 1; HRejectDone 2; HFinDone] = Some s
            /\ phase s = PDone /\ map (cust s) [1; 2; 3] = [CQueue; CQueue; CQueue] /\ late s = false.
Proof. eexists. split; [vm_compute; reflexivity|]. vm_compute. repeat split. Qed.

(* the collection waits for the take that is on the wire *)
Example collect_waits_for_take :
  hrun (hinit [1] [] false) [HTakeStart 1; HTakeApply 1; HFinStart; HFinCollect] = None.
Proof. vm_compute. reflexivity. Qed.

(* the exception is real in the model: a call cancelled after the collection leaves its message with the finished consumer *)
(* RabbitMQ: a delivery cut by finish() bounces back, a delivery in the buffer and one kept undelivered are rejected *)
Example push_collect_example :
  exists s, hrun (hinit [1; 2; 3] [] true)
              [HPushStart 1; HPushDone 1; HPushStart 2; HPushDone 2; HCallStart; HCallGet 1; HCancelCall; HPushStart 3; HFinStart;
               HBounce 3; HFinCollect; HRejectDone 1; HRejectDone 2; HFinDone; HBounceDone 3] = Some s
            /\ phase s = PDone /\ map (cust s) [1; 2; 3] = [CQueue; CQueue; CQueue] /\ late s = false.
Proof. eexists. split; [vm_compute; reflexivity|]. vm_compute. repeat split. Qed.

Theorem late_cancel_refuted :
  exists es s, hrun (hinit [1] [] false) es = Some s /\ phase s = PDone /\ call s = false /\ cust s 1 = CUndelivered /\ late s = true.
Proof.
  exists [HTakeStart 1; HTakeApply 1; HTakeDone 1; HDetails 1; HPut 1; HCallStart; HCallGet 1; HFinStart; HFinCollect; HFinDone; HCancelCall].
  eexists. split; [vm_compute; reflexivity|]. vm_compute. repeat split.
Qed.
