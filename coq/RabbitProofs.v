From Coq Require Import ZifyBool.
From Repid Require Import Base Sched AmqpSrv RabbitBroker.

(* ================= counting: where a message id is ================= *)
Definition ind (b : bool) : Z := if b then 1 else 0.
Definition cntm (i : Z) (l : list amsg) : Z := Z.of_nat (length (filter (fun m => a_id m =? i) l)).
Fixpoint cntq (i : Z) (qs : list (qkey * list amsg)) : Z :=
  match qs with [] => 0 | kv :: r => cntm i (snd kv) + cntq i r end.
Definition cntu (i : Z) (us : list unack) : Z := cntm i (map u_msg us).
(* number of places (ready in some queue, or delivered and unacknowledged) the id is in *)
Definition occ (i : Z) (s : srv) : Z := cntq i (queues s) + cntu i (unacked s).

Lemma cntm_nil i : cntm i [] = 0.  Proof. reflexivity. Qed.
Lemma cntm_cons i m l : cntm i (m :: l) = ind (a_id m =? i) + cntm i l.
Proof. unfold cntm. cbn [filter]. destruct (a_id m =? i); cbn [ind length]; [rewrite Nat2Z.inj_succ|]; lia. Qed.
Lemma cntm_app i a b : cntm i (a ++ b) = cntm i a + cntm i b.
Proof. unfold cntm. rewrite filter_app, app_length. lia. Qed.
Lemma cntm_nonneg i l : 0 <= cntm i l.  Proof. unfold cntm. lia. Qed.

Lemma cntm_enq i m l : cntm i (enq m l) = cntm i l + ind (a_id m =? i).
Proof. induction l as [|x r IH]; cbn [enq]; [rewrite !cntm_cons, cntm_nil; lia|]. destruct (a_prio x <? a_prio m); rewrite !cntm_cons; lia. Qed.
Lemma cntm_enq_front i m l : cntm i (enq_front m l) = cntm i l + ind (a_id m =? i).
Proof. induction l as [|x r IH]; cbn [enq_front]; [rewrite !cntm_cons, cntm_nil; lia|]. destruct (a_prio x <=? a_prio m); rewrite !cntm_cons; lia. Qed.

Lemma cntq_nonneg i qs : 0 <= cntq i qs.
Proof. induction qs as [|kv r IH]; cbn [cntq]; [lia|]. pose proof (cntm_nonneg i (snd kv)). lia. Qed.

Lemma qkey_eqb_refl k : qkey_eqb k k = true.
Proof. unfold qkey_eqb. rewrite Z.eqb_refl. destruct (qkd k); reflexivity. Qed.

Lemma cntq_qset i k l qs :
  cntq i (qset k l qs) = cntq i qs - cntm i (match qget k qs with Some x => x | None => [] end) + cntm i l.
Proof.
  induction qs as [|[k' v] r IH]; cbn [qset qget cntq snd]; [rewrite cntm_nil; lia|].
  destruct (qkey_eqb k k'); cbn [cntq snd]; [lia|]. rewrite IH. lia.
Qed.

Lemma occ_set_ready i s k l : occ i (set_ready s k l) = occ i s - cntm i (ready s k) + cntm i l.
Proof. unfold occ, set_ready, ready. cbn [queues unacked]. rewrite cntq_qset. lia. Qed.

Lemma qkey_eqb_eq a b : qkey_eqb a b = true <-> a = b.
Proof.
  unfold qkey_eqb. destruct a as [qa ka], b as [qb kb]. cbn. split.
  - intros H. destruct ka, kb; cbn in H; try lia; f_equal; lia.
  - intros H. inversion H; subst. rewrite Z.eqb_refl. destruct kb; reflexivity.
Qed.

Lemma qget_qset k' k l qs : qget k' (qset k l qs) = if qkey_eqb k' k then Some l else qget k' qs.
Proof.
  induction qs as [|[k0 v] r IH]; cbn [qset qget].
  - destruct (qkey_eqb k' k); reflexivity.
  - destruct (qkey_eqb k k0) eqn:E; cbn [qget].
    + apply qkey_eqb_eq in E. subst k0. destruct (qkey_eqb k' k); reflexivity.
    + destruct (qkey_eqb k' k0) eqn:E2.
      * destruct (qkey_eqb k' k) eqn:E3; [|reflexivity].
        apply qkey_eqb_eq in E2, E3. subst. rewrite qkey_eqb_refl in E. discriminate.
      * exact IH.
Qed.

Lemma ready_set_ready s k l : ready (set_ready s k l) k = l.
Proof. unfold ready, set_ready. cbn [queues]. rewrite qget_qset, qkey_eqb_refl. reflexivity. Qed.

Lemma ready_set_ready_other s k l k' : qkey_eqb k' k = false -> ready (set_ready s k l) k' = ready s k'.
Proof. intros H. unfold ready, set_ready. cbn [queues]. rewrite qget_qset, H. reflexivity. Qed.

Lemma occ_route i s k m : occ i (route s k m) = occ i s + (if declared s k then ind (a_id m =? i) else 0).
Proof. unfold route. destruct (declared s k); [|lia]. rewrite occ_set_ready, cntm_enq. lia. Qed.

(* every declared queue's dead-letter target is declared: what repid's queue_declare establishes (it declares <q>:dead
   first, then <q>, then <q>:delayed) and every later method keeps *)
Definition Closed (s : srv) : Prop :=
  forall k, declared s k = true -> match dl_target k with Some t => declared s t = true | None => True end.

Lemma declared_set_ready s k l k' : declared (set_ready s k l) k' = declared s k' || qkey_eqb k' k.
Proof.
  unfold declared, set_ready. cbn [queues]. rewrite qget_qset.
  destruct (qkey_eqb k' k); [destruct (qget k' (queues s)); reflexivity | rewrite orb_false_r; reflexivity].
Qed.

Lemma declared_route s k m k' : declared (route s k m) k' = declared s k'.
Proof.
  unfold route. destruct (declared s k) eqn:E; [|reflexivity]. rewrite declared_set_ready.
  destruct (qkey_eqb k' k) eqn:E2; [|apply orb_false_r].
  apply qkey_eqb_eq in E2. subst. rewrite E. reflexivity.
Qed.

(* a dead-lettered message moves; it is dropped only from a queue without a dead-letter target (<q>:dead) *)
Lemma occ_dead_letter i s from m :
  Closed s -> declared s from = true ->
  occ i (dead_letter s from m) = occ i s + (match dl_target from with Some _ => ind (a_id m =? i) | None => 0 end).
Proof.
  intros HC Hd. unfold dead_letter. specialize (HC from Hd). destruct (dl_target from) as [t|]; [|lia].
  rewrite occ_route, HC. reflexivity.
Qed.

Lemma take_tag_cntu i t l u r : take_tag t l = Some (u, r) -> cntu i l = ind (a_id (u_msg u) =? i) + cntu i r.
Proof.
  revert u r. induction l as [|x l IH]; cbn [take_tag]; intros u r H; [discriminate|].
  destruct (u_tag x =? t).
  - inversion H; subst. unfold cntu. cbn [map]. apply cntm_cons.
  - destruct (take_tag t l) as [[y r']|]; [|discriminate]. inversion H; subst. unfold cntu in *. cbn [map].
    rewrite !cntm_cons, (IH _ _ eq_refl). lia.
Qed.

Lemma take_tag_in t l u r : take_tag t l = Some (u, r) -> In u l /\ u_tag u = t.
Proof.
  revert u r. induction l as [|x l IH]; cbn [take_tag]; intros u r H; [discriminate|].
  destruct (u_tag x =? t) eqn:E.
  - inversion H; subst. split; [left; reflexivity | lia].
  - destruct (take_tag t l) as [[y r']|]; [|discriminate]. inversion H; subst. destruct (IH _ _ eq_refl). split; [right|]; assumption.
Qed.

(* unacknowledged deliveries come from declared queues *)
Definition UnackedOk (s : srv) : Prop := Forall (fun u => declared s (u_q u) = true) (unacked s).

(* the change of the number of places of id i caused by one method *)
Definition delta (s : srv) (m : meth) (i : Z) : Z :=
  match m with
  | Publish k id _ _ _ _ _ _ => if declared s k then ind (id =? i) else 0
  | Ack t => match take_tag t (unacked s) with Some (u, _) => - ind (a_id (u_msg u) =? i) | None => 0 end
  | Nack t => match take_tag t (unacked s) with
              | Some (u, _) => match dl_target (u_q u) with Some _ => 0 | None => - ind (a_id (u_msg u) =? i) end
              | None => 0
              end
  | Purge k => if declared s k then - cntm i (ready s k) else 0      (* queue_flush: the only method that discards *)
  | _ => 0
  end.

Theorem occ_exec s now m i :
  Closed s -> UnackedOk s -> occ i (fst (exec s now m)) = occ i s + delta s m i.
Proof.
  intros HC HU. destruct m as [k id prio topic hq payload pcode ex | t | t | t | n | k | ct | k | k]; cbn [exec delta].
  - destruct (declared s k) eqn:E; cbn [fst]; [|lia]. rewrite occ_route, E. cbn [a_id]. reflexivity.
  - destruct (take_tag t (unacked s)) as [[u r]|] eqn:E; cbn [fst]; [|lia].
    unfold occ, set_unacked. cbn [queues unacked]. rewrite (take_tag_cntu i _ _ _ _ E). lia.
  - destruct (take_tag t (unacked s)) as [[u r]|] eqn:E; cbn [fst]; [|lia].
    destruct (take_tag_in _ _ _ _ E) as [Hin _]. unfold UnackedOk in HU. rewrite Forall_forall in HU. specialize (HU _ Hin).
    rewrite occ_dead_letter; [| exact HC | exact HU].
    unfold occ, set_unacked. cbn [queues unacked]. rewrite (take_tag_cntu i _ _ _ _ E). destruct (dl_target (u_q u)); lia.
  - destruct (take_tag t (unacked s)) as [[u r]|] eqn:E; cbn [fst]; [|lia].
    rewrite occ_set_ready, cntm_enq_front. cbn [a_id with_redel].
    unfold occ, set_unacked, ready. cbn [queues unacked]. rewrite (take_tag_cntu i _ _ _ _ E). lia.
  - unfold occ. cbn [fst queues unacked]. lia.
  - unfold occ. cbn [fst queues unacked]. lia.
  - unfold occ. cbn [fst queues unacked]. lia.
  - unfold occ. cbn [fst queues unacked]. destruct (qget k (queues s)) eqn:E; [lia|].
    rewrite cntq_qset, E, !cntm_nil. lia.
  - destruct (declared s k) eqn:E; cbn [fst]; [|lia]. rewrite occ_set_ready, cntm_nil. lia.
Qed.

(* ---- the invariants are kept by every method and by the server's own steps ---- *)
Lemma Closed_route s k m : Closed s -> Closed (route s k m).
Proof. intros HC k' Hd. rewrite declared_route in Hd. specialize (HC k' Hd). destruct (dl_target k'); [rewrite declared_route|]; auto. Qed.

Lemma Closed_dead_letter s from m : Closed s -> Closed (dead_letter s from m).
Proof. intros HC. unfold dead_letter. destruct (dl_target from); [apply Closed_route|]; exact HC. Qed.

Lemma Closed_set_ready s k l : Closed s -> declared s k = true -> Closed (set_ready s k l).
Proof.
  intros HC Hk k' Hd. rewrite declared_set_ready in Hd.
  assert (Hd' : declared s k' = true).
  { destruct (declared s k') eqn:E; [reflexivity|]. cbn in Hd. apply qkey_eqb_eq in Hd. subst. congruence. }
  specialize (HC k' Hd'). destruct (dl_target k'); [rewrite declared_set_ready, HC; reflexivity | exact I].
Qed.

Lemma declared_dead_letter s from m k : declared (dead_letter s from m) k = declared s k.
Proof. unfold dead_letter. destruct (dl_target from); [apply declared_route | reflexivity]. Qed.

Lemma unacked_route s k m : unacked (route s k m) = unacked s.
Proof. unfold route. destruct (declared s k); reflexivity. Qed.
Lemma unacked_dead_letter s from m : unacked (dead_letter s from m) = unacked s.
Proof. unfold dead_letter. destruct (dl_target from); [apply unacked_route | reflexivity]. Qed.

Definition meth_ok (s : srv) (m : meth) : Prop :=
  match m with
  | Declare k => match dl_target k with Some t => declared s t = true | None => True end
  | _ => True
  end.

Lemma UnackedOk_mono (s s' : srv) :
  (forall k, declared s k = true -> declared s' k = true) -> Forall (fun u => declared s (u_q u) = true) (unacked s') ->
  UnackedOk s'.
Proof. intros Hm HF. unfold UnackedOk. eapply Forall_impl; [|exact HF]. cbv beta. auto. Qed.

Lemma take_tag_Forall (Q : unack -> Prop) t l u r : take_tag t l = Some (u, r) -> Forall Q l -> Q u /\ Forall Q r.
Proof.
  revert u r. induction l as [|x l IH]; cbn [take_tag]; intros u r H HF; [discriminate|].
  inversion HF as [|? ? Hx Hl]; subst. destruct (u_tag x =? t).
  - inversion H; subst. auto.
  - destruct (take_tag t l) as [[y r']|]; [|discriminate]. inversion H; subst. destruct (IH _ _ eq_refl Hl). auto.
Qed.

Theorem inv_exec s now m : Closed s -> UnackedOk s -> meth_ok s m ->
  Closed (fst (exec s now m)) /\ UnackedOk (fst (exec s now m)).
Proof.
  intros HC HU Hok. destruct m as [k id prio topic hq payload pcode ex | t | t | t | n | k | ct | k | k]; cbn [exec].
  - destruct (declared s k); cbn [fst]; [|auto]. split; [apply Closed_route; exact HC|].
    apply (UnackedOk_mono s); [intros k' H; rewrite declared_route; exact H | rewrite unacked_route; exact HU].
  - destruct (take_tag t (unacked s)) as [[u r]|] eqn:E; cbn [fst]; [|auto].
    destruct (take_tag_Forall _ _ _ _ _ E HU) as [_ Hr]. split; [exact HC | exact Hr].
  - destruct (take_tag t (unacked s)) as [[u r]|] eqn:E; cbn [fst]; [|auto].
    destruct (take_tag_Forall _ _ _ _ _ E HU) as [_ Hr].
    assert (HC1 : Closed (set_unacked s r)) by exact HC.
    split; [apply Closed_dead_letter; exact HC1|].
    apply (UnackedOk_mono s); [intros k' H; rewrite declared_dead_letter; exact H|].
    rewrite unacked_dead_letter. exact Hr.
  - destruct (take_tag t (unacked s)) as [[u r]|] eqn:E; cbn [fst]; [|auto].
    destruct (take_tag_Forall _ _ _ _ _ E HU) as [Hu Hr]. cbv beta in Hu.
    split; [apply Closed_set_ready; [exact HC | exact Hu]|].
    apply (UnackedOk_mono s); [intros k' H; rewrite declared_set_ready; change (declared (set_unacked s r) k') with (declared s k'); rewrite H; reflexivity | exact Hr].
  - auto.
  - auto.
  - auto.
  - cbn [fst]. destruct (qget k (queues s)) eqn:E; [auto|].
    assert (Hdecl : forall k', declared (mkSrv (qset k [] (queues s)) (unacked s) (consumers s) (qos s) (next_tag s) (next_ctag s)) k'
                               = declared s k' || qkey_eqb k' k).
    { intros k'. apply (declared_set_ready s k [] k'). }
    split.
    + intros k' Hd. rewrite Hdecl in Hd.
      destruct (qkey_eqb k' k) eqn:E2.
      * apply qkey_eqb_eq in E2. subst k'. cbn in Hok. destruct (dl_target k); [rewrite Hdecl, Hok; reflexivity | exact I].
      * rewrite orb_false_r in Hd. specialize (HC k' Hd). destruct (dl_target k'); [rewrite Hdecl, HC; reflexivity | exact I].
    + apply (UnackedOk_mono s); [intros k' H; rewrite Hdecl, H; reflexivity | exact HU].
  - cbn [fst]. destruct (declared s k) eqn:E; [|auto]. split; [apply Closed_set_ready; assumption|].
    apply (UnackedOk_mono s); [intros k' H; rewrite declared_set_ready, H; reflexivity | exact HU].
Qed.

(* ---- the server's own steps ---- *)
Lemma find_expired_spec s now ks k m rest :
  find_expired s now ks = Some (k, m, rest) ->
  ready s k = m :: rest /\ exists e, a_expire m = Some e /\ e <= now.
Proof.
  induction ks as [|k0 r IH]; cbn [find_expired]; [discriminate|].
  destruct (ready s k0) as [|m0 rest0] eqn:E; [exact IH|].
  destruct (a_expire m0) as [e|] eqn:Ee; [|exact IH].
  destruct (e <=? now) eqn:El; [|exact IH].
  intros H. inversion H; subst. split; [exact E|]. exists e. split; [exact Ee | lia].
Qed.

Lemma ready_declared s k m rest : ready s k = m :: rest -> declared s k = true.
Proof. unfold ready, declared. destruct (qget k (queues s)); [reflexivity | discriminate]. Qed.

(* an expiry moves the message to the dead-letter target of its queue (it is dropped only where there is none) *)
Lemma occ_expire_one i s now s' : Closed s -> expire_one s now = Some s' ->
  exists k m, occ i s' = occ i s - (match dl_target k with Some _ => 0 | None => ind (a_id m =? i) end).
Proof.
  intros HC H. unfold expire_one in H. destruct (find_expired s now (map fst (queues s))) as [[[k m] rest]|] eqn:E; [|discriminate].
  inversion H; subst. destruct (find_expired_spec _ _ _ _ _ _ E) as [Hr _]. exists k, m.
  pose proof (ready_declared _ _ _ _ Hr) as Hd.
  rewrite occ_dead_letter; [| apply Closed_set_ready; assumption | rewrite declared_set_ready, Hd; reflexivity].
  rewrite occ_set_ready, Hr, cntm_cons. destruct (dl_target k); lia.
Qed.

Lemma inv_expire_one s now s' : Closed s -> UnackedOk s -> expire_one s now = Some s' -> Closed s' /\ UnackedOk s'.
Proof.
  intros HC HU H. unfold expire_one in H. destruct (find_expired s now (map fst (queues s))) as [[[k m] rest]|] eqn:E; [|discriminate].
  inversion H; subst. destruct (find_expired_spec _ _ _ _ _ _ E) as [Hr _]. pose proof (ready_declared _ _ _ _ Hr) as Hd.
  split; [apply Closed_dead_letter, Closed_set_ready; assumption|].
  apply (UnackedOk_mono s); [intros k' H'; rewrite declared_dead_letter, declared_set_ready, H'; reflexivity|].
  rewrite unacked_dead_letter. exact HU.
Qed.

Lemma pick_consumer_in s cs c r : pick_consumer s cs = Some (c, r) -> In c cs /\ ready s (c_q c) <> [].
Proof.
  revert c r. induction cs as [|x cs IH]; cbn [pick_consumer]; intros c r H; [discriminate|].
  destruct (has_room s x && match ready s (c_q x) with [] => false | _ => true end) eqn:E.
  - inversion H; subst. split; [left; reflexivity|]. destruct (ready s (c_q c)); [rewrite andb_false_r in E; discriminate | discriminate].
  - destruct (pick_consumer s cs) as [[y r']|]; [|discriminate]. inversion H; subst. destruct (IH _ _ eq_refl). split; [right|]; assumption.
Qed.

(* a delivery moves the HEAD of the consumer's queue into the unacknowledged set, under a fresh tag *)
Lemma deliver_one_spec s s' d : deliver_one s = Some (s', d) ->
  exists c rest, ready s (c_q c) = d_msg d :: rest /\ d_ctag d = c_tag c /\ d_tag d = next_tag s /\
    unacked s' = unacked s ++ [mkU (next_tag s) (d_msg d) (c_q c) (c_tag c)] /\
    queues s' = queues (set_ready s (c_q c) rest) /\ next_tag s' = next_tag s + 1.
Proof.
  unfold deliver_one. destruct (pick_consumer s (consumers s)) as [[c others]|]; [|discriminate].
  destruct (ready s (c_q c)) as [|m rest] eqn:E; [discriminate|]. intros H. inversion H; subst. cbn.
  exists c, rest. repeat split; auto.
Qed.

Lemma occ_deliver_one i s s' d : deliver_one s = Some (s', d) -> occ i s' = occ i s.
Proof.
  intros H. destruct (deliver_one_spec _ _ _ H) as (c & rest & Hr & _ & _ & Hu & Hq & _).
  unfold occ. rewrite Hu, Hq. unfold cntu. rewrite map_app, cntm_app. cbn [map u_msg]. rewrite cntm_cons, cntm_nil.
  pose proof (occ_set_ready i s (c_q c) rest) as Ho. unfold occ in Ho. cbn [set_ready unacked] in Ho. rewrite Hr, cntm_cons in Ho.
  unfold cntu in Ho. lia.
Qed.

Lemma inv_deliver_one s s' d : Closed s -> UnackedOk s -> deliver_one s = Some (s', d) -> Closed s' /\ UnackedOk s'.
Proof.
  intros HC HU H. destruct (deliver_one_spec _ _ _ H) as (c & rest & Hr & _ & _ & Hu & Hq & _).
  pose proof (ready_declared _ _ _ _ Hr) as Hd.
  assert (Hdecl : forall k, declared s' k = declared (set_ready s (c_q c) rest) k) by (intros k; unfold declared; rewrite Hq; reflexivity).
  split.
  - intros k Hk. rewrite Hdecl in Hk. pose proof (Closed_set_ready s (c_q c) rest HC Hd k Hk) as H1.
    destruct (dl_target k); [rewrite Hdecl; exact H1 | exact I].
  - unfold UnackedOk. rewrite Hu. apply Forall_app. split.
    + eapply Forall_impl; [|exact HU]. cbv beta. intros u Hu'. rewrite Hdecl, declared_set_ready, Hu'. reflexivity.
    + constructor; [|constructor]. cbn [u_q]. rewrite Hdecl, declared_set_ready, Hd. reflexivity.
Qed.

(* the server running by itself never creates or duplicates a message; it loses one only by expiry in a queue without a
   dead-letter target (repid's <q>:dead, where nothing carries a TTL: dead-lettering strips it) *)
Definition no_ttl_in_dead (s : srv) : Prop :=
  forall q, Forall (fun m => a_expire m = None) (ready s (mkQK q QDead)).

Theorem occ_pump_le fuel : forall s now i, Closed s -> occ i (fst (pump fuel s now)) <= occ i s.
Proof.
  induction fuel as [|f IH]; intros s now i HC; cbn [pump fst]; [lia|].
  destruct (expire_one s now) as [s'|] eqn:E.
  - destruct (occ_expire_one i s now s' HC E) as (k & m & Ho).
    assert (HC' : Closed s').
    { unfold expire_one in E. destruct (find_expired s now (map fst (queues s))) as [[[k0 m0] rest]|] eqn:E2; [|discriminate].
      inversion E; subst. destruct (find_expired_spec _ _ _ _ _ _ E2) as [Hr _].
      apply Closed_dead_letter, Closed_set_ready; [exact HC | eapply ready_declared; eauto]. }
    specialize (IH s' now i HC'). destruct (dl_target k); [lia|]. unfold ind in Ho. destruct (a_id m =? i); lia.
  - destruct (deliver_one s) as [[s' d]|] eqn:D; [|cbn [fst]; lia].
    pose proof (occ_deliver_one i _ _ _ D) as Ho.
    assert (HC' : Closed s').
    { destruct (deliver_one_spec _ _ _ D) as (c & rest & Hr & _ & _ & _ & Hq & _).
      intros k Hk. assert (Hdecl : forall k, declared s' k = declared (set_ready s (c_q c) rest) k) by (intros k0; unfold declared; rewrite Hq; reflexivity).
      rewrite Hdecl in Hk. pose proof (Closed_set_ready s (c_q c) rest HC (ready_declared _ _ _ _ Hr) k Hk) as H1.
      destruct (dl_target k); [rewrite Hdecl; exact H1 | exact I]. }
    specialize (IH s' now i HC'). destruct (pump f s' now) as [s'' ds]. cbn [fst] in *. lia.
Qed.

(* ================= C05: never early ================= *)
Lemma ceil_ms_ge us : us <= ceil_ms us * 1000.
Proof. unfold ceil_ms. pose proof (Z.div_mod (- us) 1000 ltac:(lia)). pose proof (Z.mod_pos_bound (- us) 1000 ltac:(lia)). lia. Qed.

(* a message whose due time d lies ahead is published to the delayed queue with a TTL that runs out at d or later *)
Theorem rabbit_delay_covers_due e now id topic q prio payload pcode d :
  wait_of e pcode now = Some d -> now < d ->
  exists ms, enqueue_meth e now id topic q prio payload pcode = Publish (mkQK q QDelayed) id prio topic q payload pcode (Some ms) /\
             d <= now + ms * 1000.
Proof.
  intros Hw Hlt. unfold enqueue_meth, expiration_of. rewrite Hw.
  pose proof (ceil_ms_ge (d - now)) as Hc.
  destruct (0 <? ceil_ms (d - now)) eqn:E; [|lia].
  eexists. split; [reflexivity | lia].
Qed.

(* ... and the server lets it out of the delayed queue only when that TTL has run out: an expiry at `now` concerns a message
   whose instant of expiry is <= now *)
Theorem rabbit_expiry_not_early s now s' : expire_one s now = Some s' ->
  exists k m rest e, ready s k = m :: rest /\ a_expire m = Some e /\ e <= now.
Proof.
  unfold expire_one. destruct (find_expired s now (map fst (queues s))) as [[[k m] rest]|] eqn:E; [|discriminate].
  intros _. destruct (find_expired_spec _ _ _ _ _ _ E) as (Hr & e & He & Hle). exists k, m, rest, e. auto.
Qed.

(* a message that is not due-delayed is published straight to the normal queue *)
Theorem rabbit_immediate e now id topic q prio payload pcode :
  (wait_of e pcode now = None \/ exists d, wait_of e pcode now = Some d /\ d <= now) ->
  enqueue_meth e now id topic q prio payload pcode = Publish (mkQK q QNormal) id prio topic q payload pcode None.
Proof.
  intros [H|(d & H & Hle)]; unfold enqueue_meth, expiration_of; rewrite H; [reflexivity|].
  assert (ceil_ms (d - now) <= 0).
  { unfold ceil_ms. pose proof (Z.div_mod (- (d - now)) 1000 ltac:(lia)). pose proof (Z.mod_pos_bound (- (d - now)) 1000 ltac:(lia)). lia. }
  destruct (0 <? ceil_ms (d - now)) eqn:E; [lia | reflexivity].
Qed.

(* ================= C14: one holder at a time ================= *)
(* in a state where no id is in two places, a message that is delivered was unacknowledged by nobody *)
Theorem rabbit_exclusive_delivery s s' d :
  (forall i, occ i s <= 1) -> deliver_one s = Some (s', d) -> cntu (a_id (d_msg d)) (unacked s) = 0.
Proof.
  intros Hocc H. destruct (deliver_one_spec _ _ _ H) as (c & rest & Hr & _).
  specialize (Hocc (a_id (d_msg d))). unfold occ in Hocc.
  pose proof (occ_set_ready (a_id (d_msg d)) s (c_q c) rest) as Ho. unfold occ in Ho. cbn [set_ready queues unacked] in Ho.
  rewrite Hr, cntm_cons, Z.eqb_refl in Ho. cbn [ind] in Ho.
  pose proof (cntq_nonneg (a_id (d_msg d)) (qset (c_q c) rest (queues s))).
  pose proof (cntm_nonneg (a_id (d_msg d)) rest).
  pose proof (cntm_nonneg (a_id (d_msg d)) (map u_msg (unacked s))) as Hn. fold (cntu (a_id (d_msg d)) (unacked s)) in Hn. lia.
Qed.

(* delivery tags are never reused *)
Definition TagsBelow (s : srv) : Prop := Forall (fun u => u_tag u < next_tag s) (unacked s).
Theorem rabbit_fresh_tag s s' d : TagsBelow s -> deliver_one s = Some (s', d) ->
  Forall (fun u => u_tag u <> d_tag d) (unacked s) /\ TagsBelow s'.
Proof.
  intros HT H. destruct (deliver_one_spec _ _ _ H) as (c & rest & _ & _ & Htag & Hu & _ & Hn). split.
  - eapply Forall_impl; [|exact HT]. cbv beta. intros u Hu'. lia.
  - unfold TagsBelow. rewrite Hu, Hn. apply Forall_app. split; [eapply Forall_impl; [|exact HT]; cbv beta; intros; lia|].
    constructor; [cbn; lia | constructor].
Qed.

(* ================= C15: first in, first out within a priority ================= *)
Definition same_prio (p : Z) (m : amsg) : bool := a_prio m =? p.
Fixpoint psorted (l : list amsg) : Prop :=
  match l with [] => True | x :: r => Forall (fun y => a_prio y <= a_prio x) r /\ psorted r end.

Lemma enq_in m l y : In y (enq m l) -> y = m \/ In y l.
Proof.
  induction l as [|x r IH]; cbn [enq]; [intros [->|[]]; auto|].
  destruct (a_prio x <? a_prio m); cbn [In]; intros H.
  - destruct H as [->|[->|H]]; auto.
  - destruct H as [->|H]; [auto|]. destruct (IH H); auto.
Qed.
Lemma enq_front_in m l y : In y (enq_front m l) -> y = m \/ In y l.
Proof.
  induction l as [|x r IH]; cbn [enq_front]; [intros [->|[]]; auto|].
  destruct (a_prio x <=? a_prio m); cbn [In]; intros H.
  - destruct H as [->|[->|H]]; auto.
  - destruct H as [->|H]; [auto|]. destruct (IH H); auto.
Qed.

(* queues stay ordered by priority *)
Lemma enq_psorted m l : psorted l -> psorted (enq m l).
Proof.
  induction l as [|x r IH]; cbn [enq psorted]; [auto|]. intros [Hx Hr].
  destruct (a_prio x <? a_prio m) eqn:E; cbn [psorted].
  - split; [|split; assumption]. constructor; [lia|]. eapply Forall_impl; [|exact Hx]. cbv beta. intros; lia.
  - split; [|apply IH; exact Hr]. rewrite Forall_forall in *. intros y Hy. destruct (enq_in _ _ _ Hy) as [->|Hy']; [lia | auto].
Qed.
Lemma enq_front_psorted m l : psorted l -> psorted (enq_front m l).
Proof.
  induction l as [|x r IH]; cbn [enq_front psorted]; [auto|]. intros [Hx Hr].
  destruct (a_prio x <=? a_prio m) eqn:E; cbn [psorted].
  - split; [|split; assumption]. constructor; [lia|]. eapply Forall_impl; [|exact Hx]. cbv beta. intros; lia.
  - split; [|apply IH; exact Hr]. rewrite Forall_forall in *. intros y Hy. destruct (enq_front_in _ _ _ Hy) as [->|Hy']; [lia | auto].
Qed.

Lemma filter_none_below p l : Forall (fun y => a_prio y < p) l -> filter (same_prio p) l = [].
Proof.
  induction l as [|y l IH]; intros HF; [reflexivity|]. inversion HF; subst. cbn [filter]. unfold same_prio at 1.
  destruct (a_prio y =? p) eqn:E; [lia | auto].
Qed.

(* a published message goes behind every waiting message of its priority and leaves the other priorities as they are *)
Theorem enq_fifo m l : psorted l -> filter (same_prio (a_prio m)) (enq m l) = filter (same_prio (a_prio m)) l ++ [m].
Proof.
  induction l as [|x r IH]; cbn [enq filter psorted]; [unfold same_prio; rewrite Z.eqb_refl; reflexivity|]. intros [Hx Hr].
  destruct (a_prio x <? a_prio m) eqn:E.
  - assert (Hl : filter (same_prio (a_prio m)) (x :: r) = []).
    { apply filter_none_below. constructor; [lia|]. eapply Forall_impl; [|exact Hx]. cbv beta. intros; lia. }
    cbn [filter] in *. unfold same_prio at 1. rewrite Z.eqb_refl. rewrite Hl. reflexivity.
  - cbn [filter]. rewrite (IH Hr). destruct (same_prio (a_prio m) x); reflexivity.
Qed.
Theorem enq_other_prio m l p : p <> a_prio m -> filter (same_prio p) (enq m l) = filter (same_prio p) l.
Proof.
  intros Hp. induction l as [|x r IH]; cbn [enq filter].
  - unfold same_prio. destruct (a_prio m =? p) eqn:E; [lia | reflexivity].
  - destruct (a_prio x <? a_prio m); cbn [filter]; [|rewrite IH; reflexivity].
    unfold same_prio at 1. destruct (a_prio m =? p) eqn:E; [lia | reflexivity].
Qed.

(* a returned message (reject, requeue=true) goes in front of every waiting message of its priority *)
Theorem enq_front_first m l : psorted l -> filter (same_prio (a_prio m)) (enq_front m l) = m :: filter (same_prio (a_prio m)) l.
Proof.
  induction l as [|x r IH]; cbn [enq_front filter psorted]; [unfold same_prio; rewrite Z.eqb_refl; reflexivity|]. intros [Hx Hr].
  destruct (a_prio x <=? a_prio m) eqn:E; cbn [filter].
  - unfold same_prio at 1. rewrite Z.eqb_refl. reflexivity.
  - rewrite (IH Hr). assert (Hsx : same_prio (a_prio m) x = false) by (unfold same_prio; lia). rewrite Hsx. reflexivity.
Qed.

(* what is delivered is the head: of the highest priority waiting, and the oldest of that priority *)
Theorem delivered_is_oldest_of_highest s s' d : deliver_one s = Some (s', d) ->
  exists k rest, ready s k = d_msg d :: rest /\
    (psorted (ready s k) -> Forall (fun y => a_prio y <= a_prio (d_msg d)) rest) /\
    filter (same_prio (a_prio (d_msg d))) (ready s k) = d_msg d :: filter (same_prio (a_prio (d_msg d))) rest.
Proof.
  intros H. destruct (deliver_one_spec _ _ _ H) as (c & rest & Hr & _). exists (c_q c), rest. split; [exact Hr|]. split.
  - rewrite Hr. cbn [psorted]. tauto.
  - rewrite Hr. cbn [filter]. unfold same_prio at 1. rewrite Z.eqb_refl. reflexivity.
Qed.

(* ================= C12: expired messages are never accepted by a normal consumer ================= *)
Theorem rabbit_expired_not_accepted e w now d w' :
  react e w now d = (w', RNone) ->
  forall c cs, cl_by_ctag (d_ctag d) (w_cl w) = Some (c, cs) -> cs_cat cs = Normal ->
  overdue_code e (a_pcode (d_msg d)) now = true ->
  w_cl w' = w_cl w /\ w_tags w' = w_tags w.       (* not put into the buffer, no tag recorded: asleep for a reject at most *)
Proof.
  intros H c cs Hc Hcat Ho. unfold react in H. rewrite Hc in H.
  destruct (cs_paused cs || negb (cs_consuming cs)); [inversion H; subst; auto|].
  destruct (negb (topic_ok (cs_topics cs) (a_topic (d_msg d)))); [inversion H; subst; auto|].
  rewrite Ho, Hcat in H. cbn in H. discriminate.
Qed.

(* it is nacked, and a nack from the normal queue moves it to the dead-letter queue *)
Theorem rabbit_expired_nacked e w now d c cs :
  cl_by_ctag (d_ctag d) (w_cl w) = Some (c, cs) -> cs_cat cs = Normal -> cs_paused cs = false -> cs_consuming cs = true ->
  topic_ok (cs_topics cs) (a_topic (d_msg d)) = true -> overdue_code e (a_pcode (d_msg d)) now = true ->
  react e w now d = (w, RMeth (Nack (d_tag d))).
Proof.
  intros Hc Hcat Hp Hcons Ht Ho. unfold react. rewrite Hc, Hp, Hcons, Ht, Ho, Hcat. reflexivity.
Qed.

Theorem rabbit_nack_dead_letters s now t u r :
  take_tag t (unacked s) = Some (u, r) -> qkd (u_q u) = QNormal -> declared s (mkQK (qnum (u_q u)) QDead) = true ->
  let s' := fst (exec s now (Nack t)) in
  unacked s' = r /\
  ready s' (mkQK (qnum (u_q u)) QDead) = enq (with_redel (with_expire (u_msg u) None) false) (ready s (mkQK (qnum (u_q u)) QDead)).
Proof.
  intros E Hk Hd. cbn [exec]. rewrite E. cbn [fst]. unfold dead_letter, dl_target. rewrite Hk.
  unfold route. change (declared (set_unacked s r) (mkQK (qnum (u_q u)) QDead)) with (declared s (mkQK (qnum (u_q u)) QDead)). rewrite Hd.
  split; [reflexivity|]. rewrite ready_set_ready. reflexivity.
Qed.

(* ================= refuted clauses (recorded findings; each history is replayed on the real client on every run) ================= *)
Definition P_ (nxt : option Z) : params := mkParams 600000000 None (mkRetries 0 0) (mkDelay None None nxt) 0 None.
Definition env_w : env := mkEnv [(1, P_ (Some 5000000)); (2, P_ (Some 1000000)); (3, P_ None)].
Fixpoint run_w (e : env) (w : world) (h : list (Z * rop)) : world * list Z :=
  match h with
  | [] => (w, [])
  | (now, o) :: r => let '(w1, _, res) := run_op e w now o in let '(w2, rs) := run_w e w1 r in (w2, res :: rs)
  end.

(* C05, "never forgotten": per-message TTLs run out only at the HEAD of the delayed queue.  A message due after 1 s behind one
   due after 5 s is still in the delayed queue at 2 s, a free consumer listening; both come out at 5 s *)
Definition h_delayed_hol : list (Z * rop) :=
  [(0, RDeclare 1); (0, RAddConsumer 1 1 Normal [] 0); (0, RPut 1 1 1 5 11 1); (0, RPut 2 1 1 5 12 2);
   (0, RTick 2000000); (2000000, RTake 1); (2000000, RTick 3000000); (5000000, RTake 1); (5000000, RTake 1)].
Theorem rabbit_delayed_head_of_line_refuted :
  snd (run_w env_w world0 h_delayed_hol) = [0; 0; 0; 0; 0; 0; 0; 1; 2] /\
  map a_id (ready (w_srv (fst (run_w env_w world0 (firstn 6 h_delayed_hol)))) (mkQK 1 QDelayed)) = [1; 2].
Proof. vm_compute. split; reflexivity. Qed.

(* C11, "never blocks on messages it has no actor for": a consumer with prefetch 1 and topic filter [1] receives the foreign
   message at the head, sleeps 0.1 s, rejects it - it returns to the FRONT and is delivered again; the message behind it,
   which the consumer serves, is still waiting after 3 s (the foreign one has been delivered 31 times) *)
Definition h_foreign_hol : list (Z * rop) :=
  [(0, RDeclare 1); (0, RAddConsumer 1 1 Normal [1] 1); (0, RPut 1 2 1 5 11 3); (0, RPut 2 1 1 5 12 3);
   (0, RTick 3000000); (3000000, RTake 1)].
Theorem rabbit_foreign_head_of_line_refuted :
  let w := fst (run_w env_w world0 h_foreign_hol) in
  snd (run_w env_w world0 h_foreign_hol) = [0; 0; 0; 0; 0; 0] /\
  map a_id (ready (w_srv w) (mkQK 1 QNormal)) = [2] /\ map (fun u => (u_tag u, a_id (u_msg u))) (unacked (w_srv w)) = [(31, 1)].
Proof. vm_compute. repeat split. Qed.

(* C01, "nack dead-letters it": a message taken through the DEAD category and nacked is discarded - <q>:dead has no
   dead-letter target *)
Definition h_nack_dead : list (Z * rop) :=
  [(0, RDeclare 1); (0, RAddConsumer 1 1 Normal [] 0); (0, RAddConsumer 2 1 DeadC [] 0); (0, RPut 1 1 1 5 11 3);
   (0, RTake 1); (0, RNack 1); (0, RTake 2); (0, RNack 1)].
Theorem rabbit_nack_from_dead_refuted :
  occ 1 (w_srv (fst (run_w env_w world0 (firstn 7 h_nack_dead)))) = 1 /\ occ 1 (w_srv (fst (run_w env_w world0 h_nack_dead))) = 0.
Proof. vm_compute. split; reflexivity. Qed.

(* C01 / C03, "requeue replaces it atomically": requeue is basic.ack followed by basic.publish; after the first of the two
   the message is nowhere *)
Theorem rabbit_requeue_gap_refuted :
  let w := fst (run_w env_w world0 [(0, RDeclare 1); (0, RAddConsumer 1 1 Normal [] 0); (0, RPut 1 1 1 5 11 3); (0, RTake 1)]) in
  occ 1 (w_srv w) = 1 /\ occ 1 (w_srv (fst (terminal env_w w 0 1 Ack))) = 0.
Proof. vm_compute. split; reflexivity. Qed.

(* non-vacuity: a run in which everything happens - delay, expiry into the normal queue, delivery, foreign reject cycle,
   expired message nacked into the dead queue - keeps every id in exactly one place *)
Example rabbit_places_example :
  let env1 := mkEnv [(1, P_ (Some 2500)); (2, mkParams 600000000 None (mkRetries 0 0) (mkDelay None None None) 0 (Some 1000)); (3, P_ None)] in
  let h := [(0, RDeclare 1); (0, RAddConsumer 1 1 Normal [1] 0); (0, RPut 1 1 1 5 11 1); (0, RPut 2 1 1 5 12 3); (0, RPut 3 2 1 9 13 3);
            (1500, RPut 4 1 1 5 14 2); (1500, RTick 150000); (151500, RTake 1); (151500, RTake 1); (151500, RTake 1)] in
  let w := fst (run_w env1 world0 h) in
  snd (run_w env1 world0 h) = [0; 0; 0; 0; 0; 0; 0; 2; 1; 0] /\ map (fun i => occ i (w_srv w)) [1; 2; 3; 4] = [1; 1; 1; 1] /\
  map a_id (ready (w_srv w) (mkQK 1 QDead)) = [4] /\ (forall k, declared (w_srv w) k = true -> True).
Proof. vm_compute. repeat split. Qed.

(* the invariants hold where repid's queue_declare has run *)
Definition Closedb (s : srv) : bool :=
  forallb (fun kv => match dl_target (fst kv) with Some t => declared s t | None => true end) (queues s).
Lemma qget_some_in k qs l : qget k qs = Some l -> In (k, l) qs.
Proof.
  induction qs as [|[k0 v] r IH]; cbn [qget]; [discriminate|]. destruct (qkey_eqb k k0) eqn:E.
  - intros H. inversion H; subst. apply qkey_eqb_eq in E. subst. left. reflexivity.
  - intros H. right. auto.
Qed.
Lemma Closedb_sound s : Closedb s = true -> Closed s.
Proof.
  intros H k Hd. unfold declared in Hd. destruct (qget k (queues s)) as [l|] eqn:E; [|discriminate].
  apply qget_some_in in E. unfold Closedb in H. rewrite forallb_forall in H. specialize (H _ E). cbn [fst] in H.
  destruct (dl_target k); [exact H | exact I].
Qed.
Example closed_after_declare : let s := w_srv (fst (run_w env_w world0 [(0, RDeclare 1); (0, RDeclare 2)])) in Closed s /\ UnackedOk s.
Proof. split; [apply Closedb_sound; vm_compute; reflexivity | constructor]. Qed.

(* ---- the server by itself loses nothing: dead-lettering strips the TTL, so nothing ever expires in <q>:dead ---- *)
Definition NoTtlDead (s : srv) : Prop := forall q, Forall (fun m => a_expire m = None) (ready s (mkQK q QDead)).

Lemma ready_route s t m k : ready (route s t m) k = if declared s t && qkey_eqb k t then enq m (ready s t) else ready s k.
Proof.
  unfold route. destruct (declared s t); cbn [andb]; [|reflexivity].
  destruct (qkey_eqb k t) eqn:E; [apply qkey_eqb_eq in E; subst; apply ready_set_ready | apply ready_set_ready_other; exact E].
Qed.

Lemma NoTtlDead_set_ready s k m rest : NoTtlDead s -> ready s k = m :: rest -> NoTtlDead (set_ready s k rest).
Proof.
  intros H Hr q. destruct (qkey_eqb (mkQK q QDead) k) eqn:E.
  - apply qkey_eqb_eq in E. subst k. rewrite ready_set_ready. specialize (H q). rewrite Hr in H. inversion H; assumption.
  - rewrite ready_set_ready_other; [apply H | exact E].
Qed.

Lemma NoTtlDead_route s t m : NoTtlDead s -> a_expire m = None -> NoTtlDead (route s t m).
Proof.
  intros H Hm q. rewrite ready_route. destruct (declared s t && qkey_eqb (mkQK q QDead) t) eqn:E; [|apply H].
  apply andb_prop in E. destruct E as [_ E]. apply qkey_eqb_eq in E. subst t.
  rewrite Forall_forall. intros y Hy. destruct (enq_in _ _ _ Hy) as [->|Hy']; [exact Hm|].
  specialize (H q). rewrite Forall_forall in H. auto.
Qed.

Lemma expire_one_exact i s now s' : Closed s -> NoTtlDead s -> expire_one s now = Some s' -> occ i s' = occ i s /\ NoTtlDead s'.
Proof.
  intros HC HN H. unfold expire_one in H. destruct (find_expired s now (map fst (queues s))) as [[[k m] rest]|] eqn:E; [|discriminate].
  inversion H; subst. destruct (find_expired_spec _ _ _ _ _ _ E) as (Hr & e & He & _).
  pose proof (ready_declared _ _ _ _ Hr) as Hd.
  assert (Hk : exists t, dl_target k = Some t).
  { destruct k as [q kd]. destruct kd; cbn; eauto. exfalso. specialize (HN q). rewrite Hr in HN. inversion HN; subst. congruence. }
  destruct Hk as [t Ht]. split.
  - rewrite occ_dead_letter; [| apply Closed_set_ready; assumption | rewrite declared_set_ready, Hd; reflexivity].
    rewrite Ht, occ_set_ready, Hr, cntm_cons. lia.
  - unfold dead_letter. rewrite Ht. apply NoTtlDead_route; [eapply NoTtlDead_set_ready; eauto | reflexivity].
Qed.

Lemma deliver_one_NoTtlDead s s' d : NoTtlDead s -> deliver_one s = Some (s', d) -> NoTtlDead s'.
Proof.
  intros HN H. destruct (deliver_one_spec _ _ _ H) as (c & rest & Hr & _ & _ & _ & Hq & _).
  intros q. assert (Hrd : forall k, ready s' k = ready (set_ready s (c_q c) rest) k) by (intros k; unfold ready; rewrite Hq; reflexivity).
  rewrite Hrd. eapply NoTtlDead_set_ready; eauto.
Qed.

(* whatever the server does by itself at any instant - expiries, dead-lettering, deliveries - every id stays in exactly as
   many places as before *)
Theorem occ_pump fuel : forall s now i, Closed s -> NoTtlDead s -> occ i (fst (pump fuel s now)) = occ i s.
Proof.
  induction fuel as [|f IH]; intros s now i HC HN; cbn [pump fst]; [reflexivity|].
  destruct (expire_one s now) as [s'|] eqn:E.
  - destruct (expire_one_exact i s now s' HC HN E) as [Ho HN'].
    assert (HC' : Closed s').
    { unfold expire_one in E. destruct (find_expired s now (map fst (queues s))) as [[[k0 m0] rest]|] eqn:E2; [|discriminate].
      inversion E; subst. destruct (find_expired_spec _ _ _ _ _ _ E2) as [Hr _].
      apply Closed_dead_letter, Closed_set_ready; [exact HC | eapply ready_declared; eauto]. }
    rewrite (IH s' now i HC' HN'). exact Ho.
  - destruct (deliver_one s) as [[s' d]|] eqn:D; [|reflexivity].
    pose proof (occ_deliver_one i _ _ _ D) as Ho. pose proof (deliver_one_NoTtlDead _ _ _ HN D) as HN'.
    assert (HC' : Closed s').
    { destruct (deliver_one_spec _ _ _ D) as (c & rest & Hr & _ & _ & _ & Hq & _).
      intros k Hk. assert (Hdecl : forall k, declared s' k = declared (set_ready s (c_q c) rest) k) by (intros k0; unfold declared; rewrite Hq; reflexivity).
      rewrite Hdecl in Hk. pose proof (Closed_set_ready s (c_q c) rest HC (ready_declared _ _ _ _ Hr) k Hk) as H1.
      destruct (dl_target k); [rewrite Hdecl; exact H1 | exact I]. }
    specialize (IH s' now i HC' HN'). destruct (pump f s' now) as [s'' ds]. cbn [fst] in *. lia.
Qed.

Lemma enq_both_psorted m l : psorted l -> psorted (enq m l) /\ psorted (enq_front m l).
Proof. intros H. exact (conj (enq_psorted m l H) (enq_front_psorted m l H)). Qed.
