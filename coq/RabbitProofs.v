From Coq Require Import ZifyBool.
From Repid Require Import Base Sched AmqpSrv RabbitBroker.

(* ================= counting: where a message id is ================= *)
Definition ind (b : bool) : Z := if b then 1 else 0.
Definition cntm (i : Z) (l : list amsg) : Z := Z.of_nat (length (filter (fun m => a_id m =? i) l)).
Fixpoint cntq (i : Z) (qs : list (qkey * list amsg)) : Z :=
  match qs with [] => 0 | kv :: r => cntm i (snd kv) + cntq i r end.
Definition cntu (i : Z) (us : list unack) : Z := cntm i (map u_msg us).
(* number of places (ready in some queue, or delivered and unacknowledged) the id is in *)
Definition occ (i : Z) (s : srv) : Z := cntq i (queues s) + cntu i (unacked s).

Lemma cntm_nil i : cntm i [] = 0.  Proof. reflexivity. Qed.
Lemma cntm_cons i m l : cntm i (m :: l) = ind (a_id m =? i) + cntm i l.
Proof. unfold cntm. cbn [filter]. destruct (a_id m =? i); cbn [ind length]; [rewrite Nat2Z.inj_succ|]; lia. Qed.
Lemma cntm_app i a b : cntm i (a ++ b) = cntm i a + cntm i b.
Proof. unfold cntm. rewrite filter_app, app_length. lia. Qed.
Lemma cntm_nonneg i l : 0 <= cntm i l.  Proof. unfold cntm. lia. Qed.

Lemma cntm_enq i m l : cntm i (enq m l) = cntm i l + ind (a_id m =? i).
Proof. induction l as [|x r IH]; cbn [enq]; [rewrite !cntm_cons, cntm_nil; lia|]. destruct (a_prio x <? a_prio m); rewrite !cntm_cons; lia. Qed.
Lemma cntm_enq_front i m l : cntm i (enq_front m l) = cntm i l + ind (a_id m =? i).
Proof. induction l as [|x r IH]; cbn [enq_front]; [rewrite !cntm_cons, cntm_nil; lia|]. destruct (a_prio x <=? a_prio m); rewrite !cntm_cons; lia. Qed.

Lemma cntq_nonneg i qs : 0 <= cntq i qs.
Proof. induction qs as [|kv r IH]; cbn [cntq]; [lia|]. pose proof (cntm_nonneg i (snd kv)). lia. Qed.

Lemma qkey_eqb_refl k : qkey_eqb k k = true.
Proof. unfold qkey_eqb. rewrite Z.eqb_refl. destruct (qkd k); reflexivity. Qed.

Lemma cntq_qset i k l qs :
  cntq i (qset k l qs) = cntq i qs - cntm i (match qget k qs with Some x => x | None => [] end) + cntm i l.
Proof.
  induction qs as [|[k' v] r IH]; cbn [qset qget cntq snd]; [rewrite cntm_nil; lia|].
  destruct (qkey_eqb k k'); cbn [cntq snd]; [lia|]. rewrite IH. lia.
Qed.

Lemma occ_set_ready i s k l : occ i (set_ready s k l) = occ i s - cntm i (ready s k) + cntm i l.
Proof. unfold occ, set_ready, ready. cbn [queues unacked]. rewrite cntq_qset. lia. Qed.

Lemma qkey_eqb_eq a b : qkey_eqb a b = true <-> a = b.
Proof.
  unfold qkey_eqb. destruct a as [qa ka], b as [qb kb]. cbn. split.
  - intros H. destruct ka, kb; cbn in H; try lia; f_equal; lia.
  - intros H. inversion H; subst. rewrite Z.eqb_refl. destruct kb; reflexivity.
Qed.

Lemma qget_qset k' k l qs : qget k' (qset k l qs) = if qkey_eqb k' k then Some l else qget k' qs.
Proof.
  induction qs as [|[k0 v] r IH]; cbn [qset qget].
  - destruct (qkey_eqb k' k); reflexivity.
  - destruct (qkey_eqb k k0) eqn:E; cbn [qget].
    + apply qkey_eqb_eq in E. subst k0. destruct (qkey_eqb k' k); reflexivity.
    + destruct (qkey_eqb k' k0) eqn:E2.
      * destruct (qkey_eqb k' k) eqn:E3; [|reflexivity].
        apply qkey_eqb_eq in E2, E3. subst. rewrite qkey_eqb_refl in E. discriminate.
      * exact IH.
Qed.

Lemma ready_set_ready s k l : ready (set_ready s k l) k = l.
Proof. unfold ready, set_ready. cbn [queues]. rewrite qget_qset, qkey_eqb_refl. reflexivity. Qed.

Lemma ready_set_ready_other s k l k' : qkey_eqb k' k = false -> ready (set_ready s k l) k' = ready s k'.
Proof. intros H. unfold ready, set_ready. cbn [queues]. rewrite qget_qset, H. reflexivity. Qed.

Lemma occ_route i s k m : occ i (route s k m) = occ i s + (if declared s k then ind (a_id m =? i) else 0).
Proof. unfold route. destruct (declared s k); [|lia]. rewrite occ_set_ready, cntm_enq. lia. Qed.

(* every declared queue's dead-letter target is declared: what repid's queue_declare establishes (it declares <q>:dead
   first, then <q>, then <q>:delayed) and every later method keeps *)
Definition Closed (s : srv) : Prop :=
  forall k, declared s k = true -> match dl_target k with Some t => declared s t = true | None => True end.

Lemma declared_set_ready s k l k' : declared (set_ready s k l) k' = declared s k' || qkey_eqb k' k.
Proof.
  unfold declared, set_ready. cbn [queues]. rewrite qget_qset.
  destruct (qkey_eqb k' k); [destruct (qget k' (queues s)); reflexivity | rewrite orb_false_r; reflexivity].
Qed.

Lemma declared_route s k m k' : declared (route s k m) k' = declared s k'.
Proof.
  unfold route. destruct (declared s k) eqn:E; [|reflexivity]. rewrite declared_set_ready.
  destruct (qkey_eqb k' k) eqn:E2; [|apply orb_false_r].
  apply qkey_eqb_eq in E2. subst. rewrite E. reflexivity.
Qed.

(* a dead-lettered message moves; it is dropped only from a queue without a dead-letter target (<q>:dead) *)
Lemma occ_dead_letter i s from m :
  Closed s -> declared s from = true ->
  occ i (dead_letter s from m) = occ i s + (match dl_target from with Some _ => ind (a_id m =? i) | None => 0 end).
Proof.
  intros HC Hd. unfold dead_letter. specialize (HC from Hd). destruct (dl_target from) as [t|]; [|lia].
  rewrite occ_route, HC. reflexivity.
Qed.

Lemma take_tag_cntu i t l u r : take_tag t l = Some (u, r) -> cntu i l = ind (a_id (u_msg u) =? i) + cntu i r.
Proof.
  revert u r. induction l as [|x l IH]; cbn [take_tag]; intros u r H; [discriminate|].
  destruct (u_tag x =? t).
  - inversion H; subst. unfold cntu. cbn [map]. apply cntm_cons.
  - destruct (take_tag t l) as [[y r']|]; [|discriminate]. inversion H; subst. unfold cntu in *. cbn [map].
    rewrite !cntm_cons, (IH _ _ eq_refl). lia.
Qed.

Lemma take_tag_in t l u r : take_tag t l = Some (u, r) -> In u l /\ u_tag u = t.
Proof.
  revert u r. induction l as [|x l IH]; cbn [take_tag]; intros u r H; [discriminate|].
  destruct (u_tag x =? t) eqn:E.
  - inversion H; subst. split; [left; reflexivity | lia].
  - destruct (take_tag t l) as [[y r']|]; [|discriminate]. inversion H; subst. destruct (IH _ _ eq_refl). split; [right|]; assumption.
Qed.

(* unacknowledged deliveries come from declared queues *)
Definition UnackedOk (s : srv) : Prop := Forall (fun u => declared s (u_q u) = true) (unacked s).

(* the change of the number of places of id i caused by one method *)
Definition delta (s : srv) (m : meth) (i : Z) : Z :=
  match m with
  | Publish k id _ _ _ _ _ _ => if declared s k then ind (id =? i) else 0
  | Ack t => match take_tag t (unacked s) with Some (u, _) => - ind (a_id (u_msg u) =? i) | None => 0 end
  | Nack t => match take_tag t (unacked s) with
              | Some (u, _) => match dl_target (u_q u) with Some _ => 0 | None => - ind (a_id (u_msg u) =? i) end
              | None => 0
              end
  | Purge k => if declared s k then - cntm i (ready s k) else 0      (* queue_flush: the only method that discards *)
  | _ => 0
  end.

Theorem occ_exec s now m i :
  Closed s -> UnackedOk s -> occ i (fst (exec s now m)) = occ i s + delta s m i.
Proof.
  intros HC HU. destruct m as [k id prio topic hq payload pcode ex | t | t | t | n | k | ct | k | k]; cbn [exec delta].
  - destruct (declared s k) eqn:E; cbn [fst]; [|lia]. rewrite occ_route, E. cbn [a_id]. reflexivity.
  - destruct (take_tag t (unacked s)) as [[u r]|] eqn:E; cbn [fst]; [|lia].
    unfold occ, set_unacked. cbn [queues unacked]. rewrite (take_tag_cntu i _ _ _ _ E). lia.
  - destruct (take_tag t (unacked s)) as [[u r]|] eqn:E; cbn [fst]; [|lia].
    destruct (take_tag_in _ _ _ _ E) as [Hin _]. unfold UnackedOk in HU. rewrite Forall_forall in HU. specialize (HU _ Hin).
    rewrite occ_dead_letter; [| exact HC | exact HU].
    unfold occ, set_unacked. cbn [queues unacked]. rewrite (take_tag_cntu i _ _ _ _ E). destruct (dl_target (u_q u)); lia.
  - destruct (take_tag t (unacked s)) as [[u r]|] eqn:E; cbn [fst]; [|lia].
    rewrite occ_set_ready, cntm_enq_front. cbn [a_id with_redel].
    unfold occ, set_unacked, ready. cbn [queues unacked]. rewrite (take_tag_cntu i _ _ _ _ E). lia.
  - unfold occ. cbn [fst queues unacked]. lia.
  - unfold occ. cbn [fst queues unacked]. lia.
  - unfold occ. cbn [fst queues unacked]. lia.
  - unfold occ. cbn [fst queues unacked]. destruct (qget k (queues s)) eqn:E; [lia|].
    rewrite cntq_qset, E, !cntm_nil. lia.
  - destruct (declared s k) eqn:E; cbn [fst]; [|lia]. rewrite occ_set_ready, cntm_nil. lia.
Qed.

(* ---- the invariants are kept by every method and by the server's own steps ---- *)
Lemma Closed_route s k m : Closed s -> Closed (route s k m).
Proof. intros HC k' Hd. rewrite declared_route in Hd. specialize (HC k' Hd). destruct (dl_target k'); [rewrite declared_route|]; auto. Qed.

Lemma Closed_dead_letter s from m : Closed s -> Closed (dead_letter s from m).
Proof. intros HC. unfold dead_letter. destruct (dl_target from); [apply Closed_route|]; exact HC. Qed.

Lemma Closed_set_ready s k l : Closed s -> declared s k = true -> Closed (set_ready s k l).
Proof.
  intros HC Hk k' Hd. rewrite declared_set_ready in Hd.
  assert (Hd' : declared s k' = true).
  { destruct (declared s k') eqn:E; [reflexivity|]. cbn in Hd. apply qkey_eqb_eq in Hd. subst. congruence. }
  specialize (HC k' Hd'). destruct (dl_target k'); [rewrite declared_set_ready, HC; reflexivity | exact I].
Qed.

Lemma declared_dead_letter s from m k : declared (dead_letter s from m) k = declared s k.
Proof. unfold dead_letter. destruct (dl_target from); [apply declared_route | reflexivity]. Qed.

Lemma unacked_route s k m : unacked (route s k m) = unacked s.
Proof. unfold route. destruct (declared s k); reflexivity. Qed.
Lemma unacked_dead_letter s from m : unacked (dead_letter s from m) = unacked s.
Proof. unfold dead_letter. destruct (dl_target from); [apply unacked_route | reflexivity]. Qed.

Definition meth_ok (s : srv) (m : meth) : Prop :=
  match m with
  | Declare k => match dl_target k with Some t => declared s t = true | None => True end
  | _ => True
  end.

Lemma UnackedOk_mono (s s' : srv) :
  (forall k, declared s k = true -> declared s' k = true) -> Forall (fun u => declared s (u_q u) = true) (unacked s') ->
  UnackedOk s'.
Proof. intros Hm HF. unfold UnackedOk. eapply Forall_impl; [|exact HF]. cbv beta. auto. Qed.

Lemma take_tag_Forall (Q : unack -> Prop) t l u r : take_tag t l = Some (u, r) -> Forall Q l -> Q u /\ Forall Q r.
Proof.
  revert u r. induction l as [|x l IH]; cbn [take_tag]; intros u r H HF; [discriminate|].
  inversion HF as [|? ? Hx Hl]; subst. destruct (u_tag x =? t).
  - inversion H; subst. auto.
  - destruct (take_tag t l) as [[y r']|]; [|discriminate]. inversion H; subst. destruct (IH _ _ eq_refl Hl). auto.
Qed.

Theorem inv_exec s now m : Closed s -> UnackedOk s -> meth_ok s m ->
  Closed (fst (exec s now m)) /\ UnackedOk (fst (exec s now m)).
Proof.
  intros HC HU Hok. destruct m as [k id prio topic hq payload pcode ex | t | t | t | n | k | ct | k | k]; cbn [exec].
  - destruct (declared s k); cbn [fst]; [|auto]. split; [apply Closed_route; exact HC|].
    apply (UnackedOk_mono s); [intros k' H; rewrite declared_route; exact H | rewrite unacked_route; exact HU].
  - destruct (take_tag t (unacked s)) as [[u r]|] eqn:E; cbn [fst]; [|auto].
    destruct (take_tag_Forall _ _ _ _ _ E HU) as [_ Hr]. split; [exact HC | exact Hr].
  - destruct (take_tag t (unacked s)) as [[u r]|] eqn:E; cbn [fst]; [|auto].
    destruct (take_tag_Forall _ _ _ _ _ E HU) as [_ Hr].
    assert (HC1 : Closed (set_unacked s r)) by exact HC.
    split; [apply Closed_dead_letter; exact HC1|].
    apply (UnackedOk_mono s); [intros k' H; rewrite declared_dead_letter; exact H|].
    rewrite unacked_dead_letter. exact Hr.
  - destruct (take_tag t (unacked s)) as [[u r]|] eqn:E; cbn [fst]; [|auto].
    destruct (take_tag_Forall _ _ _ _ _ E HU) as [Hu Hr]. cbv beta in Hu.
    split; [apply Closed_set_ready; [exact HC | exact Hu]|].
    apply (UnackedOk_mono s); [intros k' H; rewrite declared_set_ready; change (declared (set_unacked s r) k') with (declared s k'); rewrite H; reflexivity | exact Hr].
  - auto.
  - auto.
  - auto.
  - cbn [fst]. destruct (qget k (queues s)) eqn:E; [auto|].
    assert (Hdecl : forall k', declared (mkSrv (qset k [] (queues s)) (unacked s) (consumers s) (qos s) (next_tag s) (next_ctag s)) k'
                               = declared s k' || qkey_eqb k' k).
    { intros k'. apply (declared_set_ready s k [] k'). }
    split.
    + intros k' Hd. rewrite Hdecl in Hd.
      destruct (qkey_eqb k' k) eqn:E2.
      * apply qkey_eqb_eq in E2. subst k'. cbn in Hok. destruct (dl_target k); [rewrite Hdecl, Hok; reflexivity | exact I].
      * rewrite orb_false_r in Hd. specialize (HC k' Hd). destruct (dl_target k'); [rewrite Hdecl, HC; reflexivity | exact I].
    + apply (UnackedOk_mono s); [intros k' H; rewrite Hdecl, H; reflexivity | exact HU].
  - cbn [fst]. destruct (declared s k) eqn:E; [|auto]. split; [apply Closed_set_ready; assumption|].
    apply (UnackedOk_mono s); [intros k' H; rewrite declared_set_ready, H; reflexivity | exact HU].
Qed.

(* ---- the server's own steps ---- *)
Lemma find_expired_spec s now ks k m rest :
  find_expired s now ks = Some (k, m, rest) ->
  ready s k = m :: rest /\ exists e, a_expire m = Some e /\ e <= now.
Proof.
  induction ks as [|k0 r IH]; cbn [find_expired]; [discriminate|].
  destruct (ready s k0) as [|m0 rest0] eqn:E; [exact IH|].
  destruct (a_expire m0) as [e|] eqn:Ee; [|exact IH].
  destruct (e <=? now) eqn:El; [|exact IH].
  intros H. inversion H; subst. split; [exact E|]. exists e. split; [exact Ee | lia].
Qed.

Lemma ready_declared s k m rest : ready s k = m :: rest -> declared s k = true.
Proof. unfold ready, declared. destruct (qget k (queues s)); [reflexivity | discriminate]. Qed.

(* an expiry moves the message to the dead-letter target of its queue (it is dropped only where there is none) *)
Lemma occ_expire_one i s now s' : Closed s -> expire_one s now = Some s' ->
  exists k m, occ i s' = occ i s - (match dl_target k with Some _ => 0 | None => ind (a_id m =? i) end).
Proof.
  intros HC H. unfold expire_one in H. destruct (find_expired s now (map fst (queues s))) as [[[k m] rest]|] eqn:E; [|discriminate].
  inversion H; subst. destruct (find_expired_spec _ _ _ _ _ _ E) as [Hr _]. exists k, m.
  pose proof (ready_declared _ _ _ _ Hr) as Hd.
  rewrite occ_dead_letter; [| apply Closed_set_ready; assumption | rewrite declared_set_ready, Hd; reflexivity].
  rewrite occ_set_ready, Hr, cntm_cons. destruct (dl_target k); lia.
Qed.

Lemma inv_expire_one s now s' : Closed s -> UnackedOk s -> expire_one s now = Some s' -> Closed s' /\ UnackedOk s'.
Proof.
  intros HC HU H. unfold expire_one in H. destruct (find_expired s now (map fst (queues s))) as [[[k m] rest]|] eqn:E; [|discriminate].
  inversion H; subst. destruct (find_expired_spec _ _ _ _ _ _ E) as [Hr _]. pose proof (ready_declared _ _ _ _ Hr) as Hd.
  split; [apply Closed_dead_letter, Closed_set_ready; assumption|].
  apply (UnackedOk_mono s); [intros k' H'; rewrite declared_dead_letter, declared_set_ready, H'; reflexivity|].
  rewrite unacked_dead_letter. exact HU.
Qed.

Lemma pick_consumer_in s cs c r : pick_consumer s cs = Some (c, r) -> In c cs /\ ready s (c_q c) <> [].
Proof.
  revert c r. induction cs as [|x cs IH]; cbn [pick_consumer]; intros c r H; [discriminate|].
  destruct (has_room s x && match ready s (c_q x) with [] => false | _ => true end) eqn:E.
  - inversion H; subst. split; [left; reflexivity|]. destruct (ready s (c_q c)); [rewrite andb_false_r in E; discriminate | discriminate].
  - destruct (pick_consumer s cs) as [[y r']|]; [|discriminate]. inversion H; subst. destruct (IH _ _ eq_refl). split; [right|]; assumption.
Qed.

(* a delivery moves the HEAD of the consumer's queue into the unacknowledged set, under a fresh tag *)
Lemma deliver_one_spec s s' d : deliver_one s = Some (s', d) ->
  exists c rest, ready s (c_q c) = d_msg d :: rest /\ d_ctag d = c_tag c /\ d_tag d = next_tag s /\
    unacked s' = unacked s ++ [mkU (next_tag s) (d_msg d) (c_q c) (c_tag c)] /\
    queues s' = queues (set_ready s (c_q c) rest) /\ next_tag s' = next_tag s + 1.
Proof.
  unfold deliver_one. destruct (pick_consumer s (consumers s)) as [[c others]|]; [|discriminate].
  destruct (ready s (c_q c)) as [|m rest] eqn:E; [discriminate|]. intros H. inversion H; subst. cbn.
  exists c, rest. repeat split; auto.
Qed.

Lemma occ_deliver_one i s s' d : deliver_one s = Some (s', d) -> occ i s' = occ i s.
Proof.
  intros H. destruct (deliver_one_spec _ _ _ H) as (c & rest & Hr & _ & _ & Hu & Hq & _).
  unfold occ. rewrite Hu, Hq. unfold cntu. rewrite map_app, cntm_app. cbn [map u_msg]. rewrite cntm_cons, cntm_nil.
  pose proof (occ_set_ready i s (c_q c) rest) as Ho. unfold occ in Ho. cbn [set_ready unacked] in Ho. rewrite Hr, cntm_cons in Ho.
  unfold cntu in Ho. lia.
Qed.

Lemma inv_deliver_one s s' d : Closed s -> UnackedOk s -> deliver_one s = Some (s', d) -> Closed s' /\ UnackedOk s'.
Proof.
  intros HC HU H. destruct (deliver_one_spec _ _ _ H) as (c & rest & Hr & _ & _ & Hu & Hq & _).
  pose proof (ready_declared _ _ _ _ Hr) as Hd.
  assert (Hdecl : forall k, declared s' k = declared (set_ready s (c_q c) rest) k) by (intros k; unfold declared; rewrite Hq; reflexivity).
  split.
  - intros k Hk. rewrite Hdecl in Hk. pose proof (Closed_set_ready s (c_q c) rest HC Hd k Hk) as H1.
    destruct (dl_target k); [rewrite Hdecl; exact H1 | exact I].
  - unfold UnackedOk. rewrite Hu. apply Forall_app. split.
    + eapply Forall_impl; [|exact HU]. cbv beta. intros u Hu'. rewrite Hdecl, declared_set_ready, Hu'. reflexivity.
    + constructor; [|constructor]. cbn [u_q]. rewrite Hdecl, declared_set_ready, Hd. reflexivity.
Qed.

(* the server running by itself never creates or duplicates a message; it loses one only by expiry in a queue without a
   dead-letter target (repid's <q>:dead, where nothing carries a TTL: dead-lettering strips it) *)
Definition no_ttl_in_dead (s : srv) : Prop :=
  forall q, Forall (fun m => a_expire m = None) (ready s (mkQK q QDead)).

Theorem occ_pump_le fuel : forall s now i, Closed s -> occ i (fst (pump fuel s now)) <= occ i s.
Proof.
  induction fuel as [|f IH]; intros s now i HC; cbn [pump fst]; [lia|].
  destruct (expire_one s now) as [s'|] eqn:E.
  - destruct (occ_expire_one i s now s' HC E) as (k & m & Ho).
    assert (HC' : Closed s').
    { unfold expire_one in E. destruct (find_expired s now (map fst (queues s))) as [[[k0 m0] rest]|] eqn:E2; [|discriminate].
      inversion E; subst. destruct (find_expired_spec _ _ _ _ _ _ E2) as [Hr _].
      apply Closed_dead_letter, Closed_set_ready; [exact HC | eapply ready_declared; eauto]. }
    specialize (IH s' now i HC'). destruct (dl_target k); [lia|]. unfold ind in Ho. destruct (a_id m =? i); lia.
  - destruct (deliver_one s) as [[s' d]|] eqn:D; [|cbn [fst]; lia].
    pose proof (occ_deliver_one i _ _ _ D) as Ho.
    assert (HC' : Closed s').
    { destruct (deliver_one_spec _ _ _ D) as (c & rest & Hr & _ & _ & _ & Hq & _).
      intros k Hk. assert (Hdecl : forall k, declared s' k = declared (set_ready s (c_q c) rest) k) by (intros k0; unfold declared; rewrite Hq; reflexivity).
      rewrite Hdecl in Hk. pose proof (Closed_set_ready s (c_q c) rest HC (ready_declared _ _ _ _ Hr) k Hk) as H1.
      destruct (dl_target k); [rewrite Hdecl; exact H1 | exact I]. }
    specialize (IH s' now i HC'). destruct (pump f s' now) as [s'' ds]. cbn [fst] in *. lia.
Qed.

(* ================= C05: never early ================= *)
Lemma ceil_ms_ge us : us <= ceil_ms us * 1000.
Proof. unfold ceil_ms. pose proof (Z.div_mod (- us) 1000 ltac:(lia)). pose proof (Z.mod_pos_bound (- us) 1000 ltac:(lia)). lia. Qed.

(* a message whose due time d lies ahead is published to the delayed queue with a TTL that runs out at d or later *)
Theorem rabbit_delay_covers_due e now id topic q prio payload pcode d :
  wait_of e pcode now = Some d -> now < d ->
  exists ms, enqueue_meth e now id topic q prio payload pcode = Publish (mkQK q QDelayed) id prio topic q payload pcode (Some ms) /\
             d <= now + ms * 1000.
Proof.
  intros Hw Hlt. unfold enqueue_meth, expiration_of. rewrite Hw.
  pose proof (ceil_ms_ge (d - now)) as Hc.
  destruct (0 <? ceil_ms (d - now)) eqn:E; [|lia].
  eexists. split; [reflexivity | lia].
Qed.

(* ... and the server lets it out of the delayed queue only when that TTL has run out: an expiry at `now` concerns a message
   whose instant of expiry is <= now *)
Theorem rabbit_expiry_not_early s now s' : expire_one s now = Some s' ->
  exists k m rest e, ready s k = m :: rest /\ a_expire m = Some e /\ e <= now.
Proof.
  unfold expire_one. destruct (find_expired s now (map fst (queues s))) as [[[k m] rest]|] eqn:E; [|discriminate].
  intros _. destruct (find_expired_spec _ _ _ _ _ _ E) as (Hr & e & He & Hle). exists k, m, rest, e. auto.
Qed.

(* a message that is not due-delayed is published straight to the normal queue *)
Theorem rabbit_immediate e now id topic q prio payload pcode :
  (wait_of e pcode now = None \/ exists d, wait_of e pcode now = Some d /\ d <= now) ->
  enqueue_meth e now id topic q prio payload pcode = Publish (mkQK q QNormal) id prio topic q payload pcode None.
Proof.
  intros [H|(d & H & Hle)]; unfold enqueue_meth, expiration_of; rewrite H; [reflexivity|].
  assert (ceil_ms (d - now) <= 0).
  { unfold ceil_ms. pose proof (Z.div_mod (- (d - now)) 1000 ltac:(lia)). pose proof (Z.mod_pos_bound (- (d - now)) 1000 ltac:(lia)). lia. }
  destruct (0 <? ceil_ms (d - now)) eqn:E; [lia | reflexivity].
Qed.

(* ================= C14: one holder at a time ================= *)
(* in a state where no id is in two places, a message that is delivered was unacknowledged by nobody *)
Theorem rabbit_exclusive_delivery s s' d :
  (forall i, occ i s <= 1) -> deliver_one s = Some (s', d) -> cntu (a_id (d_msg d)) (unacked s) = 0.
Proof.
  intros Hocc H. destruct (deliver_one_spec _ _ _ H) as (c & rest & Hr & _).
  specialize (Hocc (a_id (d_msg d))). unfold occ in Hocc.
  pose proof (occ_set_ready (a_id (d_msg d)) s (c_q c) rest) as Ho. unfold occ in Ho. cbn [set_ready queues unacked] in Ho.
  rewrite Hr, cntm_cons, Z.eqb_refl in Ho. cbn [ind] in Ho.
  pose proof (cntq_nonneg (a_id (d_msg d)) (qset (c_q c) rest (queues s))).
  pose proof (cntm_nonneg (a_id (d_msg d)) rest).
  pose proof (cntm_nonneg (a_id (d_msg d)) (map u_msg (unacked s))) as Hn. fold (cntu (a_id (d_msg d)) (unacked s)) in Hn. lia.
Qed.

(* delivery tags are never reused *)
Definition TagsBelow (s : srv) : Prop := Forall (fun u => u_tag u < next_tag s) (unacked s).
Theorem rabbit_fresh_tag s s' d : TagsBelow s -> deliver_one s = Some (s', d) ->
  Forall (fun u => u_tag u <> d_tag d) (unacked s) /\ TagsBelow s'.
Proof.
  intros HT H. destruct (deliver_one_spec _ _ _ H) as (c & rest & _ & _ & Htag & Hu & _ & Hn). split.
  - eapply Forall_impl; [|exact HT]. cbv beta. intros u Hu'. lia.
  - unfold TagsBelow. rewrite Hu, Hn. apply Forall_app. split; [eapply Forall_impl; [|exact HT]; cbv beta; intros; lia|].
    constructor; [cbn; lia | constructor].
Qed.

(* ================= C15: first in, first out within a priority ================= *)
Definition same_prio (p : Z) (m : amsg) : bool := a_prio m =? p.
Fixpoint psorted (l : list amsg) : Prop :=
  match l with [] => True | x :: r => Forall (fun y => a_prio y <= a_prio x) r /\ psorted r end.

Lemma enq_in m l y : In y (enq m l) -> y = m \/ In y l.
Proof.
  induction l as [|x r IH]; cbn [enq]; [intros [->|[]]; auto|].
  destruct (a_prio x <? a_prio m); cbn [In]; intros H.
  - destruct H as [->|[->|H]]; auto.
  - destruct H as [->|H]; [auto|]. destruct (IH H); auto.
Qed.
Lemma enq_front_in m l y : In y (enq_front m l) -> y = m \/ In y l.
Proof.
  induction l as [|x r IH]; cbn [enq_front]; [intros [->|[]]; auto|].
  destruct (a_prio x <=? a_prio m); cbn [In]; intros H.
  - destruct H as [->|[->|H]]; auto.
  - destruct H as [->|H]; [auto|]. destruct (IH H); auto.
Qed.

(* queues stay ordered by priority *)
Lemma enq_psorted m l : psorted l -> psorted (enq m l).
Proof.
  induction l as [|x r IH]; cbn [enq psorted]; [auto|]. intros [Hx Hr].
  destruct (a_prio x <? a_prio m) eqn:E; cbn [psorted].
  - split; [|split; assumption]. constructor; [lia|]. eapply Forall_impl; [|exact Hx]. cbv beta. intros; lia.
  - split; [|apply IH; exact Hr]. rewrite Forall_forall in *. intros y Hy. destruct (enq_in _ _ _ Hy) as [->|Hy']; [lia | auto].
Qed.
Lemma enq_front_psorted m l : psorted l -> psorted (enq_front m l).
Proof.
  induction l as [|x r IH]; cbn [enq_front psorted]; [auto|]. intros [Hx Hr].
  destruct (a_prio x <=? a_prio m) eqn:E; cbn [psorted].
  - split; [|split; assumption]. constructor; [lia|]. eapply Forall_impl; [|exact Hx]. cbv beta. intros; lia.
  - split; [|apply IH; exact Hr]. rewrite Forall_forall in *. intros y Hy. destruct (enq_front_in _ _ _ Hy) as [->|Hy']; [lia | auto].
Qed.

Lemma filter_none_below p l : Forall (fun y => a_prio y < p) l -> filter (same_prio p) l = [].
Proof.
  induction l as [|y l IH]; intros HF; [reflexivity|]. inversion HF; subst. cbn [filter]. unfold same_prio at 1.
  destruct (a_prio y =? p) eqn:E; [lia | auto].
Qed.

(* a published message goes behind every waiting message of its priority and leaves the other priorities as they are *)
Theorem enq_fifo m l : psorted l -> filter (same_prio (a_prio m)) (enq m l) = filter (same_prio (a_prio m)) l ++ [m].
Proof.
  induction l as [|x r IH]; cbn [enq filter psorted]; [unfold same_prio; rewrite Z.eqb_refl; reflexivity|]. intros [Hx Hr].
  destruct (a_prio x <? a_prio m) eqn:E.
  - assert (Hl : filter (same_prio (a_prio m)) (x :: r) = []).
    { apply filter_none_below. constructor; [lia|]. eapply Forall_impl; [|exact Hx]. cbv beta. intros; lia. }
    cbn [filter] in *. unfold same_prio at 1. rewrite Z.eqb_refl. rewrite Hl. reflexivity.
  - cbn [filter]. rewrite (IH Hr). destruct (same_prio (a_prio m) x); reflexivity.
Qed.
Theorem enq_other_prio m l p : p <> a_prio m -> filter (same_prio p) (enq m l) = filter (same_prio p) l.
Proof.
  intros Hp. induction l as [|x r IH]; cbn [enq filter].
  - unfold same_prio. destruct (a_prio m =? p) eqn:E; [lia | reflexivity].
  - destruct (a_prio x <? a_prio m); cbn [filter]; [|rewrite IH; reflexivity].
    unfold same_prio at 1. destruct (a_prio m =? p) eqn:E; [lia | reflexivity].
Qed.

(* a returned message (reject, requeue=true) goes in front of every waiting message of its priority *)
Theorem enq_front_first m l : psorted l -> filter (same_prio (a_prio m)) (enq_front m l) = m :: filter (same_prio (a_prio m)) l.
Proof.
  induction l as [|x r IH]; cbn [enq_front filter psorted]; [unfold same_prio; rewrite Z.eqb_refl; reflexivity|]. intros [Hx Hr].
  destruct (a_prio x <=? a_prio m) eqn:E; cbn [filter].
  - unfold same_prio at 1. rewrite Z.eqb_refl. reflexivity.
  - rewrite (IH Hr). assert (Hsx : same_prio (a_prio m) x = false) by (unfold same_prio; lia). rewrite Hsx. reflexivity.
Qed.

(* what is delivered is the head: of the highest priority waiting, and the oldest of that priority *)
Theorem delivered_is_oldest_of_highest s s' d : deliver_one s = Some (s', d) ->
  exists k rest, ready s k = d_msg d :: rest /\
    (psorted (ready s k) -> Forall (fun y => a_prio y <= a_prio (d_msg d)) rest) /\
    filter (same_prio (a_prio (d_msg d))) (ready s k) = d_msg d :: filter (same_prio (a_prio (d_msg d))) rest.
Proof.
  intros H. destruct (deliver_one_spec _ _ _ H) as (c & rest & Hr & _). exists (c_q c), rest. split; [exact Hr|]. split.
  - rewrite Hr. cbn [psorted]. tauto.
  - rewrite Hr. cbn [filter]. unfold same_prio at 1. rewrite Z.eqb_refl. reflexivity.
Qed.

(* ================= C12: expired messages are never accepted by a normal consumer ================= *)
Theorem rabbit_expired_not_accepted e w now d w' :
  react e w now d = (w', RNone) ->
  forall c cs, cl_by_ctag (d_ctag d) (w_cl w) = Some (c, cs) -> cs_cat cs = Normal ->
  overdue_code e (a_pcode (d_msg d)) now = true ->
  w_cl w' = w_cl w /\ w_tags w' = w_tags w.       (* not put into the buffer, no tag recorded: asleep for a reject at most *)
Proof.
  intros H c cs Hc Hcat Ho. unfold react in H. rewrite Hc in H.
  destruct (cs_paused cs || negb (cs_consuming cs)); [inversion H; subst; auto|].
  destruct (negb (topic_ok (cs_topics cs) (a_topic (d_msg d)))); [inversion H; subst; auto|].
  rewrite Ho, Hcat in H. cbn in H. discriminate.
Qed.

(* it is nacked, and a nack from the normal queue moves it to the dead-letter queue *)
Theorem rabbit_expired_nacked e w now d c cs :
  cl_by_ctag (d_ctag d) (w_cl w) = Some (c, cs) -> cs_cat cs = Normal -> cs_paused cs = false -> cs_consuming cs = true ->
  topic_ok (cs_topics cs) (a_topic (d_msg d)) = true -> overdue_code e (a_pcode (d_msg d)) now = true ->
  react e w now d = (w, RMeth (Nack (d_tag d))).
Proof.
  intros Hc Hcat Hp Hcons Ht Ho. unfold react. rewrite Hc, Hp, Hcons, Ht, Ho, Hcat. reflexivity.
Qed.

Theorem rabbit_nack_dead_letters s now t u r :
  take_tag t (unacked s) = Some (u, r) -> qkd (u_q u) = QNormal -> declared s (mkQK (qnum (u_q u)) QDead) = true ->
  let s' := fst (exec s now (Nack t)) in
  unacked s' = r /\
  ready s' (mkQK (qnum (u_q u)) QDead) = enq (with_redel (with_expire (u_msg u) None) false) (ready s (mkQK (qnum (u_q u)) QDead)).
Proof.
  intros E Hk Hd. cbn [exec]. rewrite E. cbn [fst]. unfold dead_letter, dl_target. rewrite Hk.
  unfold route. change (declared (set_unacked s r) (mkQK (qnum (u_q u)) QDead)) with (declared s (mkQK (qnum (u_q u)) QDead)). rewrite Hd.
  split; [reflexivity|]. rewrite ready_set_ready. reflexivity.
Qed.

(* ================= refuted clauses (recorded findings; each history is replayed on the real client on every run) ================= *)
Definition P_ (nxt : option Z) : params := mkParams 600000000 None (mkRetries 0 0) (mkDelay None None nxt) 0 None.
Definition env_w : env := mkEnv [(1, P_ (Some 5000000)); (2, P_ (Some 1000000)); (3, P_ None)].
Fixpoint run_w (e : env) (w : world) (h : list (Z * rop)) : world * list Z :=
  match h with
  | [] => (w, [])
  | (now, o) :: r => let '(w1, _, res) := run_op e w now o in let '(w2, rs) := run_w e w1 r in (w2, res :: rs)
  end.

(* C05, "never forgotten": per-message TTLs run out only at the HEAD of the delayed queue.  A message due after 1 s behind one
   due after 5 s is still in the delayed queue at 2 s, a free consumer listening; both come out at 5 s *)
Definition h_delayed_hol : list (Z * rop) :=
  [(0, RDeclare 1); (0, RAddConsumer 1 1 Normal [] 0); (0, RPut 1 1 1 5 11 1); (0, RPut 2 1 1 5 12 2);
   (0, RTick 2000000); (2000000, RTake 1); (2000000, RTick 3000000); (5000000, RTake 1); (5000000, RTake 1)].
Theorem rabbit_delayed_head_of_line_refuted :
  snd (run_w env_w world0 h_delayed_hol) = [0; 0; 0; 0; 0; 0; 0; 1; 2] /\
  map a_id (ready (w_srv (fst (run_w env_w world0 (firstn 6 h_delayed_hol)))) (mkQK 1 QDelayed)) = [1; 2].
Proof. vm_compute. split; reflexivity. Qed.

(* C11, "never blocks on messages it has no actor for": a consumer with prefetch 1 and topic filter [1] receives the foreign
   message at the head, sleeps 0.1 s, rejects it - it returns to the FRONT and is delivered again; the message behind it,
   which the consumer serves, is still waiting after 3 s (the foreign one has been delivered 31 times) *)
Definition h_foreign_hol : list (Z * rop) :=
  [(0, RDeclare 1); (0, RAddConsumer 1 1 Normal [1] 1); (0, RPut 1 2 1 5 11 3); (0, RPut 2 1 1 5 12 3);
   (0, RTick 3000000); (3000000, RTake 1)].
Theorem rabbit_foreign_head_of_line_refuted :
  let w := fst (run_w env_w world0 h_foreign_hol) in
  snd (run_w env_w world0 h_foreign_hol) = [0; 0; 0; 0; 0; 0] /\
  map a_id (ready (w_srv w) (mkQK 1 QNormal)) = [2] /\ map (fun u => (u_tag u, a_id (u_msg u))) (unacked (w_srv w)) = [(31, 1)].
Proof. vm_compute. repeat split. Qed.

(* C01, "nack dead-letters it": a message taken through the DEAD category and nacked is discarded - <q>:dead has no
   dead-letter target *)
Definition h_nack_dead : list (Z * rop) :=
  [(0, RDeclare 1); (0, RAddConsumer 1 1 Normal [] 0); (0, RAddConsumer 2 1 DeadC [] 0); (0, RPut 1 1 1 5 11 3);
   (0, RTake 1); (0, RNack 1); (0, RTake 2); (0, RNack 1)].
Theorem rabbit_nack_from_dead_refuted :
  occ 1 (w_srv (fst (run_w env_w world0 (firstn 7 h_nack_dead)))) = 1 /\ occ 1 (w_srv (fst (run_w env_w world0 h_nack_dead))) = 0.
Proof. vm_compute. split; reflexivity. Qed.

(* C01 / C03, "requeue replaces it atomically": requeue is basic.ack followed by basic.publish; after the first of the two
   the message is nowhere *)
Theorem rabbit_requeue_gap_refuted :
  let w := fst (run_w env_w world0 [(0, RDeclare 1); (0, RAddConsumer 1 1 Normal [] 0); (0, RPut 1 1 1 5 11 3); (0, RTake 1)]) in
  occ 1 (w_srv w) = 1 /\ occ 1 (w_srv (fst (terminal env_w w 0 1 Ack))) = 0.
Proof. vm_compute. split; reflexivity. Qed.

(* non-vacuity: a run in which everything happens - delay, expiry into the normal queue, delivery, foreign reject cycle,
   expired message nacked into the dead queue - keeps every id in exactly one place *)
Example rabbit_places_example :
  let env1 := mkEnv [(1, P_ (Some 2500)); (2, mkParams 600000000 None (mkRetries 0 0) (mkDelay None None None) 0 (Some 1000)); (3, P_ None)] in
  let h := [(0, RDeclare 1); (0, RAddConsumer 1 1 Normal [1] 0); (0, RPut 1 1 1 5 11 1); (0, RPut 2 1 1 5 12 3); (0, RPut 3 2 1 9 13 3);
            (1500, RPut 4 1 1 5 14 2); (1500, RTick 150000); (151500, RTake 1); (151500, RTake 1); (151500, RTake 1)] in
  let w := fst (run_w env1 world0 h) in
  snd (run_w env1 world0 h) = [0; 0; 0; 0; 0; 0; 0; 2; 1; 0] /\ map (fun i => occ i (w_srv w)) [1; 2; 3; 4] = [1; 1; 1; 1] /\
  map a_id (ready (w_srv w) (mkQK 1 QDead)) = [4] /\ (forall k, declared (w_srv w) k = true -> True).
Proof. vm_compute. repeat split. Qed.

(* the invariants hold where repid's queue_declare has run *)
Definition Closedb (s : srv) : bool :=
  forallb (fun kv => match dl_target (fst kv) with Some t => declared s t | None => true end) (queues s).
Lemma qget_some_in k qs l : qget k qs = Some l -> In (k, l) qs.
Proof.
  induction qs as [|[k0 v] r IH]; cbn [qget]; [discriminate|]. destruct (qkey_eqb k k0) eqn:E.
  - intros H. inversion H; subst. apply qkey_eqb_eq in E. subst. left. reflexivity.
  - intros H. right. auto.
Qed.
Lemma Closedb_sound s : Closedb s = true -> Closed s.
Proof.
  intros H k Hd. unfold declared in Hd. destruct (qget k (queues s)) as [l|] eqn:E; [|discriminate].
  apply qget_some_in in E. unfold Closedb in H. rewrite forallb_forall in H. specialize (H _ E). cbn [fst] in H.
  destruct (dl_target k); [exact H | exact I].
Qed.
Example closed_after_declare : let s := w_srv (fst (run_w env_w world0 [(0, RDeclare 1); (0, RDeclare 2)])) in Closed s /\ UnackedOk s.
Proof. split; [apply Closedb_sound; vm_compute; reflexivity | constructor]. Qed.

(* ---- the server by itself loses nothing: dead-lettering strips the TTL, so nothing ever expires in <q>:dead ---- *)
Definition NoTtlDead (s : srv) : Prop := forall q, Forall (fun m => a_expire m = None) (ready s (mkQK q QDead)).

Lemma ready_route s t m k : ready (route s t m) k = if declared s t && qkey_eqb k t then enq m (ready s t) else ready s k.
Proof.
  unfold route. destruct (declared s t); cbn [andb]; [|reflexivity].
  destruct (qkey_eqb k t) eqn:E; [apply qkey_eqb_eq in E; subst; apply ready_set_ready | apply ready_set_ready_other; exact E].
Qed.

Lemma NoTtlDead_set_ready s k m rest : NoTtlDead s -> ready s k = m :: rest -> NoTtlDead (set_ready s k rest).
Proof.
  intros H Hr q. destruct (qkey_eqb (mkQK q QDead) k) eqn:E.
  - apply qkey_eqb_eq in E. subst k. rewrite ready_set_ready. specialize (H q). rewrite Hr in H. inversion H; assumption.
  - rewrite ready_set_ready_other; [apply H | exact E].
Qed.

Lemma NoTtlDead_route s t m : NoTtlDead s -> a_expire m = None -> NoTtlDead (route s t m).
Proof.
  intros H Hm q. rewrite ready_route. destruct (declared s t && qkey_eqb (mkQK q QDead) t) eqn:E; [|apply H].
  apply andb_prop in E. destruct E as [_ E]. apply qkey_eqb_eq in E. subst t.
  rewrite Forall_forall. intros y Hy. destruct (enq_in _ _ _ Hy) as [->|Hy']; [exact Hm|].
  specialize (H q). rewrite Forall_forall in H. auto.
Qed.

Lemma expire_one_exact i s now s' : Closed s -> NoTtlDead s -> expire_one s now = Some s' -> occ i s' = occ i s /\ NoTtlDead s'.
Proof.
  intros HC HN H. unfold expire_one in H. destruct (find_expired s now (map fst (queues s))) as [[[k m] rest]|] eqn:E; [|discriminate].
  inversion H; subst. destruct (find_expired_spec _ _ _ _ _ _ E) as (Hr & e & He & _).
  pose proof (ready_declared _ _ _ _ Hr) as Hd.
  assert (Hk : exists t, dl_target k = Some t).
  { destruct k as [q kd]. destruct kd; cbn; eauto. exfalso. specialize (HN q). rewrite Hr in HN. inversion HN; subst. congruence. }
  destruct Hk as [t Ht]. split.
  - rewrite occ_dead_letter; [| apply Closed_set_ready; assumption | rewrite declared_set_ready, Hd; reflexivity].
    rewrite Ht, occ_set_ready, Hr, cntm_cons. lia.
  - unfold dead_letter. rewrite Ht. apply NoTtlDead_route; [eapply NoTtlDead_set_ready; eauto | reflexivity].
Qed.

Lemma deliver_one_NoTtlDead s s' d : NoTtlDead s -> deliver_one s = Some (s', d) -> NoTtlDead s'.
Proof.
  intros HN H. destruct (deliver_one_spec _ _ _ H) as (c & rest & Hr & _ & _ & _ & Hq & _).
  intros q. assert (Hrd : forall k, ready s' k = ready (set_ready s (c_q c) rest) k) by (intros k; unfold ready; rewrite Hq; reflexivity).
  rewrite Hrd. eapply NoTtlDead_set_ready; eauto.
Qed.

(* whatever the server does by itself at any instant - expiries, dead-lettering, deliveries - every id stays in exactly as
   many places as before *)
Theorem occ_pump fuel : forall s now i, Closed s -> NoTtlDead s -> occ i (fst (pump fuel s now)) = occ i s.
Proof.
  induction fuel as [|f IH]; intros s now i HC HN; cbn [pump fst]; [reflexivity|].
  destruct (expire_one s now) as [s'|] eqn:E.
  - destruct (expire_one_exact i s now s' HC HN E) as [Ho HN'].
    assert (HC' : Closed s').
    { unfold expire_one in E. destruct (find_expired s now (map fst (queues s))) as [[[k0 m0] rest]|] eqn:E2; [|discriminate].
      inversion E; subst. destruct (find_expired_spec _ _ _ _ _ _ E2) as [Hr _].
      apply Closed_dead_letter, Closed_set_ready; [exact HC | eapply ready_declared; eauto]. }
    rewrite (IH s' now i HC' HN'). exact Ho.
  - destruct (deliver_one s) as [[s' d]|] eqn:D; [|reflexivity].
    pose proof (occ_deliver_one i _ _ _ D) as Ho. pose proof (deliver_one_NoTtlDead _ _ _ HN D) as HN'.
    assert (HC' : Closed s').
    { destruct (deliver_one_spec _ _ _ D) as (c & rest & Hr & _ & _ & _ & Hq & _).
      intros k Hk. assert (Hdecl : forall k, declared s' k = declared (set_ready s (c_q c) rest) k) by (intros k0; unfold declared; rewrite Hq; reflexivity).
      rewrite Hdecl in Hk. pose proof (Closed_set_ready s (c_q c) rest HC (ready_declared _ _ _ _ Hr) k Hk) as H1.
      destruct (dl_target k); [rewrite Hdecl; exact H1 | exact I]. }
    specialize (IH s' now i HC' HN'). destruct (pump f s' now) as [s'' ds]. cbn [fst] in *. lia.
Qed.

Lemma enq_both_psorted m l : psorted l -> psorted (enq m l) /\ psorted (enq_front m l).
Proof. intros H. exact (conj (enq_psorted m l H) (enq_front_psorted m l H)). Qed.

(* ================= whole histories: nothing is ever duplicated ================= *)
Definition is_pub (m : meth) : bool := match m with Publish _ _ _ _ _ _ _ _ => true | _ => false end.
Definition SI (s : srv) : Prop := Closed s /\ UnackedOk s.

Lemma occ_nonneg i s : 0 <= occ i s.
Proof. unfold occ, cntu. pose proof (cntq_nonneg i (queues s)). pose proof (cntm_nonneg i (map u_msg (unacked s))). lia. Qed.

Lemma delta_nonpub s m i : is_pub m = false -> delta s m i <= 0.
Proof.
  destruct m; cbn [is_pub delta]; intros H; try discriminate; try lia.
  - destruct (take_tag tag (unacked s)) as [[u r]|]; [|lia]. unfold ind. destruct (a_id (u_msg u) =? i); lia.
  - destruct (take_tag tag (unacked s)) as [[u r]|]; [|lia]. destruct (dl_target (u_q u)); [lia|]. unfold ind. destruct (a_id (u_msg u) =? i); lia.
  - destruct (declared s k); [|lia]. pose proof (cntm_nonneg i (ready s k)). lia.
Qed.

Lemma exec_nonpub_le s now m i : SI s -> is_pub m = false -> occ i (fst (exec s now m)) <= occ i s.
Proof. intros [HC HU] H. rewrite occ_exec by assumption. pose proof (delta_nonpub s m i H). lia. Qed.

Lemma exec_pub_le s now k id prio topic hq payload pcode ex i :
  SI s -> occ i (fst (exec s now (Publish k id prio topic hq payload pcode ex))) <= occ i s + ind (id =? i).
Proof. intros [HC HU]. rewrite occ_exec by assumption. cbn [delta]. destruct (declared s k); unfold ind; destruct (id =? i); lia. Qed.

(* the invariants survive the server's own run *)
Lemma SI_pump fuel : forall s now, SI s -> SI (fst (pump fuel s now)).
Proof.
  induction fuel as [|f IH]; intros s now HS; cbn [pump fst]; [exact HS|]. destruct HS as [HC HU].
  destruct (expire_one s now) as [s'|] eqn:E.
  - apply IH. destruct (inv_expire_one s now s' HC HU E). split; assumption.
  - destruct (deliver_one s) as [[s' d]|] eqn:D; [|split; assumption].
    destruct (inv_deliver_one s s' d HC HU D) as [HC' HU']. specialize (IH s' now (conj HC' HU')).
    destruct (pump f s' now) as [s'' ds]. exact IH.
Qed.

Lemma meth_ok_nondecl s m : (forall k, m <> Declare k) -> meth_ok s m.
Proof. intros H. destruct m; cbn; auto. exfalso. eapply H. reflexivity. Qed.

(* one method followed by the server's run *)
Lemma do_meth_SI w now by_ m : SI (w_srv w) -> meth_ok (w_srv w) m -> SI (w_srv (fst (fst (do_meth w now by_ m)))).
Proof.
  intros [HC HU] Hok. unfold do_meth. destruct (exec (w_srv w) now m) as [s1 r] eqn:E.
  pose proof (inv_exec (w_srv w) now m HC HU Hok) as HI. rewrite E in HI. cbn [fst] in HI.
  pose proof (SI_pump PUMP_FUEL s1 now HI) as HP. destruct (pump PUMP_FUEL s1 now) as [s2 ds]. exact HP.
Qed.

Lemma do_meth_occ w now by_ m i : SI (w_srv w) -> meth_ok (w_srv w) m ->
  occ i (w_srv (fst (fst (do_meth w now by_ m)))) <=
  occ i (w_srv w) + match m with Publish _ id _ _ _ _ _ _ => ind (id =? i) | _ => 0 end.
Proof.
  intros HS Hok. unfold do_meth. destruct (exec (w_srv w) now m) as [s1 r] eqn:E.
  assert (H1 : occ i s1 <= occ i (w_srv w) + match m with Publish _ id _ _ _ _ _ _ => ind (id =? i) | _ => 0 end).
  { replace s1 with (fst (exec (w_srv w) now m)) by (rewrite E; reflexivity).
    destruct m; try (rewrite Z.add_0_r; apply exec_nonpub_le; [exact HS | reflexivity]). apply exec_pub_le. exact HS. }
  assert (HC1 : Closed s1).
  { destruct HS as [HC HU]. pose proof (inv_exec (w_srv w) now m HC HU Hok) as HI. rewrite E in HI. tauto. }
  pose proof (occ_pump_le PUMP_FUEL s1 now i HC1) as HP. destruct (pump PUMP_FUEL s1 now) as [s2 ds]. cbn [fst w_srv] in *. lia.
Qed.

(* callbacks never touch the server in their synchronous part, and the only method they go on to issue is a nack *)
Lemma react_srv e w now d : w_srv (fst (react e w now d)) = w_srv w /\
  match snd (react e w now d) with RNone => True | RMeth m => exists t, m = Nack t end.
Proof.
  unfold react. destruct (cl_by_ctag (d_ctag d) (w_cl w)) as [[c cs]|]; [|split; [reflexivity | exact I]].
  destruct (cs_paused cs || negb (cs_consuming cs)); [split; [reflexivity | exact I]|].
  destruct (negb (topic_ok (cs_topics cs) (a_topic (d_msg d)))); [split; [reflexivity | exact I]|].
  destruct (overdue_code e (a_pcode (d_msg d)) now && cat_eqb (cs_cat cs) Normal); cbn [fst snd w_srv]; split; auto. eexists. reflexivity.
Qed.

Definition settled_meth (m : meth) : Prop := (exists t, m = Nack t) \/ (exists t, m = Reject t).
Lemma settled_nonpub m : settled_meth m -> is_pub m = false /\ forall s, meth_ok s m.
Proof. intros [[t ->]|[t ->]]; split; try reflexivity; intros s; exact I. Qed.

Lemma react_all_srv e : forall ds w now, w_srv (fst (react_all e w now ds)) = w_srv w /\ Forall settled_meth (snd (react_all e w now ds)).
Proof.
  induction ds as [|d r IH]; intros w now; cbn [react_all]; [split; [reflexivity | constructor]|].
  destruct (react e w now d) as [w1 x] eqn:E. pose proof (react_srv e w now d) as [H1 H2]. rewrite E in H1, H2. cbn [fst snd] in H1, H2.
  destruct (react_all e w1 now r) as [w2 ms] eqn:E2. destruct (IH w1 now) as [H3 H4]. rewrite E2 in H3, H4. cbn [fst snd] in *.
  split; [congruence|]. destruct x as [|m]; [exact H4|]. constructor; [left; exact H2 | exact H4].
Qed.

(* methods that are not publishes, each followed by the server's run: the invariants stay, no id gains a place *)
Lemma do_meths_le by_ i : forall ms w now, SI (w_srv w) -> Forall settled_meth ms ->
  SI (w_srv (fst (fst (do_meths w now by_ ms)))) /\ occ i (w_srv (fst (fst (do_meths w now by_ ms)))) <= occ i (w_srv w).
Proof.
  induction ms as [|m r IH]; intros w now HS HF; cbn [do_meths]; [cbn [fst]; split; [exact HS | lia]|].
  inversion HF as [|? ? Hm Hr]; subst. destruct (settled_nonpub m Hm) as [Hp Hok].
  pose proof (do_meth_SI w now by_ m HS (Hok _)) as H1. pose proof (do_meth_occ w now by_ m i HS (Hok _)) as H2.
  destruct (do_meth w now by_ m) as [[w1 l] ds]. cbn [fst] in H1, H2.
  destruct (IH w1 now H1 Hr) as [H3 H4]. destruct (do_meths w1 now by_ r) as [[w2 ls] ds2]. cbn [fst] in *.
  split; [exact H3|]. destruct Hm as [[t ->]|[t ->]]; lia.
Qed.

Lemma settle_le e i : forall fuel w now ds, SI (w_srv w) ->
  SI (w_srv (fst (settle fuel e w now ds))) /\ occ i (w_srv (fst (settle fuel e w now ds))) <= occ i (w_srv w).
Proof.
  induction fuel as [|f IH]; intros w now ds HS; cbn [settle]; [cbn [fst]; split; [exact HS | lia]|].
  destruct ds as [|d r]; [cbn [fst]; split; [exact HS | lia]|].
  pose proof (react_all_srv e (d :: r) w now) as [H1 H2]. destruct (react_all e w now (d :: r)) as [w1 ms]. cbn [fst snd] in H1, H2.
  assert (HS1 : SI (w_srv w1)) by (rewrite H1; exact HS).
  destruct (do_meths_le Callback i ms w1 now HS1 H2) as [H3 H4]. destruct (do_meths w1 now Callback ms) as [[w2 ls] ds2]. cbn [fst] in H3, H4.
  destruct (IH w2 now ds2 H3) as [H5 H6]. destruct (settle f e w2 now ds2) as [w3 ls2]. cbn [fst] in *.
  split; [exact H5 | rewrite H1 in H4; lia].
Qed.

(* an API call's methods: every id gains at most one place per publish of that id *)
Fixpoint pubs (i : Z) (ms : list meth) : Z :=
  match ms with
  | [] => 0
  | Publish _ id _ _ _ _ _ _ :: r => ind (id =? i) + pubs i r
  | _ :: r => pubs i r
  end.

Fixpoint meths_ok (s : srv) (ms : list meth) : Prop :=
  match ms with [] => True | m :: r => (forall k, m <> Declare k) /\ meths_ok s r end.

Lemma api_meths_le e i : forall ms w now, SI (w_srv w) -> meths_ok (w_srv w) ms ->
  SI (w_srv (fst (api_meths e w now ms))) /\ occ i (w_srv (fst (api_meths e w now ms))) <= occ i (w_srv w) + pubs i ms.
Proof.
  induction ms as [|m r IH]; intros w now HS Hok; cbn [api_meths]; [cbn [fst pubs]; split; [exact HS | lia]|].
  destruct Hok as [Hnd Hr].
  pose proof (do_meth_SI w now Api m HS (meth_ok_nondecl _ _ Hnd)) as H1.
  pose proof (do_meth_occ w now Api m i HS (meth_ok_nondecl _ _ Hnd)) as H2.
  destruct (do_meth w now Api m) as [[w1 l] ds]. cbn [fst] in H1, H2.
  destruct (settle_le e i SETTLE_FUEL w1 now ds H1) as [H3 H4]. destruct (settle SETTLE_FUEL e w1 now ds) as [w2 ls]. cbn [fst] in H3, H4.
  assert (Hr2 : meths_ok (w_srv w2) r) by (clear - Hr; induction r as [|x r IH]; cbn in *; tauto).
  destruct (IH w2 now H3 Hr2) as [H5 H6]. destruct (api_meths e w2 now r) as [w3 ls2]. cbn [fst] in *.
  split; [exact H5|]. destruct m; cbn [pubs]; lia.
Qed.

(* ---- queues, once declared, stay declared ---- *)
Definition Ext (s s' : srv) : Prop := forall k, declared s k = true -> declared s' k = true.
Lemma Ext_refl s : Ext s s.  Proof. intros k H; exact H. Qed.
Lemma Ext_trans a b c : Ext a b -> Ext b c -> Ext a c.  Proof. intros H1 H2 k H. auto. Qed.

Lemma Ext_exec s now m : Ext s (fst (exec s now m)).
Proof.
  intros k0 H. destruct m as [k id prio topic hq payload pcode ex | t | t | t | n | k | ct | k | k]; cbn [exec].
  - destruct (declared s k); cbn [fst]; [rewrite declared_route|]; exact H.
  - destruct (take_tag t (unacked s)) as [[u r]|]; cbn [fst]; exact H.
  - destruct (take_tag t (unacked s)) as [[u r]|]; cbn [fst]; [rewrite declared_dead_letter|]; exact H.
  - destruct (take_tag t (unacked s)) as [[u r]|]; cbn [fst]; [rewrite declared_set_ready; change (declared (set_unacked s r) k0) with (declared s k0); rewrite H; reflexivity | exact H].
  - exact H.
  - exact H.
  - exact H.
  - cbn [fst]. destruct (qget k (queues s)) eqn:E; [exact H|].
    change (declared (set_ready s k []) k0 = true). rewrite declared_set_ready, H. reflexivity.
  - cbn [fst]. destruct (declared s k); [rewrite declared_set_ready, H; reflexivity | exact H].
Qed.

Lemma declared_after_declare s now k : declared (fst (exec s now (Declare k))) k = true.
Proof.
  cbn [exec fst]. destruct (qget k (queues s)) eqn:E; [unfold declared; cbn [queues]; rewrite E; reflexivity|].
  change (declared (set_ready s k []) k = true). rewrite declared_set_ready, qkey_eqb_refl. apply orb_true_r.
Qed.

Lemma Ext_pump fuel : forall s now, Ext s (fst (pump fuel s now)).
Proof.
  induction fuel as [|f IH]; intros s now; cbn [pump fst]; [apply Ext_refl|].
  destruct (expire_one s now) as [s'|] eqn:E.
  - eapply Ext_trans; [|apply IH]. unfold expire_one in E.
    destruct (find_expired s now (map fst (queues s))) as [[[k m] rest]|]; [|discriminate]. inversion E; subst.
    intros k0 H. rewrite declared_dead_letter, declared_set_ready, H. reflexivity.
  - destruct (deliver_one s) as [[s' d]|] eqn:D; [|apply Ext_refl].
    assert (H1 : Ext s s').
    { destruct (deliver_one_spec _ _ _ D) as (c & rest & _ & _ & _ & _ & Hq & _). intros k0 H.
      assert (Hd : declared s' k0 = declared (set_ready s (c_q c) rest) k0) by (unfold declared; rewrite Hq; reflexivity).
      rewrite Hd, declared_set_ready, H. reflexivity. }
    specialize (IH s' now). destruct (pump f s' now) as [s'' ds]. cbn [fst] in *. eapply Ext_trans; eauto.
Qed.

Lemma Ext_do_meth w now by_ m : Ext (w_srv w) (w_srv (fst (fst (do_meth w now by_ m)))).
Proof.
  unfold do_meth. pose proof (Ext_exec (w_srv w) now m) as H1. destruct (exec (w_srv w) now m) as [s1 r]. cbn [fst] in H1.
  pose proof (Ext_pump PUMP_FUEL s1 now) as H2. destruct (pump PUMP_FUEL s1 now) as [s2 ds]. cbn [fst w_srv] in *. eapply Ext_trans; eauto.
Qed.

Lemma Ext_do_meths by_ : forall ms w now, Ext (w_srv w) (w_srv (fst (fst (do_meths w now by_ ms)))).
Proof.
  induction ms as [|m r IH]; intros w now; cbn [do_meths]; [apply Ext_refl|].
  pose proof (Ext_do_meth w now by_ m) as H1. destruct (do_meth w now by_ m) as [[w1 l] ds]. cbn [fst] in H1.
  specialize (IH w1 now). destruct (do_meths w1 now by_ r) as [[w2 ls] ds2]. cbn [fst] in *. eapply Ext_trans; eauto.
Qed.

Lemma Ext_settle e : forall fuel w now ds, Ext (w_srv w) (w_srv (fst (settle fuel e w now ds))).
Proof.
  induction fuel as [|f IH]; intros w now ds; cbn [settle]; [apply Ext_refl|]. destruct ds as [|d r]; [apply Ext_refl|].
  pose proof (react_all_srv e (d :: r) w now) as [H1 _]. destruct (react_all e w now (d :: r)) as [w1 ms]. cbn [fst] in H1.
  pose proof (Ext_do_meths Callback ms w1 now) as H2. destruct (do_meths w1 now Callback ms) as [[w2 ls] ds2]. cbn [fst] in H2.
  specialize (IH w2 now ds2). destruct (settle f e w2 now ds2) as [w3 ls2]. cbn [fst] in *. rewrite H1 in H2. eapply Ext_trans; eauto.
Qed.

(* ---- repid's queue_declare: the invariants hold afterwards, nothing moves ---- *)
Lemma api_one e w now m i : SI (w_srv w) -> meth_ok (w_srv w) m ->
  SI (w_srv (fst (api_meths e w now [m]))) /\ Ext (w_srv w) (w_srv (fst (api_meths e w now [m]))) /\
  occ i (w_srv (fst (api_meths e w now [m]))) <= occ i (w_srv w) + match m with Publish _ id _ _ _ _ _ _ => ind (id =? i) | _ => 0 end /\
  Ext (fst (exec (w_srv w) now m)) (w_srv (fst (api_meths e w now [m]))).
Proof.
  intros HS Hok. cbn [api_meths].
  pose proof (do_meth_SI w now Api m HS Hok) as H1. pose proof (do_meth_occ w now Api m i HS Hok) as H2.
  pose proof (Ext_do_meth w now Api m) as H3.
  assert (H3' : Ext (fst (exec (w_srv w) now m)) (w_srv (fst (fst (do_meth w now Api m))))).
  { unfold do_meth. destruct (exec (w_srv w) now m) as [s1 r]. pose proof (Ext_pump PUMP_FUEL s1 now) as HP.
    destruct (pump PUMP_FUEL s1 now) as [s2 ds]. exact HP. }
  destruct (do_meth w now Api m) as [[w1 l] ds]. cbn [fst] in *.
  destruct (settle_le e i SETTLE_FUEL w1 now ds H1) as [H4 H5]. pose proof (Ext_settle e SETTLE_FUEL w1 now ds) as H6.
  destruct (settle SETTLE_FUEL e w1 now ds) as [w2 ls]. cbn [fst] in *.
  split; [exact H4|]. split; [eapply Ext_trans; eauto|]. split; [lia | eapply Ext_trans; eauto].
Qed.

Lemma api_meths_cons e w now m r :
  fst (api_meths e w now (m :: r)) = fst (api_meths e (fst (api_meths e w now [m])) now r).
Proof.
  cbn [api_meths]. destruct (do_meth w now Api m) as [[w1 l] ds]. destruct (settle SETTLE_FUEL e w1 now ds) as [w2 ls]. cbn [fst].
  destruct (api_meths e w2 now r) as [w3 ls2]. reflexivity.
Qed.

(* the exact effect of an acknowledgement that finds its delivery *)
Lemma api_ack_exact e w now t u r i :
  SI (w_srv w) -> take_tag t (unacked (w_srv w)) = Some (u, r) ->
  occ i (w_srv (fst (api_meths e w now [Ack t]))) <= occ i (w_srv w) - ind (a_id (u_msg u) =? i).
Proof.
  intros HS Ht. cbn [api_meths]. unfold do_meth.
  pose proof (occ_exec (w_srv w) now (Ack t) i (proj1 HS) (proj2 HS)) as He. cbn [delta] in He. rewrite Ht in He.
  pose proof (inv_exec (w_srv w) now (Ack t) (proj1 HS) (proj2 HS) I) as HI.
  destruct (exec (w_srv w) now (Ack t)) as [s1 rp]. cbn [fst] in He, HI.
  pose proof (occ_pump_le PUMP_FUEL s1 now i (proj1 HI)) as HP. pose proof (SI_pump PUMP_FUEL s1 now HI) as HS2.
  destruct (pump PUMP_FUEL s1 now) as [s2 ds]. cbn [fst] in HP, HS2.
  match goal with |- context [settle SETTLE_FUEL e ?w1 now ds] => pose proof (settle_le e i SETTLE_FUEL w1 now ds HS2) as [_ H4]; destruct (settle SETTLE_FUEL e w1 now ds) as [w2 ls] end.
  cbn [fst w_srv] in *. lia.
Qed.

Definition WI (w : world) : Prop := SI (w_srv w) /\ forall i, occ i (w_srv w) <= 1.

(* well-behaved callers: fresh ids on enqueue; requeue of a message that is held (its delivery tag is known and outstanding) *)
Definition wb_op (w : world) (o : rop) : Prop :=
  match o with
  | RPut id _ _ _ _ _ => occ id (w_srv w) = 0
  | RRequeue id _ _ _ _ _ =>
      exists t rest u r, tag_pop id (w_tags w) = (Some t, rest) /\ take_tag t (unacked (w_srv w)) = Some (u, r) /\ a_id (u_msg u) = id
  | _ => True
  end.

Lemma with_srv_same w cl tg pd : w_srv (mkW (w_srv w) cl tg pd) = w_srv w.  Proof. reflexivity. Qed.

Lemma terminal_le e w now id mk i : SI (w_srv w) -> (forall t, settled_meth (mk t) \/ mk t = Ack t) ->
  SI (w_srv (fst (terminal e w now id mk))) /\ occ i (w_srv (fst (terminal e w now id mk))) <= occ i (w_srv w).
Proof.
  intros HS Hmk. unfold terminal. destruct (tag_pop id (w_tags w)) as [[t|] rest]; [|cbn [fst]; split; [exact HS | lia]].
  set (w0 := mkW (w_srv w) (w_cl w) rest (w_pending w)).
  assert (Hok : meths_ok (w_srv w0) [mk t]).
  { cbn. split; [|exact I]. intros k Hk. destruct (Hmk t) as [[[x Hx]|[x Hx]]|Hx]; rewrite Hx in Hk; discriminate. }
  destruct (api_meths_le e i [mk t] w0 now HS Hok) as [H1 H2]. split; [exact H1|].
  assert (Hp : pubs i [mk t] = 0). { destruct (Hmk t) as [[[x Hx]|[x Hx]]|Hx]; rewrite Hx; reflexivity. }
  rewrite Hp in H2. cbn [w_srv w0] in H2. lia.
Qed.

Lemma take_loop_le e i c : forall fuel w now, SI (w_srv w) ->
  SI (w_srv (fst (fst (take_loop fuel e w now c)))) /\ occ i (w_srv (fst (fst (take_loop fuel e w now c)))) <= occ i (w_srv w).
Proof.
  induction fuel as [|f IH]; intros w now HS; cbn [take_loop]; [cbn [fst]; split; [exact HS | lia]|].
  destruct (cl_get c w) as [cs|]; [|cbn [fst]; split; [exact HS | lia]].
  destruct (cs_buf cs) as [|m r]; [cbn [fst]; split; [exact HS | lia]|].
  match goal with |- context [terminal e ?x now (a_id m) Nack] => set (w0 := x) end.
  destruct (cat_eqb (cs_cat cs) Normal && overdue_code e (a_pcode m) now); [|subst w0; cbn [fst w_srv]; split; [exact HS | lia]].
  assert (HS0 : SI (w_srv w0)) by exact HS.
  destruct (terminal_le e w0 now (a_id m) Nack i HS0) as [H1 H2]; [intros t; left; left; eexists; reflexivity|].
  destruct (terminal e w0 now (a_id m) Nack) as [w1 l1]. cbn [fst] in H1, H2.
  destruct (IH w1 now H1) as [H3 H4]. destruct (take_loop f e w1 now c) as [[w2 l2] res]. cbn [fst] in *.
  split; [exact H3|]. cbn [w_srv w0] in H2. lia.
Qed.

Lemma at_instant_le e w t i : SI (w_srv w) ->
  SI (w_srv (fst (at_instant e w t))) /\ occ i (w_srv (fst (at_instant e w t))) <= occ i (w_srv w).
Proof.
  intros HS. unfold at_instant.
  pose proof (SI_pump PUMP_FUEL (w_srv w) t HS) as H1. pose proof (occ_pump_le PUMP_FUEL (w_srv w) t i (proj1 HS)) as H2.
  destruct (pump PUMP_FUEL (w_srv w) t) as [s1 ds0]. cbn [fst] in H1, H2.
  match goal with |- context [settle SETTLE_FUEL e ?x t ds0] => set (w0 := x) end.
  destruct (settle_le e i SETTLE_FUEL w0 t ds0 H1) as [H3 H4]. destruct (settle SETTLE_FUEL e w0 t ds0) as [w1 ls0]. cbn [fst] in H3, H4.
  match goal with |- context [do_meths w1 t Callback ?x] => set (ms := x) end.
  assert (Hms : Forall settled_meth ms).
  { subst ms. apply Forall_forall. intros m Hin. apply in_map_iff in Hin. destruct Hin as [x [<- _]]. right. eexists. reflexivity. }
  destruct (do_meths_le Callback i ms w1 t H3 Hms) as [H5 H6]. destruct (do_meths w1 t Callback ms) as [[w2 ls] ds]. cbn [fst] in H5, H6.
  destruct (settle_le e i SETTLE_FUEL w2 t ds H5) as [H7 H8]. destruct (settle SETTLE_FUEL e w2 t ds) as [w3 ls2]. cbn [fst] in *.
  split; [exact H7|]. cbn [w_srv w0] in H4. lia.
Qed.

Lemma advance_le e i target : forall fuel w, SI (w_srv w) ->
  SI (w_srv (fst (advance fuel e w target))) /\ occ i (w_srv (fst (advance fuel e w target))) <= occ i (w_srv w).
Proof.
  induction fuel as [|f IH]; intros w HS; cbn [advance]; [cbn [fst]; split; [exact HS | lia]|].
  destruct (min_opt (next_expiry (queues (w_srv w))) (next_pending (w_pending w))) as [t|]; [|cbn [fst]; split; [exact HS | lia]].
  destruct (t <=? target); [|cbn [fst]; split; [exact HS | lia]].
  destruct (at_instant_le e w t i HS) as [H1 H2]. destruct (at_instant e w t) as [w1 ls]. cbn [fst] in H1, H2.
  destruct (IH w1 H1) as [H3 H4]. destruct (advance f e w1 target) as [w2 ls2]. cbn [fst] in *. split; [exact H3 | lia].
Qed.

Lemma pubs_enqueue e now id topic q prio payload pcode i : pubs i [enqueue_meth e now id topic q prio payload pcode] = ind (id =? i).
Proof. unfold enqueue_meth. cbv zeta. cbn [pubs]. lia. Qed.

Lemma run_res {A B : Type} (x : A * B) (z : Z) : fst (fst (let '(a, b) := x in (a, b, z))) = fst x.
Proof. destruct x; reflexivity. Qed.

Lemma run_res2 (x : world * list mlog) (f : world -> world * list mlog) :
  fst (fst (let '(a, b) := x in let '(c, d) := f a in (c, b ++ d, 0))) = fst (f (fst x)).
Proof. destruct x as [a b]. cbn [fst]. destruct (f a); reflexivity. Qed.

Lemma run_res3 {A : Type} (x : A * list mlog) (l1 : list mlog) (z : Z) : fst (fst (let '(a, b) := x in (a, l1 ++ b, z))) = fst x.
Proof. destruct x; reflexivity. Qed.

Lemma WI_intro w : SI (w_srv w) -> (forall i, occ i (w_srv w) <= 1) -> WI w.
Proof. intros A B. split; assumption. Qed.

(* a step that keeps the invariants and gives no id a new place keeps WI *)
Lemma WI_le w w' : WI w -> SI (w_srv w') -> (forall i, occ i (w_srv w') <= occ i (w_srv w)) -> WI w'.
Proof. intros [_ Ho] HS Hle. split; [exact HS|]. intros i. specialize (Ho i). specialize (Hle i). lia. Qed.

Lemma nd_RDeclare e w now q : WI w -> wb_op w (RDeclare q) -> WI (fst (fst (run_op e w now (RDeclare q)))).
Proof.
  (* queue_declare: <q>:dead, then <q>, then <q>:delayed - each finds its dead-letter target declared *)
  intros HW Hwb. pose proof HW as [HS Ho]. cbv beta iota zeta delta [run_op].
  rewrite run_res.
  rewrite api_meths_cons, api_meths_cons.
  generalize (fun i => api_one e w now (Declare (mkQK q QDead)) i HS I).
  generalize (fst (api_meths e w now [Declare (mkQK q QDead)])). intros w1 A1.
  assert (S1 : SI (w_srv w1)) by apply (A1 0).
  assert (D1 : declared (w_srv w1) (mkQK q QDead) = true) by (destruct (A1 0) as (_ & _ & _ & H); apply H, declared_after_declare).
  assert (Hok2 : meth_ok (w_srv w1) (Declare (mkQK q QNormal))) by exact D1.
  generalize (fun i => api_one e w1 now (Declare (mkQK q QNormal)) i S1 Hok2).
  generalize (fst (api_meths e w1 now [Declare (mkQK q QNormal)])). intros w2 A2.
  assert (S2 : SI (w_srv w2)) by apply (A2 0).
  assert (D2 : declared (w_srv w2) (mkQK q QNormal) = true) by (destruct (A2 0) as (_ & _ & _ & H); apply H, declared_after_declare).
  assert (Hok3 : meth_ok (w_srv w2) (Declare (mkQK q QDelayed))) by exact D2.
  generalize (fun i => api_one e w2 now (Declare (mkQK q QDelayed)) i S2 Hok3).
  generalize (fst (api_meths e w2 now [Declare (mkQK q QDelayed)])). intros w3 A3.
  apply (WI_le w); [exact HW | apply (A3 0)|]. intros i.
  destruct (A1 i) as (_ & _ & H1 & _). destruct (A2 i) as (_ & _ & H2 & _). destruct (A3 i) as (_ & _ & H3 & _). lia.
Qed.

Lemma nd_RAddConsumer e w now c q ct topics mx : WI w -> wb_op w (RAddConsumer c q ct topics mx) -> WI (fst (fst (run_op e w now (RAddConsumer c q ct topics mx)))).
Proof.
  intros HW Hwb. pose proof HW as [HS Ho]. cbv beta iota zeta delta [run_op].
  (* start of a consumer *)
    match goal with |- context [api_meths e ?x now ?y] => set (w0 := x); set (ms := y) end.
    assert (HS0 : SI (w_srv w0)) by exact HS.
    assert (Hok : meths_ok (w_srv w0) ms) by (subst ms; cbn; repeat split; discriminate).
    rewrite run_res.
    apply (WI_le w); [exact HW | apply (api_meths_le e 0 ms w0 now HS0 Hok)|].
    intros i. destruct (api_meths_le e i ms w0 now HS0 Hok) as [_ H]. subst ms. cbn [pubs] in H. cbn [w_srv w0] in H. lia.
Qed.

Lemma nd_RPut e w now id topic q prio payload pcode : WI w -> wb_op w (RPut id topic q prio payload pcode) -> WI (fst (fst (run_op e w now (RPut id topic q prio payload pcode)))).
Proof.
  intros HW Hwb. pose proof HW as [HS Ho]. cbv beta iota zeta delta [run_op].
  (* enqueue of a fresh id *)
    rewrite run_res.
    assert (Hok : meths_ok (w_srv w) [enqueue_meth e now id topic q prio payload pcode]) by (cbn; split; [unfold enqueue_meth; discriminate | exact I]).
    split; [apply (api_meths_le e 0 _ w now HS Hok)|]. intros i.
    destruct (api_meths_le e i _ w now HS Hok) as [_ H]. rewrite pubs_enqueue in H. cbn [wb_op] in Hwb.
    unfold ind in H. destruct (id =? i) eqn:E; [apply Z.eqb_eq in E; subst; lia | specialize (Ho i); lia].
Qed.

Lemma nd_RTake e w now c : WI w -> wb_op w (RTake c) -> WI (fst (fst (run_op e w now (RTake c)))).
Proof.
  intros HW Hwb. pose proof HW as [HS Ho]. cbv beta iota zeta delta [run_op].
  (* take *)
    apply (WI_le w); [exact HW | apply (take_loop_le e 0 c TAKE_FUEL w now HS) | intros i; apply (take_loop_le e i c TAKE_FUEL w now HS)].
Qed.

Lemma nd_RAck e w now id : WI w -> wb_op w (RAck id) -> WI (fst (fst (run_op e w now (RAck id)))).
Proof.
  intros HW Hwb. pose proof HW as [HS Ho]. cbv beta iota zeta delta [run_op].
  rewrite run_res.
    apply (WI_le w); [exact HW | apply (terminal_le e w now id Ack 0 HS); intros t; right; reflexivity
                      | intros i; apply (terminal_le e w now id Ack i HS); intros t; right; reflexivity].
Qed.

Lemma nd_RNack e w now id : WI w -> wb_op w (RNack id) -> WI (fst (fst (run_op e w now (RNack id)))).
Proof.
  intros HW Hwb. pose proof HW as [HS Ho]. cbv beta iota zeta delta [run_op].
  rewrite run_res.
    apply (WI_le w); [exact HW | apply (terminal_le e w now id Nack 0 HS); intros t; left; left; eexists; reflexivity
                      | intros i; apply (terminal_le e w now id Nack i HS); intros t; left; left; eexists; reflexivity].
Qed.

Lemma nd_RReject e w now id : WI w -> wb_op w (RReject id) -> WI (fst (fst (run_op e w now (RReject id)))).
Proof.
  intros HW Hwb. pose proof HW as [HS Ho]. cbv beta iota zeta delta [run_op].
  rewrite run_res.
    apply (WI_le w); [exact HW | apply (terminal_le e w now id Reject 0 HS); intros t; left; right; eexists; reflexivity
                      | intros i; apply (terminal_le e w now id Reject i HS); intros t; left; right; eexists; reflexivity].
Qed.

Lemma nd_RRequeue e w now id topic q prio payload pcode : WI w -> wb_op w (RRequeue id topic q prio payload pcode) -> WI (fst (fst (run_op e w now (RRequeue id topic q prio payload pcode)))).
Proof.
  intros HW Hwb. pose proof HW as [HS Ho]. cbv beta iota zeta delta [run_op].
  (* requeue of a held message: the ack takes its only place away, the publish gives it one *)
    cbn [wb_op] in Hwb. destruct Hwb as (t & rest & u & r & Hpop & Htake & Hid).
    rewrite (run_res2 (terminal e w now id Ack) (fun w1 => api_meths e w1 now [enqueue_meth e now id topic q prio payload pcode])).
    set (w1 := fst (terminal e w now id Ack)). set (ms := [enqueue_meth e now id topic q prio payload pcode]).
    assert (H1 : SI (w_srv w1) /\ forall i, occ i (w_srv w1) <= occ i (w_srv w) - ind (id =? i)).
    { subst w1. unfold terminal. rewrite Hpop. set (w0 := mkW (w_srv w) (w_cl w) rest (w_pending w)).
      assert (HS0 : SI (w_srv w0)) by exact HS.
      split; [apply (api_meths_le e 0 [Ack t] w0 now HS0); cbn; split; [discriminate | exact I]|].
      intros i. pose proof (api_ack_exact e w0 now t u r i HS0 Htake) as H. rewrite Hid in H. exact H. }
    destruct H1 as [S1 O1].
    assert (Hok : meths_ok (w_srv w1) ms) by (subst ms; cbn; split; [unfold enqueue_meth; discriminate | exact I]).
    split; [apply (api_meths_le e 0 ms w1 now S1 Hok)|]. intros i.
    destruct (api_meths_le e i ms w1 now S1 Hok) as [_ H]. subst ms. rewrite pubs_enqueue in H.
    specialize (O1 i). specialize (Ho i). lia.
Qed.

Lemma nd_RPause e w now c : WI w -> wb_op w (RPause c) -> WI (fst (fst (run_op e w now (RPause c)))).
Proof.
  intros HW Hwb. pose proof HW as [HS Ho]. cbv beta iota zeta delta [run_op].
  (* pause *)
    destruct (cl_get c w) as [cs|]; [|exact HW].
    match goal with |- context [api_meths e ?x now ?y] => set (w0 := x); set (ms := y) end.
    assert (HS0 : SI (w_srv w0)) by exact HS. assert (Hok : meths_ok (w_srv w0) ms) by (subst ms; cbn; repeat split; discriminate).
    rewrite run_res.
    apply (WI_le w); [exact HW | apply (api_meths_le e 0 ms w0 now HS0 Hok)|].
    intros i. destruct (api_meths_le e i ms w0 now HS0 Hok) as [_ H]. subst ms. cbn [pubs] in H. cbn [w_srv w0] in H. lia.
Qed.

Lemma nd_RUnpause e w now c : WI w -> wb_op w (RUnpause c) -> WI (fst (fst (run_op e w now (RUnpause c)))).
Proof.
  intros HW Hwb. pose proof HW as [HS Ho]. cbv beta iota zeta delta [run_op].
  (* unpause *)
    destruct (cl_get c w) as [cs|]; [|exact HW].
    match goal with |- context [api_meths e ?x now ?y] => set (w0 := x); set (ms := y) end.
    assert (HS0 : SI (w_srv w0)) by exact HS. assert (Hok : meths_ok (w_srv w0) ms) by (subst ms; cbn; repeat split; discriminate).
    rewrite run_res.
    apply (WI_le w); [exact HW | apply (api_meths_le e 0 ms w0 now HS0 Hok)|].
    intros i. destruct (api_meths_le e i ms w0 now HS0 Hok) as [_ H]. subst ms. cbn [pubs] in H. cbn [w_srv w0] in H. lia.
Qed.

Lemma nd_RFinish e w now c : WI w -> wb_op w (RFinish c) -> WI (fst (fst (run_op e w now (RFinish c)))).
Proof.
  intros HW Hwb. pose proof HW as [HS Ho]. cbv beta iota zeta delta [run_op].
  (* finish: cancel, then reject what is in the buffer *)
    destruct (cl_get c w) as [cs|]; [|exact HW]. destruct (cs_ctag cs) as [ct|]; [|exact HW].
    match goal with |- context [api_meths e ?x now [Cancel ct]] => set (w0 := x) end.
    assert (HS0 : SI (w_srv w0)) by exact HS.
    assert (Hok0 : meths_ok (w_srv w0) [Cancel ct]) by (cbn; repeat split; discriminate).
    destruct (api_meths_le e 0 [Cancel ct] w0 now HS0 Hok0) as [S1 _].
    assert (O1 : forall i, occ i (w_srv (fst (api_meths e w0 now [Cancel ct]))) <= occ i (w_srv w)).
    { intros i. destruct (api_meths_le e i [Cancel ct] w0 now HS0 Hok0) as [_ H]. cbn [pubs] in H. cbn [w_srv w0] in H. lia. }
    destruct (api_meths e w0 now [Cancel ct]) as [w1 l1]. cbn [fst] in S1, O1.
    match goal with |- context [api_meths e ?x now (map Reject ?y)] => set (w2 := x); set (ts := y) end.
    assert (S2 : SI (w_srv w2)) by exact S1.
    assert (Hok2 : meths_ok (w_srv w2) (map Reject ts)).
    { clearbody ts. clear. induction ts as [|t ts IH]; cbn; [exact I | split; [discriminate | exact IH]]. }
    assert (Hp : forall i, pubs i (map Reject ts) = 0) by (intros i; clearbody ts; clear; induction ts as [|t ts IH]; cbn; auto).
    rewrite run_res3.
    apply (WI_le w); [exact HW | apply (api_meths_le e 0 _ w2 now S2 Hok2)|].
    intros i. destruct (api_meths_le e i _ w2 now S2 Hok2) as [_ H]. rewrite Hp in H. specialize (O1 i). cbn [w_srv w2] in H. lia.
Qed.

Lemma nd_RTick e w now d : WI w -> wb_op w (RTick d) -> WI (fst (fst (run_op e w now (RTick d)))).
Proof.
  intros HW Hwb. pose proof HW as [HS Ho]. cbv beta iota zeta delta [run_op].
  (* time passes *)
    rewrite run_res.
    apply (WI_le w); [exact HW | apply (advance_le e 0 (now + d) ADVANCE_FUEL w HS) | intros i; apply (advance_le e i (now + d) ADVANCE_FUEL w HS)].
Qed.

Theorem rabbit_no_duplicates e w now o : WI w -> wb_op w o -> WI (fst (fst (run_op e w now o))).
Proof.
  destruct o; [apply nd_RDeclare | apply nd_RAddConsumer | apply nd_RPut | apply nd_RTake | apply nd_RAck | apply nd_RNack | apply nd_RReject
               | apply nd_RRequeue | apply nd_RPause | apply nd_RUnpause | apply nd_RFinish | apply nd_RTick].
Qed.

(* every history of well-behaved callers, from the empty server: no id is ever in two places *)
Fixpoint wb_hist (e : env) (w : world) (h : list (Z * rop)) : Prop :=
  match h with [] => True | (now, o) :: r => wb_op w o /\ wb_hist e (fst (fst (run_op e w now o))) r end.
Fixpoint run_ops (e : env) (w : world) (h : list (Z * rop)) : world :=
  match h with [] => w | (now, o) :: r => run_ops e (fst (fst (run_op e w now o))) r end.

Lemma WI_world0 : WI world0.
Proof. split; [split; [intros k H; discriminate | constructor] | intros i; vm_compute; discriminate]. Qed.

Theorem rabbit_no_duplicates_ever e h : forall w, WI w -> wb_hist e w h -> WI (run_ops e w h).
Proof.
  induction h as [|[now o] r IH]; intros w HW Hwb; cbn [run_ops]; [exact HW|]. destruct Hwb as [H1 H2].
  apply IH; [apply rabbit_no_duplicates; assumption | exact H2].
Qed.

Corollary rabbit_no_duplicates_from_empty e h : wb_hist e world0 h -> forall i, occ i (w_srv (run_ops e world0 h)) <= 1.
Proof. intros H. apply (rabbit_no_duplicates_ever e h world0 WI_world0 H). Qed.

(* the premises are satisfiable by a history in which things happen: enqueue, delivery, take, requeue of the held message
   into the delayed queue, its expiry and second delivery *)
Example wb_hist_example :
  let h := [(0, RDeclare 1); (0, RAddConsumer 1 1 Normal [] 0); (0, RPut 1 1 1 5 11 3); (0, RTake 1); (0, RRequeue 1 1 1 5 12 2);
            (0, RTick 1500000); (1500000, RTake 1); (1500000, RAck 1)] in
  wb_hist env_w world0 h /\ snd (run_w env_w world0 h) = [0; 0; 0; 1; 0; 0; 1; 0] /\ occ 1 (w_srv (run_ops env_w world0 h)) = 0.
Proof.
  cbv zeta. split; [|split; vm_compute; reflexivity].
  vm_compute. repeat (split; try reflexivity). do 4 eexists. repeat split.
Qed.
