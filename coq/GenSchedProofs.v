(* GenSchedProofs.v — the definitions generated from /repo's source (GenSched.v, regenerated on every run by
   harness/translate.py) are EQUAL to the hand-written model Sched.v: every theorem about Sched.v is a theorem about what the
   source says now.  When the source is edited these proofs are re-checked; a change of meaning breaks them. *)
From Coq Require Import ZifyBool.
From Repid Require Import Base Sched GenSched.

Theorem gen_is_overdue_eq p now : gen_is_overdue p now = overdue (p_ts p) (p_ttl p) now.
Proof. unfold gen_is_overdue, overdue. destruct (p_ttl p); reflexivity. Qed.

Theorem gen_args_bucket_is_overdue_eq p now : gen_args_bucket_is_overdue p now = overdue (p_ts p) (p_ttl p) now.
Proof. unfold gen_args_bucket_is_overdue, overdue. destruct (p_ttl p); reflexivity. Qed.

Theorem gen_result_bucket_is_overdue_eq p now : gen_result_bucket_is_overdue p now = overdue (p_ts p) (p_ttl p) now.
Proof. unfold gen_result_bucket_is_overdue, overdue. destruct (p_ttl p); reflexivity. Qed.

Theorem gen_job_is_overdue_eq p now : gen_job_is_overdue p now = overdue (p_ts p) (p_ttl p) now.
Proof. unfold gen_job_is_overdue, overdue. destruct (p_ttl p); reflexivity. Qed.

Theorem gen_compute_next_eq p now : gen_compute_next p now = compute_next p now.
Proof.
  unfold gen_compute_next, compute_next, grid_opt, grid. cbv zeta.
  destruct (d_until (p_delay p)) as [u|]; [destruct (now <? u)|]; try reflexivity; destruct (d_by (p_delay p)); reflexivity.
Qed.

Theorem gen_prepare_reschedule_eq p now : gen_prepare_reschedule p now = prepare_reschedule p now.
Proof.
  unfold gen_prepare_reschedule, prepare_reschedule, upd_tried, upd_next, upd_ts, set_tried, set_next. cbv zeta. cbn.
  rewrite gen_compute_next_eq. reflexivity.
Qed.

Theorem gen_prepare_retry_eq p now back : gen_prepare_retry p now back = prepare_retry p now back.
Proof. unfold gen_prepare_retry, prepare_retry, upd_tried, upd_next, set_tried, set_next. cbv zeta. cbn. reflexivity. Qed.

Theorem gen_backoff_eq a b m e n : gen_backoff_us a b m e n = backoff_us a b m e n.
Proof. unfold gen_backoff_us, backoff_us, backoff_s, usec_per_sec. cbv zeta. reflexivity. Qed.

Theorem gen_wait_until_mem_eq p now : gen_wait_until_mem p now = wait_until p now.
Proof. unfold gen_wait_until_mem, wait_until. cbn [orb]. rewrite gen_compute_next_eq. destruct (d_next (p_delay p)); reflexivity. Qed.

Theorem gen_wait_until_rabbit_eq p now : gen_wait_until_rabbit p now = wait_until p now.
Proof. unfold gen_wait_until_rabbit, wait_until. cbn [orb]. rewrite gen_compute_next_eq. destruct (d_next (p_delay p)); reflexivity. Qed.

Theorem gen_wait_timestamp_redis_eq p now : gen_wait_timestamp_redis p now = wait_ts_s p now.
Proof.
  unfold gen_wait_timestamp_redis, wait_ts_s, wait_until. cbn [orb]. rewrite gen_compute_next_eq.
  destruct (d_next (p_delay p)); [reflexivity|]. destruct (compute_next p now); reflexivity.
Qed.
