(* RedisProofs.v — the Redis client's programs keep every message name in exactly one place (C01, C14 on Redis), for one
   client doing one call at a time; what breaks under interleaving, early delivery and window order are refuted by witness. *)
From Repid Require Import Base Sched RedisSrv RedisBroker.

Definition ind (b : bool) : Z := if b then 1 else 0.

(* ---- keys ---- *)
Lemma lkind_eqb_eq a b : lkind_eqb a b = true <-> a = b.
Proof. destruct a, b; cbn; split; congruence. Qed.
Lemma lkey_eqb_eq a b : lkey_eqb a b = true <-> a = b.
Proof.
  destruct a as [q p k], b as [q' p' k']. unfold lkey_eqb. cbn [lq lprio lkd]. rewrite !andb_true_iff, !Z.eqb_eq, lkind_eqb_eq.
  split; [intros [[-> ->] ->]; reflexivity | intros H; inversion H; auto].
Qed.
Lemma zkey_eqb_eq a b : zkey_eqb a b = true <-> a = b.
Proof.
  destruct a as [q p|], b as [q' p'|]; cbn; try (split; congruence).
  rewrite andb_true_iff, !Z.eqb_eq. split; [intros [-> ->]; reflexivity | intros H; inversion H; auto].
Qed.
Lemma lkey_eqb_refl a : lkey_eqb a a = true.  Proof. apply lkey_eqb_eq. reflexivity. Qed.
Lemma zkey_eqb_refl a : zkey_eqb a a = true.  Proof. apply zkey_eqb_eq. reflexivity. Qed.

(* ---- association lists with a summed measure ---- *)
Section Assoc.
  Context {K V : Type} (eqb : K -> K -> bool) (eqb_eq : forall a b, eqb a b = true <-> a = b) (f : V -> Z).

  Definition asum (l : list (K * V)) : Z := fold_right (fun kv acc => f (snd kv) + acc) 0 l.
  Definition fget (k : K) (l : list (K * V)) : Z := match aget eqb k l with Some v => f v | None => 0 end.

  Lemma eqb_refl k : eqb k k = true.  Proof. apply eqb_eq. reflexivity. Qed.
  Lemma eqb_false a b : a <> b -> eqb a b = false.
  Proof. intros H. destruct (eqb a b) eqn:E; [apply eqb_eq in E; contradiction | reflexivity]. Qed.

  Lemma aget_notin k (l : list (K * V)) : ~ In k (map fst l) -> aget eqb k l = None.
  Proof.
    induction l as [|[k' v] l IH]; intros H; [reflexivity|]. cbn [aget]. cbn [map fst In] in H.
    rewrite eqb_false by (intros ->; apply H; left; reflexivity). apply IH. intros Hin. apply H. right. exact Hin.
  Qed.

  Lemma asum_aset k v l : NoDup (map fst l) -> asum (aset eqb k v l) = asum l - fget k l + f v.
  Proof.
    unfold fget. induction l as [|[k' v'] l IH]; intros Hn; cbn [aset aget asum fold_right snd]; [lia|].
    inversion Hn as [|x xs Hnot Hn']; subst. destruct (eqb k k') eqn:E.
    - cbn [asum fold_right snd]. lia.
    - cbn [asum fold_right snd]. fold (asum (aset eqb k v l)). fold (asum l). rewrite (IH Hn'). lia.
  Qed.

  Lemma asum_adel k l : NoDup (map fst l) -> asum (adel eqb k l) = asum l - fget k l.
  Proof.
    unfold fget, adel. induction l as [|[k' v'] l IH]; intros Hn; cbn [filter aget asum fold_right snd fst]; [lia|].
    inversion Hn as [|x xs Hnot Hn']; subst. destruct (eqb k k') eqn:E; cbn [negb].
    - apply eqb_eq in E. subst k'. fold (asum l). fold (asum (filter (fun kv => negb (eqb k (fst kv))) l)). rewrite (IH Hn').
      rewrite (aget_notin k l Hnot). lia.
    - cbn [asum fold_right snd]. fold (asum l). fold (asum (filter (fun kv => negb (eqb k (fst kv))) l)). rewrite (IH Hn'). lia.
  Qed.

  Lemma keys_aset k (v : V) (l : list (K * V)) : NoDup (map fst l) -> NoDup (map fst (aset eqb k v l)).
  Proof.
    induction l as [|[k' v'] l IH]; intros Hn; cbn [aset map fst]; [constructor; [intros [] | constructor]|].
    inversion Hn as [|x xs Hnot Hn']; subst. destruct (eqb k k') eqn:E; cbn [map fst].
    - apply eqb_eq in E. subst. constructor; assumption.
    - constructor; [|apply IH; exact Hn'].
      assert (G : forall y, In y (map fst (aset eqb k v l)) -> y = k \/ In y (map fst l)).
      { clear. induction l as [|[a b] l IHl]; cbn [aset map fst In]; [intros y [H|[]]; auto|].
        destruct (eqb k a); cbn [map fst In]; intros y [H|H]; auto. destruct (IHl y H); auto. }
      intros Hin. destruct (G _ Hin) as [->|H]; [rewrite eqb_refl in E; discriminate | contradiction].
  Qed.

  Lemma keys_adel k (l : list (K * V)) : NoDup (map fst l) -> NoDup (map fst (adel eqb k l)).
  Proof.
    unfold adel. induction l as [|[k' v'] l IH]; intros Hn; cbn [filter map fst]; [constructor|].
    inversion Hn as [|x xs Hnot Hn']; subst. destruct (negb (eqb k k')); [|apply IH; exact Hn']. cbn [map fst]. constructor; [|apply IH; exact Hn'].
    intros Hin. apply Hnot. apply in_map_iff in Hin. destruct Hin as [[a b] [E Hin]]. apply filter_In in Hin. destruct Hin as [Hin _].
    apply in_map_iff. exists (a, b). auto.
  Qed.

  Lemma aget_aset_same k (v : V) (l : list (K * V)) : aget eqb k (aset eqb k v l) = Some v.
  Proof. induction l as [|[k' v'] l IH]; cbn [aset aget]; [rewrite eqb_refl; reflexivity|]. destruct (eqb k k') eqn:E; cbn [aget]; rewrite ?eqb_refl, ?E; auto. Qed.
  Lemma aget_aset_other k k' (v : V) (l : list (K * V)) : k' <> k -> aget eqb k' (aset eqb k v l) = aget eqb k' l.
  Proof.
    intros Hne. induction l as [|[a b] l IH]; cbn [aset aget]; [rewrite eqb_false by exact Hne; reflexivity|].
    destruct (eqb k a) eqn:E; cbn [aget].
    - apply eqb_eq in E. subst a. rewrite eqb_false by exact Hne. reflexivity.
    - destruct (eqb k' a); [reflexivity | exact IH].
  Qed.
  Lemma aget_adel_same k (l : list (K * V)) : aget eqb k (adel eqb k l) = None.
  Proof. unfold adel. induction l as [|[a b] l IH]; cbn [filter aget fst]; [reflexivity|]. destruct (eqb k a) eqn:E; cbn [negb aget]; [exact IH | rewrite E; exact IH]. Qed.
  Lemma aget_adel_other k k' (l : list (K * V)) : k' <> k -> aget eqb k' (adel eqb k l) = aget eqb k' l.
  Proof.
    intros Hne. unfold adel. induction l as [|[a b] l IH]; cbn [filter aget fst]; [reflexivity|]. destruct (eqb k a) eqn:E; cbn [negb aget].
    - apply eqb_eq in E. subst a. rewrite eqb_false by exact Hne. exact IH.
    - destruct (eqb k' a); [reflexivity | exact IH].
  Qed.
End Assoc.

(* ---- occurrences of a message name ---- *)
Definition cntl (n : Z) (l : list Z) : Z := Z.of_nat (length (filter (Z.eqb n) l)).
Definition cntzs (n : Z) (z : list (Z * Z)) : Z := Z.of_nat (length (filter (fun e => fst e =? n) z)).
Definition occ_lists (n : Z) (s : srv) : Z := asum (cntl n) (lists s).
Definition occ_zsets (n : Z) (s : srv) : Z := asum (cntzs n) (zsets s).
Definition occ (n : Z) (s : srv) : Z := occ_lists n s + occ_zsets n s.
Definition held (n : Z) (s : srv) : Z := cntzs n (get_zset s ZProcessing).

Record WF (s : srv) : Prop := { wf_l : NoDup (map fst (lists s)); wf_z : NoDup (map fst (zsets s)) }.

Lemma cntl_nonneg n l : 0 <= cntl n l.  Proof. unfold cntl. lia. Qed.
Lemma cntzs_nonneg n z : 0 <= cntzs n z.  Proof. unfold cntzs. lia. Qed.
Lemma cntl_cons n x l : cntl n (x :: l) = ind (n =? x) + cntl n l.
Proof. unfold cntl, ind. cbn [filter]. destruct (n =? x); cbn [length]; lia. Qed.
Lemma cntl_app n a b : cntl n (a ++ b) = cntl n a + cntl n b.
Proof. unfold cntl. rewrite filter_app, app_length. lia. Qed.
Lemma cntl_nil n : cntl n [] = 0.  Proof. reflexivity. Qed.
Lemma cntl_rev n l : cntl n (rev l) = cntl n l.
Proof. induction l as [|x l IH]; [reflexivity|]. cbn [rev]. rewrite cntl_app, IH, !cntl_cons, cntl_nil. lia. Qed.

Lemma get_list_fget n s k : cntl n (get_list s k) = fget lkey_eqb (cntl n) k (lists s).
Proof. unfold get_list, fget. destruct (aget lkey_eqb k (lists s)); reflexivity. Qed.
Lemma get_zset_fget n s k : cntzs n (get_zset s k) = fget zkey_eqb (cntzs n) k (zsets s).
Proof. unfold get_zset, fget. destruct (aget zkey_eqb k (zsets s)); reflexivity. Qed.

Lemma occ_put_list n s k l : WF s -> occ n (put_list s k l) = occ n s - cntl n (get_list s k) + cntl n l.
Proof.
  intros [Hl _]. unfold occ, occ_lists, occ_zsets, put_list. cbn [lists zsets]. rewrite get_list_fget. destruct l as [|x l].
  - rewrite (asum_adel lkey_eqb lkey_eqb_eq) by exact Hl. rewrite cntl_nil. lia.
  - rewrite (asum_aset lkey_eqb) by exact Hl. lia.
Qed.
Lemma occ_put_zset n s k z : WF s -> occ n (put_zset s k z) = occ n s - cntzs n (get_zset s k) + cntzs n z.
Proof.
  intros [_ Hz]. unfold occ, occ_lists, occ_zsets, put_zset. cbn [lists zsets]. rewrite get_zset_fget. destruct z as [|x z].
  - rewrite (asum_adel zkey_eqb zkey_eqb_eq) by exact Hz. cbn. lia.
  - rewrite (asum_aset zkey_eqb) by exact Hz. lia.
Qed.
Lemma WF_put_list s k l : WF s -> WF (put_list s k l).
Proof.
  intros [Hl Hz]. constructor; cbn [put_list lists zsets]; [|exact Hz].
  destruct l; [apply (keys_adel lkey_eqb); exact Hl | apply (keys_aset lkey_eqb lkey_eqb_eq); exact Hl].
Qed.
Lemma WF_put_zset s k z : WF s -> WF (put_zset s k z).
Proof.
  intros [Hl Hz]. constructor; cbn [put_zset lists zsets]; [exact Hl|].
  destruct z; [apply (keys_adel zkey_eqb); exact Hz | apply (keys_aset zkey_eqb zkey_eqb_eq); exact Hz].
Qed.

Lemma get_zset_put_list s k l k' : get_zset (put_list s k l) k' = get_zset s k'.
Proof. reflexivity. Qed.
Lemma get_list_put_zset s k z k' : get_list (put_zset s k z) k' = get_list s k'.
Proof. reflexivity. Qed.
Lemma get_zset_put_same s k z : get_zset (put_zset s k z) k = z.
Proof.
  unfold get_zset, put_zset. cbn [zsets]. destruct z as [|x z].
  - rewrite (aget_adel_same zkey_eqb). reflexivity.
  - rewrite (aget_aset_same zkey_eqb zkey_eqb_eq). reflexivity.
Qed.
Lemma get_zset_put_other s k z k' : k' <> k -> get_zset (put_zset s k z) k' = get_zset s k'.
Proof.
  intros Hne. unfold get_zset, put_zset. cbn [zsets]. destruct z as [|x z].
  - rewrite (aget_adel_other zkey_eqb zkey_eqb_eq) by exact Hne. reflexivity.
  - rewrite (aget_aset_other zkey_eqb zkey_eqb_eq) by exact Hne. reflexivity.
Qed.
Lemma get_list_put_same s k l : get_list (put_list s k l) k = l.
Proof.
  unfold get_list, put_list. cbn [lists]. destruct l as [|x l].
  - rewrite (aget_adel_same lkey_eqb). reflexivity.
  - rewrite (aget_aset_same lkey_eqb lkey_eqb_eq). reflexivity.
Qed.

(* sorted-set primitives *)
Lemma cntzs_cons n e z : cntzs n (e :: z) = ind (fst e =? n) + cntzs n z.
Proof. unfold cntzs, ind. cbn [filter]. destruct (fst e =? n); cbn [length]; lia. Qed.
Lemma cntzs_nil n : cntzs n [] = 0.  Proof. reflexivity. Qed.

Lemma cntzs_zremove n m z : cntzs n (zremove m z) = if n =? m then 0 else cntzs n z.
Proof.
  unfold zremove. induction z as [|[a sc] z IH]; cbn [filter fst]; [rewrite cntzs_nil; destruct (n =? m); reflexivity|].
  destruct (a =? m) eqn:E1; cbn [negb]; rewrite ?cntzs_cons; cbn [fst]; rewrite IH; unfold ind.
  - apply Z.eqb_eq in E1. subst a. destruct (n =? m) eqn:E2; [reflexivity|]. rewrite Z.eqb_sym, E2. lia.
  - destruct (n =? m) eqn:E2; [|reflexivity]. apply Z.eqb_eq in E2. subst n. rewrite E1. lia.
Qed.
Lemma cntzs_zinsert n x z : cntzs n (zinsert x z) = ind (fst x =? n) + cntzs n z.
Proof.
  induction z as [|y z IH]; cbn [zinsert]; [rewrite cntzs_cons; reflexivity|].
  destruct (zlt x y); rewrite !cntzs_cons; [reflexivity|]. rewrite IH. lia.
Qed.

(* LREM -1 *)
Lemma remove_first_cnt n m l : cntl n (fst (remove_first m l)) = cntl n l - ind ((n =? m) && snd (remove_first m l)).
Proof.
  induction l as [|x l IH]; cbn [remove_first fst snd]; [rewrite andb_false_r; cbn; lia|].
  destruct (x =? m) eqn:E.
  - cbn [fst snd]. apply Z.eqb_eq in E. subst x. rewrite cntl_cons, andb_true_r. lia.
  - destruct (remove_first m l) as [r b] eqn:Er. cbn [fst snd] in *. rewrite !cntl_cons, IH. lia.
Qed.
Lemma remove_first_found m l : snd (remove_first m l) = true <-> In m l.
Proof.
  induction l as [|x l IH]; cbn [remove_first snd In]; [split; [discriminate | intros []]|].
  destruct (x =? m) eqn:E; [cbn [snd]; apply Z.eqb_eq in E; split; auto|].
  destruct (remove_first m l) as [r b]. cbn [snd] in *. rewrite IH. apply Z.eqb_neq in E. split; [auto | intros [H|H]; [congruence | exact H]].
Qed.
Lemma remove_last_cnt n m l : cntl n (fst (remove_last m l)) = cntl n l - ind ((n =? m) && snd (remove_last m l)).
Proof.
  unfold remove_last. destruct (remove_first m (rev l)) as [r b] eqn:E. cbn [fst snd].
  rewrite cntl_rev. pose proof (remove_first_cnt n m (rev l)) as H. rewrite E in H. cbn [fst snd] in H. rewrite H, cntl_rev. reflexivity.
Qed.
Lemma remove_last_found m l : snd (remove_last m l) = true <-> In m l.
Proof.
  unfold remove_last. destruct (remove_first m (rev l)) as [r b] eqn:E. cbn [snd].
  pose proof (remove_first_found m (rev l)) as H. rewrite E in H. cbn [snd] in H. rewrite H, <- in_rev. tauto.
Qed.
Lemma cntl_pos_In n l : 0 < cntl n l <-> In n l.
Proof.
  induction l as [|x l IH]; [cbn; split; [lia | intros []]|]. rewrite cntl_cons. unfold ind. destruct (n =? x) eqn:E.
  - apply Z.eqb_eq in E. subst. pose proof (cntl_nonneg x l). split; [intros _; left; reflexivity | intros _; lia].
  - apply Z.eqb_neq in E. rewrite Z.add_0_l, IH. cbn [In]. split; [intros H; right; exact H | intros [H|H]; [congruence | exact H]].
Qed.

(* ---- what one command does to the occurrences of a name ---- *)
Definition writes (c : cmd) : bool :=
  match c with LPush _ _ | RPush _ _ | LRem _ _ | ZAdd _ _ _ | ZRem _ _ => true | _ => false end.

Lemma exec_read_only s c : writes c = false -> lists (fst (exec s c)) = lists s /\ zsets (fst (exec s c)) = zsets s.
Proof.
  destruct c; cbn [writes]; try discriminate; intros _; cbn [exec];
    repeat match goal with |- context [match ?x with _ => _ end] => destruct x end; cbn; auto.
Qed.

Lemma occ_same_containers n s s' : lists s' = lists s -> zsets s' = zsets s -> occ n s' = occ n s.
Proof. intros H1 H2. unfold occ, occ_lists, occ_zsets. rewrite H1, H2. reflexivity. Qed.
Lemma WF_same_containers s s' : lists s' = lists s -> zsets s' = zsets s -> WF s -> WF s'.
Proof. intros H1 H2 [A B]. constructor; rewrite ?H1, ?H2; assumption. Qed.

Lemma WF_exec s c : WF s -> WF (fst (exec s c)).
Proof.
  intros Hw. destruct (writes c) eqn:E.
  - destruct c; try discriminate; cbn [exec].
    + apply WF_put_list, Hw.
    + apply WF_put_list, Hw.
    + destruct (remove_last m (get_list s k)). apply WF_put_list, Hw.
    + apply WF_put_zset, Hw.
    + apply WF_put_zset, Hw.
  - destruct (exec_read_only s c E) as [H1 H2]. eapply WF_same_containers; eauto.
Qed.

Lemma WF_exec_all cs : forall s, WF s -> WF (fst (exec_all s cs)).
Proof.
  induction cs as [|c cs IH]; intros s Hw; [exact Hw|]. cbn [exec_all]. destruct (exec s c) as [s1 r1] eqn:E.
  destruct (exec_all s1 cs) as [s2 r2] eqn:E2. cbn [fst]. pose proof (WF_exec s c Hw) as H1. rewrite E in H1.
  pose proof (IH s1 H1) as H2. rewrite E2 in H2. exact H2.
Qed.

Lemma occ_lpush n s k m : WF s -> occ n (fst (exec s (LPush k m))) = occ n s + ind (n =? m).
Proof. intros Hw. cbn [exec fst]. rewrite occ_put_list by exact Hw. rewrite cntl_cons. lia. Qed.
Lemma occ_rpush n s k m : WF s -> occ n (fst (exec s (RPush k m))) = occ n s + ind (n =? m).
Proof. intros Hw. cbn [exec fst]. rewrite occ_put_list by exact Hw. rewrite cntl_app, cntl_cons, cntl_nil. lia. Qed.
Lemma occ_lrem n s k m : WF s -> occ n (fst (exec s (LRem k m))) = occ n s - ind ((n =? m) && (0 <? cntl m (get_list s k))).
Proof.
  intros Hw. cbn [exec]. pose proof (remove_last_cnt n m (get_list s k)) as H. pose proof (remove_last_found m (get_list s k)) as F.
  destruct (remove_last m (get_list s k)) as [l b]. cbn [fst snd] in *. rewrite occ_put_list by exact Hw. rewrite H.
  assert (E : b = (0 <? cntl m (get_list s k))).
  { destruct b.
    - symmetry. apply Z.ltb_lt. apply cntl_pos_In. apply F. reflexivity.
    - symmetry. apply Z.ltb_ge. destruct (Z_lt_le_dec 0 (cntl m (get_list s k))) as [Hp|Hp]; [|exact Hp].
      apply cntl_pos_In, F in Hp. discriminate. }
  rewrite E. lia.
Qed.
Lemma occ_zadd n s k m sc : WF s -> occ n (fst (exec s (ZAdd k m sc))) = occ n s - (if n =? m then cntzs n (get_zset s k) else 0) + ind (n =? m).
Proof.
  intros Hw. cbn [exec fst]. rewrite occ_put_zset by exact Hw. rewrite cntzs_zinsert, cntzs_zremove. cbn [fst].
  rewrite (Z.eqb_sym m n). destruct (n =? m); unfold ind; lia.
Qed.
Lemma occ_zrem n s k m : WF s -> occ n (fst (exec s (ZRem k m))) = occ n s - (if n =? m then cntzs n (get_zset s k) else 0).
Proof. intros Hw. cbn [exec fst]. rewrite occ_put_zset by exact Hw. rewrite cntzs_zremove. destruct (n =? m); lia. Qed.

(* ---- containers a command leaves alone ---- *)
Lemma exec_all_cons s c cs : fst (exec_all s (c :: cs)) = fst (exec_all (fst (exec s c)) cs).
Proof. cbn [exec_all]. destruct (exec s c) as [s1 r1]. cbn [fst]. destruct (exec_all s1 cs) as [s2 r2]. reflexivity. Qed.
Lemma exec_all_nil s : fst (exec_all s []) = s.  Proof. reflexivity. Qed.

Definition hash_cmd (c : cmd) : bool := match c with HSetNX _ _ _ | HSet _ _ | HGet _ _ | HDel _ _ | DelH _ => true | _ => false end.
Lemma hash_cmd_containers s c : hash_cmd c = true -> lists (fst (exec s c)) = lists s /\ zsets (fst (exec s c)) = zsets s.
Proof. intros H. apply exec_read_only. destruct c; try discriminate; reflexivity. Qed.

Lemma get_zset_same_z s s' k : zsets s' = zsets s -> get_zset s' k = get_zset s k.
Proof. intros H. unfold get_zset. rewrite H. reflexivity. Qed.
Lemma get_list_same_l s s' k : lists s' = lists s -> get_list s' k = get_list s k.
Proof. intros H. unfold get_list. rewrite H. reflexivity. Qed.

(* bounds: what one container holds is part of the total *)
Lemma fget_le_asum {K V} (eqb : K -> K -> bool) (f : V -> Z) (Hf : forall v, 0 <= f v) k (l : list (K * V)) : fget eqb f k l <= asum f l.
Proof.
  unfold fget. induction l as [|[a b] l IH]; cbn [aget asum fold_right snd]; [lia|]. fold (asum f l).
  pose proof (Hf b). assert (0 <= asum f l) by (clear - Hf; induction l as [|[x y] l IH]; cbn; [lia | pose proof (Hf y); fold (asum f l); lia]).
  destruct (eqb k a); lia.
Qed.
Lemma held_le_occ n s : held n s <= occ n s.
Proof.
  unfold held, occ, occ_zsets. rewrite get_zset_fget. pose proof (fget_le_asum zkey_eqb (cntzs n) (cntzs_nonneg n) ZProcessing (zsets s)).
  assert (0 <= occ_lists n s). { unfold occ_lists. generalize (lists s). induction l as [|[x y] l IH]; cbn; [lia | pose proof (cntl_nonneg n y); fold (asum (cntl n) l); lia]. }
  lia.
Qed.
Lemma asum_nonneg {K V} (f : V -> Z) (Hf : forall v, 0 <= f v) (l : list (K * V)) : 0 <= asum f l.
Proof. induction l as [|[x y] l IH]; cbn; [lia | pose proof (Hf y); fold (asum f l); lia]. Qed.
Lemma fget2_le_asum {K V} (eqb : K -> K -> bool) (eqb_eq : forall a b, eqb a b = true <-> a = b) (f : V -> Z) (Hf : forall v, 0 <= f v)
  k k' (l : list (K * V)) : k <> k' -> fget eqb f k l + fget eqb f k' l <= asum f l.
Proof.
  intros Hne. unfold fget. induction l as [|[a b] l IH]; cbn [aget asum fold_right snd]; [lia|]. fold (asum f l).
  pose proof (Hf b). pose proof (asum_nonneg f Hf l).
  pose proof (fget_le_asum eqb f Hf k l) as A. pose proof (fget_le_asum eqb f Hf k' l) as B. unfold fget in A, B.
  destruct (eqb k a) eqn:E1, (eqb k' a) eqn:E2; try lia.
  apply eqb_eq in E1, E2. congruence.
Qed.
Lemma list_le_occ n s k : cntl n (get_list s k) + occ_zsets n s <= occ n s.
Proof. unfold occ, occ_lists. rewrite get_list_fget. pose proof (fget_le_asum lkey_eqb (cntl n) (cntl_nonneg n) k (lists s)). lia. Qed.
Lemma zset_le_occz n s k : cntzs n (get_zset s k) <= occ_zsets n s.
Proof. unfold occ_zsets. rewrite get_zset_fget. apply fget_le_asum, cntzs_nonneg. Qed.
Lemma zset2_le_occz n s k k' : k <> k' -> cntzs n (get_zset s k) + cntzs n (get_zset s k') <= occ_zsets n s.
Proof. intros H. unfold occ_zsets. rewrite !get_zset_fget. apply (fget2_le_asum zkey_eqb zkey_eqb_eq); [apply cntzs_nonneg | exact H]. Qed.
Lemma occ_lists_nonneg n s : 0 <= occ_lists n s.  Proof. apply asum_nonneg, cntl_nonneg. Qed.
Lemma occ_zsets_nonneg n s : 0 <= occ_zsets n s.  Proof. apply asum_nonneg, cntzs_nonneg. Qed.

(* ---- the transactions of the client, and what each does to a name ---- *)
Definition member_of (c : cmd) : option Z :=
  match c with LPush _ m | RPush _ m | LRem _ m | ZAdd _ m _ | ZRem _ m => Some m | _ => None end.

Lemma occ_exec_other n s c : WF s -> member_of c <> Some n -> occ n (fst (exec s c)) = occ n s.
Proof.
  intros Hw Hm. destruct (writes c) eqn:E.
  - assert (F : forall m, member_of c = Some m -> (n =? m) = false) by (intros m Hc; apply Z.eqb_neq; intros ->; congruence).
    destruct c; try discriminate; cbn [member_of] in F.
    + rewrite occ_lpush by exact Hw. rewrite (F m eq_refl). cbn. lia.
    + rewrite occ_rpush by exact Hw. rewrite (F m eq_refl). cbn. lia.
    + rewrite occ_lrem by exact Hw. rewrite (F m eq_refl). cbn. lia.
    + rewrite occ_zadd by exact Hw. rewrite (F m eq_refl). cbn. lia.
    + rewrite occ_zrem by exact Hw. rewrite (F m eq_refl). lia.
  - destruct (exec_read_only s c E) as [H1 H2]. apply occ_same_containers; assumption.
Qed.

Lemma occ_exec_all_other n cs : forall s, WF s -> Forall (fun c => member_of c <> Some n) cs -> occ n (fst (exec_all s cs)) = occ n s.
Proof.
  induction cs as [|c cs IH]; intros s Hw Hf; [reflexivity|]. inversion Hf as [|x xs Hc Hf']; subst.
  rewrite exec_all_cons, IH; [apply occ_exec_other; assumption | apply WF_exec; exact Hw | exact Hf'].
Qed.

(* every message name in at most one place *)
Definition Uniq (s : srv) : Prop := forall n, occ n s <= 1.

(* a transaction that writes only the name n keeps Uniq if it leaves n at most once *)
Lemma Uniq_tx s cs n : WF s -> Uniq s -> Forall (fun c => match member_of c with Some m => m = n | None => True end) cs ->
  occ n (fst (exec_all s cs)) <= 1 -> Uniq (fst (exec_all s cs)).
Proof.
  intros Hw Hu Hf Hn n'. destruct (Z.eq_dec n' n) as [->|Hne]; [exact Hn|].
  rewrite occ_exec_all_other; [apply Hu | exact Hw|].
  eapply Forall_impl; [|exact Hf]. intros c Hc Heq. cbv beta in Hc. rewrite Heq in Hc. congruence.
Qed.

Lemma zproc_ne_delayed q p : ZProcessing <> ZDelayed q p.  Proof. discriminate. Qed.

(* enqueue of a fresh name: exactly one place afterwards *)
Theorem enqueue_places e k pl pc now s : WF s -> occ (rk_name k) s = 0 ->
  occ (rk_name k) (fst (exec_all s (hd [] (enqueue_prog e k pl pc now)))) = 1.
Proof.
  intros Hw H0. unfold enqueue_prog. cbn [hd]. rewrite !exec_all_cons; rewrite ?exec_all_nil.
  set (s1 := fst (exec s (HSetNX (hk k) F_PAYLOAD pl))). set (s2 := fst (exec s1 (HSetNX (hk k) F_PARAMS pc))).
  destruct (hash_cmd_containers s (HSetNX (hk k) F_PAYLOAD pl) eq_refl) as [A1 A2]. fold s1 in A1, A2.
  destruct (hash_cmd_containers s1 (HSetNX (hk k) F_PARAMS pc) eq_refl) as [B1 B2]. fold s2 in B1, B2.
  assert (Hw2 : WF s2) by (eapply WF_same_containers; [| |exact Hw]; congruence).
  assert (E2 : occ (rk_name k) s2 = 0) by (rewrite (occ_same_containers _ s s2); [exact H0 | congruence | congruence]).
  unfold put_in_queue. destruct (wait_of e pc now) as [t|].
  - rewrite occ_zadd by exact Hw2. rewrite Z.eqb_refl. pose proof (zset_le_occz (rk_name k) s2 (ZDelayed (rk_q k) (rk_prio k))).
    pose proof (cntzs_nonneg (rk_name k) (get_zset s2 (ZDelayed (rk_q k) (rk_prio k)))). pose proof (occ_lists_nonneg (rk_name k) s2).
    unfold occ in *. cbn [ind]. lia.
  - rewrite occ_lpush by exact Hw2. rewrite Z.eqb_refl. cbn [ind]. lia.
Qed.

(* ack of a held message: the name is gone *)
Theorem ack_places k s : WF s -> occ (rk_name k) s = 1 -> held (rk_name k) s = 1 ->
  occ (rk_name k) (fst (exec_all s (hd [] (ack_prog k)))) = 0.
Proof.
  intros Hw H1 Hh. unfold ack_prog, unmark_processing. cbn [hd]. rewrite !exec_all_cons; rewrite ?exec_all_nil.
  set (s1 := fst (exec s (DelH (hk k)))). destruct (hash_cmd_containers s (DelH (hk k)) eq_refl) as [A1 A2]. fold s1 in A1, A2.
  assert (Hw1 : WF s1) by (eapply WF_same_containers; eauto).
  set (s2 := fst (exec s1 (ZRem ZProcessing (rk_name k)))).
  destruct (hash_cmd_containers s2 (HDel (hk k) F_REJECT) eq_refl) as [B1 B2].
  rewrite (occ_same_containers _ s2 _ B1 B2). unfold s2. rewrite occ_zrem by exact Hw1. rewrite Z.eqb_refl.
  rewrite (get_zset_same_z s s1 _ A2). fold (held (rk_name k) s). rewrite (occ_same_containers _ s s1 A1 A2). lia.
Qed.

(* nack of a held message: one place, the dead list; no longer held *)
Theorem nack_places k s : WF s -> occ (rk_name k) s = 1 -> held (rk_name k) s = 1 ->
  let s' := fst (exec_all s (hd [] (nack_prog k))) in
  occ (rk_name k) s' = 1 /\ held (rk_name k) s' = 0 /\
  cntl (rk_name k) (get_list s' (mkLK (rk_q k) (rk_prio k) LDead)) = 1.
Proof.
  intros Hw H1 Hh. cbv zeta. unfold nack_prog, unmark_processing, mark_dead. cbn [hd]. rewrite !exec_all_cons; rewrite ?exec_all_nil.
  set (n := rk_name k). set (dk := mkLK (rk_q k) (rk_prio k) LDead).
  set (s1 := fst (exec s (LPush dk n))). assert (Hw1 : WF s1) by (apply WF_exec; exact Hw).
  assert (Z1 : zsets s1 = zsets s) by reflexivity.
  set (s2 := fst (exec s1 (ZRem ZProcessing n))). assert (Hw2 : WF s2) by (apply WF_exec; exact Hw1).
  destruct (hash_cmd_containers s2 (HDel (hk k) F_REJECT) eq_refl) as [B1 B2].
  assert (O1 : occ n s1 = 2) by (unfold s1; rewrite occ_lpush by exact Hw; rewrite Z.eqb_refl; cbn [ind]; fold n in H1; lia).
  assert (O2 : occ n s2 = 1).
  { unfold s2. rewrite occ_zrem by exact Hw1. rewrite Z.eqb_refl, (get_zset_same_z s s1 _ Z1). fold (held n s). fold n in Hh. lia. }
  split; [|split].
  - rewrite (occ_same_containers _ s2 _ B1 B2). exact O2.
  - unfold held. rewrite (get_zset_same_z s2 _ _ B2). unfold s2. cbn [exec fst]. rewrite get_zset_put_same, cntzs_zremove, Z.eqb_refl. reflexivity.
  - rewrite (get_list_same_l s2 _ _ B1). unfold s2. cbn [exec fst]. rewrite get_list_put_zset. unfold s1. cbn [exec fst].
    rewrite get_list_put_same, cntl_cons, Z.eqb_refl. cbn [ind].
    (* it was nowhere else before: occ = 1 = held *)
    pose proof (list_le_occ n s dk) as L. pose proof (zset_le_occz n s ZProcessing) as Zp. fold (held n s) in Zp. fold n in H1, Hh.
    pose proof (cntl_nonneg n (get_list s dk)). lia.
Qed.

(* requeue of a held message: one place (the waiting list or the delayed set), no longer held - in ONE transaction *)
Theorem requeue_places e k pl pc now s : WF s -> occ (rk_name k) s = 1 -> held (rk_name k) s = 1 ->
  length (requeue_prog e k pl pc now) = 1%nat /\
  let s' := fst (exec_all s (hd [] (requeue_prog e k pl pc now))) in occ (rk_name k) s' = 1 /\ held (rk_name k) s' = 0.
Proof.
  intros Hw H1 Hh. split; [reflexivity|]. cbv zeta. unfold requeue_prog, unmark_processing. cbn [hd]. rewrite !exec_all_cons; rewrite ?exec_all_nil.
  set (n := rk_name k). fold n in H1, Hh.
  set (s1 := fst (exec s (HSet (hk k) [(F_PAYLOAD, pl); (F_PARAMS, pc)]))).
  destruct (hash_cmd_containers s (HSet (hk k) [(F_PAYLOAD, pl); (F_PARAMS, pc)]) eq_refl) as [A1 A2]. fold s1 in A1, A2.
  assert (Hw1 : WF s1) by (eapply WF_same_containers; eauto).
  assert (O1 : occ n s1 = 1) by (rewrite (occ_same_containers _ s s1 A1 A2); exact H1).
  assert (Hh1 : held n s1 = 1) by (unfold held; rewrite (get_zset_same_z s s1 _ A2); exact Hh).
  set (c2 := put_in_queue k (wait_of e pc now) true). set (s2 := fst (exec s1 c2)).
  assert (Hw2 : WF s2) by (apply WF_exec; exact Hw1).
  assert (P : occ n s2 = 2 /\ held n s2 = 1).
  { unfold s2, c2, put_in_queue. destruct (wait_of e pc now) as [t|].
    - split.
      + rewrite occ_zadd by exact Hw1. fold n. rewrite Z.eqb_refl. cbn [ind].
        pose proof (zset2_le_occz n s1 ZProcessing (ZDelayed (rk_q k) (rk_prio k)) (zproc_ne_delayed _ _)) as Z2.
        fold (held n s1) in Z2. pose proof (cntzs_nonneg n (get_zset s1 (ZDelayed (rk_q k) (rk_prio k)))).
        pose proof (occ_lists_nonneg n s1). unfold occ in *. lia.
      + unfold held. cbn [exec fst]. rewrite get_zset_put_other by apply zproc_ne_delayed. exact Hh1.
    - split.
      + rewrite occ_rpush by exact Hw1. fold n. rewrite Z.eqb_refl. cbn [ind]. lia.
      + unfold held. cbn [exec fst]. exact Hh1. }
  destruct P as [O2 Hh2].
  set (s3 := fst (exec s2 (ZRem ZProcessing n))).
  destruct (hash_cmd_containers s3 (HDel (hk k) F_REJECT) eq_refl) as [B1 B2].
  split.
  - rewrite (occ_same_containers _ s3 _ B1 B2). unfold s3. rewrite occ_zrem by exact Hw2. rewrite Z.eqb_refl. fold (held n s2). lia.
  - unfold held. rewrite (get_zset_same_z s3 _ _ B2). unfold s3. cbn [exec fst]. rewrite get_zset_put_same, cntzs_zremove, Z.eqb_refl. reflexivity.
Qed.

(* reject of a held message (second step): one place - the dead list if it came from there, else the waiting list (in front)
   or the delayed set by its parameters - and no longer held *)
Theorem reject_places e k pcode marker now s : WF s -> occ (rk_name k) s = 1 -> held (rk_name k) s = 1 ->
  let s' := fst (exec_all s (reject_second e k pcode marker now)) in occ (rk_name k) s' = 1 /\ held (rk_name k) s' = 0.
Proof.
  intros Hw H1 Hh. cbv zeta. unfold reject_second, unmark_processing. rewrite !exec_all_cons; rewrite ?exec_all_nil.
  set (n := rk_name k). fold n in H1, Hh.
  set (c1 := if match marker with Some m => m =? MK_DEAD | None => false end then mark_dead k
             else put_in_queue k (match pcode with Some pc => wait_of e pc now | None => None end) true).
  set (s1 := fst (exec s c1)). assert (Hw1 : WF s1) by (apply WF_exec; exact Hw).
  assert (P : occ n s1 = 2 /\ held n s1 = 1).
  { unfold s1, c1. destruct (match marker with Some m => m =? MK_DEAD | None => false end).
    - unfold mark_dead. split; [rewrite occ_lpush by exact Hw; fold n; rewrite Z.eqb_refl; cbn [ind]; lia | exact Hh].
    - unfold put_in_queue. destruct (match pcode with Some pc => wait_of e pc now | None => None end) as [t|].
      + split.
        * rewrite occ_zadd by exact Hw. fold n. rewrite Z.eqb_refl. cbn [ind].
          pose proof (zset2_le_occz n s ZProcessing (ZDelayed (rk_q k) (rk_prio k)) (zproc_ne_delayed _ _)) as Z2.
          fold (held n s) in Z2. pose proof (cntzs_nonneg n (get_zset s (ZDelayed (rk_q k) (rk_prio k)))).
          pose proof (occ_lists_nonneg n s). unfold occ in *. lia.
        * unfold held. cbn [exec fst]. rewrite get_zset_put_other by apply zproc_ne_delayed. exact Hh.
      + split; [rewrite occ_rpush by exact Hw; fold n; rewrite Z.eqb_refl; cbn [ind]; lia | exact Hh]. }
  destruct P as [O1 Hh1].
  set (s2 := fst (exec s1 (ZRem ZProcessing n))).
  destruct (hash_cmd_containers s2 (HDel (hk k) F_REJECT) eq_refl) as [B1 B2].
  split.
  - rewrite (occ_same_containers _ s2 _ B1 B2). unfold s2. rewrite occ_zrem by exact Hw1. rewrite Z.eqb_refl. fold (held n s1). lia.
  - unfold held. rewrite (get_zset_same_z s2 _ _ B2). unfold s2. cbn [exec fst]. rewrite get_zset_put_same, cntzs_zremove, Z.eqb_refl. reflexivity.
Qed.

(* the take: a name that is in the source container is removed from it and marked as being processed, in one transaction *)
Theorem grab_places_list q prio kd n now_s s : WF s -> Uniq s -> In n (get_list s (mkLK q prio kd)) ->
  let s' := fst (exec_all s (grab_cmds q prio (SList kd) n now_s)) in occ n s' = 1 /\ held n s' = 1.
Proof.
  intros Hw Hu Hin. cbv zeta. unfold grab_cmds. rewrite !exec_all_cons; rewrite ?exec_all_nil.
  set (lk := mkLK q prio kd). apply (proj2 (cntl_pos_In n (get_list s lk))) in Hin.
  pose proof (list_le_occ n s lk) as L. pose proof (Hu n) as U. pose proof (zset_le_occz n s ZProcessing) as Zp. fold (held n s) in Zp.
  pose proof (cntzs_nonneg n (get_zset s ZProcessing)) as Zn. fold (held n s) in Zn. pose proof (occ_zsets_nonneg n s).
  set (s1 := fst (exec s (LRem lk n))). assert (Hw1 : WF s1) by (apply WF_exec; exact Hw).
  assert (O1 : occ n s1 = occ n s - 1).
  { unfold s1. rewrite occ_lrem by exact Hw. rewrite Z.eqb_refl. cbn [andb]. assert (E : 0 <? cntl n (get_list s lk) = true) by (apply Z.ltb_lt; lia). rewrite E. cbn [ind]. lia. }
  assert (Hh1 : held n s1 = held n s) by (unfold held, s1; cbn [exec]; destruct (remove_last n (get_list s lk)); reflexivity).
  set (s2 := fst (exec s1 (ZAdd ZProcessing n now_s))).
  destruct (hash_cmd_containers s2 (HSet (mkHK q prio n) [(F_REJECT, marker_of (SList kd))]) eq_refl) as [B1 B2].
  split.
  - rewrite (occ_same_containers _ s2 _ B1 B2). unfold s2. rewrite occ_zadd by exact Hw1. rewrite Z.eqb_refl. fold (held n s1). cbn [ind]. lia.
  - unfold held. rewrite (get_zset_same_z s2 _ _ B2). unfold s2. cbn [exec fst]. rewrite get_zset_put_same, cntzs_zinsert, cntzs_zremove. cbn [fst].
    rewrite !Z.eqb_refl. reflexivity.
Qed.

Lemma zmem_cnt n z : zmem n z = true -> 0 < cntzs n z.
Proof.
  unfold zmem. induction z as [|e z IH]; cbn [existsb]; [discriminate|]. rewrite cntzs_cons. unfold ind. intros H. apply orb_true_iff in H.
  pose proof (cntzs_nonneg n z). destruct (fst e =? n); [lia|]. destruct H as [H|H]; [discriminate | specialize (IH H); lia].
Qed.

Theorem grab_places_delayed q prio src n now_s s : WF s -> Uniq s -> src <> SList LNormal -> src <> SList LDead ->
  zmem n (get_zset s (ZDelayed q prio)) = true ->
  let s' := fst (exec_all s (grab_cmds q prio src n now_s)) in occ n s' = 1 /\ held n s' = 1.
Proof.
  intros Hw Hu Hs1 Hs2 Hin. cbv zeta. unfold grab_cmds.
  assert (Ec : match src with SList kd => LRem (mkLK q prio kd) n | _ => ZRem (ZDelayed q prio) n end = ZRem (ZDelayed q prio) n)
    by (destruct src as [| |[|]]; try reflexivity; congruence).
  rewrite Ec. rewrite !exec_all_cons; rewrite ?exec_all_nil.
  set (zk := ZDelayed q prio). apply zmem_cnt in Hin.
  pose proof (zset2_le_occz n s ZProcessing zk (zproc_ne_delayed _ _)) as Z2. fold (held n s) in Z2.
  pose proof (Hu n) as U. pose proof (occ_lists_nonneg n s). pose proof (cntzs_nonneg n (get_zset s ZProcessing)) as Zn. fold (held n s) in Zn.
  set (s1 := fst (exec s (ZRem zk n))). assert (Hw1 : WF s1) by (apply WF_exec; exact Hw).
  assert (O1 : occ n s1 = occ n s - cntzs n (get_zset s zk)) by (unfold s1; rewrite occ_zrem by exact Hw; rewrite Z.eqb_refl; reflexivity).
  assert (Hh1 : held n s1 = held n s).
  { unfold held, s1. cbn [exec fst]. rewrite get_zset_put_other by apply zproc_ne_delayed. reflexivity. }
  set (s2 := fst (exec s1 (ZAdd ZProcessing n now_s))).
  destruct (hash_cmd_containers s2 (HSet (mkHK q prio n) [(F_REJECT, marker_of src)]) eq_refl) as [B1 B2].
  split.
  - rewrite (occ_same_containers _ s2 _ B1 B2). unfold s2. rewrite occ_zadd by exact Hw1. rewrite Z.eqb_refl. fold (held n s1). cbn [ind]. unfold occ, zk in *. lia.
  - unfold held. rewrite (get_zset_same_z s2 _ _ B2). unfold s2. cbn [exec fst]. rewrite get_zset_put_same, cntzs_zinsert, cntzs_zremove. cbn [fst].
    rewrite !Z.eqb_refl. reflexivity.
Qed.

(* the transactions write one name only: every other name stays where it is *)
Theorem tx_other_names_untouched n' cs s : WF s -> Forall (fun c => member_of c <> Some n') cs -> occ n' (fst (exec_all s cs)) = occ n' s.
Proof. intros Hw Hf. apply occ_exec_all_other; assumption. Qed.

(* cancellation: enqueue, ack, nack and requeue are ONE server step; reject is a read followed by one step - a call that is
   cut before its transaction has changed nothing, after it has done everything *)
Theorem single_step_calls e k pl pc now :
  length (enqueue_prog e k pl pc now) = 1%nat /\ length (ack_prog k) = 1%nat /\ length (nack_prog k) = 1%nat /\
  length (requeue_prog e k pl pc now) = 1%nat.
Proof. repeat split. Qed.

Theorem reject_first_step_reads_only s k : fst (exec_all s [HGet (hk k) F_PARAMS; HGet (hk k) F_REJECT]) = s.
Proof. reflexivity. Qed.

Lemma firstn_In_z (k : nat) (l : list Z) x : In x (firstn k l) -> In x l.
Proof. revert l. induction k as [|k IH]; intros l H; [destruct H|]. destruct l as [|y l]; [destruct H|]. destruct H as [H|H]; [left; exact H | right; apply IH; exact H]. Qed.
Lemma skipn_In_z (k : nat) (l : list Z) x : In x (skipn k l) -> In x l.
Proof. revert l. induction k as [|k IH]; intros l H; [exact H|]. destruct l as [|y l]; [destruct H|]. right. apply IH. exact H. Qed.

(* ================= what does NOT hold for the Redis client, and what did not before the fixes (witnesses) ================= *)
Definition env2 : env :=
  mkEnv [(1, 1); (2, 1)]
        [(100, mkParams 600000000 None (mkRetries 0 0) (mkDelay None None None) 0 None);
         (101, mkParams 600000000 None (mkRetries 0 0) (mkDelay None None (Some 1900000)) 0 None);
         (102, mkParams 600000000 None (mkRetries 0 0) (mkDelay None None None) 0 (Some 100000))].

(* C15 (since the fix): of two immediately deliverable messages of equal priority the one enqueued FIRST is taken first;
   before the fix `pick` looked at the window from its head: the newest *)
Example redis_fifo_two :
  let '(s1, _, _) := run_api env2 srv0 (ROEnqueue (mkRK 1 1 5) 11 100 1000) in
  let '(s2, _, _) := run_api env2 s1 (ROEnqueue (mkRK 2 1 5) 12 100 2000) in
  let '(_, t, _) := run_api env2 s2 (ROTake 1 Normal [] 1 3000) in
  t = TMsg 1 11 100 /\ pick_old env2 [] (get_list s2 (mkLK 1 5 LNormal)) = Some 2.
Proof. vm_compute. split; reflexivity. Qed.

(* C05 (since the fix): a message due at 1.9 s is stored under second 2 and is not found at 1.0 s nor at 1.95 s, but at 2.0 s;
   before the fix it was stored under second 1 (floor) and handed out at 1.0 s *)
Example redis_not_early :
  let '(s1, _, _) := run_api env2 srv0 (ROEnqueue (mkRK 1 1 5) 11 101 0) in
  let '(_, t1, _) := run_api env2 s1 (ROTake 1 Normal [] 1 1000000) in
  let '(_, t2, _) := run_api env2 s1 (ROTake 1 Normal [] 1 1950000) in
  let '(_, t3, _) := run_api env2 s1 (ROTake 1 Normal [] 1 2000000) in
  t1 = TNone /\ t2 = TNone /\ t3 = TMsg 1 11 101 /\
  wait_ts_s_old (mkParams 600000000 None (mkRetries 0 0) (mkDelay None None (Some 1900000)) 0 None) 0 = Some 1.
Proof. vm_compute. repeat split. Qed.

(* C14 (NOT fixed, recorded): two consumers read the same window before either removes the name: both transactions go
   through (the reply of LREM is not inspected) and both consumers obtain the message *)
Theorem redis_double_delivery_refuted :
  let '(s1, _, _) := run_api env2 srv0 (ROEnqueue (mkRK 1 1 5) 11 100 0) in
  let a := fst (fetch 5 env2 s1 1 5 (SList LNormal) [] 1 0) in
  let b := fst (fetch 5 env2 s1 1 5 (SList LNormal) [] 1 0) in
  let '(s2, ra) := exec_all s1 (grab_cmds 1 5 (SList LNormal) 1 1) in
  let '(s3, rb) := exec_all s2 (grab_cmds 1 5 (SList LNormal) 1 1) in
  a = Some 1 /\ b = Some 1 /\ hd 9 ra = 1 /\ hd 9 rb = 0 /\
  snd (exec s3 (HGet (mkHK 1 5 1) F_PAYLOAD)) = [1; 11].
Proof. vm_compute. repeat split. Qed.

(* C12 (since the fix): an expired message ends in the dead list and a dead-category consumer receives it *)
Example redis_dead_retrievable :
  let '(s1, _, _) := run_api env2 srv0 (ROEnqueue (mkRK 1 1 5) 11 102 0) in
  let '(s2, t2, _) := run_api env2 s1 (ROTake 1 Normal [] 1 5000000) in          (* expired: nacked into the dead list *)
  let '(s3, t3, _) := run_api env2 s2 (ROTake 1 DeadC [] 1 6000000) in
  t2 = TNone /\ get_list s2 (mkLK 1 5 LDead) = [1] /\ t3 = TMsg 1 11 102.
Proof. vm_compute. repeat split. Qed.

(* ---- never early (C05 on Redis): what is found by the due-window query at second floor(now) has a due time <= now ---- *)
Lemma ceil_s_le t now : ceil_s t <= now / usec_per_sec -> t <= now.
Proof.
  unfold ceil_s, usec_per_sec. intros H.
  pose proof (Z.div_mod (- t) 1000000 ltac:(lia)). pose proof (Z.mod_pos_bound (- t) 1000000 ltac:(lia)).
  pose proof (Z.div_mod now 1000000 ltac:(lia)). pose proof (Z.mod_pos_bound now 1000000 ltac:(lia)). lia.
Qed.

Theorem redis_due_score_not_early p now0 now sc : wait_ts_s p now0 = Some sc -> sc <= now / usec_per_sec ->
  exists t, wait_until p now0 = Some t /\ t <= now.
Proof.
  unfold wait_ts_s. destruct (wait_until p now0) as [t|]; [|discriminate]. intros H Hle. inversion H; subst.
  exists t. split; [reflexivity | apply ceil_s_le; exact Hle].
Qed.

(* ... and the due-window query returns only members whose score is <= the given second *)
Theorem due_window_scores s q prio mx off num n :
  In n (tl (snd (exec s (ZRangeByScore (ZDelayed q prio) mx off num)))) ->
  exists sc, In (n, sc) (get_zset s (ZDelayed q prio)) /\ sc <= mx.
Proof.
  cbn [exec snd tl]. intros H. apply firstn_In_z in H. apply skipn_In_z in H. apply in_map_iff in H. destruct H as [[m sc] [E Hin]].
  cbn [fst] in E. subst m. apply filter_In in Hin. destruct Hin as [Hin Hs]. cbn [snd] in Hs. exists sc. split; [exact Hin | apply Z.leb_le; exact Hs].
Qed.

(* ================= C15 on Redis: the list fetch takes the oldest served name, for every list length ================= *)
(* the k-th window from the tail, as the client asks for it, is the k-th chunk of ten of the list read from its tail *)
Lemma lrange_tail_window (l : list Z) (k : nat) :
  lrange l (- (10 * Z.of_nat (S k))) (- (10 * Z.of_nat k) - 1) = rev (firstn 10 (skipn (10 * k) (rev l))).
Proof.
  unfold lrange. set (n := length l).
  assert (Hs : (- (10 * Z.of_nat (S k)) <? 0) = true) by (apply Z.ltb_lt; lia). rewrite Hs.
  assert (He : (- (10 * Z.of_nat k) - 1 <? 0) = true) by (apply Z.ltb_lt; lia). rewrite He.
  rewrite skipn_rev, firstn_rev, rev_involutive. rewrite firstn_length. fold n.
  destruct (Nat.le_gt_cases n (10 * k)) as [Hle|Hgt].
  - (* the list is shorter than 10k: empty window *)
    assert (E : (Z.min (Z.of_nat n + (- (10 * Z.of_nat k) - 1)) (Z.of_nat n - 1) <? Z.max (Z.of_nat n + - (10 * Z.of_nat (S k))) 0) = true) by (apply Z.ltb_lt; lia).
    rewrite E. cbn [orb]. replace (n - 10 * k)%nat with 0%nat by lia. cbn [firstn]. reflexivity.
  - destruct (Nat.le_gt_cases (10 * S k) n) as [Hfull|Hpart].
    + assert (E1 : Z.max (Z.of_nat n + - (10 * Z.of_nat (S k))) 0 = Z.of_nat (n - 10 * S k)) by lia.
      assert (E2 : Z.min (Z.of_nat n + (- (10 * Z.of_nat k) - 1)) (Z.of_nat n - 1) = Z.of_nat (n - 10 * k) - 1) by lia.
      rewrite E1, E2.
      assert (E3 : (Z.of_nat (n - 10 * k) - 1 <? Z.of_nat (n - 10 * S k)) = false) by (apply Z.ltb_ge; lia).
      assert (E4 : (Z.of_nat n <=? Z.of_nat (n - 10 * S k)) = false) by (apply Z.leb_gt; lia).
      rewrite E3, E4. cbn [orb]. rewrite Nat2Z.id.
      replace (Z.to_nat (Z.of_nat (n - 10 * k) - 1 - Z.of_nat (n - 10 * S k) + 1)) with 10%nat by lia.
      replace (Nat.min (n - 10 * k) n) with (n - 10 * k)%nat by lia.
      replace (n - 10 * k - 10)%nat with (n - 10 * S k)%nat by lia.
      rewrite firstn_skipn_comm. f_equal. f_equal. lia.
    + assert (E1 : Z.max (Z.of_nat n + - (10 * Z.of_nat (S k))) 0 = 0) by lia.
      assert (E2 : Z.min (Z.of_nat n + (- (10 * Z.of_nat k) - 1)) (Z.of_nat n - 1) = Z.of_nat (n - 10 * k) - 1) by lia.
      rewrite E1, E2.
      assert (E3 : (Z.of_nat (n - 10 * k) - 1 <? 0) = false) by (apply Z.ltb_ge; lia).
      assert (E4 : (Z.of_nat n <=? 0) = false) by (apply Z.leb_gt; lia).
      rewrite E3, E4. cbn [orb]. cbn [Z.to_nat skipn].
      replace (Z.to_nat (Z.of_nat (n - 10 * k) - 1 - 0 + 1)) with (n - 10 * k)%nat by lia.
      replace (Nat.min (n - 10 * k) n) with (n - 10 * k)%nat by lia.
      replace (n - 10 * k - 10)%nat with 0%nat by lia. reflexivity.
Qed.

Lemma find_app {A} (P : A -> bool) a b : find P (a ++ b) = match find P a with Some x => Some x | None => find P b end.
Proof. induction a as [|x a IH]; [reflexivity|]. cbn [app find]. destruct (P x); [reflexivity | exact IH]. Qed.

Lemma skipn_skipn_z {A} (a b : nat) (l : list A) : skipn a (skipn b l) = skipn (b + a) l.
Proof. revert l. induction b as [|b IH]; intros l; [reflexivity|]. destruct l as [|x l]; [destruct a; reflexivity|]. cbn [skipn Nat.add]. apply IH. Qed.

(* the list fetch returns the OLDEST waiting name whose topic is served (the one nearest to the tail), whatever the length
   of the list - shorter or longer than the window of ten *)
Theorem fetch_list_oldest e s q prio kd topics now_s : forall fuel k,
  (length (get_list s (mkLK q prio kd)) < 10 * (k + fuel))%nat ->
  fst (fetch fuel e s q prio (SList kd) topics now_s (- (10 * Z.of_nat k)))
  = find (matches e topics) (skipn (10 * k) (rev (get_list s (mkLK q prio kd)))).
Proof.
  set (l := get_list s (mkLK q prio kd)). set (r := rev l).
  induction fuel as [|fuel IH]; intros k Hlen.
  - cbn [fetch fst]. rewrite skipn_all2; [reflexivity|]. unfold r. rewrite rev_length. lia.
  - cbn [fetch]. unfold PREFETCH.
    replace (- (10 * Z.of_nat k) - 10) with (- (10 * Z.of_nat (S k))) by lia.
    cbn [exec]. fold l. rewrite lrange_tail_window. fold r. cbn [tl].
    set (chunk := firstn 10 (skipn (10 * k) r)).
    assert (Hsplit : skipn (10 * k) r = chunk ++ skipn (10 * S k) r).
    { unfold chunk. rewrite <- (firstn_skipn 10 (skipn (10 * k) r)) at 1. f_equal. rewrite skipn_skipn_z. f_equal. lia. }
    destruct (rev chunk) as [|w ws] eqn:Ew.
    + (* empty window: nothing further towards the head *)
      cbn [fst]. assert (Ec : chunk = []) by (apply (f_equal (@rev Z)) in Ew; rewrite rev_involutive in Ew; exact Ew).
      assert (Hnil : skipn (10 * k) r = []).
      { destruct (skipn (10 * k) r) as [|x xs] eqn:Es; [reflexivity|]. unfold chunk in Ec. try rewrite Es in Ec. cbn in Ec. discriminate. }
      rewrite Hnil. reflexivity.
    + rewrite <- Ew. rewrite rev_involutive. unfold pick. rewrite Hsplit, find_app.
      destruct (find (matches e topics) chunk) as [n|] eqn:Ef; [reflexivity|].
      specialize (IH (S k)). destruct (fetch fuel e s q prio (SList kd) topics now_s (- (10 * Z.of_nat (S k)))) as [res tr] eqn:Er.
      cbn [fst] in *. apply IH. lia.
Qed.

(* in particular from the start (offset 0): the oldest served name of the whole list *)
Corollary take_list_oldest e s q prio kd topics now_s fuel :
  (length (get_list s (mkLK q prio kd)) < 10 * fuel)%nat ->
  fst (fetch fuel e s q prio (SList kd) topics now_s 0) = find (matches e topics) (rev (get_list s (mkLK q prio kd))).
Proof. intros H. pose proof (fetch_list_oldest e s q prio kd topics now_s fuel 0 ltac:(lia)) as F. cbn [Z.of_nat Z.mul Z.opp Nat.mul skipn] in F. exact F. Qed.

(* ================= C03 on Redis: a worker that dies leaves its messages marked as being processed; maintenance gives them
   back once their execution timeout has elapsed, and not before ================= *)
Theorem timed_out_iff e pc p start_s now : zassoc pc (ptab e) = Some p ->
  (timed_out e pc start_s now = true <-> p_timeout p < now - start_s * usec_per_sec).
Proof. intros H. unfold timed_out. rewrite H. apply Z.ltb_lt. Qed.

(* what maintenance decides for one entry of the processing set: reject exactly when the timeout has elapsed *)
Theorem maint_entry_decision e s n start_s now k rest pc :
  filter (fun k => hname k =? n) (map fst (hashes s)) = k :: rest ->
  snd (exec s (HGet k F_PARAMS)) = [1; pc] ->
  snd (maint_entry e s n start_s now) = if timed_out e pc start_s now then [mkRK n (hq k) (hprio k)] else [].
Proof.
  intros Hf Hg. unfold maint_entry. destruct (exec s (ScanM n)) as [s0 r1]. rewrite Hf.
  destruct (exec s (HGet k F_PARAMS)) as [s1 r2]. cbn [snd] in Hg. subst r2. reflexivity.
Qed.

(* end to end: a message taken by a worker that then dies (nothing more happens to it) with execution timeout 600 s:
   maintenance 599 s after the take leaves it marked; maintenance 601 s after the take returns it, and it is delivered again *)
Example redis_death_recovery :
  let '(s1, _, _) := run_api env2 srv0 (ROEnqueue (mkRK 1 1 5) 11 100 0) in
  let '(s2, t2, _) := run_api env2 s1 (ROTake 1 Normal [] 1 2000000) in                 (* taken at second 2; the worker dies *)
  let '(s3, _, _) := run_api env2 s2 (ROMaintenance 601000000) in                        (* 599 s later *)
  let '(s4, _, _) := run_api env2 s3 (ROMaintenance 603000000) in                        (* 601 s later *)
  let '(_, t5, _) := run_api env2 s4 (ROTake 1 Normal [] 1 604000000) in
  t2 = TMsg 1 11 100 /\ held 1 s3 = 1 /\ get_list s3 (mkLK 1 5 LNormal) = [] /\
  held 1 s4 = 0 /\ get_list s4 (mkLK 1 5 LNormal) = [1] /\ t5 = TMsg 1 11 100.
Proof. vm_compute. repeat split. Qed.
