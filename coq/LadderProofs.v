From Coq Require Import ZifyBool.
From Repid Require Import Base Sched SchedProofs Handle HandleProofs Ladder.

(* ================= C02: one terminal call per delivery ================= *)

Definition call_ok (cb : hcall * bool) : bool := negb (snd cb).
(* no broker call raises; callbacks and the result store may fail *)
Definition no_faults (calls : list (hcall * bool)) : bool := forallb call_ok calls.

Definition Inv (h : hstate) : Prop := h_ro h = false /\ h_dep h = true.

Lemma step_inv pol now sf h c bf h' evs lft :
  Inv h -> call_ok (c, bf) = true -> hstep pol now sf h c bf = (h', evs, lft) ->
  (lft = true /\ count_broker evs = 1%nat) \/ (lft = false /\ count_broker evs = 0%nat /\ Inv h').
Proof.
  intros (Hro & Hd) Hok E. unfold call_ok in Hok. simpl in Hok. destruct bf; [discriminate|].
  destruct (is_terminal_api c) eqn:Ht.
  - destruct (wanted pol h c now) as [b|] eqn:W.
    + left. destruct (callback_order pol now sf h c b Hd Ht W) as (s & d & e & Heq).
      rewrite Heq in E. inversion E; subst. split; [reflexivity|].
      change (EBroker b :: ?x) with ([EBroker b] ++ x).
      rewrite !count_broker_app, <- run_cbs_all, run_cbs_no_broker. reflexivity.
    + right. rewrite (hstep_terminal_shape _ _ _ _ _ _ Ht), W in E. inversion E; subst.
      repeat split; auto.
  - right. destruct (hstep_nonterminal _ _ _ _ _ _ _ _ _ Ht E) as (A & B & C & _ & _ & D).
    unfold Inv. rewrite A, D. auto.
Qed.

Lemma run_inv pol now sf calls : forall h h' evs lft,
  Inv h -> no_faults calls = true -> hrun pol now sf h calls = (h', evs, lft) ->
  (lft = true /\ count_broker evs = 1%nat) \/ (lft = false /\ count_broker evs = 0%nat /\ Inv h').
Proof.
  induction calls as [|[c bf] calls IH]; simpl; intros h h' evs lft HI Hnf E.
  - inversion E; subst. right. auto.
  - apply andb_true_iff in Hnf as [Hok Hnf].
    destruct (hstep pol now sf h c bf) as [[h1 evs1] lft1] eqn:E1.
    destruct (step_inv _ _ _ _ _ _ _ _ _ HI Hok E1) as [(-> & Hc1) | (-> & Hc1 & HI1)].
    + inversion E; subst. left. auto.
    + destruct (hrun pol now sf h1 calls) as [[h2 evs2] lft2] eqn:E2.
      inversion E; subst. rewrite count_broker_app, Hc1.
      destruct (IH _ _ _ _ HI1 Hnf E2) as [(-> & Hc2) | (-> & Hc2 & HI2)]; [left|right]; auto.
Qed.

Lemma final_store_no_broker p f ok : count_broker (final_store p f ok) = 0%nat.
Proof. unfold final_store. destruct (p_result p); [destruct f|]; reflexivity. Qed.

Lemma init_inv p rbb : Inv (h_init true Normal p rbb).
Proof. unfold Inv. simpl. auto. Qed.

(* exactly one terminal call, whatever the actor, its callbacks and the result store do *)
Theorem process_one_terminal pol now sf p rbb calls fin :
  no_faults calls = true -> count_broker (process pol now sf false p rbb calls fin) = 1%nat.
Proof.
  intros Hnf. unfold process.
  destruct (hrun pol now sf (h_init true Normal p rbb) calls) as [[h evs] lft] eqn:E.
  destruct (run_inv _ _ _ _ _ _ _ _ (init_inv p rbb) Hnf E) as [(-> & Hc) | (-> & Hc & _)].
  - exact Hc.
  - rewrite !count_broker_app, Hc. destruct rbb; [rewrite final_store_no_broker|]; reflexivity.
Qed.

(* after an eager response nothing comes from report_to_broker / set_result_bucket *)
Theorem eager_nothing_more pol now sf rf p rbb calls fin h evs :
  hrun pol now sf (h_init true Normal p rbb) calls = (h, evs, true) ->
  process pol now sf rf p rbb calls fin = evs.
Proof. intros E. unfold process. rewrite E. reflexivity. Qed.

(* without an eager response the single terminal call is the ladder's *)
Theorem plain_actor_trace pol now p fin :
  process pol now false false p true [] fin = EBroker (report pol p (final_success fin) now) :: final_store p fin true.
Proof. reflexivity. Qed.

(* the decision table *)
Theorem disposition_table pol p success now :
  let tried := r_tried (p_retries p) in let max := r_max (p_retries p) in
  ((exists p', decide pol p success now = DRetry p') <-> (success = false /\ tried < max)) /\
  ((exists p', decide pol p success now = DResched p') <-> (is_recurring p = true /\ (success = true \/ max <= tried))) /\
  (decide pol p success now = DAck <-> (success = true /\ is_recurring p = false)) /\
  (decide pol p success now = DNack <-> (success = false /\ max <= tried /\ is_recurring p = false)).
Proof.
  cbv zeta. unfold decide.
  destruct success; destruct (Z.ltb_spec (r_tried (p_retries p)) (r_max (p_retries p))) as [E|E];
    destruct (is_recurring p); cbn [negb andb];
    (split; [|split; [|split]]); split; intros H;
    repeat match goal with
           | H : exists _, _ |- _ => destruct H
           | H : _ /\ _ |- _ => destruct H
           | H : _ \/ _ |- _ => destruct H
           end; try discriminate; try lia; try (eexists; reflexivity); try reflexivity;
    repeat split; auto; try lia; try (left; reflexivity); try (right; lia).
Qed.

Theorem decide_retry_params pol p now :
  r_tried (p_retries p) < r_max (p_retries p) ->
  decide pol p false now = DRetry (prepare_retry p now (pol (r_tried (p_retries p) + 1))).
Proof. intros H. unfold decide. simpl. destruct (_ <? _) eqn:E; [reflexivity|lia]. Qed.

(* before the repair (fix: 54a2ceb) this was refuted: a callback raising after an eager action led to a second
   terminal call; the witness of that refutation now yields exactly one *)
Example eager_callback_failure_now_single :
  count_broker (process (fun _ => 5) 100 true false
     (mkParams 1000000 (Some (mkResultp 1 None)) (mkRetries 1 0) (mkDelay None None None) 0 None) true
     [(HAddCallback 1 true, false); (HSetResult 4, false); (HAck, false)] (FFail 3)) = 1%nat.
Proof. vm_compute. reflexivity. Qed.

(* ================= C13: result store ================= *)

Definition is_store (e : ev) : bool := match e with EStore _ _ _ _ _ => true | _ => false end.

Theorem result_matches_outcome pol now p fin r :
  p_result p = Some r ->
  process pol now false false p true [] fin =
    [EBroker (report pol p (final_success fin) now);
     match fin with FReturn v => EStore true v None (res_ttl r) true
                  | FFail e => EStore false e (Some e) (res_ttl r) true end].
Proof. intros Hr. unfold process, final_store. simpl. rewrite Hr. destruct fin; reflexivity. Qed.

Definition NoStoreInv (h : hstate) : Prop :=
  h_lazy h = None /\ forallb (fun c => match c with CbStore _ _ _ => false | _ => true end) (h_cbs h) = true.

Lemma run_cbs_no_store ttl sf l :
  forallb (fun c => match c with CbStore _ _ _ => false | _ => true end) l = true ->
  filter is_store (run_cbs ttl sf l) = [].
Proof.
  induction l as [|c l IH]; simpl; intros H; [reflexivity|].
  apply andb_true_iff in H as [H1 H2]. destruct c as [id fails|]; [|discriminate]. simpl. apply IH. exact H2.
Qed.

Lemma step_no_store pol now sf h c bf h' evs lft :
  p_result (h_p h) = None -> NoStoreInv h -> hstep pol now sf h c bf = (h', evs, lft) ->
  filter is_store evs = [] /\ NoStoreInv h' /\ h_p h' = h_p h.
Proof.
  intros Hr (Hl & Hc) E. destruct (is_terminal_api c) eqn:Ht.
  - rewrite (hstep_terminal_shape _ _ _ _ _ _ Ht) in E.
    destruct (wanted pol h c now) as [b|]; [|inversion E; subst; repeat split; auto].
    destruct bf; [inversion E; subst; repeat split; auto|].
    cbv zeta in E. rewrite Hl in E. destruct (h_dep h).
    + pose proof (run_cbs_no_store (result_ttl (h_p h)) sf (h_cbs h) Hc) as Hn.
      set (evs0 := run_cbs _ _ _) in *.
      destruct (match h_res h with Some r => r | None => (default_success c, None, None) end) as [[s d] e].
      inversion E; subst. simpl. rewrite filter_app, Hn. simpl. repeat split; auto.
    + inversion E; subst. simpl. repeat split; auto.
  - destruct c; simpl in Ht; try discriminate; simpl in E.
    + rewrite Hr in E. inversion E; subst. repeat split; auto.
    + rewrite Hr in E. inversion E; subst. repeat split; auto.
    + inversion E; subst. unfold NoStoreInv. simpl. repeat split; auto. rewrite forallb_app, Hc. reflexivity.
Qed.

Lemma run_no_store pol now sf calls : forall h h' evs lft,
  p_result (h_p h) = None -> NoStoreInv h -> hrun pol now sf h calls = (h', evs, lft) -> filter is_store evs = [].
Proof.
  induction calls as [|[c bf] calls IH]; simpl; intros h h' evs lft Hr HI E.
  - inversion E; subst. reflexivity.
  - destruct (hstep pol now sf h c bf) as [[h1 evs1] lft1] eqn:E1.
    destruct (step_no_store _ _ _ _ _ _ _ _ _ Hr HI E1) as (Hn1 & HI1 & Hp1).
    destruct lft1; [inversion E; subst; exact Hn1|].
    destruct (hrun pol now sf h1 calls) as [[h2 evs2] lft2] eqn:E2.
    inversion E; subst. rewrite filter_app, Hn1. simpl.
    apply (IH h1 h' evs2 lft); [rewrite Hp1; exact Hr | exact HI1 | exact E2].
Qed.

(* results disabled: nothing is written, whatever the actor does *)
Theorem disabled_writes_nothing pol now sf rf p rbb calls fin :
  p_result p = None -> filter is_store (process pol now sf rf p rbb calls fin) = [].
Proof.
  intros Hr. unfold process.
  destruct (hrun pol now sf (h_init true Normal p rbb) calls) as [[h evs] lft] eqn:E.
  assert (Hn : filter is_store evs = []).
  { eapply run_no_store; [| |exact E]; [exact Hr | split; reflexivity]. }
  destruct lft; [exact Hn|]. destruct rf.
  - rewrite filter_app, Hn. reflexivity.
  - rewrite !filter_app, Hn. unfold final_store. rewrite Hr. destruct rbb; reflexivity.
Qed.

(* a failing store never changes the disposition: the broker calls are the same with and without it *)
Lemma run_cbs_broker_indep ttl l : filter is_broker_ok (run_cbs ttl true l) = filter is_broker_ok (run_cbs ttl false l).
Proof. induction l as [|c l IH]; simpl; [reflexivity|]. destruct c; simpl; exact IH. Qed.

Lemma filter_broker_cbs ttl sf l : filter is_broker_ok (run_cbs ttl sf l) = [].
Proof. induction l as [|c l IH]; simpl; [reflexivity|]. destruct c; simpl; exact IH. Qed.

Lemma hstep_store_indep pol now h c bf :
  let '(h1, e1, l1) := hstep pol now true h c bf in
  let '(h2, e2, l2) := hstep pol now false h c bf in
  h1 = h2 /\ l1 = l2 /\ filter is_broker_ok e1 = filter is_broker_ok e2.
Proof.
  destruct (is_terminal_api c) eqn:Ht.
  - rewrite !(hstep_terminal_shape _ _ _ _ _ _ Ht).
    destruct (wanted pol h c now) as [b|]; [|auto]. destruct bf; [auto|]. cbv zeta.
    destruct (h_dep h); [|auto].
    destruct (match h_res h with Some r => r | None => (default_success c, None, None) end) as [[s d] e].
    repeat split. simpl. rewrite !filter_app, !filter_broker_cbs. reflexivity.
  - destruct c; simpl in Ht; try discriminate; simpl.
    + destruct (p_result (h_p h)); [destruct (h_rbb h)|]; auto.
    + destruct (p_result (h_p h)); [destruct (h_rbb h)|]; auto.
    + auto.
Qed.

Lemma hrun_store_indep pol now calls : forall h,
  let '(h1, e1, l1) := hrun pol now true h calls in
  let '(h2, e2, l2) := hrun pol now false h calls in
  h1 = h2 /\ l1 = l2 /\ filter is_broker_ok e1 = filter is_broker_ok e2.
Proof.
  induction calls as [|[c bf] calls IH]; intros h; simpl; [auto|].
  pose proof (hstep_store_indep pol now h c bf) as Hs.
  destruct (hstep pol now true h c bf) as [[h1 e1] l1]. destruct (hstep pol now false h c bf) as [[h2 e2] l2].
  destruct Hs as (-> & -> & He). destruct l2; [auto|].
  specialize (IH h2).
  destruct (hrun pol now true h2 calls) as [[h3 e3] l3]. destruct (hrun pol now false h2 calls) as [[h4 e4] l4].
  destruct IH as (-> & -> & He2). repeat split. rewrite !filter_app, He, He2. reflexivity.
Qed.

Theorem store_failure_harmless pol now rf p rbb calls fin :
  filter is_broker_ok (process pol now true rf p rbb calls fin) =
  filter is_broker_ok (process pol now false rf p rbb calls fin).
Proof.
  unfold process. pose proof (hrun_store_indep pol now calls (h_init true Normal p rbb)) as H.
  destruct (hrun pol now true _ calls) as [[h1 e1] l1]. destruct (hrun pol now false _ calls) as [[h2 e2] l2].
  destruct H as (-> & -> & He). destruct l2; [exact He|].
  destruct rf; rewrite !filter_app, He; [reflexivity|].
  f_equal. f_equal. unfold final_store. destruct rbb; [destruct (p_result p); [destruct fin|]|]; reflexivity.
Qed.

(* the bucket store is a map update: the latest store under an id wins *)
Fixpoint bucket_after (stores : list (Z * Z)) (id : Z) : option Z :=
  match stores with
  | [] => None
  | (i, v) :: rest => match bucket_after rest id with Some w => Some w | None => if i =? id then Some v else None end
  end.

Theorem latest_wins stores id v : bucket_after (stores ++ [(id, v)]) id = Some v.
Proof.
  induction stores as [|[i w] rest IH]; simpl; [rewrite Z.eqb_refl; reflexivity|]. rewrite IH. reflexivity.
Qed.

(* ================= C04: retry chains ================= *)

Lemma prepare_retry_fields p now back :
  r_tried (p_retries (prepare_retry p now back)) = r_tried (p_retries p) + 1 /\
  r_max (p_retries (prepare_retry p now back)) = r_max (p_retries p) /\
  is_recurring (prepare_retry p now back) = is_recurring p /\
  d_next (p_delay (prepare_retry p now back)) = Some (now + back) /\
  p_ts (prepare_retry p now back) = p_ts p /\ p_ttl (prepare_retry p now back) = p_ttl p.
Proof. unfold prepare_retry, is_recurring. simpl. repeat split; reflexivity. Qed.

Definition all_fail (outs : list (bool * time)) : Prop := forall o, In o outs -> fst o = false.

Definition last_decision (l : list decision) : decision := last l DAck.

(* with retries = N and every attempt failing: exactly N - tried + 1 executions, the last one
   dead-letters (or reschedules a recurring job); the k-th requeue carries tried + k *)
Theorem chain_all_fail pol : forall outs p,
  all_fail outs -> 0 <= r_tried (p_retries p) <= r_max (p_retries p) ->
  r_max (p_retries p) - r_tried (p_retries p) + 1 <= Z.of_nat (length outs) ->
  Z.of_nat (length (chain pol p outs)) = r_max (p_retries p) - r_tried (p_retries p) + 1 /\
  (last_decision (chain pol p outs) = DNack \/ exists p', last_decision (chain pol p outs) = DResched p' /\ is_recurring p = true).
Proof.
  induction outs as [|[succ now] outs IH]; intros p Hf Hb Hlen.
  - simpl in Hlen. lia.
  - assert (Hs : succ = false) by (apply (Hf (succ, now)); left; reflexivity). subst succ.
    cbn [chain]. unfold decide. cbn [negb andb].
    destruct (r_tried (p_retries p) <? r_max (p_retries p)) eqn:E.
    + set (p' := prepare_retry p now (pol (r_tried (p_retries p) + 1))).
      destruct (prepare_retry_fields p now (pol (r_tried (p_retries p) + 1))) as (Ht & Hm & Hr & _).
      fold p' in Ht, Hm, Hr.
      assert (Hf' : all_fail outs) by (intros o Ho; apply Hf; right; exact Ho).
      destruct (IH p' Hf') as (Hl & Hlast); [lia | simpl in Hlen; lia |].
      split.
      * cbn [length]. rewrite Nat2Z.inj_succ, Hl. lia.
      * unfold last_decision in *. cbn [last].
        destruct (chain pol p' outs) eqn:Ec; [simpl in Hl; lia|]. rewrite Hr in Hlast. exact Hlast.
    + cbn [andb]. destruct (is_recurring p) eqn:Er; cbn [length last_decision last]; split; try lia.
      * right. eexists. split; reflexivity.
      * left. reflexivity.
Qed.

(* the attempt counter never exceeds the budget along a chain, and grows by one per retry *)
Theorem chain_counter pol : forall outs p d,
  r_tried (p_retries p) <= r_max (p_retries p) -> In d (chain pol p outs) ->
  match d with
  | DRetry p' => r_tried (p_retries p) < r_tried (p_retries p') <= r_max (p_retries p') /\ r_max (p_retries p') = r_max (p_retries p)
  | _ => True
  end.
Proof.
  induction outs as [|[succ now] outs IH]; intros p d Hb Hin; [contradiction|].
  cbn [chain] in Hin. unfold decide in Hin.
  destruct (negb succ && (r_tried (p_retries p) <? r_max (p_retries p))) eqn:E.
  - apply andb_true_iff in E as [_ E].
    set (p' := prepare_retry p now (pol (r_tried (p_retries p) + 1))) in *.
    destruct (prepare_retry_fields p now (pol (r_tried (p_retries p) + 1))) as (Ht & Hm & _).
    fold p' in Ht, Hm. destruct Hin as [<-|Hin].
    + lia.
    + specialize (IH p' d ltac:(lia) Hin). destruct d; auto. lia.
  - destruct (is_recurring p); [|destruct succ]; destruct Hin as [<-|[]]; exact I.
Qed.

(* a success at any attempt ends the chain with an ack (or the reschedule of a recurring job) *)
Theorem chain_success_stops pol p now rest :
  chain pol p ((true, now) :: rest) = [if is_recurring p then DResched (prepare_reschedule p now) else DAck].
Proof. cbn [chain]. unfold decide. simpl. destruct (is_recurring p); reflexivity. Qed.

(* the k-th retry carries next_execution_time = failure instant + policy(k) *)
Theorem retry_due pol p now rest :
  r_tried (p_retries p) < r_max (p_retries p) ->
  exists p', chain pol p ((false, now) :: rest) = DRetry p' :: chain pol p' rest /\
             d_next (p_delay p') = Some (now + pol (r_tried (p_retries p) + 1)) /\
             r_tried (p_retries p') = r_tried (p_retries p) + 1.
Proof.
  intros H. cbn [chain]. unfold decide. simpl. destruct (_ <? _) eqn:E; [|lia].
  eexists. split; [reflexivity|]. simpl. auto.
Qed.

(* a delayed message is filed under its next_execution_time by every broker's wait_until *)
Theorem retry_filed_under_due p now back now' :
  wait_until (prepare_retry p now back) now' = Some (now + back).
Proof. reflexivity. Qed.

Example chain_example :
  chain_obs (PolConst 7, mkParams 1 None (mkRetries 2 0) (mkDelay None None None) 0 None,
             [(false, 10); (false, 20); (false, 30); (false, 40)])
  = [1; 1; 0; 2; 1; 0; 0; 1; 17; 0; 0;  1; 1; 0; 2; 2; 0; 0; 1; 27; 0; 0;  4].
Proof. vm_compute. reflexivity. Qed.

(* ================= C06: recurring jobs ================= *)

Theorem one_successor pol p success now :
  is_recurring p = true -> (success = true \/ r_max (p_retries p) <= r_tried (p_retries p)) ->
  report pol p success now = BRequeue (prepare_reschedule p now).
Proof.
  intros Hr Hs. unfold report, decide. rewrite Hr.
  destruct success; simpl; [reflexivity|]. destruct Hs as [Hs|Hs]; [discriminate|].
  destruct (_ <? _) eqn:E; [lia|reflexivity].
Qed.

Theorem successor_reset p now :
  let p' := prepare_reschedule p now in
  r_tried (p_retries p') = 0 /\ r_max (p_retries p') = r_max (p_retries p) /\ p_ts p' = now /\
  p_ttl p' = p_ttl p /\ p_timeout p' = p_timeout p /\ p_result p' = p_result p /\
  d_by (p_delay p') = d_by (p_delay p) /\ d_until (p_delay p') = d_until (p_delay p) /\
  d_next (p_delay p') = compute_next p now.
Proof. cbv zeta. unfold prepare_reschedule. simpl. repeat split. Qed.

Theorem successor_window p now by_ :
  d_by (p_delay p) = Some by_ -> 0 < by_ ->
  exists t, d_next (p_delay (prepare_reschedule p now)) = Some t /\
    ((exists u, d_until (p_delay p) = Some u /\ now < u /\ t = u) \/
     (now < t <= now + by_ /\ exists k, t = p_ts p + k * by_)).
Proof.
  intros Hb Hpos. simpl. unfold compute_next, grid_opt. rewrite Hb.
  destruct (d_until (p_delay p)) as [u|].
  - destruct (now <? u) eqn:E.
    + exists u. split; [reflexivity|]. left. exists u. repeat split; lia.
    + eexists. split; [reflexivity|]. right. split; [apply grid_bounds; exact Hpos | apply grid_on_grid].
  - eexists. split; [reflexivity|]. right. split; [apply grid_bounds; exact Hpos | apply grid_on_grid].
Qed.

(* the successor is strictly in the future, so the slot that just ran never runs again *)
Theorem no_slot_twice p now by_ sched :
  d_by (p_delay p) = Some by_ -> 0 < by_ -> sched <= now ->
  exists t, d_next (p_delay (prepare_reschedule p now)) = Some t /\ sched < t /\ now < t.
Proof.
  intros Hb Hpos Hs. destruct (successor_window p now by_ Hb Hpos) as (t & Ht & [(u & _ & Hu & Htu) | (Hw & _)]);
    exists t; repeat split; auto; lia.
Qed.

Theorem first_run_deferred p now u :
  d_next (p_delay p) = None -> d_until (p_delay p) = Some u -> now < u -> wait_until p now = Some u.
Proof. intros Hn Hu Hlt. unfold wait_until. rewrite Hn. apply next_deferred; assumption. Qed.

(* exact condition for "at least one full period after the slot that just ran":
   ts = instant of the previous reschedule (the time base), sched in (ts, ts+by] the slot that ran, now >= sched *)
Theorem cadence_iff ts by_ sched now :
  0 < by_ -> ts < sched <= ts + by_ -> sched <= now ->
  (sched + by_ <= grid ts by_ now <-> by_ <= now - ts).
Proof.
  intros Hpos Hs Hn. unfold grid.
  pose proof (Z.div_mod (now - ts) by_ ltac:(lia)) as Hdm.
  pose proof (Z.mod_pos_bound (now - ts) by_ Hpos) as Hb.
  set (q := (now - ts) / by_) in *. set (r := (now - ts) mod by_) in *.
  split; intros H.
  - assert (1 <= q) by nia. nia.
  - assert (1 <= q) by nia. nia.
Qed.

(* the full cadence claim is false of the faithful model: period 10 s, completions at 13 s and 21 s
   give slots at 20 s and 23 s *)
Theorem cadence_refuted :
  exists ts by_ sched now, 0 < by_ /\ ts < sched <= ts + by_ /\ sched <= now /\ grid ts by_ now < sched + by_.
Proof. exists 13000000, 10000000, 20000000, 21000000. vm_compute. repeat split; discriminate. Qed.

(* the same happens after a first run at deferred_until (off the grid of the timestamp):
   timestamp 0.525760 s, period 1 s, first slot deferred_until = 4.374151 s, completion at the slot *)
Theorem cadence_after_deferred_until_refuted :
  exists ts by_ sched now, 0 < by_ /\ ts < sched /\ sched <= now /\ grid ts by_ now < sched + by_.
Proof. exists 525760, 1000000, 4374151, 4374151. vm_compute. repeat split; discriminate. Qed.

(* a slot that lies on the grid of the current time base keeps the cadence, however late the run *)
Theorem cadence_aligned ts by_ k now :
  0 < by_ -> ts + k * by_ <= now -> ts + k * by_ + by_ <= grid ts by_ now.
Proof.
  intros Hpos Hn. unfold grid.
  pose proof (Z.div_mod (now - ts) by_ ltac:(lia)) as Hdm.
  pose proof (Z.mod_pos_bound (now - ts) by_ Hpos) as Hb.
  set (q := (now - ts) / by_) in *. set (r := (now - ts) mod by_) in *.
  assert (k <= q) by nia. nia.
Qed.

(* it holds whenever consecutive completions are at least one period apart *)
Theorem cadence_partial ts by_ sched now :
  0 < by_ -> ts < sched <= ts + by_ -> sched <= now -> by_ <= now - ts -> sched + by_ <= grid ts by_ now.
Proof. intros. apply cadence_iff; assumption. Qed.

(* the restarted time-to-live clock: a rescheduled message is not overdue before now + ttl *)
Theorem reschedule_restarts_clock p now t now' :
  p_ttl p = Some t -> now' <= now + t ->
  overdue (p_ts (prepare_reschedule p now)) (p_ttl (prepare_reschedule p now)) now' = false.
Proof. intros Ht Hle. simpl. rewrite Ht. unfold overdue. lia. Qed.

Theorem retry_keeps_clock p now back :
  p_ts (prepare_retry p now back) = p_ts p /\ p_ttl (prepare_retry p now back) = p_ttl p.
Proof. split; reflexivity. Qed.
