(* MemBroker.v — the in-memory message broker and consumer, effect level.
   Mirrors repid/connections/in_memory/message_broker.py (enqueue/__put, ack, nack, reject, requeue),
   consumer.py (__update_delayed, __consume_normal/_delayed/_dead, consume, finish) and utils.py
   (DummyQueue with taken_from / taken_by / put_back, wait_until) at /repo HEAD (with fixes 60dc6fd,
   09419a9, ee1e1bb and the full-turn __consume_normal).

   Every broker call is `await sleep(0); <one synchronous block>; await sleep(0)`: the block is one
   atomic effect and a cancelled call has performed it entirely or not at all.  One *poll* of
   consume() is one effect as well.  All queues live in one state: per-queue containers are the
   sub-lists of messages carrying that queue (order preserved), which is what the per-queue
   asyncio.Queue / dict / list / set of the code are.

   Ghost fields (not in the code, used by the theorems): m_due = the instant under which the message
   was filed when it was put (None: immediately deliverable); m_stamp = arrival stamp in the waiting
   list; the `gone` list of acknowledged / replaced messages; the clock high-water mark. *)
From Repid Require Import Base Sched.

Record msg := mkMsg {
  m_id : Z; m_topic : Z; m_queue : Z; m_prio : Z; m_payload : Z; m_params : params;
  m_due : option time;      (* ghost *)
  m_stamp : Z               (* ghost *)
}.

Inductive origin := ONormal | ODead | ODelayed (k : time).

Record held := mkHeld { hd_msg : msg; hd_origin : origin; hd_owner : Z }.

Record dentry := mkD { de_queue : Z; de_key : time; de_msgs : list msg }.

Record mstate := mkS {
  simple : list msg;            (* waiting, all queues, arrival order *)
  delayed : list dentry;        (* delayed dicts of all queues, key insertion order *)
  dead : list msg;
  processing : list held;
  gone : list msg;              (* ghost: acknowledged or replaced *)
  stamp : Z;                    (* ghost: next arrival stamp *)
  clk : time                    (* ghost: latest instant seen *)
}.

Definition s0 : mstate := mkS [] [] [] [] [] 0 0.

Definition with_stamp (m : msg) (st : Z) : msg :=
  mkMsg (m_id m) (m_topic m) (m_queue m) (m_prio m) (m_payload m) (m_params m) (m_due m) st.
Definition with_due (m : msg) (d : option time) : msg :=
  mkMsg (m_id m) (m_topic m) (m_queue m) (m_prio m) (m_payload m) (m_params m) d (m_stamp m).

(* ---- containers ---- *)
Definition is_id (i : Z) (m : msg) : bool := m_id m =? i.
Definition in_queue (q : Z) (m : msg) : bool := m_queue m =? q.

(* delayed.setdefault(key, []).append(msg) *)
Fixpoint d_add (q : Z) (k : time) (m : msg) (d : list dentry) : list dentry :=
  match d with
  | [] => [mkD q k [m]]
  | e :: r => if (de_queue e =? q) && (de_key e =? k) then mkD q k (de_msgs e ++ [m]) :: r else e :: d_add q k m r
  end.

(* first element satisfying P, and the list without it *)
Fixpoint take_first {A} (P : A -> bool) (l : list A) : option (A * list A) :=
  match l with
  | [] => None
  | x :: r => if P x then Some (x, r)
              else match take_first P r with Some (y, r') => Some (y, x :: r') | None => None end
  end.

(* ---- effects ---- *)
Definition append_simple (s : mstate) (m : msg) : mstate :=
  mkS (simple s ++ [with_stamp m (stamp s)]) (delayed s) (dead s) (processing s) (gone s) (stamp s + 1) (clk s).

(* __put: file under wait_until, else append to the waiting list *)
Definition put (s : mstate) (m : msg) (now : time) : mstate :=
  match wait_until (m_params m) now with
  | Some d => mkS (simple s) (d_add (m_queue m) d (with_due m (Some d)) (delayed s)) (dead s) (processing s) (gone s) (stamp s) (clk s)
  | None => append_simple s (with_due m None)
  end.

(* DummyQueue.put_back *)
Definition put_back (s : mstate) (h : held) : mstate :=
  let m := hd_msg h in
  match hd_origin h with
  | ONormal => append_simple s m
  | ODead => mkS (simple s) (delayed s) (dead s ++ [m]) (processing s) (gone s) (stamp s) (clk s)
  | ODelayed k => mkS (simple s) (d_add (m_queue m) k m (delayed s)) (dead s) (processing s) (gone s) (stamp s) (clk s)
  end.

Definition is_held (i q : Z) (h : held) : bool := (m_id (hd_msg h) =? i) && (m_queue (hd_msg h) =? q).

Definition set_processing (s : mstate) (p : list held) : mstate :=
  mkS (simple s) (delayed s) (dead s) p (gone s) (stamp s) (clk s).

(* __update_delayed for queue q: entries with key < now move to the waiting list, in dict order *)
Fixpoint due_split (q : Z) (now : time) (d : list dentry) : list msg * list dentry :=
  match d with
  | [] => ([], [])
  | e :: r => let '(mv, keep) := due_split q now r in
              if (de_queue e =? q) && (de_key e <? now) then (de_msgs e ++ mv, keep) else (mv, e :: keep)
  end.

Definition update_delayed (s : mstate) (q : Z) (now : time) : mstate :=
  let '(mv, keep) := due_split q now (delayed s) in
  fold_left append_simple mv (mkS (simple s) keep (dead s) (processing s) (gone s) (stamp s) (clk s)).

(* min(self._queue.delayed) among the entries of queue q *)
Fixpoint min_key (q : Z) (d : list dentry) : option time :=
  match d with
  | [] => None
  | e :: r => if de_queue e =? q
              then match min_key q r with Some k => Some (Z.min (de_key e) k) | None => Some (de_key e) end
              else min_key q r
  end.

(* pop the first message of the entry (q, k); the entry disappears when it becomes empty *)
Fixpoint d_pop (q : Z) (k : time) (d : list dentry) : option (msg * list dentry) :=
  match d with
  | [] => None
  | e :: r =>
      if (de_queue e =? q) && (de_key e =? k) then
        match de_msgs e with
        | [] => None
        | [m] => Some (m, r)
        | m :: ms => Some (m, mkD q k ms :: r)
        end
      else match d_pop q k r with Some (m, r') => Some (m, e :: r') | None => None end
  end.

Definition topic_ok (topics : list Z) (m : msg) : bool :=
  match topics with [] => true | _ => existsb (Z.eqb (m_topic m)) topics end.

Definition msg_overdue (m : msg) (now : time) : bool := overdue (p_ts (m_params m)) (p_ttl (m_params m)) now.

Inductive poll_result := PNone | PDelivered (m : msg).

(* what __consume_normal is looking for: a waiting message of its queue, not expired, of a topic it serves *)
Definition hit (q : Z) (topics : list Z) (now : time) (m : msg) : bool :=
  in_queue q m && negb (msg_overdue m now) && topic_ok topics m.

(* __consume_normal (since the fix recorded for C11): one full turn of the queue.  Every waiting message of the queue is
   looked at once, up to the first hit: expired ones go to the dead-letter list, foreign topics stay where they are, the
   messages behind the hit are not examined; the ones which stay keep their order.
   Result: (dead-lettered, found, remaining waiting list). *)
Fixpoint scan (q : Z) (topics : list Z) (now : time) (l : list msg) : list msg * option msg * list msg :=
  match l with
  | [] => ([], None, [])
  | m :: r =>
      if in_queue q m then
        if msg_overdue m now then let '(d, f, k) := scan q topics now r in (m :: d, f, k)
        else if topic_ok topics m then ([], Some m, r)
        else let '(d, f, k) := scan q topics now r in (d, f, m :: k)
      else let '(d, f, k) := scan q topics now r in (d, f, m :: k)
  end.

(* one poll of consume() by consumer c on queue q *)
Definition poll (s : mstate) (c q : Z) (ct : cat) (topics : list Z) (now : time) (upd : bool) : mstate * poll_result :=
  let s1 := if upd then update_delayed s q now else s in
  let s1 := mkS (simple s1) (delayed s1) (dead s1) (processing s1) (gone s1) (stamp s1) (Z.max (clk s1) now) in
  match ct with
  | Normal =>
      let '(d, f, k) := scan q topics now (simple s1) in
      match f with
      | None => (mkS k (delayed s1) (dead s1 ++ d) (processing s1) (gone s1) (stamp s1) (clk s1), PNone)
      | Some m => (mkS k (delayed s1) (dead s1 ++ d) (processing s1 ++ [mkHeld m ONormal c]) (gone s1) (stamp s1) (clk s1), PDelivered m)
      end
  | DelayedC =>
      match min_key q (delayed s1) with
      | None => (s1, PNone)
      | Some k =>
          match d_pop q k (delayed s1) with
          | None => (s1, PNone)
          | Some (m, d') =>
              (mkS (simple s1) d' (dead s1) (processing s1 ++ [mkHeld m (ODelayed k) c]) (gone s1) (stamp s1) (clk s1), PDelivered m)
          end
      end
  | DeadC =>
      match take_first (in_queue q) (dead s1) with
      | None => (s1, PNone)
      | Some (m, rest) =>
          (mkS (simple s1) (delayed s1) rest (processing s1 ++ [mkHeld m ODead c]) (gone s1) (stamp s1) (clk s1), PDelivered m)
      end
  end.

Inductive op :=
| OPut (m : msg) (now : time)                       (* enqueue *)
| OAck (i q : Z) | ONack (i q : Z) | OReject (i q : Z)
| ORequeue (i q : Z) (m' : msg) (now : time)
| OPoll (c q : Z) (ct : cat) (topics : list Z) (now : time) (upd : bool)
| OFinish (c q : Z) (order : list Z).               (* ids in the order the set iteration returned them *)

Definition owned_by (c q : Z) (h : held) : bool := (hd_owner h =? c) && (m_queue (hd_msg h) =? q).

(* finish(): put back the messages held by c on q, following the given order of ids *)
Fixpoint finish_order (s : mstate) (c q : Z) (order : list Z) : mstate :=
  match order with
  | [] => s
  | i :: r =>
      match take_first (fun h => owned_by c q h && (m_id (hd_msg h) =? i)) (processing s) with
      | Some (h, p') => finish_order (put_back (set_processing s p') h) c q r
      | None => finish_order s c q r
      end
  end.

Definition step (s : mstate) (o : op) : mstate * poll_result :=
  match o with
  | OPut m now => (put s m now, PNone)
  | OAck i q =>
      match take_first (is_held i q) (processing s) with
      | Some (h, p') => (mkS (simple s) (delayed s) (dead s) p' (gone s ++ [hd_msg h]) (stamp s) (clk s), PNone)
      | None => (s, PNone)
      end
  | ONack i q =>
      match take_first (is_held i q) (processing s) with
      | Some (h, p') => (mkS (simple s) (delayed s) (dead s ++ [hd_msg h]) p' (gone s) (stamp s) (clk s), PNone)
      | None => (s, PNone)
      end
  | OReject i q =>
      match take_first (is_held i q) (processing s) with
      | Some (h, p') => (put_back (set_processing s p') h, PNone)
      | None => (s, PNone)
      end
  | ORequeue i q m' now =>
      match take_first (is_held i q) (processing s) with
      | Some (h, p') => (put (mkS (simple s) (delayed s) (dead s) p' (gone s ++ [hd_msg h]) (stamp s) (clk s)) m' now, PNone)
      | None => (put s m' now, PNone)
      end
  | OPoll c q ct topics now upd => poll s c q ct topics now upd
  | OFinish c q order =>
      (* whatever order was reported, everything c holds on q goes back *)
      (finish_order s c q (order ++ map (fun h => m_id (hd_msg h)) (filter (owned_by c q) (processing s))), PNone)
  end.

Fixpoint run (s : mstate) (h : list op) : mstate :=
  match h with [] => s | o :: r => run (fst (step s o)) r end.

(* ---- counting ---- *)
Definition cnt (i : Z) (l : list msg) : Z := Z.of_nat (length (filter (is_id i) l)).
Definition cntD (i : Z) (d : list dentry) : Z := cnt i (flat_map de_msgs d).
Definition cntP (i : Z) (p : list held) : Z := cnt i (map hd_msg p).
Definition live (i : Z) (s : mstate) : Z := cnt i (simple s) + cntD i (delayed s) + cnt i (dead s) + cntP i (processing s).

(* ---- correspondence: observation of a history ---- *)
Definition ids (l : list msg) : list Z := map m_id l.
Definition enc_origin (o : origin) : list Z := match o with ONormal => [0] | ODead => [2] | ODelayed k => [1; k] end.

(* the processing set is compared sorted by id *)
Fixpoint ins_held (h : held) (l : list held) : list held :=
  match l with
  | [] => [h]
  | x :: r => if m_id (hd_msg h) <=? m_id (hd_msg x) then h :: l else x :: ins_held h r
  end.
Definition sort_held (l : list held) : list held := fold_right ins_held [] l.

(* per queue, as the code keeps one DummyQueue per queue *)
Definition enc_queue (s : mstate) (q : Z) : list Z :=
  let sm := filter (in_queue q) (simple s) in
  let dl := filter (fun e => de_queue e =? q) (delayed s) in
  let dd := filter (in_queue q) (dead s) in
  let pr := sort_held (filter (fun h => in_queue q (hd_msg h)) (processing s)) in
  [Z.of_nat (length sm)] ++ ids sm ++
  [Z.of_nat (length dl)] ++ flat_map (fun e => [de_key e; Z.of_nat (length (de_msgs e))] ++ ids (de_msgs e)) dl ++
  [Z.of_nat (length dd)] ++ ids dd ++
  [Z.of_nat (length pr)] ++ flat_map (fun h => m_id (hd_msg h) :: hd_owner h :: enc_origin (hd_origin h)) pr.

Definition enc_state (qs : list Z) (s : mstate) : list Z := flat_map (enc_queue s) qs.

Definition enc_msg_full (m : msg) : list Z :=
  [m_id m; m_topic m; m_queue m; m_prio m; m_payload m] ++ enc_params (m_params m).

Definition enc_full_queue (s : mstate) (q : Z) : list Z :=
  flat_map enc_msg_full (filter (in_queue q) (simple s)) ++ [-1] ++
  flat_map enc_msg_full (flat_map de_msgs (filter (fun e => de_queue e =? q) (delayed s))) ++ [-1] ++
  flat_map enc_msg_full (filter (in_queue q) (dead s)) ++ [-1] ++
  flat_map enc_msg_full (map hd_msg (sort_held (filter (fun h => in_queue q (hd_msg h)) (processing s)))).

(* Quiet: the harness could not take a snapshot right after this call (it ran concurrently with a consume) *)
Inductive oop := Obs (o : op) | Quiet (o : op).
Definition op_of (x : oop) : op := match x with Obs o | Quiet o => o end.

Fixpoint run_obs (qs : list Z) (s : mstate) (h : list oop) : list Z :=
  match h with
  | [] => [-7] ++ enc_state qs s ++ [-8] ++ flat_map (enc_full_queue s) qs
  | x :: r =>
      let '(s', res) := step s (op_of x) in
      (match res with PNone => 0 | PDelivered m => m_id m end) ::
      (match x with Obs (OPoll _ _ _ _ _ _) | Quiet _ => [] | Obs _ => enc_state qs s' end) ++ run_obs qs s' r
  end.

Definition mem_obs (c : list Z * list oop) : list Z := run_obs (fst c) s0 (snd c).

(* a message as the harness writes it (ghost fields are filled by the model) *)
Definition M (i t q pr pl : Z) (p : params) : msg := mkMsg i t q pr pl p None 0.
