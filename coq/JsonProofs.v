(* JsonProofs.v — decode . encode = id for parameters and buckets (C07). *)
From Repid Require Import Base Json.

Lemma opt_of_opt_j_dur o : opt_of as_dur (opt_j JDur o) = Some o.
Proof. destruct o; reflexivity. Qed.
Lemma opt_of_opt_j_time o : opt_of as_time (opt_j JTime o) = Some o.
Proof. destruct o; reflexivity. Qed.
Lemma opt_of_opt_j_str o : opt_of as_str (opt_j JStr o) = Some o.
Proof. destruct o; reflexivity. Qed.

Theorem retries_roundtrip r : dec_retries (enc_retries r) = Some r.
Proof. destruct r; reflexivity. Qed.

Theorem result_roundtrip r : dec_result (enc_result r) = Some r.
Proof. destruct r as [i t]. unfold dec_result, enc_result. cbn. rewrite opt_of_opt_j_dur. reflexivity. Qed.

Theorem delay_roundtrip d : dec_delay (enc_delay d) = Some d.
Proof.
  destruct d as [u b c n]. unfold dec_delay, enc_delay. cbn.
  rewrite opt_of_opt_j_time. cbn. rewrite opt_of_opt_j_dur. cbn. rewrite opt_of_opt_j_str. cbn. rewrite opt_of_opt_j_time. reflexivity.
Qed.

(* every field survives: timeout, result settings, retries, delay, timestamp, time-to-live *)
Theorem params_roundtrip p : dec_jparams (enc_jparams p) = Some p.
Proof.
  destruct p as [t r rt d ts tl]. pose proof (retries_roundtrip rt) as Ert. pose proof (delay_roundtrip d) as Ed.
  destruct rt as [mx tr], d as [u b c n].
  destruct r as [[ri rt']|]; unfold dec_jparams, enc_jparams; cbn;
    rewrite ?opt_of_opt_j_dur; cbn; rewrite ?opt_of_opt_j_time; cbn; rewrite ?opt_of_opt_j_dur; cbn; rewrite ?opt_of_opt_j_str; cbn;
    rewrite ?opt_of_opt_j_time; cbn; rewrite ?opt_of_opt_j_dur; reflexivity.
Qed.

Theorem args_bucket_roundtrip b : dec_args (enc_args b) = Some b.
Proof. destruct b as [d ts tl]. unfold dec_args, enc_args. cbn. rewrite opt_of_opt_j_dur. reflexivity. Qed.

Theorem result_bucket_roundtrip b : dec_resb (enc_resb b) = Some b.
Proof.
  destruct b as [d s f ok e ts tl]. unfold dec_resb, enc_resb. cbn. rewrite opt_of_opt_j_str. cbn. rewrite opt_of_opt_j_dur. reflexivity.
Qed.

(* an args bucket reader accepts what a result bucket writer produced (the extra keys are dropped) *)
Theorem args_reads_result_bucket b : dec_args (enc_resb b) = Some (mkJArgs (jb_data b) (jb_ts b) (jb_ttl b)).
Proof. destruct b as [d s f ok e ts tl]. unfold dec_args, enc_resb. cbn. rewrite opt_of_opt_j_dur. reflexivity. Qed.
