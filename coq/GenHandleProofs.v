(* GenHandleProofs.v - the guards and broker calls generated from repid/message.py (GenHandle.v, regenerated on every run by
   harness/translate.py from the six terminal methods of Message) are EQUAL to Handle.wanted for a plain Message (h_dep = false):
   the C16 theorems about the handle state machine are theorems about the guards, their order and the broker call the source
   has now.  The translator also insists that the only statement after the broker call is `self.__read_only = True` and that
   `_dispose` awaits its argument: the flag is set after, and only after, the call returned. *)
From Repid Require Import Base Sched GenSched GenSchedProofs Handle GenHandle.

Theorem gen_msg_eq pol h now :
  h_dep h = false ->
  gen_msg_ack (h_ro h) (h_cat h) (h_p h) now = wanted pol h HAck now /\
  gen_msg_nack (h_ro h) (h_cat h) (h_p h) now = wanted pol h HNack now /\
  gen_msg_reject (h_ro h) (h_cat h) (h_p h) now = wanted pol h HReject now /\
  gen_msg_reschedule (h_ro h) (h_cat h) (h_p h) now = wanted pol h HReschedule now /\
  (forall d, gen_msg_retry (h_ro h) (h_cat h) (h_p h) now d = wanted pol h (HRetry d) now) /\
  (forall d, gen_msg_force_retry (h_ro h) (h_cat h) (h_p h) now d = wanted pol h (HForceRetry d) now).
Proof.
  intros Hd. unfold gen_msg_ack, gen_msg_nack, gen_msg_reject, gen_msg_reschedule, gen_msg_retry, gen_msg_force_retry, wanted.
  rewrite Hd. rewrite gen_prepare_reschedule_eq.
  repeat split; try reflexivity; intros d; rewrite gen_prepare_retry_eq; destruct d; reflexivity.
Qed.

(* ... and for a MessageDependency (h_dep = true): the same guards through super(), the actor's retry policy as the default
   back-off, and the default success flag of _NoAction *)
Theorem gen_dep_eq pol h now :
  h_dep h = true ->
  gen_msg_ack (h_ro h) (h_cat h) (h_p h) now = wanted pol h HAck now /\
  gen_msg_nack (h_ro h) (h_cat h) (h_p h) now = wanted pol h HNack now /\
  gen_msg_reject (h_ro h) (h_cat h) (h_p h) now = wanted pol h HReject now /\
  gen_msg_reschedule (h_ro h) (h_cat h) (h_p h) now = wanted pol h HReschedule now /\
  (forall d, gen_dep_retry pol (h_ro h) (h_cat h) (h_p h) now d = wanted pol h (HRetry d) now) /\
  (forall d, gen_dep_force_retry pol (h_ro h) (h_cat h) (h_p h) now d = wanted pol h (HForceRetry d) now).
Proof.
  intros Hd. unfold gen_dep_retry, gen_dep_force_retry, gen_msg_ack, gen_msg_nack, gen_msg_reject, gen_msg_reschedule, gen_msg_retry,
    gen_msg_force_retry, wanted.
  rewrite Hd. rewrite gen_prepare_reschedule_eq.
  repeat split; try reflexivity; intros d; rewrite gen_prepare_retry_eq; destruct d; reflexivity.
Qed.

Theorem gen_dep_default_success_eq :
  gen_dep_default_success_ack = default_success HAck /\ gen_dep_default_success_nack = default_success HNack /\
  gen_dep_default_success_reject = default_success HReject /\ gen_dep_default_success_reschedule = default_success HReschedule /\
  (forall d, gen_dep_default_success_retry = default_success (HRetry d)) /\
  (forall d, gen_dep_default_success_force_retry = default_success (HForceRetry d)).
Proof. repeat split. Qed.
