(* DepsProofs.v — proofs about Deps.v (C18). *)
From Repid Require Import Base Sched Handle Ladder LadderProofs Deps.

Definition depth (rk : nat -> nat) (d : dep) : nat := match d with DNode i => S (rk i) | DMsg => O end.

(* acyclic store: a rank that strictly decreases along sub-dependency edges, no dangling index *)
Definition Ranked (st : store) (rk : nat -> nat) : Prop :=
  forall i n, nth_error st i = Some n -> forall p j, In (p, DNode j) (n_subs n) -> (rk j < rk i)%nat /\ (j < length st)%nat.

Definition total_prov (prov : Z -> list (Z * Z) -> res) : Prop := forall f kw, prov f kw <> OutOfFuel.

Section Proofs.
  Variable prov : Z -> list (Z * Z) -> res.
  Variable msgv : Z.
  Notation resolve := (resolve prov msgv).

  (* with enough fuel the result does not depend on the fuel *)
  Lemma fuel_indep st rk : Ranked st rk -> forall f1 f2 d, (depth rk d <= f1)%nat -> (depth rk d <= f2)%nat ->
    resolve f1 st d = resolve f2 st d.
  Proof.
    intros HR. induction f1 as [|f1 IH]; intros f2 d H1 H2.
    - destruct d as [i|]; [cbn in H1; lia | destruct f2; reflexivity].
    - destruct d as [i|]; [|destruct f2; reflexivity].
      destruct f2 as [|f2]; [cbn in H2; lia|]. cbn [Deps.resolve].
      destruct (nth_error st i) as [n|] eqn:En; [|reflexivity].
      assert (E : map (fun nd => (fst nd, resolve f1 st (snd nd))) (n_subs n) = map (fun nd => (fst nd, resolve f2 st (snd nd))) (n_subs n)).
      { apply map_ext_in. intros [p d'] Hin. cbn [fst snd]. f_equal. apply IH.
        - destruct d' as [j|]; [|cbn; lia]. destruct (HR i n En p j Hin) as [Hlt _]. cbn in *. lia.
        - destruct d' as [j|]; [|cbn; lia]. destruct (HR i n En p j Hin) as [Hlt _]. cbn in *. lia. }
      rewrite E. reflexivity.
  Qed.

  Lemma collect_no_fuel l : (forall x, In x l -> snd x <> OutOfFuel) -> collect l <> inr OutOfFuel.
  Proof.
    induction l as [|[n r] l IH]; intros H; cbn [collect]; [discriminate|].
    assert (Hr : r <> OutOfFuel) by (apply (H (n, r)); left; reflexivity).
    assert (Hl : collect l <> inr OutOfFuel) by (apply IH; intros x Hx; apply H; right; exact Hx).
    destruct r as [v|e|]; [| |congruence].
    - destruct (collect l) as [kv|e']; [discriminate | congruence].
    - destruct (collect l) as [kv|[v'|e'|]]; try discriminate. congruence.
  Qed.

  (* resolution of an acyclic graph terminates: with fuel above the rank it never runs out *)
  Theorem resolve_terminates st rk : Ranked st rk -> total_prov prov ->
    forall fuel d, (match d with DNode i => (i < length st)%nat | DMsg => True end) -> (depth rk d <= fuel)%nat ->
    fst (resolve fuel st d) <> OutOfFuel.
  Proof.
    intros HR HT. induction fuel as [|fuel IH]; intros d Hd Hf.
    - destruct d as [i|]; [cbn in Hf; lia | cbn; discriminate].
    - destruct d as [i|]; [|cbn; discriminate]. cbn [Deps.resolve].
      destruct (nth_error st i) as [n|] eqn:En; [|apply nth_error_None in En; lia].
      destruct (collect _) as [kw|e] eqn:Ec; cbn [fst]; [apply HT|].
      intros ->. revert Ec. apply collect_no_fuel. intros x Hx. apply in_map_iff in Hx. destruct Hx as [[p r] [Hx Hin]]. subst x.
      apply in_map_iff in Hin. destruct Hin as [[p' d'] [Heq Hin]]. cbn [fst snd] in Heq. injection Heq as <- <-. cbn [fst snd].
      apply IH.
      + destruct d' as [j|]; [|exact I]. exact (proj2 (HR i n En p' j Hin)).
      + destruct d' as [j|]; [|cbn; lia]. pose proof (proj1 (HR i n En p' j Hin)). cbn in *. lia.
  Qed.

  (* what a dependency resolves to: its provider applied to its own resolved sub-dependencies (by keyword); if one of
     them failed, that failure and the provider is not called *)
  Theorem resolve_denotes st rk i n fuel : Ranked st rk -> nth_error st i = Some n -> (S (rk i) <= fuel)%nat ->
    fst (resolve fuel st (DNode i)) =
    match collect (map (fun nd => (fst nd, fst (resolve fuel st (snd nd)))) (n_subs n)) with
    | inl kwargs => prov (n_fn n) kwargs
    | inr e => e
    end.
  Proof.
    intros HR En Hf. destruct fuel as [|fuel]; [lia|]. cbn [Deps.resolve]. rewrite En. rewrite map_map. cbn [fst snd].
    assert (E : map (fun x => (fst x, fst (resolve fuel st (snd x)))) (n_subs n) =
                map (fun nd => (fst nd, fst (resolve (S fuel) st (snd nd)))) (n_subs n)).
    { apply map_ext_in. intros [p d'] Hin. cbn [fst snd]. f_equal. f_equal. apply (fuel_indep st rk HR).
      - destruct d' as [j|]; [|cbn; lia]. pose proof (proj1 (HR i n En p j Hin)). cbn. lia.
      - destruct d' as [j|]; [|cbn; lia]. pose proof (proj1 (HR i n En p j Hin)). cbn. lia. }
    rewrite E. destruct (collect _); reflexivity.
  Qed.

  Theorem msg_dependency fuel st : fst (resolve fuel st DMsg) = Ok msgv.
  Proof. destruct fuel; reflexivity. Qed.

  (* gather: every value by name, in parameter order - or a failure *)
  Lemma collect_ok l kw : collect l = inl kw -> map fst kw = map fst l /\ Forall2 (fun x kv => snd x = Ok (snd kv)) l kw.
  Proof.
    revert kw. induction l as [|[n r] l IH]; intros kw H; cbn [collect] in H.
    - inversion H; subst. split; [reflexivity | constructor].
    - destruct r as [v|e|]; [|destruct (collect l) as [?|[?|?|]]; discriminate | discriminate].
      destruct (collect l) as [kv|e'] eqn:E; [|discriminate]. inversion H; subst.
      destruct (IH kv eq_refl) as [H1 H2]. split; [cbn; f_equal; exact H1 | constructor; [reflexivity | exact H2]].
  Qed.

  Lemma collect_err l : (exists n e, In (n, Err e) l) -> (forall x, In x l -> snd x <> OutOfFuel) ->
    exists n e, collect l = inr (Err e) /\ In (n, Err e) l.
  Proof.
    induction l as [|[n r] l IH]; intros [n0 [e0 Hin]] Hnf; [destruct Hin|].
    assert (Hl : forall x, In x l -> snd x <> OutOfFuel) by (intros x Hx; apply Hnf; right; exact Hx).
    pose proof (collect_no_fuel l Hl) as Hc. cbn [collect].
    destruct r as [v|e|].
    - destruct Hin as [Heq|Hin]; [inversion Heq|]. destruct (IH (ex_intro _ n0 (ex_intro _ e0 Hin)) Hl) as [n1 [e1 [H1 H2]]].
      rewrite H1. exists n1, e1. split; [reflexivity | right; exact H2].
    - exists n, e. split; [|left; reflexivity]. destruct (collect l) as [kv|[v'|e'|]]; try reflexivity. congruence.
    - exfalso. apply (Hnf (n, OutOfFuel)); [left; reflexivity | reflexivity].
  Qed.

  (* a failing provider below fails the dependency; the call log of the failed node is exactly the calls of its
     sub-resolutions: its own provider was not called *)
  Theorem failure_skips_provider st i n fuel p d e :
    nth_error st i = Some n -> In (p, d) (n_subs n) -> fst (resolve fuel st d) = Err e ->
    (forall x, In x (n_subs n) -> fst (resolve fuel st (snd x)) <> OutOfFuel) ->
    (exists e', fst (resolve (S fuel) st (DNode i)) = Err e') /\
    snd (resolve (S fuel) st (DNode i)) = flat_map (fun x => snd (resolve fuel st (snd x))) (n_subs n).
  Proof.
    intros En Hin He Hnf. cbn [Deps.resolve]. rewrite En. rewrite map_map. cbn [fst snd].
    set (l := map (fun x => (fst x, fst (resolve fuel st (snd x)))) (n_subs n)).
    assert (Hex : exists n0 e0, In (n0, Err e0) l).
    { exists p, e. unfold l. apply in_map_iff. exists (p, d). cbn [fst snd]. rewrite He. auto. }
    assert (Hnf' : forall x, In x l -> snd x <> OutOfFuel).
    { intros x Hx. unfold l in Hx. apply in_map_iff in Hx. destruct Hx as [y [Hy Hyin]]. subst x. cbn [snd]. apply Hnf, Hyin. }
    destruct (collect_err l Hex Hnf') as [n1 [e1 [Hc _]]]. rewrite Hc. cbn [fst snd].
    split; [exists e1; reflexivity|]. rewrite !flat_map_concat_map, map_map. reflexivity.
  Qed.

  (* the actor receives, for each dependency parameter, exactly that resolution, by name *)
  Theorem actor_receives fuel st deps kw :
    fst (actor_deps prov msgv fuel st deps) = inl kw ->
    map fst kw = map fst deps /\ Forall2 (fun nd kv => fst (resolve fuel st (snd nd)) = Ok (snd kv)) deps kw.
  Proof.
    unfold actor_deps. cbn [fst]. rewrite map_map. cbn [fst snd]. intros H. apply collect_ok in H. destruct H as [H1 H2].
    rewrite map_map in H1. cbn [fst] in H1. split; [exact H1|].
    clear H1. revert kw H2. induction deps as [|[p d] deps IH]; intros kw H2; inversion H2; subst; constructor; auto.
  Qed.

  Theorem actor_fails_if_a_provider_fails fuel st deps p d e :
    In (p, d) deps -> fst (resolve fuel st d) = Err e ->
    (forall x, In x deps -> fst (resolve fuel st (snd x)) <> OutOfFuel) ->
    exists e', fst (actor_deps prov msgv fuel st deps) = inr (Err e').
  Proof.
    intros Hin He Hnf. unfold actor_deps. cbn [fst]. rewrite map_map. cbn [fst snd].
    set (l := map (fun x => (fst x, fst (resolve fuel st (snd x)))) deps).
    assert (Hex : exists n0 e0, In (n0, Err e0) l).
    { exists p, e. unfold l. apply in_map_iff. exists (p, d). cbn [fst snd]. rewrite He. auto. }
    assert (Hnf' : forall x, In x l -> snd x <> OutOfFuel).
    { intros x Hx. unfold l in Hx. apply in_map_iff in Hx. destruct Hx as [y [Hy Hyin]]. subst x. cbn [snd]. apply Hnf, Hyin. }
    destruct (collect_err l Hex Hnf') as [n1 [e1 [Hc _]]]. exists e1. exact Hc.
  Qed.
End Proofs.

(* ---- override ---- *)
Lemma nth_set_nth_same {A} (x : A) : forall l k, (k < length l)%nat -> nth_error (set_nth k x l) k = Some x.
Proof. induction l as [|y l IH]; intros k H; [cbn in H; lia|]. destruct k; cbn; [reflexivity | apply IH; cbn in H; lia]. Qed.

Lemma nth_set_nth_other {A} (x : A) : forall l k j, j <> k -> nth_error (set_nth k x l) j = nth_error l j.
Proof.
  induction l as [|y l IH]; intros k j H; [destruct k; reflexivity|].
  destruct k, j; cbn; try reflexivity; try lia. apply IH. lia.
Qed.

(* after an override the node resolves through the new provider with the new provider's sub-dependencies, for every
   later resolution and wherever the node is used (every use looks the node up in the store) *)
Theorem override_everywhere prov msgv st i f subs rk fuel :
  (i < length st)%nat -> Ranked (override st i f subs) rk -> (S (rk i) <= fuel)%nat ->
  fst (resolve prov msgv fuel (override st i f subs) (DNode i)) =
  match collect (map (fun nd => (fst nd, fst (resolve prov msgv fuel (override st i f subs) (snd nd)))) subs) with
  | inl kwargs => prov f kwargs
  | inr e => e
  end.
Proof.
  intros Hi HR Hf. rewrite (resolve_denotes prov msgv _ rk i (mkN f subs) fuel HR); [reflexivity | | exact Hf].
  apply nth_set_nth_same. exact Hi.
Qed.

Theorem override_keeps_other_nodes st i f subs j : j <> i -> nth_error (override st i f subs) j = nth_error st j.
Proof. intros H. apply nth_set_nth_other. exact H. Qed.

(* ---- a provider failure is a failed execution: it follows the retry rules of the ladder ---- *)
Theorem provider_failure_is_actor_failure pol p now e :
  let tried := r_tried (p_retries p) in let max := r_max (p_retries p) in
  process pol now false false p true [] (FFail e) = EBroker (report pol p false now) :: final_store p (FFail e) true /\
  (tried < max -> exists p', decide pol p false now = DRetry p') /\
  (max <= tried -> is_recurring p = false -> decide pol p false now = DNack) /\
  (max <= tried -> is_recurring p = true -> exists p', decide pol p false now = DResched p').
Proof.
  cbv zeta. split; [reflexivity|]. pose proof (disposition_table pol p false now) as T. cbv zeta in T.
  destruct T as [T1 [T2 [T3 T4]]]. split; [|split].
  - intros H. apply T1. auto.
  - intros H1 H2. apply T4. auto.
  - intros H1 H2. apply T2. auto.
Qed.

(* ---- declaration checks ---- *)
Definition param_ok (p : dparam) : Prop :=
  match dp_kind p, dp_dep p with
  | KPosOnly, true => False
  | (KPosOrKw | KKwOnly), true => True
  | _, _ => dp_default p = true
  end.

Lemma provider_check_cons p r : provider_check (p :: r) = None <-> param_ok p /\ provider_check r = None.
Proof.
  destruct p as [k d df]. unfold param_ok. cbn.
  destruct k, d, df; cbn; intuition (try discriminate; try congruence).
Qed.

(* a declaration is accepted iff no dependency sits in a positional-only parameter and every non-dependency
   parameter has a default; otherwise it is refused when the provider is declared (or overridden), not at run time *)
Theorem declaration_rejects_unsupported ps : provider_check ps = None <-> Forall param_ok ps.
Proof.
  induction ps as [|p ps IH]; [split; [constructor | reflexivity]|].
  rewrite provider_check_cons, IH. split; [intros [H1 H2]; constructor; assumption | intros H; inversion H; auto].
Qed.

(* non-vacuity: a diamond (shared sub-dependency), an override that changes the sub-dependency set *)
Example diamond :
  let st := [mkN 1 [(10, DNode 1); (11, DNode 2)]; mkN 2 [(12, DNode 3)]; mkN 3 [(12, DNode 3); (13, DMsg)]; mkN 4 []] in
  deps_obs (st, [(20, DNode 0)], [DRun []; DOverride 3 5 []; DRun []; DRun [5]]) <> [] /\
  Ranked st (fun i => match i with 0 => 3 | 1 => 2 | 2 => 2 | _ => 0 end)%nat.
Proof.
  split; [vm_compute; discriminate|].
  intros i n Hi p j Hin. destruct i as [|[|[|[|i]]]]; cbn in Hi; try discriminate; inversion Hi; subst; cbn in Hin;
    repeat (destruct Hin as [Hin|Hin]; [inversion Hin; subst; cbn; lia|]); try contradiction.
  destruct i; discriminate.
Qed.
