(* RedisRun.v — whole sequential histories of the Redis client: no name is ever in two places. *)
From Coq Require Import ZifyBool.
From Repid Require Import Base Sched RedisSrv RedisBroker RedisProofs.

Definition RI (s : srv) : Prop := WF s /\ Uniq s.

Lemma fst_run_steps1 s c : fst (run_steps s [c]) = fst (exec_all s c).
Proof. cbn [run_steps]. destruct (exec_all s c) as [s1 rep]. reflexivity. Qed.

(* a one-name transaction that leaves the name at most once keeps the invariant *)
Lemma RI_tx s cs n : RI s -> Forall (fun c => match member_of c with Some m => m = n | None => True end) cs ->
  occ n (fst (exec_all s cs)) <= 1 -> RI (fst (exec_all s cs)).
Proof. intros [Hw Hu] Hf Ho. split; [apply WF_exec_all; exact Hw | eapply Uniq_tx; eauto]. Qed.

Lemma held_occ_one n s : RI s -> held n s = 1 -> occ n s = 1.
Proof. intros [Hw Hu] Hh. pose proof (held_le_occ n s). specialize (Hu n). lia. Qed.

(* ---- reads leave the server alone ---- *)
Lemma exec_hget s k f : fst (exec s (HGet k f)) = s.
Proof. reflexivity. Qed.

Lemma lrange_In l a b x : In x (lrange l a b) -> In x l.
Proof.
  unfold lrange. destruct ((_ <? _) || (_ <=? _)); [intros []|]. intros H. apply firstn_In_z in H. apply skipn_In_z in H. exact H.
Qed.

Lemma zmem_of_In n sc z : In (n, sc) z -> zmem n z = true.
Proof. intros H. unfold zmem. apply existsb_exists. exists (n, sc). split; [exact H | cbn; apply Z.eqb_refl]. Qed.

Lemma zmem_of_In_fst n z : In n (map fst z) -> zmem n z = true.
Proof. intros H. apply in_map_iff in H. destruct H as [[m sc] [E Hin]]. cbn in E. subst. eapply zmem_of_In; eauto. Qed.

(* what the fetch returns is in the container it looked at *)
Lemma fetch_in e s q prio src topics now_s : forall fuel off n tr,
  fetch fuel e s q prio src topics now_s off = (Some n, tr) ->
  match src with SList kd => In n (get_list s (mkLK q prio kd)) | _ => zmem n (get_zset s (ZDelayed q prio)) = true end.
Proof.
  induction fuel as [|f IH]; intros off n tr H; cbn [fetch] in H; [discriminate|].
  match type of H with context [exec s ?x] => set (c := x) in *; destruct (exec s c) as [s' rep] eqn:E end.
  assert (Hrep : rep = snd (exec s c)) by (rewrite E; reflexivity).
  destruct (tl rep) as [|w0 wr] eqn:Ew; [discriminate|].
  match type of H with context [pick e topics ?wl] => destruct (pick e topics wl) as [m|] eqn:Ep end.
  - inversion H; subst m. unfold pick in Ep. apply find_some in Ep. destruct Ep as [Hin _].
    assert (Hin' : In n (tl rep)).
    { rewrite Ew. destruct src; try exact Hin. apply in_rev. exact Hin. }
    rewrite Hrep in Hin'. subst c. destruct src; cbn [exec snd tl] in Hin'.
    + apply firstn_In_z, skipn_In_z in Hin'. apply in_map_iff in Hin'. destruct Hin' as [[m sc] [Em Hm]]. cbn in Em. subst m.
      apply filter_In in Hm. eapply zmem_of_In. apply Hm.
    + apply lrange_In in Hin'. apply zmem_of_In_fst. exact Hin'.
    + apply lrange_In in Hin'. exact Hin'.
  - destruct (fetch f e s q prio src topics now_s _) as [r tr'] eqn:Ef. inversion H; subst r. eapply IH. exact Ef.
Qed.

(* ---- taking a name: it is marked, once ---- *)
Lemma grab_members q prio src n now_s :
  Forall (fun c => match member_of c with Some m => m = n | None => True end) (grab_cmds q prio src n now_s).
Proof. unfold grab_cmds. repeat constructor; destruct src as [| |kd]; cbn; auto. Qed.

Lemma get_name_RI e s q prio src topics now_s fuel s1 r tr :
  RI s -> get_name fuel e s q prio src topics now_s = (s1, r, tr) ->
  RI s1 /\ match r with Some n => occ n s1 = 1 /\ held n s1 = 1 | None => s1 = s end.
Proof.
  intros HR H. unfold get_name in H. destruct (fetch fuel e s q prio src topics now_s 0) as [fr ftr] eqn:Ef.
  destruct fr as [n|]; [|inversion H; subst; split; [exact HR | reflexivity]].
  destruct (exec_all s (grab_cmds q prio src n now_s)) as [s2 rep] eqn:Eg. inversion H; subst s1 r tr. clear H.
  pose proof (fetch_in _ _ _ _ _ _ _ _ _ _ _ Ef) as Hin. destruct HR as [Hw Hu].
  assert (Hp : occ n (fst (exec_all s (grab_cmds q prio src n now_s))) = 1 /\ held n (fst (exec_all s (grab_cmds q prio src n now_s))) = 1).
  { destruct src as [| |kd].
    - apply grab_places_delayed; auto; discriminate.
    - apply grab_places_delayed; auto; discriminate.
    - apply grab_places_list; auto. }
  rewrite Eg in Hp. cbn [fst] in Hp. split; [|exact Hp].
  replace s2 with (fst (exec_all s (grab_cmds q prio src n now_s))) by (rewrite Eg; reflexivity).
  apply (RI_tx s _ n); [split; assumption | apply grab_members | rewrite Eg; cbn [fst]; lia].
Qed.

(* burying a taken message whose data is missing: from "processing" to the dead list, still one place *)
Lemma bury_RI s q n : RI s -> occ n s = 1 -> held n s = 1 ->
  RI (fst (exec_all s [ZRem ZProcessing n; LPush (mkLK q 5 LDead) n])).
Proof.
  intros HR Ho Hh. apply (RI_tx s _ n); [exact HR | repeat constructor; cbn; auto|].
  destruct HR as [Hw Hu]. rewrite !exec_all_cons, exec_all_nil.
  rewrite occ_lpush by (apply WF_exec; exact Hw). rewrite occ_zrem by exact Hw. rewrite !Z.eqb_refl. fold (held n s). cbn [ind]. lia.
Qed.

Lemma match_cases {A} (rp rq : list Z) (x : Z -> Z -> A) (y : A) :
  (exists pl pc, match rp, rq with [1; pl], [1; pc] => x pl pc | _, _ => y end = x pl pc) \/
  match rp, rq with [1; pl], [1; pc] => x pl pc | _, _ => y end = y.
Proof.
  destruct rp as [|[|[p|p|]|p] [|pl [|? ?]]]; auto; destruct rq as [|[|[p|p|]|p] [|pc [|? ?]]]; auto. left; eauto.
Qed.

Lemma get_message_RI e q prio cat topics now_s : forall fuel s s1 r tr,
  RI s -> get_message fuel e s q prio cat topics now_s = (s1, r, tr) ->
  RI s1 /\ match r with TMsg n _ _ => occ n s1 = 1 /\ held n s1 = 1 | TNone => True end.
Proof.
  induction fuel as [|f IH]; intros s s1 r tr HR H; cbn [get_message] in H; [inversion H; subst; split; [exact HR | exact I]|].
  assert (HA : exists sa ra ta, RI sa /\ match ra with Some n => occ n sa = 1 /\ held n sa = 1 | None => True end /\
     match ra with
     | None => (sa, TNone, ta)
     | Some n =>
         let k := mkHK q prio n in
         let '(s2, rp) := exec sa (HGet k F_PAYLOAD) in
         let '(s3, rq) := exec s2 (HGet k F_PARAMS) in
         let tr2 := ta ++ [([HGet k F_PAYLOAD], rp); ([HGet k F_PARAMS], rq)] in
         match rp, rq with
         | [1; pl], [1; pc] => (s3, TMsg n pl pc, tr2)
         | _, _ =>
             let c := [ZRem ZProcessing n; LPush (mkLK q 5 LDead) n] in
             let '(s4, rep) := exec_all s3 c in
             let '(s5, r5, tr5) := get_message f e s4 q prio cat topics now_s in
             (s5, r5, tr2 ++ [(c, rep)] ++ tr5)
         end
     end = (s1, r, tr)).
  { destruct cat.
    - destruct (get_name (S (S f)) e s q prio SDelayedDue topics now_s) as [[sx rx] tx] eqn:E1.
      destruct (get_name_RI _ _ _ _ _ _ _ _ _ _ _ HR E1) as [R1 P1]. destruct rx as [n|].
      + exists sx, (Some n), tx. split; [exact R1|]. split; [exact P1 | exact H].
      + destruct (get_name (S (S f)) e sx q prio (SList LNormal) topics now_s) as [[sy ry] ty] eqn:E2.
        destruct (get_name_RI _ _ _ _ _ _ _ _ _ _ _ R1 E2) as [R2 P2]. exists sy, ry, (tx ++ ty). split; [exact R2|].
        split; [destruct ry; auto | exact H].
    - destruct (get_name (S (S f)) e s q prio SDelayedAll topics now_s) as [[sx rx] tx] eqn:E1.
      destruct (get_name_RI _ _ _ _ _ _ _ _ _ _ _ HR E1) as [R1 P1]. exists sx, rx, tx. split; [exact R1|]. split; [destruct rx; auto | exact H].
    - destruct (get_name (S (S f)) e s q prio (SList LDead) topics now_s) as [[sx rx] tx] eqn:E1.
      destruct (get_name_RI _ _ _ _ _ _ _ _ _ _ _ HR E1) as [R1 P1]. exists sx, rx, tx. split; [exact R1|]. split; [destruct rx; auto | exact H]. }
  clear H. destruct HA as (sa & ra & ta & Ra & Pa & H).
  destruct ra as [n|]; [|inversion H; subst; split; [exact Ra | exact I]]. cbv zeta in H.
  destruct Pa as [Po Ph].
  rewrite (surjective_pairing (exec sa (HGet (mkHK q prio n) F_PAYLOAD))) in H. rewrite exec_hget in H.
  rewrite (surjective_pairing (exec sa (HGet (mkHK q prio n) F_PARAMS))) in H. rewrite exec_hget in H.
  set (rp := snd (exec sa (HGet (mkHK q prio n) F_PAYLOAD))) in *. set (rq := snd (exec sa (HGet (mkHK q prio n) F_PARAMS))) in *.
  match type of H with match rp with _ => _ end = _ => idtac end.
  match type of H with ?M = _ =>
    match M with context [TMsg n] => idtac end end.
  pose proof (bury_RI sa q n Ra Po Ph) as Rb.
  destruct (exec_all sa [ZRem ZProcessing n; LPush (mkLK q 5 LDead) n]) as [s4 rep] eqn:E4. cbn [fst] in Rb.
  destruct (get_message f e s4 q prio cat topics now_s) as [[s5 r5] tr5] eqn:E5.
  destruct (IH _ _ _ _ Rb E5) as [R5 P5].
  match type of H with ?M = _ =>
    match M with
    | match rp with _ => _ end => idtac
    end end.
  destruct (match_cases rp rq (fun pl pc => (sa, TMsg n pl pc, ta ++ [([HGet (mkHK q prio n) F_PAYLOAD], rp); ([HGet (mkHK q prio n) F_PARAMS], rq)]))
              (s5, r5, (ta ++ [([HGet (mkHK q prio n) F_PAYLOAD], rp); ([HGet (mkHK q prio n) F_PARAMS], rq)]) ++
                       [([ZRem ZProcessing n; LPush (mkLK q 5 LDead) n], rep)] ++ tr5)) as [[pl [pc E]]|E];
    rewrite E in H; inversion H; subst; split; auto.
Qed.

(* ---- the terminal transactions ---- *)
Lemma nack_members k : Forall (fun c => match member_of c with Some m => m = rk_name k | None => True end) (mark_dead k :: unmark_processing k).
Proof. unfold mark_dead, unmark_processing. repeat constructor; cbn; auto. Qed.

Lemma nack_RI k s : RI s -> held (rk_name k) s = 1 -> RI (fst (exec_all s (mark_dead k :: unmark_processing k))).
Proof.
  intros HR Hh. pose proof (held_occ_one _ _ HR Hh) as Ho.
  apply (RI_tx s _ (rk_name k)); [exact HR | apply nack_members|].
  destruct (nack_places k s (proj1 HR) Ho Hh) as [H _]. unfold nack_prog in H. cbn [hd] in H. lia.
Qed.

Lemma consume_RI e q cat topics : forall prios s now s1 r tr,
  RI s -> consume_or_none e s q cat topics prios now = (s1, r, tr) ->
  RI s1 /\ match r with TMsg n _ _ => occ n s1 = 1 /\ held n s1 = 1 | TNone => True end.
Proof.
  induction prios as [|p ps IH]; intros s now s1 r tr HR H; cbn [consume_or_none] in H; [inversion H; subst; split; [exact HR | exact I]|].
  cbv zeta in H.
  destruct (get_message (length (hashes s) + 2) e s q p cat topics (now / usec_per_sec)) as [[sa ra] ta] eqn:Eg.
  destruct (get_message_RI _ _ _ _ _ _ _ _ _ _ _ HR Eg) as [Ra Pa].
  destruct ra as [|n pl pc].
  - destruct (consume_or_none e sa q cat topics ps (now + POLLING_WAIT)) as [[s2 r2] tr2] eqn:E2. inversion H; subst. eapply IH; eauto.
  - destruct (cat_eqb cat Normal && is_overdue_code e pc now).
    + destruct Pa as [Po Ph]. pose proof (nack_RI (mkRK n q p) sa Ra Ph) as Rn.
      destruct (exec_all sa (mark_dead (mkRK n q p) :: unmark_processing (mkRK n q p))) as [s2 rep]. cbn [fst] in Rn.
      destruct (consume_or_none e s2 q cat topics ps now) as [[s3 r3] tr3] eqn:E3. inversion H; subst. eapply IH; eauto.
    + inversion H; subst. split; assumption.
Qed.

(* ---- maintenance: the rejects of timed-out processing entries ---- *)
Lemma held_exec_other n s c : member_of c <> Some n -> held n (fst (exec s c)) = held n s.
Proof.
  intros Hm. unfold held.
  destruct c as [k f v | k fields | k f | k f | k | k m | k m | k a b | k m | k m sc | k m | k mx off num | k a b | k | m].
  - cbn [exec]. destruct (hfield _ f); reflexivity.
  - reflexivity.
  - reflexivity.
  - cbn [exec]. destruct (aget hkey_eqb k (hashes s)) as [v|]; [|reflexivity]. destruct (hfield v f); reflexivity.
  - cbn [exec]. destruct (aget hkey_eqb k (hashes s)); reflexivity.
  - cbn [exec fst]. rewrite get_zset_put_list. reflexivity.
  - cbn [exec fst]. rewrite get_zset_put_list. reflexivity.
  - reflexivity.
  - cbn [exec]. destruct (remove_last m (get_list s k)). cbn [fst]. rewrite get_zset_put_list. reflexivity.
  - cbn [member_of] in Hm. cbn [exec fst]. destruct (zkey_eqb k ZProcessing) eqn:E.
    + apply zkey_eqb_eq in E. subst k. rewrite get_zset_put_same, cntzs_zinsert, cntzs_zremove. cbn [fst].
      assert (E1 : (m =? n) = false) by (apply Z.eqb_neq; congruence). assert (E2 : (n =? m) = false) by (apply Z.eqb_neq; congruence).
      rewrite E1, E2. cbn [ind]. lia.
    + rewrite get_zset_put_other; [reflexivity|]. intros Hk. subst k. rewrite zkey_eqb_refl in E. discriminate.
  - cbn [member_of] in Hm. cbn [exec fst]. destruct (zkey_eqb k ZProcessing) eqn:E.
    + apply zkey_eqb_eq in E. subst k. rewrite get_zset_put_same, cntzs_zremove.
      assert (E2 : (n =? m) = false) by (apply Z.eqb_neq; congruence). rewrite E2. reflexivity.
    + rewrite get_zset_put_other; [reflexivity|]. intros Hk. subst k. rewrite zkey_eqb_refl in E. discriminate.
  - reflexivity.
  - reflexivity.
  - reflexivity.
  - reflexivity.
Qed.

Lemma held_exec_all_other n cs : forall s, Forall (fun c => member_of c <> Some n) cs -> held n (fst (exec_all s cs)) = held n s.
Proof.
  induction cs as [|c cs IH]; intros s Hf; [reflexivity|]. inversion Hf; subst. rewrite exec_all_cons, IH by assumption.
  apply held_exec_other. assumption.
Qed.

Lemma reject_second_members e k pcode marker now :
  Forall (fun c => match member_of c with Some m => m = rk_name k | None => True end) (reject_second e k pcode marker now).
Proof.
  unfold reject_second, unmark_processing, mark_dead, put_in_queue.
  destruct (match marker with Some m => m =? MK_DEAD | None => false end); repeat constructor; cbn; auto.
  destruct (match pcode with Some pc => wait_of e pc now | None => None end); cbn; auto.
Qed.

Lemma reject_writes_RI e s0 now : forall ks s, RI s -> Forall (fun k => held (rk_name k) s = 1) ks -> NoDup (map rk_name ks) ->
  RI (fst (reject_writes e s s0 ks now)).
Proof.
  induction ks as [|k r IH]; intros s HR Hh Hnd; cbn [reject_writes]; [exact HR|].
  inversion Hh as [|? ? Hk Hr]; subst. inversion Hnd as [|? ? Hnot Hnd']; subst.
  match goal with |- context [exec_all s (reject_second e k ?a ?b now)] => set (pcode := a); set (marker := b) end.
  pose proof (held_occ_one _ _ HR Hk) as Ho.
  assert (R1 : RI (fst (exec_all s (reject_second e k pcode marker now)))).
  { apply (RI_tx s _ (rk_name k)); [exact HR | apply reject_second_members|].
    destruct (reject_places e k pcode marker now s (proj1 HR) Ho Hk) as [H _]. lia. }
  assert (H1 : Forall (fun k' => held (rk_name k') (fst (exec_all s (reject_second e k pcode marker now))) = 1) r).
  { rewrite Forall_forall in *. intros k' Hin. rewrite held_exec_all_other; [apply Hr; exact Hin|].
    pose proof (reject_second_members e k pcode marker now) as Hm. rewrite Forall_forall in Hm |- *. intros c Hc Heq. specialize (Hm c Hc). rewrite Heq in Hm.
    apply Hnot. rewrite <- Hm. apply in_map. exact Hin. }
  destruct (exec_all s (reject_second e k pcode marker now)) as [s1 rep]. cbn [fst] in R1, H1.
  specialize (IH s1 R1 H1 Hnd'). destruct (reject_writes e s1 s0 r now) as [s2 tr]. exact IH.
Qed.

Lemma In_cntzs_pos n z : In n (map fst z) -> 0 < cntzs n z.
Proof.
  induction z as [|x z IH]; cbn [map]; [intros []|]. intros H. rewrite cntzs_cons. pose proof (cntzs_nonneg n z). unfold ind.
  destruct (fst x =? n) eqn:E; [lia|]. destruct H as [H|H]; [apply Z.eqb_neq in E; contradiction | specialize (IH H); lia].
Qed.

(* in a state without duplicates the members of the processing set are pairwise distinct and each is held once *)
Lemma cnt_NoDup z : (forall n, cntzs n z <= 1) -> NoDup (map fst z).
Proof.
  induction z as [|en z IH]; intros H; cbn [map]; [constructor|]. constructor.
  - intros Hin. apply In_cntzs_pos in Hin. specialize (H (fst en)). rewrite cntzs_cons, Z.eqb_refl in H. cbn [ind] in H. lia.
  - apply IH. intros n. specialize (H n). rewrite cntzs_cons in H. unfold ind in H. destruct (fst en =? n); lia.
Qed.

Lemma maint_entry_keys e s n start now : Forall (fun k => rk_name k = n) (snd (maint_entry e s n start now)).
Proof.
  unfold maint_entry. destruct (exec s (ScanM n)) as [s' r1]. destruct (filter _ _) as [|k ks]; [constructor|].
  destruct (exec s (HGet k F_PARAMS)) as [s'' r2].
  assert (H : forall (A : Type) (tr : A) (pc : Z), Forall (fun k0 => rk_name k0 = n)
                (snd (tr, if timed_out e pc start now then [mkRK n (hq k) (hprio k)] else []))).
  { intros A tr pc. cbn [snd]. destruct (timed_out e pc start now); repeat constructor. }
  destruct r2 as [|a r2]; [constructor|]. destruct a as [|p|p]; try constructor. destruct p; try constructor.
  destruct r2 as [|pc r2]; [constructor|]. destruct r2; [apply H | constructor].
Qed.

Lemma maint_entry_len e s n start now : (length (snd (maint_entry e s n start now)) <= 1)%nat.
Proof.
  unfold maint_entry. destruct (exec s (ScanM n)) as [s' r1]. destruct (filter _ _) as [|k ks]; [cbn; lia|].
  destruct (exec s (HGet k F_PARAMS)) as [s'' r2].
  assert (H : forall (A : Type) (tr : A) (pc : Z), (length (snd (tr, if timed_out e pc start now then [mkRK n (hq k) (hprio k)] else [])) <= 1)%nat).
  { intros A tr pc. cbn [snd]. destruct (timed_out e pc start now); cbn; lia. }
  destruct r2 as [|a r2]; [cbn; lia|]. destruct a as [|p|p]; try (cbn; lia). destruct p; try (cbn; lia).
  destruct r2 as [|pc r2]; [cbn; lia|]. destruct r2; [apply H | cbn; lia].
Qed.

Lemma maintenance_RI e s now : RI s -> RI (fst (maintenance e s now)).
Proof.
  intros HR. unfold maintenance. destruct (exec s (ZScan ZProcessing)) as [s' r0].
  set (z := get_zset s ZProcessing). set (ks := flat_map snd (map (fun en => maint_entry e s (fst en) (snd en) now) z)).
  assert (Hz : forall n, cntzs n z <= 1).
  { intros n. pose proof (held_le_occ n s) as H. unfold held in H. fold z in H. pose proof (proj2 HR n). lia. }
  assert (Hsub : forall k, In k ks -> In (rk_name k) (map fst z)).
  { intros k Hin. unfold ks in Hin. apply in_flat_map in Hin. destruct Hin as [l [Hl Hk]]. apply in_map_iff in Hl. destruct Hl as [en [<- Hen]].
    pose proof (maint_entry_keys e s (fst en) (snd en) now) as Hf. rewrite Forall_forall in Hf. rewrite (Hf _ Hk). apply in_map. exact Hen. }
  assert (Hheld : Forall (fun k => held (rk_name k) s = 1) ks).
  { apply Forall_forall. intros k Hin. specialize (Hsub k Hin). unfold held. fold z. specialize (Hz (rk_name k)).
    apply In_cntzs_pos in Hsub. lia. }
  assert (Hnd : NoDup (map rk_name ks)).
  { pose proof (cnt_NoDup z Hz) as Hn. unfold ks. clear - Hn. induction z as [|en z IH]; cbn [map flat_map]; [constructor|].
    inversion Hn as [|? ? Hnot Hn']; subst. rewrite map_app. pose proof (maint_entry_keys e s (fst en) (snd en) now) as Hf.
    destruct (snd (maint_entry e s (fst en) (snd en) now)) as [|k [|k2 kr]] eqn:Ek.
    - cbn. apply IH. exact Hn'.
    - cbn [map app]. constructor; [|apply IH; exact Hn']. inversion Hf; subst. intros Hin. apply Hnot.
      apply in_map_iff in Hin. destruct Hin as [k' [Ek' Hk']]. apply in_flat_map in Hk'. destruct Hk' as [l [Hl Hkl]].
      apply in_map_iff in Hl. destruct Hl as [en' [<- Hen']]. pose proof (maint_entry_keys e s (fst en') (snd en') now) as Hf'.
      rewrite Forall_forall in Hf'. rewrite (Hf' _ Hkl) in Ek'. rewrite <- H1, <- Ek'. apply in_map. exact Hen'.
    - exfalso. pose proof (maint_entry_len e s (fst en) (snd en) now) as Hl. rewrite Ek in Hl. cbn in Hl. lia. }
  pose proof (reject_writes_RI e s now ks s HR Hheld Hnd) as H. destruct (reject_writes e s s ks now) as [s1 trw]. exact H.
Qed.

(* ---- API calls of a well-behaved caller: fresh names on enqueue; nack / reject / requeue of a message it holds ---- *)
Definition wb_rop (s : srv) (o : rop) : Prop :=
  match o with
  | ROEnqueue k _ _ _ => occ (rk_name k) s = 0
  | RONack k | ROReject k _ | RORequeue k _ _ _ => held (rk_name k) s = 1
  | _ => True
  end.

Lemma members_of_prog_ack k : Forall (fun c => match member_of c with Some m => m = rk_name k | None => True end) (DelH (hk k) :: unmark_processing k).
Proof. unfold unmark_processing. repeat constructor; cbn; auto. Qed.

Lemma ack_le k s n : WF s -> occ n (fst (exec_all s (DelH (hk k) :: unmark_processing k))) <= occ n s.
Proof.
  intros Hw. unfold unmark_processing. rewrite !exec_all_cons, exec_all_nil.
  set (s1 := fst (exec s (DelH (hk k)))). destruct (hash_cmd_containers s (DelH (hk k)) eq_refl) as [A1 A2]. fold s1 in A1, A2.
  assert (Hw1 : WF s1) by (eapply WF_same_containers; eauto).
  set (s2 := fst (exec s1 (ZRem ZProcessing (rk_name k)))).
  destruct (hash_cmd_containers s2 (HDel (hk k) F_REJECT) eq_refl) as [B1 B2].
  rewrite (occ_same_containers _ s2 _ B1 B2). unfold s2. rewrite occ_zrem by exact Hw1. rewrite (occ_same_containers n s s1 A1 A2).
  pose proof (cntzs_nonneg n (get_zset s1 ZProcessing)). destruct (n =? rk_name k); lia.
Qed.

Theorem redis_no_duplicates e s o : RI s -> wb_rop s o -> RI (fst (fst (run_api e s o))).
Proof.
  intros HR Hwb. pose proof HR as [Hw Hu]. destruct o as [k pl pc now | k | k | k now | k pl pc now | q ct topics choice now | now]; cbn [run_api wb_rop] in *.
  - rewrite (surjective_pairing (run_steps s _)). cbn [fst]. unfold enqueue_prog. rewrite fst_run_steps1.
    apply (RI_tx s _ (rk_name k)); [exact HR | unfold put_in_queue; repeat constructor; cbn; auto; destruct (wait_of e pc now); cbn; auto|].
    pose proof (enqueue_places e k pl pc now s Hw Hwb) as H. unfold enqueue_prog in H. cbn [hd] in H. lia.
  - rewrite (surjective_pairing (run_steps s _)). cbn [fst]. unfold ack_prog. rewrite fst_run_steps1.
    apply (RI_tx s _ (rk_name k)); [exact HR | apply members_of_prog_ack|]. pose proof (ack_le k s (rk_name k) Hw). specialize (Hu (rk_name k)). lia.
  - rewrite (surjective_pairing (run_steps s _)). cbn [fst]. unfold nack_prog. rewrite fst_run_steps1. apply nack_RI; assumption.
  - unfold run_reject. rewrite (surjective_pairing (exec_all s [HGet (hk k) F_PARAMS; HGet (hk k) F_REJECT])).
    rewrite reject_first_step_reads_only.
    match goal with |- context [exec_all s (reject_second e k ?a ?b now)] => set (pcode := a); set (marker := b) end.
    rewrite (surjective_pairing (exec_all s (reject_second e k pcode marker now))). cbn [fst].
    pose proof (held_occ_one _ _ HR Hwb) as Ho.
    apply (RI_tx s _ (rk_name k)); [exact HR| |destruct (reject_places e k pcode marker now s Hw Ho Hwb) as [H _]; lia].
    unfold reject_second, unmark_processing, mark_dead, put_in_queue.
    destruct (match marker with Some m => m =? MK_DEAD | None => false end); repeat constructor; cbn; auto.
    destruct (match pcode with Some pc => wait_of e pc now | None => None end); cbn; auto.
  - rewrite (surjective_pairing (run_steps s _)). cbn [fst]. unfold requeue_prog. rewrite fst_run_steps1.
    pose proof (held_occ_one _ _ HR Hwb) as Ho.
    apply (RI_tx s _ (rk_name k)).
    + exact HR.
    + unfold unmark_processing, put_in_queue. repeat constructor; cbn; auto. destruct (wait_of e pc now); cbn; auto.
    + destruct (requeue_places e k pl pc now s Hw Ho Hwb) as [_ [H _]]. unfold requeue_prog in H. cbn [hd] in H. lia.
  - destruct (consume_or_none e s q ct topics (prio_order choice) now) as [[s1 r] tr] eqn:E. cbn [fst].
    apply (consume_RI e q ct topics _ _ _ _ _ _ HR E).
  - rewrite (surjective_pairing (maintenance e s now)). cbn [fst]. apply maintenance_RI. exact HR.
Qed.

(* every sequential history of a well-behaved caller, from the empty server *)
Fixpoint wb_rhist (e : env) (s : srv) (h : list rop) : Prop :=
  match h with [] => True | o :: r => wb_rop s o /\ wb_rhist e (fst (fst (run_api e s o))) r end.
Fixpoint run_rops (e : env) (s : srv) (h : list rop) : srv :=
  match h with [] => s | o :: r => run_rops e (fst (fst (run_api e s o))) r end.

Lemma RI_srv0 : RI srv0.
Proof. split; [split; constructor | intros n; vm_compute; discriminate]. Qed.

Theorem redis_no_duplicates_ever e h : forall s, RI s -> wb_rhist e s h -> RI (run_rops e s h).
Proof.
  induction h as [|o r IH]; intros s HR Hwb; cbn [run_rops]; [exact HR|]. destruct Hwb as [H1 H2].
  apply IH; [apply redis_no_duplicates; assumption | exact H2].
Qed.

Corollary redis_no_duplicates_from_empty e h : wb_rhist e srv0 h -> forall n, occ n (run_rops e srv0 h) <= 1.
Proof. intros H. apply (redis_no_duplicates_ever e h srv0 RI_srv0 H). Qed.

(* a take hands out a name that is marked as being processed, exactly once: the premise of the terminal calls *)
Theorem redis_take_holds e s q ct topics choice now s1 n pl pc tr :
  RI s -> run_api e s (ROTake q ct topics choice now) = (s1, TMsg n pl pc, tr) -> occ n s1 = 1 /\ held n s1 = 1.
Proof. intros HR H. cbn [run_api] in H. apply (consume_RI e q ct topics _ _ _ _ _ _ HR H). Qed.

(* the premises are satisfiable by a history in which things happen: two enqueues, a take, a reject, a take, a requeue with
   a delay, a take that finds the other message, its nack, an ack *)
Example wb_rhist_example :
  let h := [ROEnqueue (mkRK 1 1 5) 11 100 0; ROEnqueue (mkRK 2 1 5) 12 100 0; ROTake 1 Normal [] 1 1000000;
            ROReject (mkRK 1 1 5) 1000000; ROTake 1 Normal [] 1 1000000; RORequeue (mkRK 1 1 5) 13 101 1000000;
            ROTake 1 Normal [] 1 1000000; RONack (mkRK 2 1 5); ROAck (mkRK 2 1 5)] in
  wb_rhist env2 srv0 h /\ map (fun n => occ n (run_rops env2 srv0 h)) [1; 2] = [1; 1].
Proof. cbv zeta. split; [vm_compute; repeat split | vm_compute; reflexivity]. Qed.
