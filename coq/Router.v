(* Router.v — routers, inclusion and the worker's dispatch.
   Mirrors repid/router.py (Router.actor -> _register, include_router, topics_by_queue) and the dispatch of
   repid/worker.py:94-103 + repid/_runner.py:90-118 (one consumer per key of topics_by_queue, filtered by that key's
   topic set; actor looked up by the message topic) at /repo HEAD (with the fix recorded for C11).

   Names, queues and functions are Z numbers assigned by the harness.  `actors` is Python's dict (insertion ordered,
   unique keys): an association list in which a re-registration replaces in place.  `topics_by_queue`
   (defaultdict(set)) is the list of its (queue, name) pairs; a queue is a key iff it has a pair (the code deletes a
   set that became empty; the correspondence compares the keys of the real dict with `queues`). *)
From Repid Require Import Base.

Record actor := mkA { a_name : Z; a_queue : Z; a_fn : Z }.
Record router := mkR { actors : list actor; tbq : list (Z * Z) }.   (* (queue, name) *)

Definition empty_router : router := mkR [] [].

Fixpoint find_actor (n : Z) (l : list actor) : option actor :=
  match l with
  | [] => None
  | a :: r => if a_name a =? n then Some a else find_actor n r
  end.

(* dict[name] = a *)
Fixpoint set_actor (a : actor) (l : list actor) : list actor :=
  match l with
  | [] => [a]
  | x :: r => if a_name x =? a_name a then a :: r else x :: set_actor a r
  end.

Definition pair_eqb (p p' : Z * Z) : bool := (fst p =? fst p') && (snd p =? snd p').
Definition has_pair (p : Z * Z) (l : list (Z * Z)) : bool := existsb (pair_eqb p) l.
Definition add_pair (p : Z * Z) (l : list (Z * Z)) : list (Z * Z) := if has_pair p l then l else l ++ [p].
Definition remove_pair (p : Z * Z) (l : list (Z * Z)) : list (Z * Z) := filter (fun x => negb (pair_eqb p x)) l.

(* Router._register *)
Definition register (r : router) (a : actor) : router :=
  let tb := match find_actor (a_name a) (actors r) with
            | Some prev => if a_queue prev =? a_queue a then tbq r else remove_pair (a_queue prev, a_name a) (tbq r)
            | None => tbq r
            end in
  mkR (set_actor a (actors r)) (add_pair (a_queue a, a_name a) tb).

(* the registration as it was before the fix: the previous queue keeps the topic *)
Definition register_old (r : router) (a : actor) : router :=
  mkR (set_actor a (actors r)) (add_pair (a_queue a, a_name a) (tbq r)).

(* Router.include_router *)
Definition include (r r' : router) : router := fold_left register (actors r') r.

(* Worker(routers=[...]) *)
Definition worker_of (rs : list router) : router := fold_left include rs empty_router.

(* ---- a world of routers built by any sequence of declarations and inclusions ---- *)
Inductive rop := Reg (dst : nat) (a : actor) | Inc (dst src : nat).

Fixpoint upd_nth (k : nat) (f : router -> router) (l : list router) : list router :=
  match l, k with
  | [], _ => []
  | x :: r, O => f x :: r
  | x :: r, S k' => x :: upd_nth k' f r
  end.

Definition rstep (w : list router) (o : rop) : list router :=
  match o with
  | Reg d a => upd_nth d (fun r => register r a) w
  | Inc d s => match nth_error w s with Some r' => upd_nth d (fun r => include r r') w | None => w end
  end.

Definition rrun (n : nat) (ops : list rop) : list router := fold_left rstep ops (repeat empty_router n).

(* ---- dispatch ---- *)
Fixpoint dedup (l : list Z) : list Z :=
  match l with [] => [] | x :: r => if existsb (Z.eqb x) r then dedup r else x :: dedup r end.
Definition queues (r : router) : list Z := dedup (map fst (tbq r)).
Definition topics_of (r : router) (q : Z) : list Z := map snd (filter (fun p => fst p =? q) (tbq r)).

(* the worker has a consumer on q that accepts topic t *)
Definition serves (w : router) (q t : Z) : bool := has_pair (q, t) (tbq w).

(* which function a worker runs for a job (topic t, queue q): None = the worker leaves the message alone *)
Definition executes (w : router) (t q : Z) : option Z :=
  if serves w q t then option_map a_fn (find_actor t (actors w)) else None.

(* ---- observation for the correspondence ---- *)
Fixpoint list_leb (a b : list Z) : bool :=
  match a, b with
  | [], _ => true
  | _ :: _, [] => false
  | x :: a', y :: b' => if x <? y then true else if y <? x then false else list_leb a' b'
  end.
Fixpoint ins_sorted (x : list Z) (l : list (list Z)) : list (list Z) :=
  match l with
  | [] => [x]
  | y :: r => if list_leb x y then x :: l else y :: ins_sorted x r
  end.
Definition sort_rows (l : list (list Z)) : list (list Z) := fold_right ins_sorted [] l.

Definition enc_router (r : router) : list Z :=
  [Z.of_nat (length (actors r))] ++ concat (sort_rows (map (fun a => [a_name a; a_queue a; a_fn a]) (actors r))) ++
  [Z.of_nat (length (tbq r))] ++ concat (sort_rows (map (fun p => [fst p; snd p]) (tbq r))) ++
  [Z.of_nat (length (queues r))] ++ concat (sort_rows (map (fun q => [q]) (queues r))).

(* case: number of routers, ops, routers given to the worker, jobs (topic, queue) *)
Definition router_obs (c : nat * list rop * list nat * list (Z * Z)) : list Z :=
  let '(n, ops, ws, jobs) := c in
  let w := rrun n ops in
  let wk := worker_of (flat_map (fun k => match nth_error w k with Some r => [r] | None => [] end) ws) in
  flat_map enc_router w ++ [-5] ++ enc_router wk ++ [-6] ++
  map (fun j => match executes wk (fst j) (snd j) with Some f => f | None => 0 end) jobs.
