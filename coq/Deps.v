(* Deps.v — dependency graphs, resolution and override.
   Mirrors repid/dependencies/depends.py (Depends.__init__/override/_update_subdependencies/resolve),
   repid/_utils/get_dependency.py and the resolution step of _Processor.actor_run (repid/_processor.py:75-107):
   every dependency parameter of the actor is resolved (concurrently, asyncio.gather) and passed by keyword.

   A Depends object is a mutable node: its current provider function and the sub-dependency parameters read off that
   function's signature.  Nodes are shared by reference (an Annotated[..., dep] annotation holds the object), so the
   store is a list of nodes and a sub-dependency is an index.  The message dependency (a "direct" dependency,
   constructed from the resolver context) is DMsg.  Providers are unknown code: a Section variable from
   (function id, keyword arguments) to a value or an exception; theorems quantify over it.
   Parameter names, function ids, values and exception codes are Z numbers assigned by the harness. *)
From Repid Require Import Base.

Inductive dep := DNode (i : nat) | DMsg.
Record node := mkN { n_fn : Z; n_subs : list (Z * dep) }.
Definition store := list node.

Inductive res := Ok (v : Z) | Err (e : Z) | OutOfFuel.
Definition call := (Z * list (Z * Z))%type.          (* provider function, keyword arguments *)

(* asyncio.gather over the sub-resolutions: all values, else the exception (the first in parameter order stands for
   "an exception of one of the failing providers") *)
Fixpoint collect (l : list (Z * res)) : list (Z * Z) + res :=
  match l with
  | [] => inl []
  | (n, Ok v) :: r => match collect r with inl kv => inl ((n, v) :: kv) | inr e => inr e end
  | (n, Err e) :: r => match collect r with inr OutOfFuel => inr OutOfFuel | _ => inr (Err e) end
  | (n, OutOfFuel) :: r => inr OutOfFuel
  end.

Section Resolve.
  Variable prov : Z -> list (Z * Z) -> res.
  Variable msgv : Z.                                  (* the value standing for the MessageDependency object *)

  (* Depends.resolve: resolve the sub-dependencies, then call the provider with them by keyword.
     Returns the result and the provider calls made (sub-resolutions that run next to a failing one still run). *)
  Fixpoint resolve (fuel : nat) (st : store) (d : dep) : res * list call :=
    match d with
    | DMsg => (Ok msgv, [])
    | DNode i =>
        match fuel with
        | O => (OutOfFuel, [])
        | S f =>
            match nth_error st i with
            | None => (OutOfFuel, [])
            | Some n =>
                let rs := map (fun nd => (fst nd, resolve f st (snd nd))) (n_subs n) in
                let calls := flat_map (fun x => snd (snd x)) rs in
                match collect (map (fun x => (fst x, fst (snd x))) rs) with
                | inl kwargs => (prov (n_fn n) kwargs, calls ++ [(n_fn n, kwargs)])
                | inr e => (e, calls)
                end
            end
        end
    end.

  (* the resolution step of actor_run: the actor's dependency parameters -> keyword arguments, or the failure *)
  Definition actor_deps (fuel : nat) (st : store) (deps : list (Z * dep)) : (list (Z * Z) + res) * list call :=
    let rs := map (fun nd => (fst nd, resolve fuel st (snd nd))) deps in
    (collect (map (fun x => (fst x, fst (snd x))) rs), flat_map (fun x => snd (snd x)) rs).
End Resolve.

(* Depends.override(fn): new provider, sub-dependencies re-read from its signature *)
Fixpoint set_nth {A} (k : nat) (x : A) (l : list A) : list A :=
  match l, k with
  | [], _ => []
  | _ :: r, O => x :: r
  | y :: r, S k' => y :: set_nth k' x r
  end.
Definition override (st : store) (i : nat) (f : Z) (subs : list (Z * dep)) : store := set_nth i (mkN f subs) st.

(* ---- declaration checks (Depends._update_subdependencies; converters' __init__ share the first rule) ---- *)
Inductive dkind := KPosOnly | KPosOrKw | KKwOnly | KVarPos | KVarKw.
Record dparam := mkDP { dp_kind : dkind; dp_dep : bool; dp_default : bool }.

(* None = accepted, Some 1 = "Dependencies in positional-only arguments are not supported",
   Some 2 = "Non-dependency arguments without defaults are not supported" (first offending parameter decides) *)
Fixpoint provider_check (ps : list dparam) : option Z :=
  match ps with
  | [] => None
  | p :: r =>
      match dp_kind p, dp_dep p with
      | KPosOnly, true => Some 1
      | (KPosOrKw | KKwOnly), true => provider_check r
      | _, _ => if dp_default p then provider_check r else Some 2
      end
  end.

(* ---- correspondence ---- *)
(* the providers the harness uses: function f fails with code 9000+f when f is in `failing`, else returns a number
   determined by f and its keyword arguments *)
Definition mix (f : Z) (kw : list (Z * Z)) : Z :=
  (fold_left (fun acc nv => (acc * 31 + fst nv * 7 + snd nv) mod 1000000007) kw (f * 1009)) mod 1000000007.
Definition harness_prov (failing : list Z) (f : Z) (kw : list (Z * Z)) : res :=
  if existsb (Z.eqb f) failing then Err (9000 + f) else Ok (mix f kw).

Fixpoint list_leb (a b : list Z) : bool :=
  match a, b with
  | [], _ => true
  | _ :: _, [] => false
  | x :: a', y :: b' => if x <? y then true else if y <? x then false else list_leb a' b'
  end.
Fixpoint ins_sorted (x : list Z) (l : list (list Z)) : list (list Z) :=
  match l with [] => [x] | y :: r => if list_leb x y then x :: l else y :: ins_sorted x r end.
Definition sort_rows (l : list (list Z)) : list (list Z) := fold_right ins_sorted [] l.

Definition enc_call (c : call) : list Z := fst c :: Z.of_nat (length (snd c)) :: flat_map (fun kv => [fst kv; snd kv]) (snd c).

Inductive dop := DOverride (i : nat) (f : Z) (subs : list (Z * dep)) | DRun (failing : list Z).

(* one case: a store, the actor's dependency parameters, and a sequence of overrides and runs; every run reports
   success + keyword arguments (sorted by name) or the failure, and the provider calls (sorted) *)
Fixpoint deps_run (st : store) (deps : list (Z * dep)) (ops : list dop) : list Z :=
  match ops with
  | [] => []
  | DOverride i f subs :: r => deps_run (override st i f subs) deps r
  | DRun failing :: r =>
      let '(out, calls) := actor_deps (harness_prov failing) 777 (S (length st)) st deps in
      (match out with
       | inl kw => 1 :: Z.of_nat (length kw) :: concat (sort_rows (map (fun kv => [fst kv; snd kv]) kw))
       | inr (Err e) => [0; if 9000 <=? e then 1 else 0]
       | inr _ => [-1]
       end) ++ [Z.of_nat (length calls)] ++ concat (sort_rows (map enc_call calls)) ++ deps_run st deps r
  end.

Definition deps_obs (c : store * list (Z * dep) * list dop) : list Z :=
  let '(st, deps, ops) := c in deps_run st deps ops.

Definition enc_check (o : option Z) : Z := match o with None => 0 | Some k => k end.
Definition check_obs (ps : list dparam) : list Z := [enc_check (provider_check ps)].
