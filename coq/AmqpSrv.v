(* AmqpSrv.v — the part of a RabbitMQ server (AMQP 0-9-1 + RabbitMQ extensions) the repid client relies on, as an
   executable state machine.  This is the description of the server the RabbitMQ theorems rest on.  It is TRUSTED and,
   unlike everything else in this development, cannot be compared with the real thing here (no server in the sandbox):
   it is written from the RabbitMQ documentation, mirrored by harness/fakeamqp.py, and the two are compared on every
   method, delivery and queue content of every recorded client run.

   What is described (docs: "Queues", "Priority", "TTL", "Dead Letter Exchanges", "Consumer Prefetch", "Consumer
   Acknowledgements", "Negative Acknowledgements"):
   - the default exchange routes a message to the queue named by its routing key;
   - a queue declared with x-max-priority keeps ready messages ordered by priority (higher first), first-in first-out
     within one priority;
   - per-message TTL (`expiration`, milliseconds, counted from the moment the message enters the queue): an expired message
     is dead-lettered ONLY WHEN IT REACHES THE HEAD of the queue ("only when expired messages reach the head of a queue
     will they actually be discarded or dead-lettered");
   - dead-lettering (expiry, or basic.nack / basic.reject with requeue=false) republishes the message, with its
     `expiration` property removed, to the queue named by x-dead-letter-routing-key; without one the message is dropped;
   - basic.reject / basic.nack with requeue=true puts the message back "in its original position, if possible": at the
     front of its priority class, marked redelivered;
   - an unacknowledged delivery belongs to the consumer it was made to until it is acknowledged, rejected or the channel
     closes; basic.cancel stops further deliveries and leaves unacknowledged ones alone;
   - basic.qos (global=false) sets the prefetch count given to consumers started AFTERWARDS on the channel (RabbitMQ's
     reading of the flag); 0 = unlimited; a consumer at its limit receives nothing;
   - ready messages are handed to the consumers of their queue in round-robin order.

   repid declares three queues per name: <q> (dead-letters to <q>:dead), <q>:delayed (dead-letters to <q>) and <q>:dead
   (no dead-letter target); queue keys are structured (number, kind) here.  Times are microseconds. *)
From Repid Require Import Base.

Inductive qkind := QNormal | QDelayed | QDead.
Record qkey := mkQK { qnum : Z; qkd : qkind }.

Record amsg := mkAM {
  a_id : Z; a_prio : Z; a_topic : Z; a_hq : Z;        (* message_id, priority, headers topic / queue *)
  a_payload : Z; a_pcode : Z;                          (* body: payload and encoded parameters (interned) *)
  a_expire : option Z;                                 (* instant at which the per-message TTL has run out *)
  a_redel : bool
}.

Record unack := mkU { u_tag : Z; u_msg : amsg; u_q : qkey; u_ctag : Z }.
Record cons := mkC { c_tag : Z; c_q : qkey; c_prefetch : Z }.

Record srv := mkSrv {
  queues : list (qkey * list amsg);     (* declaration order; ready messages, head first *)
  unacked : list unack;                 (* delivery order *)
  consumers : list cons;                (* round-robin order: the next to be served first *)
  qos : Z;                              (* channel prefetch count for consumers started from now on *)
  next_tag : Z; next_ctag : Z
}.
Definition srv0 : srv := mkSrv [] [] [] 0 1 1.

Definition qkind_eqb (a b : qkind) : bool :=
  match a, b with QNormal, QNormal | QDelayed, QDelayed | QDead, QDead => true | _, _ => false end.
Definition qkey_eqb (a b : qkey) : bool := (qnum a =? qnum b) && qkind_eqb (qkd a) (qkd b).

Fixpoint qget (k : qkey) (l : list (qkey * list amsg)) : option (list amsg) :=
  match l with [] => None | (k', v) :: r => if qkey_eqb k k' then Some v else qget k r end.
Fixpoint qset (k : qkey) (v : list amsg) (l : list (qkey * list amsg)) : list (qkey * list amsg) :=
  match l with [] => [(k, v)] | (k', v') :: r => if qkey_eqb k k' then (k, v) :: r else (k', v') :: qset k v r end.
Definition ready (s : srv) (k : qkey) : list amsg := match qget k (queues s) with Some l => l | None => [] end.
Definition declared (s : srv) (k : qkey) : bool := match qget k (queues s) with Some _ => true | None => false end.
Definition set_ready (s : srv) (k : qkey) (l : list amsg) : srv :=
  mkSrv (qset k l (queues s)) (unacked s) (consumers s) (qos s) (next_tag s) (next_ctag s).

(* x-dead-letter-routing-key as repid declares it *)
Definition dl_target (k : qkey) : option qkey :=
  match qkd k with QNormal => Some (mkQK (qnum k) QDead) | QDelayed => Some (mkQK (qnum k) QNormal) | QDead => None end.

(* priority queue: behind every message of the same or a higher priority *)
Fixpoint enq (m : amsg) (l : list amsg) : list amsg :=
  match l with
  | [] => [m]
  | x :: r => if a_prio x <? a_prio m then m :: l else x :: enq m r
  end.
(* requeue: in front of every message of the same or a lower priority *)
Fixpoint enq_front (m : amsg) (l : list amsg) : list amsg :=
  match l with
  | [] => [m]
  | x :: r => if a_prio x <=? a_prio m then m :: l else x :: enq_front m r
  end.

Definition with_expire (m : amsg) (e : option Z) : amsg :=
  mkAM (a_id m) (a_prio m) (a_topic m) (a_hq m) (a_payload m) (a_pcode m) e (a_redel m).
Definition with_redel (m : amsg) (b : bool) : amsg :=
  mkAM (a_id m) (a_prio m) (a_topic m) (a_hq m) (a_payload m) (a_pcode m) (a_expire m) b.

(* route a message to a queue (publish or dead-letter); an undeclared queue drops it *)
Definition route (s : srv) (k : qkey) (m : amsg) : srv :=
  if declared s k then set_ready s k (enq m (ready s k)) else s.

Definition dead_letter (s : srv) (from : qkey) (m : amsg) : srv :=
  match dl_target from with
  | Some k => route s k (with_redel (with_expire m None) false)
  | None => s
  end.

Fixpoint take_tag (t : Z) (l : list unack) : option (unack * list unack) :=
  match l with
  | [] => None
  | u :: r => if u_tag u =? t then Some (u, r)
              else match take_tag t r with Some (x, r') => Some (x, u :: r') | None => None end
  end.

Definition set_unacked (s : srv) (l : list unack) : srv :=
  mkSrv (queues s) l (consumers s) (qos s) (next_tag s) (next_ctag s).

Inductive meth :=
| Publish (k : qkey) (id prio topic hq payload pcode : Z) (exp_ms : option Z)
| Ack (tag : Z)
| Nack (tag : Z)                 (* requeue = false *)
| Reject (tag : Z)               (* requeue = true *)
| Qos (n : Z)
| Consume (k : qkey)             (* reply: the consumer tag *)
| Cancel (ctag : Z)
| Declare (k : qkey)
| Purge (k : qkey).

(* one method; reply: 1 ok / consumer tag for Consume, 0 = unknown delivery tag, unroutable *)
Definition exec (s : srv) (now : Z) (m : meth) : srv * Z :=
  match m with
  | Publish k id prio topic hq payload pcode exp =>
      if declared s k then
        (route s k (mkAM id prio topic hq payload pcode (match exp with Some e => Some (now + e * 1000) | None => None end) false), 1)
      else (s, 0)
  | Ack t => match take_tag t (unacked s) with Some (_, r) => (set_unacked s r, 1) | None => (s, 0) end
  | Nack t => match take_tag t (unacked s) with
              | Some (u, r) => (dead_letter (set_unacked s r) (u_q u) (u_msg u), 1)
              | None => (s, 0)
              end
  | Reject t => match take_tag t (unacked s) with
                | Some (u, r) => let s1 := set_unacked s r in
                                 (set_ready s1 (u_q u) (enq_front (with_redel (u_msg u) true) (ready s1 (u_q u))), 1)
                | None => (s, 0)
                end
  | Qos n => (mkSrv (queues s) (unacked s) (consumers s) n (next_tag s) (next_ctag s), 1)
  | Consume k =>
      (mkSrv (queues s) (unacked s) (consumers s ++ [mkC (next_ctag s) k (qos s)]) (qos s) (next_tag s) (next_ctag s + 1), next_ctag s)
  | Cancel ct =>
      (mkSrv (queues s) (unacked s) (filter (fun c => negb (c_tag c =? ct)) (consumers s)) (qos s) (next_tag s) (next_ctag s), 1)
  | Declare k =>
      (mkSrv (match qget k (queues s) with Some _ => queues s | None => qset k [] (queues s) end)
             (unacked s) (consumers s) (qos s) (next_tag s) (next_ctag s), 1)
  | Purge k => (if declared s k then set_ready s k [] else s, 1)
  end.

(* ---- what the server does by itself ---- *)
(* one expiry: the first queue (declaration order) whose HEAD has outlived its TTL *)
Fixpoint find_expired (s : srv) (now : Z) (ks : list qkey) : option (qkey * amsg * list amsg) :=
  match ks with
  | [] => None
  | k :: r =>
      match ready s k with
      | m :: rest => match a_expire m with
                     | Some e => if e <=? now then Some (k, m, rest) else find_expired s now r
                     | None => find_expired s now r
                     end
      | [] => find_expired s now r
      end
  end.

Definition expire_one (s : srv) (now : Z) : option srv :=
  match find_expired s now (map fst (queues s)) with
  | Some (k, m, rest) => Some (dead_letter (set_ready s k rest) k m)
  | None => None
  end.

Definition in_flight (s : srv) (ct : Z) : Z := Z.of_nat (length (filter (fun u => u_ctag u =? ct) (unacked s))).
Definition has_room (s : srv) (c : cons) : bool := (c_prefetch c =? 0) || (in_flight s (c_tag c) <? c_prefetch c).

(* one delivery: the first consumer in round-robin order that has room and whose queue has a ready message *)
Fixpoint pick_consumer (s : srv) (cs : list cons) : option (cons * list cons) :=
  match cs with
  | [] => None
  | c :: r =>
      if has_room s c && match ready s (c_q c) with [] => false | _ => true end then Some (c, r)
      else match pick_consumer s r with Some (x, r') => Some (x, c :: r') | None => None end
  end.

Record delivery := mkDel { d_ctag : Z; d_tag : Z; d_msg : amsg }.

Definition deliver_one (s : srv) : option (srv * delivery) :=
  match pick_consumer s (consumers s) with
  | Some (c, others) =>
      match ready s (c_q c) with
      | m :: rest =>
          let s1 := set_ready s (c_q c) rest in
          Some (mkSrv (queues s1) (unacked s1 ++ [mkU (next_tag s1) m (c_q c) (c_tag c)]) (others ++ [c]) (qos s1)
                      (next_tag s1 + 1) (next_ctag s1),
                mkDel (c_tag c) (next_tag s1) m)
      | [] => None
      end
  | None => None
  end.

(* run the server until nothing more happens at instant `now`: expiries first, then deliveries *)
Fixpoint pump (fuel : nat) (s : srv) (now : Z) : srv * list delivery :=
  match fuel with
  | O => (s, [])
  | S f =>
      match expire_one s now with
      | Some s' => pump f s' now
      | None =>
          match deliver_one s with
          | Some (s', d) => let '(s'', ds) := pump f s' now in (s'', d :: ds)
          | None => (s, [])
          end
      end
  end.

(* the next instant at which a head expires *)
Fixpoint next_expiry (qs : list (qkey * list amsg)) : option Z :=
  match qs with
  | [] => None
  | (_, l) :: r =>
      let rest := next_expiry r in
      match l with
      | m :: _ => match a_expire m, rest with
                  | Some e, Some e' => Some (Z.min e e')
                  | Some e, None => Some e
                  | None, x => x
                  end
      | [] => rest
      end
  end.

(* observation compared with the fake: per queue the ids (with redelivered flag and expiry), the unacked deliveries *)
Definition enc_amsg (m : amsg) : list Z :=
  [a_id m; a_prio m; a_topic m; a_hq m; a_payload m; a_pcode m; match a_expire m with Some e => e | None => -1 end;
   if a_redel m then 1 else 0].
Definition srv_obs (s : srv) : list Z :=
  flat_map (fun kv => [-10; qnum (fst kv); match qkd (fst kv) with QNormal => 0 | QDelayed => 1 | QDead => 2 end]
                      ++ flat_map enc_amsg (snd kv)) (queues s)
  ++ [-11] ++ flat_map (fun u => [u_tag u; a_id (u_msg u); u_ctag u]) (unacked s)
  ++ [-12] ++ flat_map (fun c => [c_tag c; c_prefetch c]) (consumers s) ++ [-13; qos s; next_tag s; next_ctag s].
