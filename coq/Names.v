(* Names.v — names, ids and the brokers' key encodings, as text (lists of code points).
   Mirrors repid/_utils/regex_validators.py (VALID_ID = [a-zA-Z0-9_-]+, VALID_NAME = [a-zA-Z_][a-zA-Z0-9_-]*, both used
   with fullmatch), repid/data/_key.py (RoutingKey.__post_init__), repid/connections/redis/utils.py:47-116 (qnc, mnc,
   full_message_name_from_short, get_queue_marker, parse_short_message_name, parse_message_name),
   repid/connections/redis/consumer.py:173-177 (topic filter: short_name.startswith(f"{topic}:")),
   repid/connections/rabbitmq/utils.py:25-31 (qnc) and repid/_utils/args_bucket_in_message_id.py (the bucket marker).
   str(int) / int(str) for the priority is Decimal.uint printing (digits as code points 48..57). *)
From Repid Require Import Base.
From Coq Require Import Decimal DecimalNat.

Definition text := list Z.
Definition COLON : Z := 58.

Definition is_lower (c : Z) : bool := (97 <=? c) && (c <=? 122).
Definition is_upper (c : Z) : bool := (65 <=? c) && (c <=? 90).
Definition is_digit (c : Z) : bool := (48 <=? c) && (c <=? 57).
Definition name_start (c : Z) : bool := is_lower c || is_upper c || (c =? 95).
Definition name_char (c : Z) : bool := name_start c || is_digit c || (c =? 45).

(* VALID_ID.fullmatch / VALID_NAME.fullmatch *)
Definition valid_id (s : text) : bool := match s with [] => false | _ => forallb name_char s end.
Definition valid_name (s : text) : bool := match s with [] => false | c :: r => name_start c && forallb name_char r end.

(* ---- str.split(":") and ":".join ---- *)
Fixpoint split_colon_aux (cur : text) (s : text) : list text :=
  match s with
  | [] => [List.rev cur]
  | c :: r => if c =? COLON then List.rev cur :: split_colon_aux [] r else split_colon_aux (c :: cur) r
  end.
Definition split_colon (s : text) : list text := split_colon_aux [] s.

Fixpoint join_colon (parts : list text) : text :=
  match parts with
  | [] => []
  | [p] => p
  | p :: r => p ++ COLON :: join_colon r
  end.

Definition no_colon (s : text) : bool := forallb (fun c => negb (c =? COLON)) s.

(* ---- decimal text of a priority ---- *)
Fixpoint uint_codes (u : Decimal.uint) : text :=
  match u with
  | Nil => []
  | D0 r => 48 :: uint_codes r | D1 r => 49 :: uint_codes r | D2 r => 50 :: uint_codes r | D3 r => 51 :: uint_codes r
  | D4 r => 52 :: uint_codes r | D5 r => 53 :: uint_codes r | D6 r => 54 :: uint_codes r | D7 r => 55 :: uint_codes r
  | D8 r => 56 :: uint_codes r | D9 r => 57 :: uint_codes r
  end.
Fixpoint codes_uint (s : text) : option Decimal.uint :=
  match s with
  | [] => Some Nil
  | c :: r =>
      match codes_uint r with
      | None => None
      | Some u =>
          if c =? 48 then Some (D0 u) else if c =? 49 then Some (D1 u) else if c =? 50 then Some (D2 u)
          else if c =? 51 then Some (D3 u) else if c =? 52 then Some (D4 u) else if c =? 53 then Some (D5 u)
          else if c =? 54 then Some (D6 u) else if c =? 55 then Some (D7 u) else if c =? 56 then Some (D8 u)
          else if c =? 57 then Some (D9 u) else None
      end
  end.
Definition str_of_nat (n : nat) : text := uint_codes (Nat.to_uint n).                   (* str(n) *)
Definition nat_of_str (s : text) : option nat :=                                        (* int(s), for digit strings *)
  match s with [] => None | _ => option_map Nat.of_uint (codes_uint s) end.

(* ---- routing keys ---- *)
Record rkey := mkKey { k_id : text; k_topic : text; k_queue : text; k_prio : nat }.
Definition valid_key (k : rkey) : bool := valid_id (k_id k) && valid_name (k_topic k) && valid_name (k_queue k).

Definition M_ : text := [109].   Definition Q_ : text := [113].   Definition N_ : text := [110].   Definition D_ : text := [100].
Definition DEAD_ : text := [100; 101; 97; 100].                       (* "dead" *)
Definition DELAYED_ : text := [100; 101; 108; 97; 121; 101; 100].     (* "delayed" *)

(* Redis: mnc(key) = m:<queue>:<priority>:<topic>:<id>, short = <topic>:<id> *)
Definition mnc (k : rkey) : text := join_colon [M_; k_queue k; str_of_nat (k_prio k); k_topic k; k_id k].
Definition mnc_short (k : rkey) : text := join_colon [k_topic k; k_id k].
(* Redis: qnc = q:<queue>:<priority>:(dead | d | n) *)
Inductive qkind := QNormal | QDelayed | QDead.
Definition kind_text (kd : qkind) : text := match kd with QNormal => N_ | QDelayed => D_ | QDead => DEAD_ end.
Definition qnc (queue : text) (prio : nat) (kd : qkind) : text := join_colon [Q_; queue; str_of_nat prio; kind_text kd].

Definition parse_message_name (s : text) : option rkey :=
  match split_colon s with
  | [_; q; p; t; i] => match nat_of_str p with Some n => Some (mkKey i t q n) | None => None end
  | _ => None
  end.
Definition parse_short_message_name (s : text) : option (text * text) :=
  match split_colon s with [t; i] => Some (t, i) | _ => None end.
Definition full_message_name_from_short (short full_queue : text) : option text :=
  match split_colon full_queue with
  | [_; q; p; _] => Some (join_colon [M_; q; p; short])
  | _ => None
  end.
Definition get_queue_marker (full_queue : text) : text := last (split_colon full_queue) [].

(* Redis topic filter *)
Fixpoint starts_with (p s : text) : bool :=
  match p, s with
  | [], _ => true
  | _ :: _, [] => false
  | a :: p', b :: s' => (a =? b) && starts_with p' s'
  end.
Definition topic_matches (topic short : text) : bool := starts_with (topic ++ [COLON]) short.

(* RabbitMQ: qnc *)
Definition rabbit_qnc (queue : text) (kd : qkind) : text :=
  match kd with QDead => queue ++ COLON :: DEAD_ | QDelayed => queue ++ COLON :: DELAYED_ | QNormal => queue end.

(* ---- the bucket marker: {"__repid_payload_id":"<id>"} ---- *)
Definition KEY : text := [95; 95; 114; 101; 112; 105; 100; 95; 112; 97; 121; 108; 111; 97; 100; 95; 105; 100].   (* __repid_payload_id *)
Definition QUOTE : Z := 34.
Definition marker_construct (id : text) : text := [123; QUOTE] ++ KEY ++ [QUOTE; COLON; QUOTE] ++ id ++ [QUOTE; 125].

(* str.find(KEY, 0, len(KEY)+3) != -1: KEY occurs entirely within the first len(KEY)+3 characters, i.e. at offset 0..3 *)
Fixpoint occurs_within (n : nat) (s : text) : bool :=
  starts_with KEY s || match n, s with S n', _ :: r => occurs_within n' r | _, _ => false end.
Definition marker_check (s : text) : bool := occurs_within 3 s.

(* json.loads(s).get(KEY) for the texts marker_construct produces (ids need no escaping) *)
Definition marker_deconstruct (s : text) : option text :=
  match s with
  | 123 :: 34 :: r =>
      if starts_with (KEY ++ [QUOTE; COLON; QUOTE]) r
      then let v := skipn (length KEY + 3) r in
           match List.rev v with 125 :: 34 :: body => Some (List.rev body) | _ => None end
      else None
  | _ => None
  end.

(* ---- correspondence ---- *)
Definition enc_text (s : text) : list Z := Z.of_nat (length s) :: s.
Definition enc_opt_text (o : option text) : list Z := match o with None => [-1] | Some s => enc_text s end.

Inductive names_case :=
| NValidId (s : text) | NValidName (s : text) | NSplit (s : text)
| NMnc (k : rkey) | NMncShort (k : rkey) | NQnc (q : text) (p : nat) (kd : qkind)
| NParse (s : text) | NParseShort (s : text) | NFull (short fq : text) | NMarkerOf (fq : text)
| NTopic (topic short : text) | NRabbit (q : text) (kd : qkind)
| NMarker (id : text) | NCheck (s : text) | NDecon (s : text).

Definition names_obs (c : names_case) : list Z :=
  match c with
  | NValidId s => [enc_bool (valid_id s)]
  | NValidName s => [enc_bool (valid_name s)]
  | NSplit s => Z.of_nat (length (split_colon s)) :: flat_map enc_text (split_colon s)
  | NMnc k => enc_text (mnc k)
  | NMncShort k => enc_text (mnc_short k)
  | NQnc q p kd => enc_text (qnc q p kd)
  | NParse s => match parse_message_name s with
                | Some k => 1 :: enc_text (k_id k) ++ enc_text (k_topic k) ++ enc_text (k_queue k) ++ [Z.of_nat (k_prio k)]
                | None => [0] end
  | NParseShort s => match parse_short_message_name s with Some (t, i) => 1 :: enc_text t ++ enc_text i | None => [0] end
  | NFull short fq => enc_opt_text (full_message_name_from_short short fq)
  | NMarkerOf fq => enc_text (get_queue_marker fq)
  | NTopic t s => [enc_bool (topic_matches t s)]
  | NRabbit q kd => enc_text (rabbit_qnc q kd)
  | NMarker id => enc_text (marker_construct id)
  | NCheck s => [enc_bool (marker_check s)]
  | NDecon s => enc_opt_text (marker_deconstruct s)
  end.
