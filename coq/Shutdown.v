(* Shutdown.v — who owns a taken message while a worker processes it and while it shuts down.
   Mirrors repid/_runner.py (_run_consumer: a loop owns the message between consume() and the spawn, gives a surplus
   message back; _process_with_event: the wrapper races the processing task against the cancel event and, when that is set,
   cancels the processing task and rejects the message; finish_gracefully: stop, wait, set the cancel event, wait for the
   cancelled tasks - fix recorded for C03), repid/_processor.py (process: one terminal broker call, then the result store),
   repid/worker.py:108-127 (consumers are finished after finish_gracefully returned) and the in-memory broker's effects
   (ack / nack / reject / requeue act on the processing set; requeue files its replacement even when the message is no
   longer held; consumer.finish() returns every message the consumer still holds).

   One event = one atomic block.  The model is about one queue (one consumer); messages are Z numbers. *)
From Repid Require Import Base.

Inductive tphase :=
| PRun                      (* payload fetch, actor body: no broker effect yet *)
| PDisposing (k : Z)        (* inside the terminal broker call (1 ack, 2 nack, 3 requeue), before its atomic effect *)
| PDisposed                 (* effect done: result store, end of process() *)
| PCancelled.               (* the wrapper saw the cancel event before the report had started: task cancelled, reject under way *)

Record sstate := mkSS {
  waiting : list Z;         (* in the broker's waiting list *)
  held : list Z;            (* the processing set *)
  acked : list Z;
  deadl : list Z;
  requeued : list Z;        (* replacements filed by requeue (retry / reschedule successors) *)
  inloop : list Z;          (* taken, in the hands of the queue loop *)
  tasks : list (Z * tphase);
  cancelf : bool;
  finished : bool
}.

Inductive sev :=
| SDeliver (m : Z) | SSpawn (m : Z) | SLoopGiveBack (m : Z) | SLoopCancelled (m : Z)
| SActorEnd (m k : Z) | SEffect (m : Z) | STaskEnd (m : Z)
| SCancel | STaskCancel (m : Z) | SRejectEffect (m : Z) | SFinish.

Fixpoint rem1 (m : Z) (l : list Z) : option (list Z) :=
  match l with
  | [] => None
  | x :: r => if x =? m then Some r else match rem1 m r with Some r' => Some (x :: r') | None => None end
  end.
Definition memz (m : Z) (l : list Z) : bool := existsb (Z.eqb m) l.

Fixpoint get_task (m : Z) (ts : list (Z * tphase)) : option tphase :=
  match ts with [] => None | (x, p) :: r => if x =? m then Some p else get_task m r end.
Fixpoint set_task (m : Z) (p : tphase) (ts : list (Z * tphase)) : list (Z * tphase) :=
  match ts with [] => [] | (x, q) :: r => if x =? m then (x, p) :: r else (x, q) :: set_task m p r end.
Fixpoint del_task (m : Z) (ts : list (Z * tphase)) : list (Z * tphase) :=
  match ts with [] => [] | (x, q) :: r => if x =? m then r else (x, q) :: del_task m r end.

(* the broker effect of a terminal call on message m *)
Definition effect (s : sstate) (m k : Z) (ts : list (Z * tphase)) : sstate :=
  match rem1 m (held s) with
  | Some h' =>
      if k =? 1 then mkSS (waiting s) h' (acked s ++ [m]) (deadl s) (requeued s) (inloop s) ts (cancelf s) (finished s)
      else if k =? 2 then mkSS (waiting s) h' (acked s) (deadl s ++ [m]) (requeued s) (inloop s) ts (cancelf s) (finished s)
      else mkSS (waiting s) h' (acked s) (deadl s) (requeued s ++ [m]) (inloop s) ts (cancelf s) (finished s)
  | None =>
      (* the message is not held any more: ack / nack find nothing; requeue files its replacement all the same *)
      if (k =? 1) || (k =? 2) then mkSS (waiting s) (held s) (acked s) (deadl s) (requeued s) (inloop s) ts (cancelf s) (finished s)
      else mkSS (waiting s) (held s) (acked s) (deadl s) (requeued s ++ [m]) (inloop s) ts (cancelf s) (finished s)
  end.

(* reject: back to the waiting list.  The in-memory broker ignores the reject of a message it does not hold; the Redis client
   puts the name back unconditionally (repid/connections/redis/message_broker.py, reject).  The model takes the harsher
   reading: the theorems below show that the worker never rejects a message that is not held (since the fixes c813f53 /
   8f0dac3 a report to the broker that has been started runs to its end and is never followed by a reject), and an
   in-memory trace in which it did would not be accepted. *)
Definition give_back (s : sstate) (m : Z) (il : list Z) (ts : list (Z * tphase)) : sstate :=
  match rem1 m (held s) with
  | Some h' => mkSS (waiting s ++ [m]) h' (acked s) (deadl s) (requeued s) il ts (cancelf s) (finished s)
  | None => mkSS (waiting s ++ [m]) (held s) (acked s) (deadl s) (requeued s) il ts (cancelf s) (finished s)
  end.

(* `strict` = the shutdown order since the fix: consumers are finished only when no processing task is left *)
Definition sstep (strict : bool) (s : sstate) (e : sev) : option sstate :=
  match e with
  | SDeliver m =>
      if finished s then None else
      match rem1 m (waiting s) with
      | Some w' => Some (mkSS w' (held s ++ [m]) (acked s) (deadl s) (requeued s) (inloop s ++ [m]) (tasks s) (cancelf s) (finished s))
      | None => None
      end
  | SSpawn m =>
      match rem1 m (inloop s), get_task m (tasks s) with
      | Some il, None => Some (mkSS (waiting s) (held s) (acked s) (deadl s) (requeued s) il (tasks s ++ [(m, PRun)]) (cancelf s) (finished s))
      | _, _ => None
      end
  | SLoopGiveBack m =>
      match rem1 m (inloop s) with Some il => Some (give_back s m il (tasks s)) | None => None end
  | SLoopCancelled m =>
      match rem1 m (inloop s) with
      | Some il => Some (mkSS (waiting s) (held s) (acked s) (deadl s) (requeued s) il (tasks s) (cancelf s) (finished s))
      | None => None
      end
  | SActorEnd m k =>
      match get_task m (tasks s) with
      | Some PRun => if (1 <=? k) && (k <=? 3)
                     then Some (mkSS (waiting s) (held s) (acked s) (deadl s) (requeued s) (inloop s) (set_task m (PDisposing k) (tasks s)) (cancelf s) (finished s))
                     else None
      | _ => None
      end
  | SEffect m =>
      match get_task m (tasks s) with
      | Some (PDisposing k) => Some (effect s m k (set_task m PDisposed (tasks s)))
      | _ => None
      end
  | STaskEnd m =>
      match get_task m (tasks s) with
      | Some PDisposed => Some (mkSS (waiting s) (held s) (acked s) (deadl s) (requeued s) (inloop s) (del_task m (tasks s)) (cancelf s) (finished s))
      | _ => None
      end
  | SCancel => Some (mkSS (waiting s) (held s) (acked s) (deadl s) (requeued s) (inloop s) (tasks s) true (finished s))
  | STaskCancel m =>
      if negb (cancelf s) then None else
      (* only a task that has not started its report is cancelled-and-rejected; `lax` (the runner before c813f53) also
         cancelled a task inside its terminal call or after it *)
      match get_task m (tasks s) with
      | Some PRun => Some (mkSS (waiting s) (held s) (acked s) (deadl s) (requeued s) (inloop s) (set_task m PCancelled (tasks s)) (cancelf s) (finished s))
      | Some (PDisposing _) | Some PDisposed =>
          if strict then None
          else Some (mkSS (waiting s) (held s) (acked s) (deadl s) (requeued s) (inloop s) (set_task m PCancelled (tasks s)) (cancelf s) (finished s))
      | Some PCancelled | None => None
      end
  | SRejectEffect m =>
      match get_task m (tasks s) with
      | Some PCancelled => Some (give_back s m (inloop s) (del_task m (tasks s)))
      | _ => None
      end
  | SFinish =>
      if negb (cancelf s) || finished s then None
      else if negb (match inloop s with [] => true | _ => false end) then None
      else if strict && negb (match tasks s with [] => true | _ => false end) then None
      else Some (mkSS (waiting s ++ held s) [] (acked s) (deadl s) (requeued s) (inloop s) (tasks s) (cancelf s) true)
  end.

Fixpoint srun (strict : bool) (s : sstate) (es : list sev) : option sstate :=
  match es with [] => Some s | e :: r => match sstep strict s e with Some s' => srun strict s' r | None => None end end.

Definition sinit (msgs : list Z) : sstate := mkSS msgs [] [] [] [] [] [] false false.

(* how many copies of m exist in the broker, in any place *)
Definition cntz (m : Z) (l : list Z) : Z := Z.of_nat (length (filter (Z.eqb m) l)).
Definition copies (m : Z) (s : sstate) : Z :=
  cntz m (waiting s) + cntz m (held s) + cntz m (acked s) + cntz m (deadl s) + cntz m (requeued s).

(* ---- correspondence ---- *)
Fixpoint insZ (x : Z) (l : list Z) : list Z := match l with [] => [x] | y :: r => if x <=? y then x :: l else y :: insZ x r end.
Definition sortZ (l : list Z) : list Z := fold_right insZ [] l.
Definition enc_set (l : list Z) : list Z := Z.of_nat (length l) :: sortZ l.

Definition shutdown_obs (c : list Z * list sev) : list Z :=
  let '(msgs, es) := c in
  match srun true (sinit msgs) es with
  | None =>
      let fix first (s : sstate) (es : list sev) (k : Z) : Z :=
        match es with [] => -1 | e :: r => match sstep true s e with Some s' => first s' r (k + 1) | None => k end end in
      [-1; first (sinit msgs) es 0]
  | Some s => 1 :: enc_set (waiting s) ++ enc_set (held s) ++ enc_set (acked s) ++ enc_set (deadl s) ++ enc_set (requeued s)
                ++ [Z.of_nat (length (tasks s)); Z.of_nat (length (inloop s))]
  end.
