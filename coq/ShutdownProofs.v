(* ShutdownProofs.v — ownership of taken messages through processing and shutdown (C03). *)
From Repid Require Import Base Shutdown.

Definition ind (b : bool) : Z := if b then 1 else 0.

Lemma cntz_app m a b : cntz m (a ++ b) = cntz m a + cntz m b.
Proof. unfold cntz. rewrite filter_app, app_length. lia. Qed.
Lemma cntz_cons m x l : cntz m (x :: l) = ind (m =? x) + cntz m l.
Proof. unfold cntz, ind. cbn [filter]. destruct (m =? x); cbn [length]; lia. Qed.
Lemma cntz_nil m : cntz m [] = 0.  Proof. reflexivity. Qed.
Lemma cntz_nonneg m l : 0 <= cntz m l.  Proof. unfold cntz. lia. Qed.
Lemma cntz_one m x : cntz m [x] = ind (m =? x).
Proof. rewrite cntz_cons, cntz_nil. lia. Qed.

Lemma cntz_pos_In m l : 0 < cntz m l <-> In m l.
Proof.
  induction l as [|x l IH]; [cbn; split; [lia | intros []]|]. rewrite cntz_cons. unfold ind. destruct (m =? x) eqn:E.
  - apply Z.eqb_eq in E. subst. split; [intros _; left; reflexivity | intros _; pose proof (cntz_nonneg x l); lia].
  - apply Z.eqb_neq in E. rewrite Z.add_0_l, IH. split; [intros H; right; exact H | intros [H|H]; [congruence | exact H]].
Qed.

Lemma rem1_cnt x l l' m : rem1 x l = Some l' -> cntz m l = cntz m l' + ind (m =? x).
Proof.
  revert l'. induction l as [|y l IH]; intros l' H; cbn [rem1] in H; [discriminate|]. destruct (y =? x) eqn:E.
  - inversion H; subst. apply Z.eqb_eq in E. subst. rewrite cntz_cons. lia.
  - destruct (rem1 x l) as [r|]; [|discriminate]. inversion H; subst. rewrite !cntz_cons, (IH r eq_refl). lia.
Qed.

Lemma rem1_In x l : In x l -> exists l', rem1 x l = Some l'.
Proof.
  induction l as [|y l IH]; intros H; [destruct H|]. cbn [rem1]. destruct (y =? x) eqn:E; [eexists; reflexivity|].
  destruct H as [H|H]; [subst; rewrite Z.eqb_refl in E; discriminate|]. destruct (IH H) as [r Hr]. rewrite Hr. eexists; reflexivity.
Qed.

Lemma rem1_In_other x l l' y : rem1 x l = Some l' -> y <> x -> (In y l <-> In y l').
Proof.
  intros H Hne. rewrite <- !cntz_pos_In. rewrite (rem1_cnt x l l' y H). unfold ind.
  destruct (y =? x) eqn:E; [apply Z.eqb_eq in E; congruence | lia].
Qed.

Lemma rem1_sub x l l' y : rem1 x l = Some l' -> In y l' -> In y l.
Proof.
  intros H Hy. rewrite <- cntz_pos_In in *. rewrite (rem1_cnt x l l' y H). unfold ind. destruct (y =? x); lia.
Qed.

(* ---- tasks ---- *)
Lemma get_set_same m p ts : get_task m ts <> None -> get_task m (set_task m p ts) = Some p.
Proof.
  induction ts as [|[x q] ts IH]; cbn [get_task set_task]; [congruence|]. destruct (x =? m) eqn:E; cbn [get_task]; rewrite E; [reflexivity | exact IH].
Qed.
Lemma get_set_other m m' p ts : m' <> m -> get_task m' (set_task m p ts) = get_task m' ts.
Proof.
  intros Hne. induction ts as [|[x q] ts IH]; [reflexivity|]. cbn [set_task get_task]. destruct (x =? m) eqn:E; cbn [get_task].
  - apply Z.eqb_eq in E. subst. assert (E2 : m =? m' = false) by (apply Z.eqb_neq; congruence). rewrite E2. reflexivity.
  - destruct (x =? m'); [reflexivity | exact IH].
Qed.
Lemma get_del_other m m' ts : m' <> m -> get_task m' (del_task m ts) = get_task m' ts.
Proof.
  intros Hne. induction ts as [|[x q] ts IH]; [reflexivity|]. cbn [del_task get_task]. destruct (x =? m) eqn:E; cbn [get_task].
  - apply Z.eqb_eq in E. subst. assert (E2 : m =? m' = false) by (apply Z.eqb_neq; congruence). rewrite E2. reflexivity.
  - destruct (x =? m'); [reflexivity | exact IH].
Qed.
Lemma get_task_In m ts : get_task m ts <> None <-> In m (map fst ts).
Proof.
  induction ts as [|[x q] ts IH]; cbn [get_task map fst In]; [split; [congruence | intros []]|].
  destruct (x =? m) eqn:E.
  - apply Z.eqb_eq in E. split; [intros _; left; exact E | discriminate].
  - apply Z.eqb_neq in E. rewrite IH. split; [intros H; right; exact H | intros [H|H]; [congruence | exact H]].
Qed.
Lemma get_del_same m ts : NoDup (map fst ts) -> get_task m (del_task m ts) = None.
Proof.
  induction ts as [|[x q] ts IH]; intros Hn; [reflexivity|]. cbn [map fst] in Hn. inversion Hn as [|y ys Hnot Hn']; subst.
  cbn [del_task]. destruct (x =? m) eqn:E.
  - apply Z.eqb_eq in E. subst. destruct (get_task m ts) eqn:G; [|reflexivity]. exfalso. apply Hnot. apply get_task_In. congruence.
  - cbn [get_task]. rewrite E. apply IH. exact Hn'.
Qed.
Lemma names_set m p ts : map fst (set_task m p ts) = map fst ts.
Proof. induction ts as [|[x q] ts IH]; [reflexivity|]. cbn [set_task]. destruct (x =? m); cbn [map fst]; [reflexivity | rewrite IH; reflexivity]. Qed.
Lemma names_del_sub m ts y : In y (map fst (del_task m ts)) -> In y (map fst ts).
Proof.
  induction ts as [|[x q] ts IH]; [intros []|]. cbn [del_task]. destruct (x =? m); cbn [map fst In]; [intros H; right; exact H|].
  intros [H|H]; [left; exact H | right; apply IH; exact H].
Qed.
Lemma NoDup_del m ts : NoDup (map fst ts) -> NoDup (map fst (del_task m ts)).
Proof.
  induction ts as [|[x q] ts IH]; intros Hn; [constructor|]. cbn [map fst] in Hn. inversion Hn as [|y ys Hnot Hn']; subst.
  cbn [del_task]. destruct (x =? m); [exact Hn'|]. cbn [map fst]. constructor; [|apply IH; exact Hn'].
  intros H. apply Hnot. eapply names_del_sub. exact H.
Qed.
Lemma get_app_new m ts p : get_task m ts = None -> get_task m (ts ++ [(m, p)]) = Some p.
Proof.
  induction ts as [|[x q] ts IH]; cbn [app get_task]; [rewrite Z.eqb_refl; reflexivity|]. destruct (x =? m); [discriminate | exact IH].
Qed.
Lemma get_app_other m m' ts p : m' <> m -> get_task m' (ts ++ [(m, p)]) = get_task m' ts.
Proof.
  intros Hne. induction ts as [|[x q] ts IH]; cbn [app get_task].
  - assert (E : m =? m' = false) by (apply Z.eqb_neq; congruence). rewrite E. reflexivity.
  - destruct (x =? m'); [reflexivity | exact IH].
Qed.

Lemma NoDup_app_one_z (l : list Z) x : NoDup l -> ~ In x l -> NoDup (l ++ [x]).
Proof.
  induction l as [|y l IH]; intros Hn Hx; cbn [app]; [constructor; [intros []|constructor]|].
  inversion Hn as [|z zs Hnot Hn']; subst. constructor.
  - rewrite in_app_iff. intros [H|[H|[]]]; [contradiction | subst; apply Hx; left; reflexivity].
  - apply IH; [exact Hn' | intros H; apply Hx; right; exact H].
Qed.

(* the phases in which the task (or the wrapper around it) still answers for the message: it is marked in flight *)
Definition active (p : tphase) : bool := match p with PRun | PDisposing _ | PCancelled => true | PDisposed => false end.

(* ---- the invariant ---- *)
Record SInv (msgs : list Z) (s : sstate) : Prop := {
  s_cons : forall m, copies m s = cntz m msgs;                                       (* nothing lost, nothing duplicated *)
  s_loop_held : forall m, In m (inloop s) -> In m (held s);                          (* a loop's message is marked in flight *)
  s_task_held : forall m p, get_task m (tasks s) = Some p -> active p = true -> In m (held s);
  s_task_not_waiting : forall m, get_task m (tasks s) <> None -> cntz m (waiting s) = 0;
  s_loop_no_task : forall m, In m (inloop s) -> get_task m (tasks s) = None;
  s_tasks_nodup : NoDup (map fst (tasks s));
  s_loop_nodup : NoDup (inloop s);
  s_fin : finished s = true -> held s = [] /\ tasks s = [] /\ inloop s = []
}.

Lemma copies_le_one msgs s m : NoDup msgs -> SInv msgs s -> copies m s <= 1.
Proof.
  intros Hn Hi. rewrite (s_cons _ _ Hi m). clear - Hn. induction msgs as [|x l IH]; [cbn; lia|].
  inversion Hn as [|y ys Hnot Hn']; subst. rewrite cntz_cons. unfold ind. destruct (m =? x) eqn:E; [|apply IH; exact Hn'].
  apply Z.eqb_eq in E. subst. assert (cntz x l = 0); [|lia].
  pose proof (cntz_nonneg x l). destruct (Z.eq_dec (cntz x l) 0) as [H0|H0]; [exact H0|].
  exfalso. apply Hnot. apply cntz_pos_In. lia.
Qed.

Lemma SInv_init msgs : SInv msgs (sinit msgs).
Proof.
  constructor; cbn [sinit waiting held acked deadl requeued inloop tasks cancelf finished get_task map].
  - intros m. unfold copies. cbn [sinit waiting held acked deadl requeued]. rewrite !cntz_nil. lia.
  - intros m [].
  - intros m p H. discriminate.
  - intros m H. congruence.
  - intros m [].
  - constructor.
  - constructor.
  - discriminate.
Qed.

Ltac sfields := cbn [waiting held acked deadl requeued inloop tasks cancelf finished] in *.

Lemma NoDup_rem1 x l l' : NoDup l -> rem1 x l = Some l' -> NoDup l' /\ ~ In x l'.
Proof.
  revert l'. induction l as [|y l IH]; intros l' Hn H; cbn [rem1] in H; [discriminate|]. inversion Hn as [|z zs Hnot Hn']; subst.
  destruct (y =? x) eqn:E.
  - inversion H; subst. apply Z.eqb_eq in E. subst. split; assumption.
  - destruct (rem1 x l) as [r|] eqn:Er; [|discriminate]. inversion H; subst. destruct (IH r Hn' eq_refl) as [H1 H2]. split.
    + constructor; [|exact H1]. intros Hy. apply Hnot. eapply rem1_sub; eauto.
    + intros [Hy|Hy]; [apply Z.eqb_neq in E; congruence | contradiction].
Qed.

Theorem SInv_step msgs s e s' : NoDup msgs -> SInv msgs s -> sstep true s e = Some s' -> SInv msgs s'.
Proof.
  intros Hmsgs Hi H. pose proof Hi as [Hc Hl Ht Hw Hlt Htn Hln Hf].
  destruct e as [m|m|m|m|m k|m|m| |m|m| ]; cbn [sstep] in H.
  - (* deliver *)
    destruct (finished s) eqn:Ef; [discriminate|]. destruct (rem1 m (waiting s)) as [w'|] eqn:Er; [|discriminate].
    inversion H; subst; clear H.
    assert (Hmw : 0 < cntz m (waiting s)) by (rewrite (rem1_cnt _ _ _ m Er); unfold ind; rewrite Z.eqb_refl; pose proof (cntz_nonneg m w'); lia).
    assert (Hnotask : get_task m (tasks s) = None).
    { destruct (get_task m (tasks s)) eqn:G; [|reflexivity]. assert (G' : get_task m (tasks s) <> None) by congruence. specialize (Hw m G'). lia. }
    assert (Hnoheld : ~ In m (held s)).
    { intros Hin. apply cntz_pos_In in Hin. pose proof (copies_le_one msgs s m Hmsgs Hi) as Hle. unfold copies in Hle.
      pose proof (cntz_nonneg m (acked s)). pose proof (cntz_nonneg m (deadl s)). pose proof (cntz_nonneg m (requeued s)). lia. }
    constructor; sfields.
    + intros x. specialize (Hc x). unfold copies in *. sfields. rewrite cntz_app, cntz_one, (rem1_cnt _ _ _ x Er) in *. lia.
    + intros x Hx. apply in_app_iff in Hx. apply in_app_iff. destruct Hx as [Hx|[<-|[]]]; [left; apply Hl; exact Hx | right; left; reflexivity].
    + intros x p G A. apply in_app_iff. left. eapply Ht; eauto.
    + intros x G. specialize (Hw x G). rewrite (rem1_cnt _ _ _ x Er) in Hw. pose proof (cntz_nonneg x w'). unfold ind in Hw. destruct (x =? m); lia.
    + intros x Hx. apply in_app_iff in Hx. destruct Hx as [Hx|[<-|[]]]; [apply Hlt; exact Hx | exact Hnotask].
    + exact Htn.
    + apply NoDup_app_one_z; [exact Hln | intros Hin; apply Hnoheld, Hl, Hin].
    + intros Hfin. congruence.
  - (* spawn *)
    destruct (rem1 m (inloop s)) as [il|] eqn:Er; [|discriminate]. destruct (get_task m (tasks s)) eqn:G; [discriminate|].
    inversion H; subst; clear H. destruct (NoDup_rem1 _ _ _ Hln Er) as [Hil Hmil].
    assert (Hmin : In m (inloop s)) by (apply cntz_pos_In; rewrite (rem1_cnt _ _ _ m Er); unfold ind; rewrite Z.eqb_refl; pose proof (cntz_nonneg m il); lia).
    constructor; sfields.
    + exact Hc.
    + intros x Hx. apply Hl. eapply rem1_sub; eauto.
    + intros x p Gx A. destruct (Z.eq_dec x m) as [->|Hne]; [apply Hl; exact Hmin|]. rewrite get_app_other in Gx by exact Hne. eapply Ht; eauto.
    + intros x Gx. destruct (Z.eq_dec x m) as [->|Hne].
      * (* m is held, hence not waiting *)
        pose proof (copies_le_one msgs s m Hmsgs Hi) as Hle. unfold copies in Hle. pose proof (proj2 (cntz_pos_In m (held s)) (Hl m Hmin)).
        pose proof (cntz_nonneg m (waiting s)). pose proof (cntz_nonneg m (acked s)). pose proof (cntz_nonneg m (deadl s)). pose proof (cntz_nonneg m (requeued s)). lia.
      * rewrite get_app_other in Gx by exact Hne. apply Hw. exact Gx.
    + intros x Hx. destruct (Z.eq_dec x m) as [->|Hne]; [contradiction|]. rewrite get_app_other by exact Hne. apply Hlt. eapply rem1_sub; eauto.
    + rewrite map_app. cbn [map fst]. apply NoDup_app_one_z; [exact Htn | intros Hin; apply get_task_In in Hin; congruence].
    + exact Hil.
    + intros Hfin. destruct (Hf Hfin) as [_ [_ H3]]. rewrite H3 in Er. discriminate.
  - (* loop gives the message back *)
    destruct (rem1 m (inloop s)) as [il|] eqn:Er; [|discriminate]. inversion H; subst; clear H.
    destruct (NoDup_rem1 _ _ _ Hln Er) as [Hil Hmil].
    assert (Hmin : In m (inloop s)) by (apply cntz_pos_In; rewrite (rem1_cnt _ _ _ m Er); unfold ind; rewrite Z.eqb_refl; pose proof (cntz_nonneg m il); lia).
    destruct (rem1_In m (held s) (Hl m Hmin)) as [h' Hh]. unfold give_back. rewrite Hh.
    constructor; sfields.
    + intros x. specialize (Hc x). unfold copies in *. sfields. rewrite cntz_app, cntz_one. rewrite (rem1_cnt _ _ _ x Hh) in Hc. lia.
    + intros x Hx. assert (x <> m) by (intros ->; contradiction). apply (rem1_In_other _ _ _ x Hh); [assumption|]. apply Hl. eapply rem1_sub; eauto.
    + intros x p Gx A. assert (x <> m) by (intros ->; rewrite (Hlt m Hmin) in Gx; discriminate).
      apply (rem1_In_other _ _ _ x Hh); [assumption|]. eapply Ht; eauto.
    + intros x Gx. assert (x <> m) by (intros ->; apply Gx; apply Hlt; exact Hmin).
      rewrite cntz_app, cntz_one. unfold ind. destruct (x =? m) eqn:E; [apply Z.eqb_eq in E; congruence|]. rewrite (Hw x Gx). lia.
    + intros x Hx. apply Hlt. eapply rem1_sub; eauto.
    + exact Htn.
    + exact Hil.
    + intros Hfin. destruct (Hf Hfin) as [_ [_ H3]]. rewrite H3 in Er. discriminate.
  - (* loop cancelled while holding a message *)
    destruct (rem1 m (inloop s)) as [il|] eqn:Er; [|discriminate]. inversion H; subst; clear H.
    destruct (NoDup_rem1 _ _ _ Hln Er) as [Hil _].
    constructor; sfields; try assumption.
    + intros x Hx. apply Hl. eapply rem1_sub; eauto.
    + intros x Hx. apply Hlt. eapply rem1_sub; eauto.
    + intros Hfin. destruct (Hf Hfin) as [_ [_ H3]]. rewrite H3 in Er. discriminate.
  - (* actor ended: terminal call begins *)
    destruct (get_task m (tasks s)) as [[]|] eqn:G; try discriminate. destruct ((1 <=? k) && (k <=? 3)); [|discriminate].
    inversion H; subst; clear H. assert (Gn : get_task m (tasks s) <> None) by congruence.
    constructor; sfields; try assumption.
    + intros x p Gx A. destruct (Z.eq_dec x m) as [->|Hne]; [eapply Ht; [exact G | reflexivity]|]. rewrite get_set_other in Gx by exact Hne. eapply Ht; eauto.
    + intros x Gx. destruct (Z.eq_dec x m) as [->|Hne]; [apply Hw; exact Gn|]. rewrite get_set_other in Gx by exact Hne. apply Hw. exact Gx.
    + intros x Hx. destruct (Z.eq_dec x m) as [->|Hne]; [rewrite (Hlt m Hx) in G; discriminate|]. rewrite get_set_other by exact Hne. apply Hlt. exact Hx.
    + rewrite names_set. exact Htn.
    + intros Hfin. destruct (Hf Hfin) as [_ [H2 _]]. rewrite H2 in G. discriminate.
  - (* the terminal call takes effect *)
    destruct (get_task m (tasks s)) as [[|k| |]|] eqn:G; try discriminate. inversion H; subst; clear H.
    assert (Gn : get_task m (tasks s) <> None) by congruence.
    assert (Hmh : In m (held s)) by (eapply Ht; [exact G | reflexivity]).
    destruct (rem1_In m (held s) Hmh) as [h' Hh]. unfold effect. rewrite Hh.
    assert (Hnl : ~ In m (inloop s)) by (intros Hin; rewrite (Hlt m Hin) in G; discriminate).
    assert (Common : forall a d r, (forall x, cntz x (waiting s) + cntz x h' + cntz x a + cntz x d + cntz x r = cntz x msgs) ->
              SInv msgs (mkSS (waiting s) h' a d r (inloop s) (set_task m PDisposed (tasks s)) (cancelf s) (finished s))).
    { intros a d r Hcc. constructor; sfields.
      - intros x. unfold copies. sfields. apply Hcc.
      - intros x Hx. assert (x <> m) by (intros ->; contradiction). apply (rem1_In_other _ _ _ x Hh); [assumption | apply Hl; exact Hx].
      - intros x p Gx A. destruct (Z.eq_dec x m) as [->|Hne]; [rewrite get_set_same in Gx by exact Gn; inversion Gx; subst; discriminate|].
        rewrite get_set_other in Gx by exact Hne. apply (rem1_In_other _ _ _ x Hh); [exact Hne | eapply Ht; eauto].
      - intros x Gx. destruct (Z.eq_dec x m) as [->|Hne]; [apply Hw; exact Gn|]. rewrite get_set_other in Gx by exact Hne. apply Hw. exact Gx.
      - intros x Hx. assert (x <> m) by (intros ->; contradiction). rewrite get_set_other by assumption. apply Hlt. exact Hx.
      - rewrite names_set. exact Htn.
      - exact Hln.
      - intros Hfin. destruct (Hf Hfin) as [_ [H2 _]]. rewrite H2 in G. discriminate. }
    destruct (k =? 1); [|destruct (k =? 2)]; apply Common; intros x; specialize (Hc x); unfold copies in Hc;
      rewrite ?cntz_app, ?cntz_one; rewrite (rem1_cnt _ _ _ x Hh) in Hc; lia.
  - (* task ends *)
    destruct (get_task m (tasks s)) as [[]|] eqn:G; try discriminate. inversion H; subst; clear H.
    constructor; sfields; try assumption.
    + intros x p Gx A. destruct (Z.eq_dec x m) as [->|Hne]; [rewrite (get_del_same m _ Htn) in Gx; discriminate|].
      rewrite get_del_other in Gx by exact Hne. eapply Ht; eauto.
    + intros x Gx. destruct (Z.eq_dec x m) as [->|Hne]; [rewrite (get_del_same m _ Htn) in Gx; congruence|].
      rewrite get_del_other in Gx by exact Hne. apply Hw. exact Gx.
    + intros x Hx. destruct (Z.eq_dec x m) as [->|Hne]; [apply get_del_same; exact Htn|]. rewrite get_del_other by exact Hne. apply Hlt. exact Hx.
    + apply NoDup_del. exact Htn.
    + intros Hfin. destruct (Hf Hfin) as [_ [H2 _]]. rewrite H2 in G. discriminate.
  - (* cancel event *)
    inversion H; subst; clear H. constructor; sfields; assumption.
  - (* wrapper cancels the processing task *)
    destruct (negb (cancelf s)); [discriminate|]. destruct (get_task m (tasks s)) as [p0|] eqn:G; [|discriminate].
    assert (Gn : get_task m (tasks s) <> None) by congruence.
    destruct p0; try discriminate. inversion H; subst; clear H.
    constructor; sfields; try assumption.
    + intros x p Gx A. destruct (Z.eq_dec x m) as [->|Hne]; [apply (Ht m PRun G eq_refl)|].
      rewrite get_set_other in Gx by exact Hne. eapply Ht; eauto.
    + intros x Gx. destruct (Z.eq_dec x m) as [->|Hne]; [apply Hw; exact Gn|]. rewrite get_set_other in Gx by exact Hne. apply Hw. exact Gx.
    + intros x Hx. destruct (Z.eq_dec x m) as [->|Hne]; [rewrite (Hlt m Hx) in G; discriminate|]. rewrite get_set_other by exact Hne. apply Hlt. exact Hx.
    + rewrite names_set. exact Htn.
    + intros Hfin. destruct (Hf Hfin) as [_ [H2 _]]. rewrite H2 in G. discriminate.
  - (* the cancelled task's reject takes effect *)
    destruct (get_task m (tasks s)) as [[]|] eqn:G; try discriminate. inversion H; subst; clear H.
    assert (Gn : get_task m (tasks s) <> None) by congruence.
    assert (Hnl : ~ In m (inloop s)) by (intros Hin; rewrite (Hlt m Hin) in G; discriminate).
    assert (Tail : forall w h, (forall x, cntz x w + cntz x h + cntz x (acked s) + cntz x (deadl s) + cntz x (requeued s) = cntz x msgs) ->
              (forall x, x <> m -> In x (held s) -> In x h) -> (forall x, x <> m -> cntz x w = cntz x (waiting s)) ->
              SInv msgs (mkSS w h (acked s) (deadl s) (requeued s) (inloop s) (del_task m (tasks s)) (cancelf s) (finished s))).
    { intros w h Hcc Hsub Hwx. constructor; sfields.
      - intros x. unfold copies. sfields. apply Hcc.
      - intros x Hx. assert (x <> m) by (intros ->; contradiction). apply Hsub; [assumption | apply Hl; exact Hx].
      - intros x p Gx A. destruct (Z.eq_dec x m) as [->|Hne]; [rewrite (get_del_same m _ Htn) in Gx; discriminate|].
        rewrite get_del_other in Gx by exact Hne. apply Hsub; [exact Hne | eapply Ht; eauto].
      - intros x Gx. destruct (Z.eq_dec x m) as [->|Hne]; [rewrite (get_del_same m _ Htn) in Gx; congruence|].
        rewrite get_del_other in Gx by exact Hne. rewrite (Hwx x Hne). apply Hw. exact Gx.
      - intros x Hx. assert (x <> m) by (intros ->; contradiction). rewrite get_del_other by assumption. apply Hlt. exact Hx.
      - apply NoDup_del. exact Htn.
      - exact Hln.
      - intros Hfin. destruct (Hf Hfin) as [_ [H2 _]]. rewrite H2 in G. discriminate. }
    unfold give_back. destruct (rem1 m (held s)) as [h'|] eqn:Hh.
    2: { (* the wrapper rejects only what is still held: the task was cancelled before its report had started *)
         exfalso. destruct (rem1_In m (held s) (Ht m PCancelled G eq_refl)) as [h' Hh']. congruence. }
    apply Tail.
    + intros x. specialize (Hc x). unfold copies in Hc. rewrite cntz_app, cntz_one. rewrite (rem1_cnt _ _ _ x Hh) in Hc. lia.
    + intros x Hne Hx. apply (rem1_In_other _ _ _ x Hh); assumption.
    + intros x Hne. rewrite cntz_app, cntz_one. unfold ind. destruct (x =? m) eqn:E; [apply Z.eqb_eq in E; congruence | lia].
  - (* consumer.finish() *)
    destruct (negb (cancelf s) || finished s); [discriminate|]. destruct (inloop s) eqn:Eil; cbn [negb] in H; [|discriminate].
    destruct (tasks s) eqn:Ets; cbn [andb negb] in H; [|discriminate]. inversion H; subst; clear H.
    constructor; sfields.
    + intros x. specialize (Hc x). unfold copies in *. sfields. rewrite cntz_app, cntz_nil. lia.
    + intros x [].
    + intros x p Gx. discriminate.
    + intros x Gx. cbn in Gx. congruence.
    + intros x [].
    + constructor.
    + constructor.
    + intros _. auto.
Qed.

Theorem SInv_run msgs es : NoDup msgs -> forall s s', SInv msgs s -> srun true s es = Some s' -> SInv msgs s'.
Proof.
  intros Hm. induction es as [|e es IH]; intros s s' Hi H; cbn [srun] in H; [inversion H; subst; exact Hi|].
  destruct (sstep true s e) as [s1|] eqn:E; [|discriminate]. eapply IH; [eapply SInv_step; eauto | exact H].
Qed.

(* at every moment - before, during and after the shutdown, whichever event-loop step the stop request, the forced
   cancellation and the consumer's shutdown land on - every message exists exactly once: waiting, in flight, acknowledged,
   dead-lettered or replaced by its requeued successor *)
Theorem exactly_one_place msgs es s m : NoDup msgs -> srun true (sinit msgs) es = Some s -> In m msgs -> copies m s = 1.
Proof.
  intros Hn H Hin. pose proof (SInv_run msgs es Hn _ _ (SInv_init msgs) H) as Hi. rewrite (s_cons _ _ Hi m).
  pose proof (copies_le_one msgs s m Hn Hi) as Hle. rewrite (s_cons _ _ Hi m) in Hle. apply cntz_pos_In in Hin. lia.
Qed.

(* once the run has finished its consumers: nothing is in flight, no task and no loop holds anything, and every message is
   either disposed (acked, dead-lettered, requeued) or back in the waiting list - exactly one of these *)
Theorem stop_no_loss msgs es s : NoDup msgs -> srun true (sinit msgs) es = Some s -> finished s = true ->
  held s = [] /\ tasks s = [] /\ inloop s = [] /\
  forall m, In m msgs -> cntz m (waiting s) + cntz m (acked s) + cntz m (deadl s) + cntz m (requeued s) = 1.
Proof.
  intros Hn H Hf. pose proof (SInv_run msgs es Hn _ _ (SInv_init msgs) H) as Hi. destruct (s_fin _ _ Hi Hf) as [H1 [H2 H3]].
  repeat split; try assumption. intros m Hin. pose proof (exactly_one_place msgs es s m Hn H Hin) as E. unfold copies in E.
  rewrite H1, cntz_nil in E. lia.
Qed.

(* a taken message always has an owner that will dispose of it or give it back, or it is marked in flight for the
   consumer's shutdown to return: a processing task that has not made its terminal call yet holds a message that is in flight *)
Theorem owner_holds msgs es s m p : NoDup msgs -> srun true (sinit msgs) es = Some s ->
  get_task m (tasks s) = Some p -> active p = true -> In m (held s).
Proof. intros Hn H G A. exact (s_task_held _ _ (SInv_run msgs es Hn _ _ (SInv_init msgs) H) m p G A). Qed.

(* the shutdown order before the fix (consumers finished while cancelled tasks were still alive): a retry requeue in
   flight when the consumer is finished leaves the message both returned and requeued *)
Theorem shutdown_before_fix_refuted :
  exists es s, srun false (sinit [1]) es = Some s /\ finished s = true /\ copies 1 s = 2.
Proof.
  exists [SDeliver 1; SSpawn 1; SActorEnd 1 3; SCancel; SFinish; SEffect 1]. eexists. split; [vm_compute; reflexivity|]. split; reflexivity.
Qed.

(* non-vacuity: three messages - one processed to the end, one cut by the cancellation and rejected, one left with the loop *)
Example shutdown_example :
  shutdown_obs ([1; 2; 3], [SDeliver 1; SSpawn 1; SDeliver 2; SSpawn 2; SActorEnd 1 1; SEffect 1; SDeliver 3; SLoopCancelled 3;
                            SCancel; STaskCancel 2; STaskEnd 1; SRejectEffect 2; SFinish])
  = [1; 2; 2; 3; 0; 1; 1; 0; 0; 0; 0].
Proof. vm_compute. reflexivity. Qed.

(* the worker never rejects a message that is not marked in flight: under the Redis client's unconditional reject that would
   put an acknowledged, dead-lettered or requeued message back into its queue *)
Theorem reject_only_when_held msgs es s m s' : NoDup msgs -> srun true (sinit msgs) es = Some s ->
  (sstep true s (SRejectEffect m) = Some s' \/ sstep true s (SLoopGiveBack m) = Some s') -> In m (held s).
Proof.
  intros Hn Hr Hs. pose proof (SInv_run msgs es Hn _ _ (SInv_init msgs) Hr) as Hi.
  destruct Hs as [Hs|Hs]; cbn in Hs.
  - destruct (get_task m (tasks s)) as [[]|] eqn:G; try discriminate.
    apply (s_task_held _ _ Hi m PCancelled G eq_refl).
  - destruct (rem1 m (inloop s)) as [il|] eqn:Er; [|discriminate].
    apply (s_loop_held _ _ Hi). apply cntz_pos_In. rewrite (rem1_cnt _ _ _ m Er). unfold ind. rewrite Z.eqb_refl.
    pose proof (cntz_nonneg m il). lia.
Qed.

(* the runner before c813f53 cancelled-and-rejected a task whatever it was doing: with a reject that does not look whether
   the message is held (Redis) an acknowledged message is back in its queue - seven steps *)
Theorem reject_after_ack_before_fix_refuted :
  exists es s, srun false (sinit [1]) es = Some s /\ cntz 1 (acked s) = 1 /\ cntz 1 (waiting s) = 1 /\ copies 1 s = 2.
Proof.
  exists [SDeliver 1; SSpawn 1; SActorEnd 1 1; SEffect 1; SCancel; STaskCancel 1; SRejectEffect 1]. eexists.
  split; [vm_compute; reflexivity|]. vm_compute. repeat split.
Qed.
