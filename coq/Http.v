(* Http.v — the health endpoint's request handling as a pure function.
   Mirrors repid/health_check_server.py:72-98 (_HttpServerProtocol.data_received + handle_request):
     message = data.decode()                           (undecodable -> exception -> connection aborted)
     headers, _ = message.split("\r\n\r\n", maxsplit=1)  (no blank line -> ValueError -> aborted)
     http_lines = headers.split("\r\n", maxsplit=1)
     method, path, _ = http_lines[0].split(" ", maxsplit=2)   (fewer than three parts -> aborted)
     200/503 iff method == "GET" and path == endpoint, else 404
   Text is a list of code points. The status reported is read when the request is handled (fix f0 of C20). *)
From Repid Require Import Base.

Definition text := list Z.
Definition CR : Z := 13.  Definition LF : Z := 10.  Definition SP : Z := 32.
Definition CRLF : text := [CR; LF].
Definition BLANK : text := [CR; LF; CR; LF].
Definition GET : text := [71; 69; 84].

Fixpoint prefix_of (p s : text) : option text :=   (* Some rest when s = p ++ rest *)
  match p, s with
  | [], _ => Some s
  | _ :: _, [] => None
  | a :: p', b :: s' => if a =? b then prefix_of p' s' else None
  end.

(* str.split(sep, maxsplit=1): split at the first occurrence of sep *)
Fixpoint split1 (sep s : text) : option (text * text) :=
  match prefix_of sep s with
  | Some rest => Some ([], rest)
  | None =>
      match s with
      | [] => None
      | c :: s' => match split1 sep s' with Some (a, b) => Some (c :: a, b) | None => None end
      end
  end.

Definition text_eqb (a b : text) : bool := list_eqb Z.eqb a b.

(* request line -> (method, path); None when an unpacking raises *)
Definition parse (m : text) : option (text * text) :=
  match split1 BLANK m with
  | None => None
  | Some (headers, _) =>
      let line := match split1 CRLF headers with Some (l, _) => l | None => headers end in
      match split1 [SP] line with
      | None => None
      | Some (method, rest) =>
          match split1 [SP] rest with
          | None => None
          | Some (path, _) => Some (method, path)
          end
      end
  end.

Inductive resp := Abort | Respond (code : Z).

Definition status_code (healthy : bool) : Z := if healthy then 200 else 503.

(* msg = None: the bytes are not valid UTF-8 *)
Definition handle (endpoint : text) (healthy : bool) (msg : option text) : resp :=
  match msg with
  | None => Abort
  | Some m =>
      match parse m with
      | None => Abort
      | Some (method, path) =>
          if text_eqb method GET && text_eqb path endpoint then Respond (status_code healthy) else Respond 404
      end
  end.

Definition enc_resp (r : resp) : list Z := match r with Abort => [0] | Respond c => [1; c] end.

Definition http_obs (c : text * bool * option text) : list Z :=
  let '(ep, healthy, msg) := c in enc_resp (handle ep healthy msg).
