(* RabbitBroker.v — the RabbitMQ client of repid over AmqpSrv.v.
   Mirrors repid/connections/rabbitmq/message_broker.py (enqueue, ack, nack, reject, requeue, queue_declare) and
   consumer.py (start, pause, unpause, finish, on_new_message, consume) at /repo HEAD.

   The client is reactive: every delivery starts the callback on_new_message, which accepts the message into the consumer's
   local buffer, or nacks it (expired, normal category), or - paused consumer, foreign topic - sleeps 0.1 s and rejects it
   back into the queue.  `world` = server + consumers + the broker's delivery-tag map + the rejects that are asleep.
   Schedule: the one the harness produces - an API call's next method is applied when the callbacks started so far have
   run as far as they can (they have no network latency, the API call has), callbacks run first-in first-out:
   all synchronous parts of a round of deliveries, then their methods in order, then the next round. *)
From Repid Require Import Base Sched AmqpSrv.

Definition REJECT_SLEEP : Z := 100000.     (* await asyncio.sleep(0.1) *)

Record env := mkEnv { ptab : list (Z * params) }.
Fixpoint zassoc {V} (k : Z) (l : list (Z * V)) : option V :=
  match l with [] => None | (k', v) :: r => if k =? k' then Some v else zassoc k r end.

Definition overdue_code (e : env) (pcode : Z) (now : time) : bool :=
  match zassoc pcode (ptab e) with Some p => overdue (p_ts p) (p_ttl p) now | None => false end.
Definition wait_of (e : env) (pcode : Z) (now : time) : option time :=
  match zassoc pcode (ptab e) with Some p => wait_until p now | None => None end.

(* milliseconds until `d`, rounded UP (since the fix recorded for C05: the truncated float product was up to a millisecond
   short) *)
Definition ceil_ms (us : Z) : Z := - ((- us) / 1000).
Definition expiration_of (e : env) (pcode : Z) (now : time) : option Z :=
  match wait_of e pcode now with
  | Some d => let ms := ceil_ms (d - now) in if 0 <? ms then Some ms else None
  | None => None
  end.

Definition enqueue_meth (e : env) (now : time) (id topic q prio payload pcode : Z) : meth :=
  let exp := expiration_of e pcode now in
  Publish (mkQK q (match exp with Some _ => QDelayed | None => QNormal end)) id prio topic q payload pcode exp.

(* ---- consumers ---- *)
Record cstate := mkCS {
  cs_q : Z; cs_cat : cat; cs_topics : list Z; cs_max : Z;
  cs_ctag : option Z; cs_paused : bool; cs_consuming : bool;
  cs_buf : list amsg
}.
Definition cat_queue (q : Z) (c : cat) : qkey :=
  mkQK q (match c with Normal => QNormal | DelayedC => QDelayed | DeadC => QDead end).

Record world := mkW {
  w_srv : srv;
  w_cl : list (Z * cstate);
  w_tags : list (Z * Z);              (* _id_to_delivery_tag: message id -> delivery tag, newest first *)
  w_pending : list (Z * Z)            (* rejects asleep: (instant, delivery tag), in the order they went to sleep *)
}.
Definition world0 : world := mkW srv0 [] [] [].

Fixpoint cl_set (c : Z) (v : cstate) (l : list (Z * cstate)) : list (Z * cstate) :=
  match l with [] => [(c, v)] | (c', v') :: r => if c =? c' then (c, v) :: r else (c', v') :: cl_set c v r end.
Definition cl_by_ctag (ct : Z) (l : list (Z * cstate)) : option (Z * cstate) :=
  find (fun cv => match cs_ctag (snd cv) with Some t => t =? ct | None => false end) l.

Definition topic_ok (topics : list Z) (t : Z) : bool := match topics with [] => true | _ => existsb (Z.eqb t) topics end.

Fixpoint tag_pop (i : Z) (l : list (Z * Z)) : option Z * list (Z * Z) :=
  match l with
  | [] => (None, [])
  | (i', t) :: r => if i =? i' then (Some t, r) else let '(x, r') := tag_pop i r in (x, (i', t) :: r')
  end.
Definition tag_set (i t : Z) (l : list (Z * Z)) : list (Z * Z) := (i, t) :: snd (tag_pop i l).

(* the log the harness compares: who issued which method with which reply *)
Inductive issuer := Api | Callback.
Record mlog := mkML { ml_by : issuer; ml_meth : meth; ml_reply : Z }.

Definition PUMP_FUEL : nat := 4000.

(* one method on the server, then the server runs *)
Definition do_meth (w : world) (now : time) (by_ : issuer) (m : meth) : world * mlog * list delivery :=
  let '(s1, r) := exec (w_srv w) now m in
  let '(s2, ds) := pump PUMP_FUEL s1 now in
  (mkW s2 (w_cl w) (w_tags w) (w_pending w), mkML by_ m r, ds).

(* synchronous part of on_new_message for one delivery *)
Inductive reaction := RNone | RMeth (m : meth).
Definition react (e : env) (w : world) (now : time) (d : delivery) : world * reaction :=
  match cl_by_ctag (d_ctag d) (w_cl w) with
  | None => (w, RNone)                      (* callback no longer registered: aiormq drops the delivery *)
  | Some (c, cs) =>
      let m := d_msg d in
      if cs_paused cs || negb (cs_consuming cs) then
        (mkW (w_srv w) (w_cl w) (w_tags w) (w_pending w ++ [(now + REJECT_SLEEP, d_tag d)]), RNone)
      else if negb (topic_ok (cs_topics cs) (a_topic m)) then
        (mkW (w_srv w) (w_cl w) (w_tags w) (w_pending w ++ [(now + REJECT_SLEEP, d_tag d)]), RNone)
      else if overdue_code e (a_pcode m) now && cat_eqb (cs_cat cs) Normal then (w, RMeth (Nack (d_tag d)))
      else
        (mkW (w_srv w)
             (cl_set c (mkCS (cs_q cs) (cs_cat cs) (cs_topics cs) (cs_max cs) (cs_ctag cs) (cs_paused cs) (cs_consuming cs)
                             (cs_buf cs ++ [m])) (w_cl w))
             (tag_set (a_id m) (d_tag d) (w_tags w)) (w_pending w), RNone)
  end.

(* one round: the synchronous parts in order, collecting the methods the callbacks go on to issue *)
Fixpoint react_all (e : env) (w : world) (now : time) (ds : list delivery) : world * list meth :=
  match ds with
  | [] => (w, [])
  | d :: r => let '(w1, x) := react e w now d in
              let '(w2, ms) := react_all e w1 now r in
              (w2, match x with RMeth m => m :: ms | RNone => ms end)
  end.

(* methods in order, each followed by the server's run; the deliveries they cause form the next round *)
Fixpoint do_meths (w : world) (now : time) (by_ : issuer) (ms : list meth) : world * list mlog * list delivery :=
  match ms with
  | [] => (w, [], [])
  | m :: r => let '(w1, l, ds) := do_meth w now by_ m in
              let '(w2, ls, ds2) := do_meths w1 now by_ r in
              (w2, l :: ls, ds ++ ds2)
  end.

Fixpoint settle (fuel : nat) (e : env) (w : world) (now : time) (ds : list delivery) : world * list mlog :=
  match fuel with
  | O => (w, [])
  | S f =>
      match ds with
      | [] => (w, [])
      | _ => let '(w1, ms) := react_all e w now ds in
             let '(w2, ls, ds2) := do_meths w1 now Callback ms in
             let '(w3, ls2) := settle f e w2 now ds2 in
             (w3, ls ++ ls2)
      end
  end.

Definition SETTLE_FUEL : nat := 200.

(* an API call's methods: each applied when the callbacks have settled *)
Fixpoint api_meths (e : env) (w : world) (now : time) (ms : list meth) : world * list mlog :=
  match ms with
  | [] => (w, [])
  | m :: r => let '(w1, l, ds) := do_meth w now Api m in
              let '(w2, ls) := settle SETTLE_FUEL e w1 now ds in
              let '(w3, ls2) := api_meths e w2 now r in
              (w3, l :: ls ++ ls2)
  end.

(* ---- time passes: head expiries and sleeping rejects, in the order of their instants ---- *)
Definition min_opt (a b : option Z) : option Z :=
  match a, b with Some x, Some y => Some (Z.min x y) | Some x, None => Some x | None, y => y end.
Definition next_pending (l : list (Z * Z)) : option Z := fold_right (fun x acc => min_opt (Some (fst x)) acc) None l.

(* everything that happens at instant t: the server's timer first, then the rejects due at t in the order they went to sleep *)
Definition at_instant (e : env) (w : world) (t : time) : world * list mlog :=
  let '(s1, ds0) := pump PUMP_FUEL (w_srv w) t in
  let due := filter (fun x => fst x <=? t) (w_pending w) in
  let rest := filter (fun x => negb (fst x <=? t)) (w_pending w) in
  let w0 := mkW s1 (w_cl w) (w_tags w) rest in
  let '(w1, ls0) := settle SETTLE_FUEL e w0 t ds0 in
  let '(w2, ls, ds) := do_meths w1 t Callback (map (fun x => Reject (snd x)) due) in
  let '(w3, ls2) := settle SETTLE_FUEL e w2 t ds in
  (w3, ls0 ++ ls ++ ls2).

Fixpoint advance (fuel : nat) (e : env) (w : world) (target : time) : world * list mlog :=
  match fuel with
  | O => (w, [])
  | S f =>
      match min_opt (next_expiry (queues (w_srv w))) (next_pending (w_pending w)) with
      | Some t => if t <=? target then
                    let '(w1, ls) := at_instant e w t in
                    let '(w2, ls2) := advance f e w1 target in (w2, ls ++ ls2)
                  else (w, [])
      | None => (w, [])
      end
  end.
Definition ADVANCE_FUEL : nat := 3000.

(* ---- API operations of a history ---- *)
Inductive rop :=
| RDeclare (q : Z)
| RAddConsumer (c q : Z) (ct : cat) (topics : list Z) (max_unacked : Z)      (* get_consumer + start *)
| RPut (id topic q prio payload pcode : Z)
| RTake (c : Z)                                        (* consume() that is given no time to wait *)
| RAck (id : Z) | RNack (id : Z) | RReject (id : Z)
| RRequeue (id topic q prio payload pcode : Z)
| RPause (c : Z) | RUnpause (c : Z)
| RFinish (c : Z)
| RTick (d : Z).

Definition cl_get (c : Z) (w : world) : option cstate := zassoc c (w_cl w).

Definition terminal (e : env) (w : world) (now : time) (id : Z) (mk : Z -> meth) : world * list mlog :=
  match tag_pop id (w_tags w) with
  | (Some t, rest) => api_meths e (mkW (w_srv w) (w_cl w) rest (w_pending w)) now [mk t]
  | (None, _) => (w, [])
  end.

(* consume() that is given no time to wait: the head of the local buffer; since the fix recorded for C12 a normal consumer
   nacks a message that expired while it was waiting there and looks at the next one *)
Definition TAKE_FUEL : nat := 100.
Fixpoint take_loop (fuel : nat) (e : env) (w : world) (now : time) (c : Z) : world * list mlog * Z :=
  match fuel with
  | O => (w, [], 0)
  | S f =>
      match cl_get c w with
      | Some cs =>
          match cs_buf cs with
          | m :: r =>
              let w0 := mkW (w_srv w) (cl_set c (mkCS (cs_q cs) (cs_cat cs) (cs_topics cs) (cs_max cs) (cs_ctag cs) (cs_paused cs)
                                                      (cs_consuming cs) r) (w_cl w)) (w_tags w) (w_pending w) in
              if cat_eqb (cs_cat cs) Normal && overdue_code e (a_pcode m) now then
                let '(w1, l1) := terminal e w0 now (a_id m) Nack in
                let '(w2, l2, res) := take_loop f e w1 now c in (w2, l1 ++ l2, res)
              else (w0, [], a_id m)
          | [] => (w, [], 0)
          end
      | None => (w, [], 0)
      end
  end.

(* result of a take: the id handed out (0: none) *)
Definition run_op (e : env) (w : world) (now : time) (o : rop) : world * list mlog * Z :=
  match o with
  | RDeclare q =>
      let '(w1, l) := api_meths e w now [Declare (mkQK q QDead); Declare (mkQK q QNormal); Declare (mkQK q QDelayed)] in (w1, l, 0)
  | RAddConsumer c q ct topics mx =>
      (* start(): consuming := true; basic_qos; basic_consume (the callback is registered, the tag is known afterwards) *)
      let w0 := mkW (w_srv w) (cl_set c (mkCS q ct topics mx (Some (next_ctag (w_srv w))) false true []) (w_cl w)) (w_tags w) (w_pending w) in
      let '(w1, l) := api_meths e w0 now [Qos mx; Consume (cat_queue q ct)] in (w1, l, 0)
  | RPut id topic q prio payload pcode =>
      let '(w1, l) := api_meths e w now [enqueue_meth e now id topic q prio payload pcode] in (w1, l, 0)
  | RTake c => take_loop TAKE_FUEL e w now c
  | RAck id => let '(w1, l) := terminal e w now id Ack in (w1, l, 0)
  | RNack id => let '(w1, l) := terminal e w now id Nack in (w1, l, 0)
  | RReject id => let '(w1, l) := terminal e w now id Reject in (w1, l, 0)
  | RRequeue id topic q prio payload pcode =>
      (* ack, then enqueue: two methods, nothing atomic about them *)
      let '(w1, l1) := terminal e w now id Ack in
      let '(w2, l2) := api_meths e w1 now [enqueue_meth e now id topic q prio payload pcode] in (w2, l1 ++ l2, 0)
  | RPause c =>
      match cl_get c w with
      | Some cs =>
          let w0 := mkW (w_srv w) (cl_set c (mkCS (cs_q cs) (cs_cat cs) (cs_topics cs) (cs_max cs) (cs_ctag cs) true (cs_consuming cs) (cs_buf cs)) (w_cl w))
                        (w_tags w) (w_pending w) in
          let '(w1, l) := api_meths e w0 now [Qos 1] in (w1, l, 0)
      | None => (w, [], 0)
      end
  | RUnpause c =>
      match cl_get c w with
      | Some cs =>
          let w0 := mkW (w_srv w) (cl_set c (mkCS (cs_q cs) (cs_cat cs) (cs_topics cs) (cs_max cs) (cs_ctag cs) false (cs_consuming cs) (cs_buf cs)) (w_cl w))
                        (w_tags w) (w_pending w) in
          let '(w1, l) := api_meths e w0 now [Qos (cs_max cs)] in (w1, l, 0)
      | None => (w, [], 0)
      end
  | RFinish c =>
      match cl_get c w with
      | Some cs =>
          match cs_ctag cs with
          | None => (w, [], 0)
          | Some ct =>
              (* consuming := false; basic_cancel (callback unregistered on CancelOk); reject what is in the buffer *)
              let w0 := mkW (w_srv w) (cl_set c (mkCS (cs_q cs) (cs_cat cs) (cs_topics cs) (cs_max cs) (Some ct) (cs_paused cs) false (cs_buf cs)) (w_cl w))
                            (w_tags w) (w_pending w) in
              let '(w1, l1) := api_meths e w0 now [Cancel ct] in
              let cs1 := match cl_get c w1 with Some x => x | None => cs end in
              let pops := fold_left (fun acc m => let '(tags, ts) := acc in
                                                  match tag_pop (a_id m) tags with (Some t, r) => (r, ts ++ [t]) | (None, r) => (r, ts) end)
                                    (cs_buf cs1) (w_tags w1, []) in
              let w2 := mkW (w_srv w1) (cl_set c (mkCS (cs_q cs1) (cs_cat cs1) (cs_topics cs1) (cs_max cs1) None (cs_paused cs1) false []) (w_cl w1))
                            (fst pops) (w_pending w1) in
              let '(w3, l2) := api_meths e w2 now (map Reject (snd pops)) in
              (w3, l1 ++ l2, 0)
          end
      | None => (w, [], 0)
      end
  | RTick d => let '(w1, l) := advance ADVANCE_FUEL e w (now + d) in (w1, l, 0)
  end.

(* ---- encoding for the comparison ---- *)
Definition qk_code (k : qkey) : list Z := [qnum k; match qkd k with QNormal => 0 | QDelayed => 1 | QDead => 2 end].
Definition enc_meth (m : meth) : list Z :=
  match m with
  | Publish k id prio topic hq payload pcode exp => [1] ++ qk_code k ++ [id; prio; topic; hq; payload; pcode; match exp with Some x => x | None => -1 end]
  | Ack t => [2; t] | Nack t => [3; t] | Reject t => [4; t] | Qos n => [5; n]
  | Consume k => [6] ++ qk_code k | Cancel ct => [7; ct] | Declare k => [8] ++ qk_code k | Purge k => [9] ++ qk_code k
  end.
Definition enc_mlog (l : mlog) : list Z := [-20; match ml_by l with Api => 0 | Callback => 1 end] ++ enc_meth (ml_meth l) ++ [ml_reply l].

Definition enc_client (cv : Z * cstate) : list Z :=
  let cs := snd cv in
  [-30; fst cv; match cs_ctag cs with Some t => t | None => 0 end; if cs_paused cs then 1 else 0; if cs_consuming cs then 1 else 0]
  ++ map a_id (cs_buf cs).
(* (the rejects asleep are local variables of sleeping callbacks: not observable on the implementation, not compared) *)
Definition world_obs (w : world) : list Z :=
  srv_obs (w_srv w) ++ flat_map enc_client (w_cl w) ++ [-31] ++ flat_map (fun it => [fst it; snd it]) (w_tags w).

(* a history: (instant, op) list; output: per op the method log, the take result and the world afterwards *)
Fixpoint run_hist (e : env) (w : world) (h : list (Z * rop)) : list Z :=
  match h with
  | [] => []
  | (now, o) :: r =>
      let '(w1, l, res) := run_op e w now o in
      [-40; res] ++ flat_map enc_mlog l ++ [-41] ++ world_obs w1 ++ run_hist e w1 r
  end.

Definition rabbit_case (x : env * list (Z * rop)) : list Z := run_hist (fst x) world0 (snd x).
