(* RunnerProofs.v — invariants of the worker model Runner.v (C09, C10). *)
From Repid Require Import Base Runner.

Definition len {A} (l : list A) : Z := Z.of_nat (length l).

Lemma len_app {A} (a b : list A) : len (a ++ b) = len a + len b.
Proof. unfold len. rewrite app_length. lia. Qed.
Lemma len_nonneg {A} (l : list A) : 0 <= len l.
Proof. unfold len. lia. Qed.

Lemma names_set_loop q st p ls : map l_q (set_loop q st p ls) = map l_q ls.
Proof.
  induction ls as [|l ls IH]; [reflexivity|]. cbn [set_loop]. destruct (l_q l =? q) eqn:E; cbn [map l_q].
  - apply Z.eqb_eq in E. rewrite E. reflexivity.
  - rewrite IH. reflexivity.
Qed.

Lemma get_loop_name q ls l : get_loop q ls = Some l -> l_q l = q.
Proof.
  induction ls as [|x ls IH]; cbn [get_loop]; [discriminate|]. destruct (l_q x =? q) eqn:E; [|exact IH].
  intros H; inversion H; subst. apply Z.eqb_eq. exact E.
Qed.

Lemma holds_nonneg l : 0 <= holds_slot l.
Proof. unfold holds_slot. destruct (l_st l); lia. Qed.

Lemma slots_nonneg ls : 0 <= slots_held ls.
Proof. induction ls as [|l ls IH]; cbn [slots_held fold_right]; [lia|]. pose proof (holds_nonneg l). unfold slots_held in IH. lia. Qed.

Lemma slots_set_loop q st p : forall ls l, NoDup (map l_q ls) -> get_loop q ls = Some l ->
  slots_held (set_loop q st p ls) = slots_held ls - holds_slot l + holds_slot (mkLoop q st p).
Proof.
  induction ls as [|x ls IH]; intros l Hnd Hg; [discriminate|]. cbn [get_loop] in Hg. cbn [set_loop].
  inversion Hnd as [|n ns Hnot Hnd']; subst. destruct (l_q x =? q) eqn:E.
  - inversion Hg; subst. unfold slots_held. cbn [fold_right]. lia.
  - unfold slots_held in *. cbn [fold_right]. rewrite (IH l Hnd' Hg). lia.
Qed.

Lemma slots_set_loop_absent q st p : forall ls, get_loop q ls = None -> set_loop q st p ls = ls.
Proof.
  induction ls as [|x ls IH]; intros H; [reflexivity|]. cbn [get_loop] in H. cbn [set_loop].
  destruct (l_q x =? q); [discriminate|]. rewrite (IH H). reflexivity.
Qed.

Definition total (s : rstate) : Z := value s + len (tasks s) + slots_held (loops s).

(* ---- wake_next / release ---- *)
Lemma wake_fields s :
  limit (wake_next s) = limit s /\ maxt (wake_next s) = maxt s /\ tasks (wake_next s) = tasks s /\ started (wake_next s) = started s /\
  processed (wake_next s) = processed s /\ stop (wake_next s) = stop s /\ backlog (wake_next s) = backlog s /\ leaked (wake_next s) = leaked s /\
  map l_q (loops (wake_next s)) = map l_q (loops s) /\ value s - 1 <= value (wake_next s) <= value s.
Proof.
  unfold wake_next. destruct (waiters s) as [|q w]; [repeat split; lia|].
  destruct (get_loop q (loops s)) as [[q' st p]|]; [|cbn; repeat split; lia].
  destruct st; cbn; repeat split; try lia. apply names_set_loop.
Qed.

Lemma total_wake s : NoDup (map l_q (loops s)) -> total (wake_next s) = total s.
Proof.
  intros Hnd. unfold wake_next, total. destruct (waiters s) as [|q w]; [reflexivity|].
  destruct (get_loop q (loops s)) as [[q' st p]|] eqn:Eg; [|cbn [value tasks loops upd]; lia].
  destruct st; try (cbn [value tasks loops upd]; lia). cbn [value tasks loops upd].
  rewrite (slots_set_loop q _ p (loops s) _ Hnd Eg). cbn [holds_slot l_st]. lia.
Qed.

(* a loop that is not waiting is left alone by a wake-up *)
Lemma wake_keeps s q l : get_loop q (loops s) = Some l -> (forall m, l_st l <> LWaiting m) -> get_loop q (loops (wake_next s)) = Some l.
Proof.
  intros Eg Hst. unfold wake_next. destruct (waiters s) as [|w ws]; [exact Eg|].
  destruct (get_loop w (loops s)) as [[w' wst wp]|] eqn:Ew; [|exact Eg]. destruct wst; try exact Eg. cbn [loops upd].
  destruct (Z.eq_dec w q) as [->|Hne]; [rewrite Eg in Ew; inversion Ew; subst; cbn in Hst; exfalso; eapply Hst; reflexivity|].
  clear - Eg Hne. induction (loops s) as [|x ls IH]; [discriminate|]. cbn [get_loop set_loop] in *.
  destruct (l_q x =? w) eqn:E1, (l_q x =? q) eqn:E2; cbn [get_loop l_q].
  - apply Z.eqb_eq in E1, E2. congruence.
  - assert (E3 : w =? q = false) by (apply Z.eqb_neq; exact Hne). rewrite E3. exact Eg.
  - rewrite E2. exact Eg.
  - rewrite E2. apply IH. exact Eg.
Qed.

Lemma release_fields s :
  limit (release s) = limit s /\ maxt (release s) = maxt s /\ tasks (release s) = tasks s /\ started (release s) = started s /\
  processed (release s) = processed s /\ stop (release s) = stop s /\ backlog (release s) = backlog s /\ leaked (release s) = leaked s /\
  map l_q (loops (release s)) = map l_q (loops s) /\ value s <= value (release s).
Proof.
  unfold release. match goal with |- context [wake_next ?x] => destruct (wake_fields x) as (A & B & C & D & E & F & G & H & I & J) end.
  cbn [limit maxt tasks started processed stop backlog leaked loops value upd] in *. repeat split; try assumption; lia.
Qed.

Lemma total_release s : NoDup (map l_q (loops s)) -> total (release s) = total s + 1.
Proof.
  intros Hnd. unfold release. rewrite total_wake; [|exact Hnd]. unfold total. cbn [value tasks loops upd]. lia.
Qed.

Lemma release_keeps s q l : get_loop q (loops s) = Some l -> (forall m, l_st l <> LWaiting m) -> get_loop q (loops (release s)) = Some l.
Proof. intros Eg Hst. unfold release. apply wake_keeps; assumption. Qed.

(* ---- the invariant ---- *)
Record Inv (s : rstate) : Prop := {
  i_names : NoDup (map l_q (loops s));
  i_limiter : value s + len (tasks s) + slots_held (loops s) = limit s;       (* every slot is free, with a task, or with a loop *)
  i_value : 0 <= value s;
  i_count : started s = processed s + len (tasks s);
  i_max : match maxt s with Some mx => started s <= Z.max mx 0 | None => True end;
  i_stop : match maxt s with Some mx => 0 < mx -> mx <= processed s -> stop s = true | None => True end
}.

Lemma remove_one_len m l l' : remove_one m l = Some l' -> len l = len l' + 1.
Proof.
  revert l'. induction l as [|x l IH]; intros l' H; cbn [remove_one] in H; [discriminate|].
  destruct (x =? m); [inversion H; subst; unfold len; cbn [length]; lia|].
  destruct (remove_one m l) as [r|]; [|discriminate]. inversion H; subst. specialize (IH r eq_refl). unfold len in *. cbn [length]. lia.
Qed.

Lemma Inv_init lim mx qs : 0 <= lim -> NoDup qs -> Inv (init lim mx qs).
Proof.
  intros Hl Hnd. unfold init. constructor; cbn [limit maxt value waiters loops tasks started processed stop backlog leaked].
  - rewrite map_map. cbn [l_q]. rewrite map_id. exact Hnd.
  - assert (E : slots_held (map (fun q => mkLoop q LIdle false) qs) = 0).
    { induction qs as [|q qs IH]; [reflexivity|]. inversion Hnd; subst. unfold slots_held in *. cbn. rewrite IH by assumption. reflexivity. }
    rewrite E. unfold len. cbn. lia.
  - exact Hl.
  - unfold len. cbn. lia.
  - destruct mx; [lia | exact I].
  - destruct mx as [mx|]; [lia | exact I].
Qed.

Ltac fields := cbn [limit maxt value waiters loops tasks started processed stop backlog leaked upd] in *.

Theorem Inv_step s e s' : Inv s -> step_ev s e = Some s' -> Inv s'.
Proof.
  intros [Hn Hl Hv Hc Hm Hs] H. destruct e as [q m|q|q|q|q|q|q|m| |q|q m|q|q|q]; cbn [step_ev] in H.
  - (* deliver *)
    destruct (get_loop q (loops s)) as [[q' st p]|] eqn:Eg; [|discriminate]. destruct st; try discriminate.
    destruct (take_msg q (backlog s)) as [[m' b']|]; [|discriminate]. destruct ((m' =? m) && negb p); [|discriminate].
    inversion H; subst; clear H. constructor; fields; try assumption.
    + rewrite names_set_loop. exact Hn.
    + rewrite (slots_set_loop q _ p _ _ Hn Eg). cbn [holds_slot l_st]. lia.
  - (* acquire fast *)
    destruct (get_loop q (loops s)) as [[q' st p]|] eqn:Eg; [|discriminate]. destruct st; try discriminate.
    destruct (locked s) eqn:El; [discriminate|]. inversion H; subst; clear H.
    unfold locked in El. apply orb_false_iff in El. destruct El as [El _]. apply orb_false_iff in El. destruct El as [El _]. apply Z.leb_gt in El.
    constructor; fields; try assumption.
    + rewrite names_set_loop. exact Hn.
    + rewrite (slots_set_loop q _ p _ _ Hn Eg). cbn [holds_slot l_st]. lia.
    + lia.
  - (* pause *)
    destruct (get_loop q (loops s)) as [[q' st p]|] eqn:Eg; [|discriminate]. destruct st; try discriminate.
    destruct (locked s); [|discriminate]. inversion H; subst; clear H. constructor; fields; try assumption.
    + rewrite names_set_loop. exact Hn.
    + rewrite (slots_set_loop q _ true _ _ Hn Eg). cbn [holds_slot l_st]. lia.
  - (* unpause *)
    destruct (get_loop q (loops s)) as [[q' st p]|] eqn:Eg; [|discriminate]. destruct st; try discriminate.
    set (s1 := upd s (value s) (waiters s) (set_loop q (LHold m) false (loops s)) (tasks s) (started s) (processed s) (stop s) (backlog s) (leaked s)) in *.
    assert (I1 : Inv s1).
    { subst s1. constructor; fields; try assumption.
      + rewrite names_set_loop. exact Hn.
      + rewrite (slots_set_loop q _ false _ _ Hn Eg). cbn [holds_slot l_st]. lia. }
    destruct (0 <? value s1) eqn:Ev; inversion H; subst; clear H; [|exact I1].
    apply Z.ltb_lt in Ev. clearbody s1. destruct I1 as [Hn1 Hl1 Hv1 Hc1 Hm1 Hs1].
    destruct (wake_fields s1) as (A & B & C & D & E & F & G & HH & II & J).
    pose proof (total_wake s1 Hn1) as Ht. unfold total in Ht.
    constructor.
    + rewrite II. exact Hn1.
    + rewrite A. lia.
    + lia.
    + rewrite C, D, E. exact Hc1.
    + rewrite B, D. exact Hm1.
    + rewrite B, E, F. exact Hs1.
  - (* spawn *)
    destruct (get_loop q (loops s)) as [[q' st p]|] eqn:Eg; [|discriminate]. destruct st; try discriminate.
    destruct (limit_reached s) eqn:Er; [discriminate|]. inversion H; subst; clear H.
    unfold limit_reached in Er. constructor; fields.
    + rewrite names_set_loop. exact Hn.
    + rewrite len_app. replace (len [m]) with 1 by reflexivity.
      match goal with |- context [set_loop q ?st p _] => rewrite (slots_set_loop q st p _ _ Hn Eg) end.
      cbn [holds_slot l_st]. destruct (limit_reached _); cbn [holds_slot l_st]; lia.
    + exact Hv.
    + rewrite len_app. replace (len [m]) with 1 by reflexivity. lia.
    + destruct (maxt s) as [mx|]; [|exact I]. apply Z.leb_gt in Er. lia.
    + exact Hs.
  - (* surplus *)
    destruct (get_loop q (loops s)) as [[q' st p]|] eqn:Eg; [|discriminate]. destruct st; try discriminate.
    destruct (limit_reached s); [|discriminate]. inversion H; subst; clear H.
    destruct (release_fields s) as [R1 [R2 [R3 [R4 [R5 [R6 [R7 [R8 [R9 R10]]]]]]]]].
    pose proof (total_release s Hn) as Ht. unfold total in Ht.
    assert (Hn' : NoDup (map l_q (loops (release s)))) by (rewrite R9; exact Hn).
    (* the loop of q is still LHold in release s: release only turns LWaiting into LGranted *)
    assert (Eg' : get_loop q (loops (release s)) = Some (mkLoop q' (LHold m) p)) by (apply release_keeps; [exact Eg | cbn; discriminate]).
    constructor; fields.
    + rewrite names_set_loop. exact Hn'.
    + rewrite (slots_set_loop q _ p _ _ Hn' Eg'). cbn [holds_slot l_st]. rewrite R1, R3 in *. lia.
    + lia.
    + rewrite R3, R4, R5. exact Hc.
    + rewrite R2, R4. exact Hm.
    + rewrite R2, R5, R6. exact Hs.
  - (* rejected *)
    destruct (get_loop q (loops s)) as [[q' st p]|] eqn:Eg; [|discriminate]. destruct st; try discriminate.
    inversion H; subst; clear H. constructor; fields; try assumption.
    + rewrite names_set_loop. exact Hn.
    + rewrite (slots_set_loop q _ p _ _ Hn Eg). cbn [holds_slot l_st]. lia.
  - (* task done *)
    destruct (remove_one m (tasks s)) as [ts|] eqn:Er; [|discriminate]. inversion H; subst; clear H.
    set (s0 := upd s (value s) (waiters s) (loops s) ts (started s) (processed s) (stop s) (backlog s) (leaked s)).
    destruct (release_fields s0) as [R1 [R2 [R3 [R4 [R5 [R6 [R7 [R8 [R9 R10]]]]]]]]].
    assert (Hn0 : NoDup (map l_q (loops s0))) by exact Hn.
    pose proof (total_release s0 Hn0) as Ht. unfold total in Ht. subst s0. fields.
    pose proof (remove_one_len _ _ _ Er) as Hlen.
    constructor; fields.
    + rewrite R9. exact Hn.
    + rewrite R1, R3 in *. lia.
    + lia.
    + rewrite R3, R4, R5. lia.
    + rewrite R2, R4. exact Hm.
    + rewrite R2, R5, R6. destruct (maxt s) as [mx|] eqn:Emx; [|exact I]. intros Hpos Hle.
      unfold limit_reached. fields. rewrite R2, R4. fields.
      destruct (stop s); [reflexivity|]. cbn [orb]. apply Z.leb_le.
      pose proof (len_nonneg ts). lia.
  - (* stop *)
    inversion H; subst; clear H. constructor; fields; try assumption. destruct (maxt s); [reflexivity | exact I].
  - (* cancel loop *)
    destruct (negb (stop s)); [discriminate|].
    destruct (get_loop q (loops s)) as [[q' st p]|] eqn:Eg; [|discriminate].
    destruct st; try discriminate.
    + inversion H; subst; clear H; constructor; fields; try assumption;
        [rewrite names_set_loop; exact Hn | rewrite (slots_set_loop q _ p _ _ Hn Eg); cbn [holds_slot l_st]; lia].
    + inversion H; subst; clear H; constructor; fields; try assumption;
        [rewrite names_set_loop; exact Hn | rewrite (slots_set_loop q _ p _ _ Hn Eg); cbn [holds_slot l_st]; lia].
    + inversion H; subst; clear H; constructor; fields; try assumption;
        [rewrite names_set_loop; exact Hn | rewrite (slots_set_loop q _ p _ _ Hn Eg); cbn [holds_slot l_st]; lia].
    + inversion H; subst; clear H;
      match goal with |- Inv (release ?s0) =>
        destruct (release_fields s0) as [R1 [R2 [R3 [R4 [R5 [R6 [R7 [R8 [R9 R10]]]]]]]]];
        assert (Hn0 : NoDup (map l_q (loops s0))) by (cbn [loops upd]; rewrite names_set_loop; exact Hn);
        pose proof (total_release s0 Hn0) as Ht; unfold total in Ht; fields;
        rewrite (slots_set_loop q _ p _ _ Hn Eg) in Ht; cbn [holds_slot l_st] in Ht
      end;
      (constructor; fields;
       [ rewrite R9; cbn [loops upd]; rewrite names_set_loop; exact Hn
       | rewrite R1, R3 in *; fields; lia
       | lia
       | rewrite R3, R4, R5; exact Hc
       | rewrite R2, R4; exact Hm
       | rewrite R2, R5, R6; exact Hs ]).
    + inversion H; subst; clear H;
      match goal with |- Inv (release ?s0) =>
        destruct (release_fields s0) as [R1 [R2 [R3 [R4 [R5 [R6 [R7 [R8 [R9 R10]]]]]]]]];
        assert (Hn0 : NoDup (map l_q (loops s0))) by (cbn [loops upd]; rewrite names_set_loop; exact Hn);
        pose proof (total_release s0 Hn0) as Ht; unfold total in Ht; fields;
        rewrite (slots_set_loop q _ p _ _ Hn Eg) in Ht; cbn [holds_slot l_st] in Ht
      end;
      (constructor; fields;
       [ rewrite R9; cbn [loops upd]; rewrite names_set_loop; exact Hn
       | rewrite R1, R3 in *; fields; lia
       | lia
       | rewrite R3, R4, R5; exact Hc
       | rewrite R2, R4; exact Hm
       | rewrite R2, R5, R6; exact Hs ]).
    + inversion H; subst; clear H. constructor; assumption.
    + inversion H; subst; clear H. constructor; assumption.
  - (* enqueue *)
    inversion H; subst; clear H. constructor; fields; assumption.
  - (* cancel lost *)
    destruct (negb (stop s)); [discriminate|].
    destruct (get_loop q (loops s)) as [[q' st p]|] eqn:Eg; [|discriminate]. destruct st; try discriminate.
    inversion H; subst; clear H; constructor; fields; try assumption;
      [rewrite names_set_loop; exact Hn | rewrite (slots_set_loop q _ p _ _ Hn Eg); cbn [holds_slot l_st]; lia].
  - (* pause() on the wire: only the consumer's flag changes *)
    destruct (get_loop q (loops s)) as [[q' st p]|] eqn:Eg; [|discriminate]. destruct st; try discriminate.
    destruct (locked s); [|discriminate].
    inversion H; subst; clear H; constructor; fields; try assumption;
      [rewrite names_set_loop; exact Hn | rewrite (slots_set_loop q _ true _ _ Hn Eg); cbn [holds_slot l_st]; lia].
  - (* unpause() of a loop that never waited *)
    destruct (get_loop q (loops s)) as [[q' st p]|] eqn:Eg; [|discriminate]. destruct st; try discriminate.
    destruct p; [|discriminate].
    inversion H; subst; clear H; constructor; fields; try assumption;
      [rewrite names_set_loop; exact Hn | rewrite (slots_set_loop q _ false _ _ Hn Eg); cbn [holds_slot l_st]; lia].
Qed.

Theorem Inv_run es : forall s s', Inv s -> run_ev s es = Some s' -> Inv s'.
Proof.
  induction es as [|e es IH]; intros s s' Hi H; cbn [run_ev] in H; [inversion H; subst; exact Hi|].
  destruct (step_ev s e) as [s1|] eqn:E; [|discriminate]. eapply IH; [eapply Inv_step; eauto | exact H].
Qed.

Lemma step_params s e s' : step_ev s e = Some s' -> limit s' = limit s /\ maxt s' = maxt s.
Proof.
  intros H. destruct e; cbn [step_ev] in H;
    repeat match type of H with context [match ?x with _ => _ end] => destruct x; try discriminate end;
    inversion H; subst; cbn [limit maxt upd]; try (split; reflexivity);
    repeat match goal with |- context [release ?x] => destruct (release_fields x) as [R1 [R2 _]]; rewrite ?R1, ?R2; clear R1 R2 end;
    repeat match goal with |- context [wake_next ?x] => destruct (wake_fields x) as [R1 [R2 _]]; rewrite ?R1, ?R2; clear R1 R2 end;
    cbn [limit maxt upd]; split; reflexivity.
Qed.

Lemma run_params es : forall s s', run_ev s es = Some s' -> limit s' = limit s /\ maxt s' = maxt s.
Proof.
  induction es as [|e es IH]; intros s s' H; cbn [run_ev] in H; [inversion H; subst; split; reflexivity|].
  destruct (step_ev s e) as [s1|] eqn:E; [|discriminate]. destruct (IH _ _ H) as [H1 H2]. destruct (step_params _ _ _ E) as [H3 H4].
  split; congruence.
Qed.

(* ---- C09 ---- *)
Theorem limiter_inv lim mx qs es s : 0 <= lim -> NoDup qs -> run_ev (init lim mx qs) es = Some s ->
  value s + len (tasks s) + slots_held (loops s) = lim /\ 0 <= value s.
Proof.
  intros Hl Hq H. pose proof (Inv_run es _ _ (Inv_init lim mx qs Hl Hq) H) as [_ I1 I2 _ _ _].
  assert (E : limit s = lim) by (apply (proj1 (run_params _ _ _ H))).
  rewrite <- E. split; assumption.
Qed.

(* at no instant more than tasks_limit processing tasks (hence actor invocations) exist *)
Theorem tasks_le_limit lim mx qs es s : 0 <= lim -> NoDup qs -> run_ev (init lim mx qs) es = Some s -> len (tasks s) <= lim.
Proof.
  intros Hl Hq H. destruct (limiter_inv lim mx qs es s Hl Hq H) as [H1 H2]. pose proof (slots_nonneg (loops s)). lia.
Qed.

(* every way a task ends gives its slot back (to the first waiting loop, else to the pool) and is counted once *)
Theorem task_end_releases s m s' : Inv s -> step_ev s (EvTaskDone m) = Some s' ->
  processed s' = processed s + 1 /\ len (tasks s') = len (tasks s) - 1 /\
  value s' + slots_held (loops s') = value s + slots_held (loops s) + 1.
Proof.
  intros Hi H. pose proof (Inv_step _ _ _ Hi H) as Hi'. destruct Hi as [_ I1 _ _ _ _]. destruct Hi' as [_ I1' _ _ _ _].
  cbn [step_ev] in H. destruct (remove_one m (tasks s)) as [ts|] eqn:Er; [|discriminate]. inversion H; subst; clear H.
  set (s0 := upd s (value s) (waiters s) (loops s) ts (started s) (processed s) (stop s) (backlog s) (leaked s)) in *.
  destruct (release_fields s0) as [R1 [R2 [R3 [R4 [R5 _]]]]]. fields. pose proof (remove_one_len _ _ _ Er).
  subst s0. fields. rewrite R5, R3. rewrite R1, R3 in I1'. fields. repeat split; lia.
Qed.

(* ---- C10 ---- *)
(* a worker with messages_limit = M starts at most M executions, whatever the backlog, the durations, the number of queues
   and the schedule *)
Theorem started_le_M lim M qs es s : 0 <= lim -> NoDup qs -> 0 <= M -> run_ev (init lim (Some M) qs) es = Some s -> started s <= M.
Proof.
  intros Hl Hq HM H. pose proof (Inv_run es _ _ (Inv_init lim (Some M) qs Hl Hq) H) as [_ _ _ _ I5 _].
  assert (E : maxt s = Some M) by (apply (proj2 (run_params _ _ _ H))).
  rewrite E in I5. lia.
Qed.

(* once M executions have finished the stop event is set (the run then returns through the graceful shutdown) *)
Theorem stop_after_M lim M qs es s : 0 <= lim -> NoDup qs -> 0 < M -> run_ev (init lim (Some M) qs) es = Some s ->
  M <= processed s -> stop s = true.
Proof.
  intros Hl Hq HM H Hp. pose proof (Inv_run es _ _ (Inv_init lim (Some M) qs Hl Hq) H) as [_ _ _ _ _ I6].
  assert (E : maxt s = Some M) by (apply (proj2 (run_params _ _ _ H))).
  rewrite E in I6. apply I6; assumption.
Qed.

(* a surplus message goes back to its queue as it was taken *)
Theorem surplus_returned s q s1 s2 m p :
  get_loop q (loops s) = Some (mkLoop q (LHold m) p) -> step_ev s (EvSurplus q) = Some s1 -> step_ev s1 (EvRejected q) = Some s2 ->
  backlog s2 = backlog s ++ [(q, m)] /\ started s2 = started s /\ tasks s2 = tasks s.
Proof.
  intros Eg H1 H2. cbn [step_ev] in H1. rewrite Eg in H1. destruct (limit_reached s); [|discriminate]. inversion H1; subst; clear H1.
  destruct (release_fields s) as [R1 [R2 [R3 [R4 [R5 [R6 [R7 [R8 [R9 R10]]]]]]]]].
  cbn [step_ev] in H2. fields.
  assert (Eg' : get_loop q (set_loop q (LRejecting m) p (loops (release s))) = Some (mkLoop q (LRejecting m) p)).
  { assert (Hin : In q (map l_q (loops (release s)))).
    { rewrite R9. clear - Eg. induction (loops s) as [|x ls IH]; [discriminate|]. cbn [get_loop] in Eg. cbn [map].
      destruct (l_q x =? q) eqn:E; [left; apply Z.eqb_eq; exact E | right; apply IH; exact Eg]. }
    clear - Hin. induction (loops (release s)) as [|x ls IH]; [destruct Hin|]. cbn [set_loop].
    destruct (l_q x =? q) eqn:E; cbn [get_loop l_q]; [rewrite Z.eqb_refl; reflexivity|]. rewrite E. apply IH.
    destruct Hin as [H|H]; [apply Z.eqb_neq in E; congruence | exact H]. }
  rewrite Eg' in H2. inversion H2; subst; clear H2. fields. rewrite R7, R4, R3. auto.
Qed.

(* the loop before the fix: nothing stops it from spawning while earlier tasks run *)
Theorem started_le_M_before_fix_refuted :
  exists es s, run_ev_old (init 5 (Some 2) [1]) es = Some s /\ started s = 5.
Proof.
  exists [EvEnqueue 1 1; EvEnqueue 1 2; EvEnqueue 1 3; EvEnqueue 1 4; EvEnqueue 1 5;
          EvDeliver 1 1; EvAcquireFast 1; EvSpawn 1; EvDeliver 1 2; EvAcquireFast 1; EvSpawn 1;
          EvDeliver 1 3; EvAcquireFast 1; EvSpawn 1; EvDeliver 1 4; EvAcquireFast 1; EvSpawn 1;
          EvDeliver 1 5; EvAcquireFast 1; EvSpawn 1].
  eexists. split; [vm_compute; reflexivity | reflexivity].
Qed.

(* non-vacuity: M = 2 on two queues with a backlog of 5 and tasks_limit 1: two executions, stop set, the rest waits *)
Example limit_two :
  runner_obs (1, Some 2, [1; 2],
    [EvEnqueue 1 1; EvEnqueue 1 2; EvEnqueue 2 3; EvEnqueue 1 4; EvEnqueue 2 5;
     EvDeliver 1 1; EvAcquireFast 1; EvSpawn 1; EvDeliver 2 3; EvPause 2; EvDeliver 1 2; EvPause 1;
     EvTaskDone 1; EvUnpause 2; EvSpawn 2; EvTaskDone 3; EvUnpause 1; EvSurplus 1; EvRejected 1])
  = [1; 2; 2; 1; 1; 0; 3; 2; 4; 5].
Proof. vm_compute. reflexivity. Qed.

(* ---- waiting loops: no lost wake-up ---- *)
Lemma NoDup_app_one (l : list Z) x : NoDup l -> ~ In x l -> NoDup (l ++ [x]).
Proof.
  induction l as [|y l IH]; intros Hn Hx; cbn [app]; [constructor; [intros []|constructor]|].
  inversion Hn as [|z zs Hnot Hn']; subst. constructor.
  - rewrite in_app_iff. intros [H|[H|[]]]; [contradiction | subst; apply Hx; left; reflexivity].
  - apply IH; [exact Hn' | intros H; apply Hx; right; exact H].
Qed.

Definition is_waiting (ls : list loop) (q : Z) : Prop := exists m p, get_loop q ls = Some (mkLoop q (LWaiting m) p).

Record WInv (s : rstate) : Prop := {
  w_all : forall q, In q (waiters s) -> is_waiting (loops s) q;
  w_nodup : NoDup (waiters s);
  (* a loop queues up only while no slot is free - or behind a loop that has been handed a slot and has not resumed yet *)
  w_value : waiters s <> [] -> 0 < value s -> existsb is_granted (loops s) = true
}.

Lemma get_set_other q q' st p ls : q' <> q -> get_loop q' (set_loop q st p ls) = get_loop q' ls.
Proof.
  intros Hne. induction ls as [|x ls IH]; [reflexivity|]. cbn [set_loop get_loop].
  destruct (l_q x =? q) eqn:E1; cbn [get_loop l_q].
  - apply Z.eqb_eq in E1. destruct (l_q x =? q') eqn:E2; [apply Z.eqb_eq in E2; congruence|].
    assert (E3 : q =? q' = false) by (apply Z.eqb_neq; congruence). rewrite E3. reflexivity.
  - destruct (l_q x =? q'); [reflexivity | exact IH].
Qed.

Lemma get_set_same q st p ls l : get_loop q ls = Some l -> get_loop q (set_loop q st p ls) = Some (mkLoop q st p).
Proof.
  induction ls as [|x ls IH]; [discriminate|]. cbn [get_loop set_loop]. destruct (l_q x =? q) eqn:E; cbn [get_loop l_q].
  - rewrite Z.eqb_refl. reflexivity.
  - rewrite E. exact IH.
Qed.

Lemma waiting_set_other ls q q' st p : q' <> q -> is_waiting ls q' -> is_waiting (set_loop q st p ls) q'.
Proof. intros Hne [m [p' H]]. exists m, p'. rewrite get_set_other by exact Hne. exact H. Qed.

Lemma not_waiting_if q ls l : get_loop q ls = Some l -> (forall m, l_st l <> LWaiting m) -> ~ is_waiting ls q.
Proof. intros Hg Hn [m [p H]]. rewrite Hg in H. inversion H; subst. apply (Hn m). reflexivity. Qed.

Lemma granted_set_new q m p ls l : get_loop q ls = Some l -> existsb is_granted (set_loop q (LGranted m) p ls) = true.
Proof.
  revert l. induction ls as [|x ls IH]; intros l H; cbn [get_loop] in H; [discriminate|]. cbn [set_loop].
  destruct (l_q x =? q); cbn [existsb]; [reflexivity|]. rewrite (IH _ H). apply orb_true_r.
Qed.

Lemma granted_preserved q st p ls l :
  get_loop q ls = Some l -> is_granted l = false -> existsb is_granted ls = true -> existsb is_granted (set_loop q st p ls) = true.
Proof.
  revert l. induction ls as [|x ls IH]; intros l H Hl Hex; cbn [get_loop] in H; [discriminate|]. cbn [set_loop existsb] in *.
  destruct (l_q x =? q).
  - inversion H; subst. rewrite Hl in Hex. cbn [orb] in Hex. cbn [existsb]. rewrite Hex. apply orb_true_r.
  - cbn [existsb]. destruct (is_granted x); [reflexivity|]. cbn [orb] in *. eapply IH; eauto.
Qed.

(* a wake-up keeps the waiting list honest and leaves a granted loop behind whenever it leaves waiters behind *)
Lemma WInv_wake s : (forall q, In q (waiters s) -> is_waiting (loops s) q) -> NoDup (waiters s) -> WInv (wake_next s).
Proof.
  intros Ha Hn. unfold wake_next. destruct (waiters s) as [|q w] eqn:Ew.
  - constructor; rewrite ?Ew; [intros q [] | constructor | intros H; congruence].
  - destruct (Ha q (or_introl eq_refl)) as [m [p Hg]]. rewrite Hg. inversion Hn as [|x xs Hnot Hn']; subst.
    constructor; cbn [waiters loops value upd].
    + intros q' Hin. apply waiting_set_other; [intros ->; contradiction | apply Ha; right; exact Hin].
    + exact Hn'.
    + intros _ _. eapply granted_set_new. exact Hg.
Qed.

Lemma WInv_release s : (forall q, In q (waiters s) -> is_waiting (loops s) q) -> NoDup (waiters s) -> WInv (release s).
Proof. intros Ha Hn. unfold release. apply WInv_wake; cbn [waiters loops upd]; assumption. Qed.

Theorem WInv_step s e s' : WInv s -> step_ev s e = Some s' -> WInv s'.
Proof.
  intros W H. pose proof W as [Ha Hn Hv]. destruct e as [q m|q|q|q|q|q|q|m| |q|q m|q|q|q]; cbn [step_ev] in H.
  - destruct (get_loop q (loops s)) as [[q' st p]|] eqn:Eg; [|discriminate]. destruct st; try discriminate.
    destruct (take_msg q (backlog s)) as [[m' b']|]; [|discriminate]. destruct ((m' =? m) && negb p); [|discriminate].
    inversion H; subst; clear H. constructor; cbn [waiters loops value upd]; [|assumption|].
    + intros q0 Hin. apply waiting_set_other; [|apply Ha; exact Hin]. intros ->.
      apply (not_waiting_if _ _ _ Eg); [cbn; discriminate | apply Ha; exact Hin].
    + intros Hw Hp. eapply granted_preserved; [exact Eg | reflexivity | auto].
  - destruct (get_loop q (loops s)) as [[q' st p]|] eqn:Eg; [|discriminate]. destruct st; try discriminate.
    destruct (locked s) eqn:El; [discriminate|]. inversion H; subst; clear H.
    unfold locked in El. apply orb_false_iff in El. destruct El as [El _]. apply orb_false_iff in El. destruct El as [_ El].
    apply negb_false_iff in El. destruct (waiters s) eqn:Ew; [|discriminate].
    constructor; cbn [waiters loops value upd]; rewrite ?Ew; [intros q0 [] | constructor | intros Hc; congruence].
  - destruct (get_loop q (loops s)) as [[q' st p]|] eqn:Eg; [|discriminate]. destruct st; try discriminate.
    destruct (locked s) eqn:El; [|discriminate]. inversion H; subst; clear H.
    assert (Hq : ~ In q (waiters s)).
    { intros Hin. apply (not_waiting_if _ _ _ Eg); [cbn; discriminate | apply Ha; exact Hin]. }
    constructor; cbn [waiters loops value upd].
    + intros q0 Hin. apply in_app_iff in Hin. destruct Hin as [Hin|[<-|[]]].
      * apply waiting_set_other; [intros ->; contradiction | apply Ha; exact Hin].
      * exists m, true. eapply get_set_same. exact Eg.
    + apply NoDup_app_one; assumption.
    + intros _ Hp. eapply granted_preserved; [exact Eg | reflexivity |].
      unfold locked in El. apply orb_true_iff in El. destruct El as [El|El]; [|exact El].
      apply orb_true_iff in El. destruct El as [El|El]; [apply Z.leb_le in El; lia|].
      apply Hv; [|exact Hp]. destruct (waiters s); [discriminate El | discriminate].
  - destruct (get_loop q (loops s)) as [[q' st p]|] eqn:Eg; [|discriminate]. destruct st; try discriminate.
    set (s1 := upd s (value s) (waiters s) (set_loop q (LHold m) false (loops s)) (tasks s) (started s) (processed s) (stop s) (backlog s) (leaked s)) in *.
    assert (Ha1 : forall q0, In q0 (waiters s1) -> is_waiting (loops s1) q0).
    { subst s1. cbn [waiters loops upd]. intros q0 Hin. apply waiting_set_other; [|apply Ha; exact Hin]. intros ->.
      apply (not_waiting_if _ _ _ Eg); [cbn; discriminate | apply Ha; exact Hin]. }
    destruct (0 <? value s1) eqn:Ev; inversion H; subst; clear H.
    + apply WInv_wake; [exact Ha1 | exact Hn].
    + apply Z.ltb_ge in Ev. constructor; [exact Ha1 | exact Hn | intros _ Hp; subst s1; cbn [value upd] in *; lia].
  - destruct (get_loop q (loops s)) as [[q' st p]|] eqn:Eg; [|discriminate]. destruct st; try discriminate.
    destruct (limit_reached s); [discriminate|]. inversion H; subst; clear H.
    constructor; cbn [waiters loops value upd]; [|assumption|].
    + intros q0 Hin. apply waiting_set_other; [|apply Ha; exact Hin]. intros ->.
      apply (not_waiting_if _ _ _ Eg); [cbn; discriminate | apply Ha; exact Hin].
    + intros Hw Hp. eapply granted_preserved; [exact Eg | reflexivity | auto].
  - destruct (get_loop q (loops s)) as [[q' st p]|] eqn:Eg; [|discriminate]. destruct st; try discriminate.
    destruct (limit_reached s); [|discriminate]. inversion H; subst; clear H.
    pose proof (WInv_release s Ha Hn) as [Ha' Hn' Hv'].
    assert (Eg' : get_loop q (loops (release s)) = Some (mkLoop q' (LHold m) p)) by (apply release_keeps; [exact Eg | cbn; discriminate]).
    constructor; cbn [waiters loops value upd]; [|assumption|].
    + intros q0 Hin. destruct (Z.eq_dec q0 q) as [->|Hne]; [|apply waiting_set_other; [exact Hne | apply Ha'; exact Hin]].
      exfalso. apply (not_waiting_if _ _ _ Eg'); [cbn; discriminate | apply Ha'; exact Hin].
    + intros Hw Hp. eapply granted_preserved; [exact Eg' | reflexivity | auto].
  - destruct (get_loop q (loops s)) as [[q' st p]|] eqn:Eg; [|discriminate]. destruct st; try discriminate.
    inversion H; subst; clear H. constructor; cbn [waiters loops value upd]; [|assumption|].
    + intros q0 Hin. apply waiting_set_other; [|apply Ha; exact Hin]. intros ->.
      apply (not_waiting_if _ _ _ Eg); [cbn; discriminate | apply Ha; exact Hin].
    + intros Hw Hp. eapply granted_preserved; [exact Eg | reflexivity | auto].
  - destruct (remove_one m (tasks s)) as [ts|]; [|discriminate]. inversion H; subst; clear H.
    match goal with |- WInv (upd (upd (release ?s0) _ _ _ _ _ _ _ _ _) _ _ _ _ _ _ _ _ _) =>
      pose proof (WInv_release s0 Ha Hn) as [Ha' Hn' Hv'] end.
    constructor; cbn [waiters loops value upd]; assumption.
  - inversion H; subst; clear H. constructor; cbn [waiters loops value upd]; assumption.
  - destruct (negb (stop s)); [discriminate|].
    destruct (get_loop q (loops s)) as [[q' st p]|] eqn:Eg; [|discriminate].
    assert (Hother : forall st', (forall m, st <> LWaiting m) -> forall q0, In q0 (waiters s) -> is_waiting (set_loop q st' p (loops s)) q0).
    { intros st' Hst q0 Hin. apply waiting_set_other; [|apply Ha; exact Hin]. intros ->.
      apply (not_waiting_if _ _ _ Eg); [cbn; exact Hst | apply Ha; exact Hin]. }
    destruct st; try discriminate; inversion H; subst; clear H.
    + constructor; cbn [waiters loops value upd]; [apply Hother; discriminate | assumption |].
      intros Hw Hp. eapply granted_preserved; [exact Eg | reflexivity | auto].
    + constructor; cbn [waiters loops value upd]; [apply Hother; discriminate | assumption |].
      intros Hw Hp. eapply granted_preserved; [exact Eg | reflexivity | auto].
    + (* a waiting loop is cancelled: it leaves the queue of waiters *)
      constructor; cbn [waiters loops value upd].
      * intros q0 Hin. apply filter_In in Hin. destruct Hin as [Hin Hne]. apply negb_true_iff, Z.eqb_neq in Hne.
        apply waiting_set_other; [exact Hne | apply Ha; exact Hin].
      * apply NoDup_filter. exact Hn.
      * intros Hne Hp. eapply granted_preserved; [exact Eg | reflexivity |]. apply Hv; [|exact Hp].
        intros Hc. rewrite Hc in Hne. apply Hne. reflexivity.
    + apply WInv_release; cbn [waiters loops value upd]; [apply Hother; discriminate | assumption].
    + apply WInv_release; cbn [waiters loops value upd]; [apply Hother; discriminate | assumption].
    + exact W.
    + exact W.
  - inversion H; subst; clear H. constructor; cbn [waiters loops value upd]; assumption.
  - destruct (negb (stop s)); [discriminate|].
    destruct (get_loop q (loops s)) as [[q' st p]|] eqn:Eg; [|discriminate]. destruct st; try discriminate.
    inversion H; subst; clear H. constructor; cbn [waiters loops value upd]; [|assumption|].
    + intros q0 Hin. apply waiting_set_other; [|apply Ha; exact Hin]. intros ->.
      apply (not_waiting_if _ _ _ Eg); [cbn; discriminate | apply Ha; exact Hin].
    + intros Hw Hp. eapply granted_preserved; [exact Eg | reflexivity | auto].
  - destruct (get_loop q (loops s)) as [[q' st p]|] eqn:Eg; [|discriminate]. destruct st; try discriminate.
    destruct (locked s); [|discriminate].
    inversion H; subst; clear H. constructor; cbn [waiters loops value upd]; [|assumption|].
    + intros q0 Hin. apply waiting_set_other; [|apply Ha; exact Hin]. intros ->.
      apply (not_waiting_if _ _ _ Eg); [cbn; discriminate | apply Ha; exact Hin].
    + intros Hw Hp. eapply granted_preserved; [exact Eg | reflexivity | auto].
  - destruct (get_loop q (loops s)) as [[q' st p]|] eqn:Eg; [|discriminate]. destruct st; try discriminate.
    destruct p; [|discriminate].
    inversion H; subst; clear H. constructor; cbn [waiters loops value upd]; [|assumption|].
    + intros q0 Hin. apply waiting_set_other; [|apply Ha; exact Hin]. intros ->.
      apply (not_waiting_if _ _ _ Eg); [cbn; discriminate | apply Ha; exact Hin].
    + intros Hw Hp. eapply granted_preserved; [exact Eg | reflexivity | auto].
Qed.

Lemma WInv_init lim mx qs : WInv (init lim mx qs).
Proof. constructor; cbn; [intros q [] | constructor | intros H; congruence]. Qed.

Theorem WInv_run es : forall s s', WInv s -> run_ev s es = Some s' -> WInv s'.
Proof.
  induction es as [|e es IH]; intros s s' Hi H; cbn [run_ev] in H; [inversion H; subst; exact Hi|].
  destruct (step_ev s e) as [s1|] eqn:E; [|discriminate]. eapply IH; [eapply WInv_step; eauto | exact H].
Qed.

(* while a loop waits for a slot, either every slot is in use - some task (or a loop about to spawn) will release one, and a
   release hands the slot to the first waiting loop at once - or a loop that has been handed a slot has not resumed yet, and
   passes the spare slot on when it does (unpause_passes_spare_slot) *)
Theorem no_lost_wakeup lim mx qs es s : 0 < lim -> NoDup qs -> run_ev (init lim mx qs) es = Some s ->
  waiters s <> [] -> (value s = 0 /\ len (tasks s) + slots_held (loops s) = lim) \/ existsb is_granted (loops s) = true.
Proof.
  intros Hl Hq H Hw. destruct (limiter_inv lim mx qs es s ltac:(lia) Hq H) as [H1 H2].
  pose proof (WInv_run es _ _ (WInv_init lim mx qs) H) as [_ _ Hv]. specialize (Hv Hw).
  destruct (Z_lt_le_dec 0 (value s)) as [Hp|Hp]; [right; auto | left; split; lia].
Qed.

Theorem wake_grants_first_waiter s q w m p :
  waiters s = q :: w -> get_loop q (loops s) = Some (mkLoop q (LWaiting m) p) ->
  get_loop q (loops (wake_next s)) = Some (mkLoop q (LGranted m) p) /\ waiters (wake_next s) = w /\ value (wake_next s) = value s - 1.
Proof.
  intros Hw Hg. unfold wake_next. rewrite Hw, Hg. cbn [loops waiters value upd]. split; [|split; reflexivity].
  eapply get_set_same. exact Hg.
Qed.

Theorem release_wakes_first_waiter s q w m p :
  waiters s = q :: w -> get_loop q (loops s) = Some (mkLoop q (LWaiting m) p) ->
  get_loop q (loops (release s)) = Some (mkLoop q (LGranted m) p) /\ waiters (release s) = w /\ value (release s) = value s.
Proof.
  intros Hw Hg. unfold release.
  match goal with |- context [wake_next ?x] => destruct (wake_grants_first_waiter x q w m p Hw Hg) as (A & B & C) end.
  rewrite A, B, C. cbn [value upd]. repeat split. lia.
Qed.

(* the granted loop that resumes with a spare slot in the semaphore passes it to the first waiter *)
Theorem unpause_passes_spare_slot s q m p s' :
  get_loop q (loops s) = Some (mkLoop q (LGranted m) p) -> 0 < value s -> step_ev s (EvUnpause q) = Some s' ->
  s' = wake_next (upd s (value s) (waiters s) (set_loop q (LHold m) false (loops s)) (tasks s) (started s) (processed s) (stop s) (backlog s) (leaked s)).
Proof.
  intros Hg Hp H. cbn [step_ev] in H. rewrite Hg in H. cbn [value upd] in H.
  destruct (0 <? value s) eqn:E; [inversion H; reflexivity | apply Z.ltb_ge in E; lia].
Qed.

(* consumption pauses exactly when the limiter is locked, and the paused consumer is un-paused by the granted loop *)
Theorem pause_iff_locked s q m p : get_loop q (loops s) = Some (mkLoop q (LGot m) p) ->
  (step_ev s (EvPause q) <> None <-> locked s = true) /\ (step_ev s (EvAcquireFast q) <> None <-> locked s = false).
Proof.
  intros Hg. cbn [step_ev]. rewrite Hg. destruct (locked s); split; split; intros H; try discriminate; try reflexivity; try congruence.
Qed.

(* progress: in every state some step of a loop that has work is enabled, unless it waits for a slot *)
Theorem loop_not_stuck s q l : get_loop q (loops s) = Some l ->
  match l_st l with
  | LIdle => forall m b', take_msg q (backlog s) = Some (m, b') -> l_paused l = false -> step_ev s (EvDeliver q m) <> None
  | LGot _ => step_ev s (EvAcquireFast q) <> None \/ step_ev s (EvPause q) <> None
  | LWaiting _ => True
  | LGranted _ => step_ev s (EvUnpause q) <> None
  | LHold _ => step_ev s (EvSpawn q) <> None \/ step_ev s (EvSurplus q) <> None
  | LRejecting _ => step_ev s (EvRejected q) <> None
  | LDone => True
  end.
Proof.
  intros Hg. destruct l as [q' st p]. cbn [l_st l_paused]. destruct st; cbn [step_ev]; rewrite ?Hg; try exact I; try discriminate.
  - intros m b' Ht Hp. rewrite Ht, Z.eqb_refl, Hp. discriminate.
  - destruct (locked s); [right | left]; discriminate.
  - destruct (limit_reached s); [right | left]; discriminate.
Qed.

(* ---- a consumer whose pause() / unpause() are round trips (RabbitMQ's basic.qos) ---- *)

(* pause() on the wire changes nothing but the consumer's flag: whichever way the limiter is when it returns, the loop goes on -
   it queues up if the limiter is still locked, it takes the slot at once if one has freed meanwhile *)
Theorem pause_start_keeps_going s q m p s' :
  get_loop q (loops s) = Some (mkLoop q (LGot m) p) -> step_ev s (EvPauseStart q) = Some s' ->
  get_loop q (loops s') = Some (mkLoop q (LGot m) true) /\ value s' = value s /\ waiters s' = waiters s /\
  (forall s2, get_loop q (loops s2) = Some (mkLoop q (LGot m) true) ->
     step_ev s2 (EvAcquireFast q) <> None \/ step_ev s2 (EvPause q) <> None).
Proof.
  intros Hg H. cbn [step_ev] in H. rewrite Hg in H. destruct (locked s); [|discriminate]. inversion H; subst; clear H.
  cbn [loops value waiters upd]. split; [eapply get_set_same; exact Hg|]. split; [reflexivity|]. split; [reflexivity|].
  intros s2 Hg2. cbn [step_ev]. rewrite Hg2. destruct (locked s2); [right | left]; discriminate.
Qed.

(* the loop that took its slot without waiting holds it with the consumer still paused: the un-pause is enabled, and it is the
   only way back to consumption - a paused consumer is never delivered from (the seeded change C09c skips exactly this step) *)
Theorem unpause_hold_enabled s q m :
  get_loop q (loops s) = Some (mkLoop q (LHold m) true) ->
  exists s', step_ev s (EvUnpauseHold q) = Some s' /\ get_loop q (loops s') = Some (mkLoop q (LHold m) false) /\ value s' = value s.
Proof.
  intros Hg. cbn [step_ev]. rewrite Hg. eexists. split; [reflexivity|]. cbn [loops value upd]. split; [eapply get_set_same; exact Hg | reflexivity].
Qed.

Theorem paused_consumer_never_delivers s q st m :
  get_loop q (loops s) = Some (mkLoop q st true) -> step_ev s (EvDeliver q m) = None.
Proof.
  intros Hg. cbn [step_ev]. rewrite Hg. destruct st; try reflexivity.
  destruct (take_msg q (backlog s)) as [[m' b']|]; [|reflexivity]. cbn [negb]. rewrite andb_false_r. reflexivity.
Qed.

(* a slot that frees while pause() is on the wire is taken without waiting, the consumer is un-paused and the message runs *)
Example suspending_pause_example :
  exists s, run_ev (init 1 None [1])
              [EvEnqueue 1 10; EvEnqueue 1 11; EvDeliver 1 10; EvAcquireFast 1; EvSpawn 1; EvDeliver 1 11; EvPauseStart 1;
               EvTaskDone 10; EvAcquireFast 1; EvUnpauseHold 1; EvSpawn 1; EvTaskDone 11] = Some s
            /\ started s = 2 /\ processed s = 2 /\ value s = 1 /\ get_loop 1 (loops s) = Some (mkLoop 1 LIdle false).
Proof. eexists. split; [vm_compute; reflexivity|]. vm_compute. repeat split. Qed.

(* the stop condition of _task_callback before the fix recorded for C10 (`max_tasks_hit`) counts a slot handed to a loop as an
   execution under way: after M-1 executions have finished and the loop has been handed the slot for the M-th message it says
   "stop" - the loop is cancelled with that message in hand (it gives it back): M-1 executions.  Since the fix the stop waits
   for the M-th START *)
Theorem old_stop_condition_fires_early :
  exists es s, run_ev (init 1 (Some 2) [1]) es = Some s /\ started s = 1 /\ processed s = 1 /\
               get_loop 1 (loops s) = Some (mkLoop 1 (LGranted 2) true) /\ max_tasks_hit s = true /\ stop s = false.
Proof.
  exists [EvEnqueue 1 1; EvEnqueue 1 2; EvDeliver 1 1; EvAcquireFast 1; EvSpawn 1; EvDeliver 1 2; EvPause 1; EvTaskDone 1].
  eexists. split; [vm_compute; reflexivity|]. vm_compute. repeat split.
Qed.

(* ... and from there the M-th execution is started, after which the stop event is set *)
Theorem last_allowed_message_is_started :
  exists s, run_ev (init 1 (Some 2) [1])
              [EvEnqueue 1 1; EvEnqueue 1 2; EvDeliver 1 1; EvAcquireFast 1; EvSpawn 1; EvDeliver 1 2; EvPause 1; EvTaskDone 1;
               EvUnpause 1; EvSpawn 1; EvTaskDone 2] = Some s
            /\ started s = 2 /\ processed s = 2 /\ stop s = true.
Proof. eexists. split; [vm_compute; reflexivity|]. vm_compute. repeat split. Qed.
