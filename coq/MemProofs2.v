From Coq Require Import ZifyBool.
From Repid Require Import Base Sched MemBroker MemProofs.

(* the state a poll works on: after the optional delayed-update, with the clock advanced *)
Definition pre_poll (s : mstate) (q : Z) (now : time) (upd : bool) : mstate :=
  let s1 := if upd then update_delayed s q now else s in
  mkS (simple s1) (delayed s1) (dead s1) (processing s1) (gone s1) (stamp s1) (Z.max (clk s1) now).

Lemma poll_unfold s c q ct topics now upd :
  poll s c q ct topics now upd =
  let s1 := pre_poll s q now upd in
  match ct with
  | Normal =>
      match take_first (in_queue q) (simple s1) with
      | None => (s1, PNone)
      | Some (m, rest) =>
          let s2 := mkS rest (delayed s1) (dead s1) (processing s1) (gone s1) (stamp s1) (clk s1) in
          if msg_overdue m now then (mkS rest (delayed s1) (dead s1 ++ [m]) (processing s1) (gone s1) (stamp s1) (clk s1), PNone)
          else if negb (topic_ok topics m) then (mkS (rest ++ [m]) (delayed s1) (dead s1) (processing s1) (gone s1) (stamp s1) (clk s1), PNone)
          else (set_processing s2 (processing s2 ++ [mkHeld m ONormal c]), PDelivered m)
      end
  | DelayedC =>
      match min_key q (delayed s1) with
      | None => (s1, PNone)
      | Some k =>
          match d_pop q k (delayed s1) with
          | None => (s1, PNone)
          | Some (m, d') =>
              (mkS (simple s1) d' (dead s1) (processing s1 ++ [mkHeld m (ODelayed k) c]) (gone s1) (stamp s1) (clk s1), PDelivered m)
          end
      end
  | DeadC =>
      match take_first (in_queue q) (dead s1) with
      | None => (s1, PNone)
      | Some (m, rest) =>
          (mkS (simple s1) (delayed s1) rest (processing s1 ++ [mkHeld m ODead c]) (gone s1) (stamp s1) (clk s1), PDelivered m)
      end
  end.
Proof. reflexivity. Qed.

Lemma fold_append_processing l : forall x, processing (fold_left append_simple l x) = processing x.
Proof. induction l as [|m l IH]; intros x; simpl; [reflexivity|]. rewrite IH. reflexivity. Qed.
Lemma fold_append_dead l : forall x, dead (fold_left append_simple l x) = dead x.
Proof. induction l as [|m l IH]; intros x; simpl; [reflexivity|]. rewrite IH. reflexivity. Qed.

Lemma pre_poll_processing s q now upd : processing (pre_poll s q now upd) = processing s.
Proof.
  unfold pre_poll. destruct upd; [|reflexivity]. cbn [processing]. unfold update_delayed.
  destruct (due_split q now (delayed s)) as [mv keep]. rewrite fold_append_processing. reflexivity.
Qed.

Lemma pre_poll_dead s q now upd : dead (pre_poll s q now upd) = dead s.
Proof.
  unfold pre_poll. destruct upd; [|reflexivity]. cbn [dead]. unfold update_delayed.
  destruct (due_split q now (delayed s)) as [mv keep]. rewrite fold_append_dead. reflexivity.
Qed.

(* ================= C12 ================= *)
(* an expired message is never delivered through the normal category *)
Theorem no_expired_delivery s c q topics now upd s' m :
  poll s c q Normal topics now upd = (s', PDelivered m) -> msg_overdue m now = false.
Proof.
  rewrite poll_unfold. cbv zeta. destruct (take_first (in_queue q) (simple (pre_poll s q now upd))) as [[x rest]|]; [|discriminate].
  destruct (msg_overdue x now) eqn:E; [discriminate|]. destruct (negb (topic_ok topics x)); [discriminate|].
  intros H; inversion H; subst. exact E.
Qed.

(* it ends in the dead-letter list instead *)
Theorem expired_to_dead s c q topics now upd m rest :
  take_first (in_queue q) (simple (pre_poll s q now upd)) = Some (m, rest) -> msg_overdue m now = true ->
  let s1 := pre_poll s q now upd in
  poll s c q Normal topics now upd = (mkS rest (delayed s1) (dead s ++ [m]) (processing s1) (gone s1) (stamp s1) (clk s1), PNone).
Proof. intros E Ho. rewrite poll_unfold. cbv zeta. rewrite E, Ho. cbv beta iota. rewrite pre_poll_dead. reflexivity. Qed.

(* a poll never removes a message from the dead list except by delivering it to a DEAD-category consumer *)
Theorem dead_only_grows_unless_dead_consumer s c q ct topics now upd :
  ct <> DeadC ->
  let s' := fst (poll s c q ct topics now upd) in
  dead s' = dead s \/ (exists m, dead s' = dead s ++ [m] /\ msg_overdue m now = true /\ ct = Normal).
Proof.
  intros Hne. rewrite poll_unfold. cbv zeta. pose proof (pre_poll_dead s q now upd) as Hd. destruct ct; [| |contradiction].
  - destruct (take_first (in_queue q) (simple (pre_poll s q now upd))) as [[x rest]|].
    + destruct (msg_overdue x now) eqn:E.
      * right. exists x. cbn [fst dead]. rewrite Hd. auto.
      * left. destruct (negb (topic_ok topics x)); cbn [fst dead set_processing]; rewrite Hd; auto.
    + left. cbn [fst]. exact Hd.
  - left. destruct (min_key q _); [destruct (d_pop q _ _) as [[x d']|]|]; cbn [fst dead]; exact Hd.
Qed.

(* dead-lettered messages stay retrievable: a DEAD-category poll returns the first one of the queue *)
Theorem dead_retrievable s c q topics now upd m rest :
  take_first (in_queue q) (dead s) = Some (m, rest) ->
  snd (poll s c q DeadC topics now upd) = PDelivered m.
Proof. intros E. rewrite poll_unfold. cbv zeta. rewrite pre_poll_dead, E. cbv beta iota. reflexivity. Qed.

(* ================= C11 ================= *)
(* whatever is delivered through the normal category matches the consumer's queue and topic filter *)
Theorem delivered_matches s c q topics now upd s' m :
  poll s c q Normal topics now upd = (s', PDelivered m) -> in_queue q m = true /\ topic_ok topics m = true.
Proof.
  rewrite poll_unfold. cbv zeta. destruct (take_first (in_queue q) (simple (pre_poll s q now upd))) as [[x rest]|] eqn:E; [|discriminate].
  destruct (msg_overdue x now); [discriminate|]. destruct (topic_ok topics x) eqn:Et; [|discriminate].
  intros H; inversion H; subst. split; [exact (take_first_sat _ _ _ _ E) | exact Et].
Qed.

(* a foreign, non-expired message is only rotated: same record (payload, parameters), still waiting, nothing dead-lettered *)
Theorem foreign_untouched s c q topics now upd m rest :
  take_first (in_queue q) (simple (pre_poll s q now upd)) = Some (m, rest) ->
  msg_overdue m now = false -> topic_ok topics m = false ->
  let s1 := pre_poll s q now upd in
  poll s c q Normal topics now upd = (mkS (rest ++ [m]) (delayed s1) (dead s) (processing s) (gone s1) (stamp s1) (clk s1), PNone).
Proof.
  intros E Ho Ht. rewrite poll_unfold. cbv zeta. rewrite E, Ho, Ht. cbn [negb]. cbv beta iota. rewrite pre_poll_dead, pre_poll_processing. reflexivity.
Qed.

(* messages of other queues are not even looked at *)
Lemma take_first_other_queue q l m rest :
  take_first (in_queue q) l = Some (m, rest) -> forall q', q' <> q -> filter (in_queue q') rest = filter (in_queue q') l.
Proof.
  revert m rest. induction l as [|x l IH]; simpl; intros m rest H q' Hne; [discriminate|].
  destruct (in_queue q x) eqn:E.
  - inversion H; subst. unfold in_queue in *. destruct (m_queue m =? q') eqn:E2; [lia|reflexivity].
  - destruct (take_first (in_queue q) l) as [[y r']|]; [|discriminate]. inversion H; subst. simpl.
    rewrite (IH _ _ eq_refl q' Hne). reflexivity.
Qed.

(* ================= C14 ================= *)
(* a delivery marks the message as held by exactly the polling consumer *)
Theorem delivery_marks_holder s c q ct topics now upd s' m :
  poll s c q ct topics now upd = (s', PDelivered m) ->
  exists o, processing s' = processing s ++ [mkHeld m o c].
Proof.
  rewrite poll_unfold. cbv zeta. pose proof (pre_poll_processing s q now upd) as Hp. destruct ct.
  - destruct (take_first (in_queue q) (simple (pre_poll s q now upd))) as [[x rest]|]; [|discriminate].
    destruct (msg_overdue x now); [discriminate|]. destruct (negb (topic_ok topics x)); [discriminate|].
    intros H. injection H as Hs Hm. subst s' x. exists ONormal. unfold set_processing, pre_poll in *. cbn [processing] in *. rewrite Hp. reflexivity.
  - destruct (min_key q _) as [k|]; [|discriminate]. destruct (d_pop q k _) as [[x d']|]; [|discriminate].
    intros H. injection H as Hs Hm. subst s' x. exists (ODelayed k). unfold pre_poll in *. cbn [processing] in *. rewrite Hp. reflexivity.
  - destruct (take_first (in_queue q) (dead _)) as [[x rest]|]; [|discriminate].
    intros H. injection H as Hs Hm. subst s' x. exists ODead. unfold pre_poll in *. cbn [processing] in *. rewrite Hp. reflexivity.
Qed.

(* exclusivity: in a partitioned state a message that is delivered was held by nobody, and is now held once *)
Theorem exclusive_delivery s c q ct topics now upd s' m :
  Partition s -> poll s c q ct topics now upd = (s', PDelivered m) ->
  cntP (m_id m) (processing s) = 0 /\ cntP (m_id m) (processing s') = 1.
Proof.
  intros HP H. destruct (delivery_marks_holder _ _ _ _ _ _ _ _ _ H) as (o & Hp).
  pose proof (live_poll (m_id m) s c q ct topics now upd) as Hl. rewrite H in Hl. cbn [fst] in Hl.
  assert (HP' : 0 <= live (m_id m) s' <= 1) by (rewrite Hl; apply HP).
  rewrite Hp, cntP_app, cntP_cons, cntP_nil. cbn [hd_msg]. unfold is_id. rewrite Z.eqb_refl. cbn [ind].
  pose proof (cnt_nonneg (m_id m) (map hd_msg (processing s))) as Hn. fold (cntP (m_id m) (processing s)) in Hn.
  unfold live in HP'. rewrite Hp, cntP_app, cntP_cons, cntP_nil in HP'. cbn [hd_msg] in HP'. unfold is_id in HP'.
  rewrite Z.eqb_refl in HP'. cbn [ind] in HP'.
  pose proof (cnt_nonneg (m_id m) (simple s')). pose proof (cnt_nonneg (m_id m) (dead s')).
  pose proof (cnt_nonneg (m_id m) (flat_map de_msgs (delayed s'))) as Hd. fold (cntD (m_id m) (delayed s')) in Hd. lia.
Qed.

(* consequently: while a message is held it cannot be delivered again (only a return frees it) *)
Corollary held_not_redelivered s c q ct topics now upd s' m i :
  Partition s -> 0 < cntP i (processing s) -> poll s c q ct topics now upd = (s', PDelivered m) -> m_id m <> i.
Proof.
  intros HP Hh H Heq. subst. destruct (exclusive_delivery _ _ _ _ _ _ _ _ _ HP H) as [H0 _]. lia.
Qed.

(* finish() of one consumer leaves the messages held by the others where they are *)
Lemma take_first_keeps {A} (P : A -> bool) l x r y :
  take_first P l = Some (x, r) -> In y l -> P y = false -> In y r.
Proof.
  revert x r. induction l as [|z l IH]; simpl; intros x r H Hin Hp; [contradiction|].
  destruct (P z) eqn:E.
  - inversion H; subst. destruct Hin as [->|Hin]; [congruence|exact Hin].
  - destruct (take_first P l) as [[w r']|]; [|discriminate]. inversion H; subst.
    destruct Hin as [->|Hin]; [left; reflexivity | right; eapply IH; eauto].
Qed.

Lemma put_back_processing s h : processing (put_back s h) = processing s.
Proof. unfold put_back. destruct (hd_origin h); reflexivity. Qed.

Theorem finish_keeps_others c q order : forall s h,
  In h (processing s) -> owned_by c q h = false -> In h (processing (finish_order s c q order)).
Proof.
  induction order as [|i r IH]; intros s h Hin Ho; simpl; [exact Hin|].
  destruct (take_first _ (processing s)) as [[x p']|] eqn:E; [|apply IH; assumption].
  apply IH; [|exact Ho]. rewrite put_back_processing. cbn [set_processing processing].
  eapply take_first_keeps; [exact E | exact Hin | cbv beta; rewrite Ho; reflexivity].
Qed.

(* ... and returns everything this consumer holds *)
Lemma take_first_rest_subset {A} (P : A -> bool) l x r y : take_first P l = Some (x, r) -> In y r -> In y l.
Proof.
  revert x r. induction l as [|z l IH]; simpl; intros x r H Hin; [discriminate|].
  destruct (P z).
  - inversion H; subst. right. exact Hin.
  - destruct (take_first P l) as [[w r']|]; [|discriminate]. inversion H; subst.
    destruct Hin as [->|Hin]; [left; reflexivity | right; eapply IH; eauto].
Qed.

Lemma finish_order_subset c q order : forall s h, In h (processing (finish_order s c q order)) -> In h (processing s).
Proof.
  induction order as [|i r IH]; intros s h Hin; simpl in Hin; [exact Hin|].
  destruct (take_first _ (processing s)) as [[x p']|] eqn:E; [|apply IH; exact Hin].
  apply IH in Hin. rewrite put_back_processing in Hin. cbn [set_processing processing] in Hin.
  eapply take_first_rest_subset; eauto.
Qed.
