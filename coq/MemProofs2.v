From Coq Require Import ZifyBool.
From Repid Require Import Base Sched MemBroker MemProofs.

(* the state a poll works on: after the optional delayed-update, with the clock advanced *)
Definition pre_poll (s : mstate) (q : Z) (now : time) (upd : bool) : mstate :=
  let s1 := if upd then update_delayed s q now else s in
  mkS (simple s1) (delayed s1) (dead s1) (processing s1) (gone s1) (stamp s1) (Z.max (clk s1) now).

Lemma poll_unfold s c q ct topics now upd :
  poll s c q ct topics now upd =
  let s1 := pre_poll s q now upd in
  match ct with
  | Normal =>
      let '(d, f, k) := scan q topics now (simple s1) in
      match f with
      | None => (mkS k (delayed s1) (dead s1 ++ d) (processing s1) (gone s1) (stamp s1) (clk s1), PNone)
      | Some m => (mkS k (delayed s1) (dead s1 ++ d) (processing s1 ++ [mkHeld m ONormal c]) (gone s1) (stamp s1) (clk s1), PDelivered m)
      end
  | DelayedC =>
      match min_key q (delayed s1) with
      | None => (s1, PNone)
      | Some k =>
          match d_pop q k (delayed s1) with
          | None => (s1, PNone)
          | Some (m, d') =>
              (mkS (simple s1) d' (dead s1) (processing s1 ++ [mkHeld m (ODelayed k) c]) (gone s1) (stamp s1) (clk s1), PDelivered m)
          end
      end
  | DeadC =>
      match take_first (in_queue q) (dead s1) with
      | None => (s1, PNone)
      | Some (m, rest) =>
          (mkS (simple s1) (delayed s1) rest (processing s1 ++ [mkHeld m ODead c]) (gone s1) (stamp s1) (clk s1), PDelivered m)
      end
  end.
Proof. reflexivity. Qed.

(* ---- the full turn of the waiting list ---- *)
(* what it finds is the FIRST hit of the list *)
Lemma scan_find q topics now l : snd (fst (scan q topics now l)) = find (hit q topics now) l.
Proof.
  induction l as [|m r IH]; cbn [scan find]; [reflexivity|]. unfold hit at 1.
  destruct (scan q topics now r) as [[d f] k]. cbn [fst snd] in IH.
  destruct (in_queue q m); [destruct (msg_overdue m now); [|destruct (topic_ok topics m)]|]; cbn [andb negb fst snd]; auto.
Qed.

Lemma scan_found q topics now l d m k :
  scan q topics now l = (d, Some m, k) -> hit q topics now m = true /\ In m l.
Proof.
  intros H. pose proof (scan_find q topics now l) as Hf. rewrite H in Hf. cbn [fst snd] in Hf. symmetry in Hf.
  apply find_some in Hf. tauto.
Qed.

Lemma hit_parts q topics now m : hit q topics now m = true -> in_queue q m = true /\ msg_overdue m now = false /\ topic_ok topics m = true.
Proof. unfold hit. destruct (in_queue q m), (msg_overdue m now), (topic_ok topics m); cbn; intros; try discriminate; auto. Qed.

(* what it dead-letters: expired messages of its queue, nothing else *)
Lemma scan_dead q topics now l : Forall (fun m => in_queue q m = true /\ msg_overdue m now = true) (fst (fst (scan q topics now l))).
Proof.
  induction l as [|m r IH]; cbn [scan]; [constructor|].
  destruct (scan q topics now r) as [[d f] k]. cbn [fst] in IH.
  destruct (in_queue q m) eqn:Eq; [destruct (msg_overdue m now) eqn:Eo; [|destruct (topic_ok topics m)]|]; cbn [fst]; auto.
Qed.

(* messages it is not concerned with (other queues; live messages of topics it does not serve) stay, the same records in the
   same order: for any class P of messages none of which is expired-in-q or a hit *)
Lemma scan_stable (P : msg -> bool) q topics now l :
  (forall m, P m = true -> in_queue q m = true -> msg_overdue m now = false /\ topic_ok topics m = false) ->
  filter P (snd (scan q topics now l)) = filter P l.
Proof.
  intros HP. induction l as [|m r IH]; cbn [scan]; [reflexivity|].
  destruct (scan q topics now r) as [[d f] k]. cbn [snd] in IH.
  destruct (in_queue q m) eqn:Eq; [destruct (msg_overdue m now) eqn:Eo; [|destruct (topic_ok topics m) eqn:Et]|];
    cbn [snd filter]; rewrite ?IH; try reflexivity.
  - destruct (P m) eqn:Ep; [|reflexivity]. destruct (HP m Ep Eq). congruence.
  - destruct (P m) eqn:Ep; [|reflexivity]. destruct (HP m Ep Eq). congruence.
Qed.

(* the remaining list is a sub-list of the old one *)
Lemma scan_rest_subset q topics now l x : In x (snd (scan q topics now l)) -> In x l.
Proof.
  revert x. induction l as [|m r IH]; cbn [scan]; intros x; [auto|].
  destruct (scan q topics now r) as [[d f] k]. cbn [snd] in IH.
  destruct (in_queue q m); [destruct (msg_overdue m now); [|destruct (topic_ok topics m)]|]; cbn [snd]; intros Hin.
  - right. auto.
  - right. exact Hin.
  - destruct Hin as [->|Hin]; [left; reflexivity | right; auto].
  - destruct Hin as [->|Hin]; [left; reflexivity | right; auto].
Qed.

Lemma scan_Forall (Q : msg -> Prop) q topics now l d f k :
  scan q topics now l = (d, f, k) -> Forall Q l ->
  Forall Q d /\ Forall Q k /\ match f with Some m => Q m | None => True end.
Proof.
  revert d f k. induction l as [|m r IH]; cbn [scan]; intros d f k H HF.
  - inversion H; subst. auto.
  - inversion HF as [|? ? Hm Hr]; subst. destruct (scan q topics now r) as [[d0 f0] k0].
    destruct (IH _ _ _ eq_refl Hr) as (A & B & C).
    destruct (in_queue q m); [destruct (msg_overdue m now); [|destruct (topic_ok topics m)]|]; inversion H; subst; auto.
Qed.

Lemma fold_append_processing l : forall x, processing (fold_left append_simple l x) = processing x.
Proof. induction l as [|m l IH]; intros x; simpl; [reflexivity|]. rewrite IH. reflexivity. Qed.
Lemma fold_append_dead l : forall x, dead (fold_left append_simple l x) = dead x.
Proof. induction l as [|m l IH]; intros x; simpl; [reflexivity|]. rewrite IH. reflexivity. Qed.

Lemma pre_poll_processing s q now upd : processing (pre_poll s q now upd) = processing s.
Proof.
  unfold pre_poll. destruct upd; [|reflexivity]. cbn [processing]. unfold update_delayed.
  destruct (due_split q now (delayed s)) as [mv keep]. rewrite fold_append_processing. reflexivity.
Qed.

Lemma pre_poll_dead s q now upd : dead (pre_poll s q now upd) = dead s.
Proof.
  unfold pre_poll. destruct upd; [|reflexivity]. cbn [dead]. unfold update_delayed.
  destruct (due_split q now (delayed s)) as [mv keep]. rewrite fold_append_dead. reflexivity.
Qed.

(* ================= C12 ================= *)
(* an expired message is never delivered through the normal category *)
Theorem no_expired_delivery s c q topics now upd s' m :
  poll s c q Normal topics now upd = (s', PDelivered m) -> msg_overdue m now = false.
Proof.
  rewrite poll_unfold. cbv zeta. destruct (scan q topics now (simple (pre_poll s q now upd))) as [[d f] k] eqn:E.
  destruct f as [x|]; [|discriminate]. intros H; inversion H; subst.
  destruct (scan_found _ _ _ _ _ _ _ E) as [Hh _]. apply hit_parts in Hh. tauto.
Qed.

(* the first waiting message of the queue, when it has expired, ends in the dead-letter list instead (and so does every
   expired message the turn passes before it finds something to deliver) *)
Lemma scan_head_expired q topics now l m rest :
  take_first (in_queue q) l = Some (m, rest) -> msg_overdue m now = true -> In m (fst (fst (scan q topics now l))).
Proof.
  revert m rest. induction l as [|x r IH]; cbn [take_first scan]; intros m rest H Ho; [discriminate|].
  destruct (scan q topics now r) as [[d f] k] eqn:E. cbn [fst] in IH.
  destruct (in_queue q x) eqn:Eq.
  - inversion H; subst. rewrite Ho. cbn [fst]. left. reflexivity.
  - destruct (take_first (in_queue q) r) as [[y r']|]; [|discriminate]. inversion H; subst. cbn [fst]. eapply IH; eauto.
Qed.

Theorem expired_to_dead s c q topics now upd m rest :
  take_first (in_queue q) (simple (pre_poll s q now upd)) = Some (m, rest) -> msg_overdue m now = true ->
  let s' := fst (poll s c q Normal topics now upd) in
  In m (dead s') /\ ~ In m (map hd_msg (skipn (length (processing s)) (processing s'))).
Proof.
  intros E Ho. rewrite poll_unfold. cbv zeta.
  pose proof (scan_head_expired q topics now _ _ _ E Ho) as Hin.
  pose proof (pre_poll_processing s q now upd) as Hp.
  destruct (scan q topics now (simple (pre_poll s q now upd))) as [[d f] k] eqn:Es. cbn [fst] in Hin.
  destruct f as [x|]; cbn [fst dead processing]; (split; [apply in_or_app; right; exact Hin|]); rewrite Hp.
  - rewrite skipn_app, skipn_all, Nat.sub_diag. cbn. intros [Hx|[]]. subst x.
    destruct (scan_found _ _ _ _ _ _ _ Es) as [Hh _]. apply hit_parts in Hh. destruct Hh as (_ & Hh & _). congruence.
  - rewrite skipn_all. cbn. auto.
Qed.

(* a poll never removes a message from the dead list except by delivering it to a DEAD-category consumer, and what a
   normal poll adds to it are expired messages only *)
Theorem dead_only_grows_unless_dead_consumer s c q ct topics now upd :
  ct <> DeadC ->
  let s' := fst (poll s c q ct topics now upd) in
  exists d, dead s' = dead s ++ d /\ Forall (fun m => msg_overdue m now = true) d /\ (ct <> Normal -> d = []).
Proof.
  intros Hne. rewrite poll_unfold. cbv zeta. pose proof (pre_poll_dead s q now upd) as Hd. destruct ct; [| |contradiction].
  - pose proof (scan_dead q topics now (simple (pre_poll s q now upd))) as Hsd.
    destruct (scan q topics now (simple (pre_poll s q now upd))) as [[d f] k]. cbn [fst] in Hsd.
    exists d. destruct f; cbn [fst dead]; rewrite Hd; (split; [reflexivity|]);
      (split; [eapply Forall_impl; [|exact Hsd]; cbv beta; tauto | congruence]).
  - exists []. rewrite app_nil_r.
    destruct (min_key q _); [destruct (d_pop q _ _) as [[x d']|]|]; cbn [fst dead]; auto.
Qed.

(* dead-lettered messages stay retrievable: a DEAD-category poll returns the first one of the queue *)
Theorem dead_retrievable s c q topics now upd m rest :
  take_first (in_queue q) (dead s) = Some (m, rest) ->
  snd (poll s c q DeadC topics now upd) = PDelivered m.
Proof. intros E. rewrite poll_unfold. cbv zeta. rewrite pre_poll_dead, E. cbv beta iota. reflexivity. Qed.

(* ================= C11 ================= *)
(* whatever is delivered through the normal category matches the consumer's queue and topic filter *)
Theorem delivered_matches s c q topics now upd s' m :
  poll s c q Normal topics now upd = (s', PDelivered m) -> in_queue q m = true /\ topic_ok topics m = true.
Proof.
  rewrite poll_unfold. cbv zeta. destruct (scan q topics now (simple (pre_poll s q now upd))) as [[d f] k] eqn:E.
  destruct f as [x|]; [|discriminate]. intros H; inversion H; subst.
  destruct (scan_found _ _ _ _ _ _ _ E) as [Hh _]. apply hit_parts in Hh. tauto.
Qed.

(* live messages of topics the consumer does not serve are untouched by its poll: the same records (payload, parameters),
   in the same order, still waiting - whatever else the poll did *)
Definition foreign (q : Z) (topics : list Z) (now : time) (m : msg) : bool :=
  in_queue q m && negb (msg_overdue m now) && negb (topic_ok topics m).

Theorem foreign_untouched s c q topics now upd :
  filter (foreign q topics now) (simple (fst (poll s c q Normal topics now upd))) =
  filter (foreign q topics now) (simple (pre_poll s q now upd)).
Proof.
  rewrite poll_unfold. cbv zeta.
  pose proof (scan_stable (foreign q topics now) q topics now (simple (pre_poll s q now upd))) as H.
  destruct (scan q topics now (simple (pre_poll s q now upd))) as [[d f] k]. cbn [snd] in H.
  destruct f as [x|]; cbn [fst simple]; apply H; unfold foreign; intros m Hm _;
    destruct (in_queue q m), (msg_overdue m now), (topic_ok topics m); cbn in Hm; try discriminate; auto.
Qed.

(* ... and they do not block it (the clause the lock-step finding violated before the fix): whenever a live message of its
   queue and topics is waiting ANYWHERE in the list, the poll delivers - the first such message *)
Theorem foreign_never_blocks s c q topics now upd :
  snd (poll s c q Normal topics now upd) =
  match find (hit q topics now) (simple (pre_poll s q now upd)) with Some m => PDelivered m | None => PNone end.
Proof.
  rewrite poll_unfold. cbv zeta. pose proof (scan_find q topics now (simple (pre_poll s q now upd))) as H.
  destruct (scan q topics now (simple (pre_poll s q now upd))) as [[d f] k]. cbn [fst snd] in H. rewrite <- H.
  destruct f; reflexivity.
Qed.

(* messages of other queues are not even looked at *)
Theorem other_queues_untouched s c q topics now upd q' : q' <> q ->
  filter (in_queue q') (simple (fst (poll s c q Normal topics now upd))) = filter (in_queue q') (simple (pre_poll s q now upd)).
Proof.
  intros Hne. rewrite poll_unfold. cbv zeta.
  pose proof (scan_stable (in_queue q') q topics now (simple (pre_poll s q now upd))) as H.
  destruct (scan q topics now (simple (pre_poll s q now upd))) as [[d f] k]. cbn [snd] in H.
  destruct f as [x|]; cbn [fst simple]; apply H; unfold in_queue; intros m H1 H2; lia.
Qed.

(* ================= C14 ================= *)
(* a delivery marks the message as held by exactly the polling consumer *)
Theorem delivery_marks_holder s c q ct topics now upd s' m :
  poll s c q ct topics now upd = (s', PDelivered m) ->
  exists o, processing s' = processing s ++ [mkHeld m o c].
Proof.
  rewrite poll_unfold. cbv zeta. pose proof (pre_poll_processing s q now upd) as Hp. destruct ct.
  - destruct (scan q topics now (simple (pre_poll s q now upd))) as [[d f] k]. destruct f as [x|]; [|discriminate].
    intros H. injection H as Hs Hm. subst s' x. exists ONormal. unfold pre_poll in Hp. cbn [processing] in *. rewrite Hp. reflexivity.
  - destruct (min_key q _) as [k|]; [|discriminate]. destruct (d_pop q k _) as [[x d']|]; [|discriminate].
    intros H. injection H as Hs Hm. subst s' x. exists (ODelayed k). unfold pre_poll in *. cbn [processing] in *. rewrite Hp. reflexivity.
  - destruct (take_first (in_queue q) (dead _)) as [[x rest]|]; [|discriminate].
    intros H. injection H as Hs Hm. subst s' x. exists ODead. unfold pre_poll in *. cbn [processing] in *. rewrite Hp. reflexivity.
Qed.

(* exclusivity: in a partitioned state a message that is delivered was held by nobody, and is now held once *)
Theorem exclusive_delivery s c q ct topics now upd s' m :
  Partition s -> poll s c q ct topics now upd = (s', PDelivered m) ->
  cntP (m_id m) (processing s) = 0 /\ cntP (m_id m) (processing s') = 1.
Proof.
  intros HP H. destruct (delivery_marks_holder _ _ _ _ _ _ _ _ _ H) as (o & Hp).
  pose proof (live_poll (m_id m) s c q ct topics now upd) as Hl. rewrite H in Hl. cbn [fst] in Hl.
  assert (HP' : 0 <= live (m_id m) s' <= 1) by (rewrite Hl; apply HP).
  rewrite Hp, cntP_app, cntP_cons, cntP_nil. cbn [hd_msg]. unfold is_id. rewrite Z.eqb_refl. cbn [ind].
  pose proof (cnt_nonneg (m_id m) (map hd_msg (processing s))) as Hn. fold (cntP (m_id m) (processing s)) in Hn.
  unfold live in HP'. rewrite Hp, cntP_app, cntP_cons, cntP_nil in HP'. cbn [hd_msg] in HP'. unfold is_id in HP'.
  rewrite Z.eqb_refl in HP'. cbn [ind] in HP'.
  pose proof (cnt_nonneg (m_id m) (simple s')). pose proof (cnt_nonneg (m_id m) (dead s')).
  pose proof (cnt_nonneg (m_id m) (flat_map de_msgs (delayed s'))) as Hd. fold (cntD (m_id m) (delayed s')) in Hd. lia.
Qed.

(* consequently: while a message is held it cannot be delivered again (only a return frees it) *)
Corollary held_not_redelivered s c q ct topics now upd s' m i :
  Partition s -> 0 < cntP i (processing s) -> poll s c q ct topics now upd = (s', PDelivered m) -> m_id m <> i.
Proof.
  intros HP Hh H Heq. subst. destruct (exclusive_delivery _ _ _ _ _ _ _ _ _ HP H) as [H0 _]. lia.
Qed.

(* finish() of one consumer leaves the messages held by the others where they are *)
Lemma take_first_keeps {A} (P : A -> bool) l x r y :
  take_first P l = Some (x, r) -> In y l -> P y = false -> In y r.
Proof.
  revert x r. induction l as [|z l IH]; simpl; intros x r H Hin Hp; [contradiction|].
  destruct (P z) eqn:E.
  - inversion H; subst. destruct Hin as [->|Hin]; [congruence|exact Hin].
  - destruct (take_first P l) as [[w r']|]; [|discriminate]. inversion H; subst.
    destruct Hin as [->|Hin]; [left; reflexivity | right; eapply IH; eauto].
Qed.

Lemma put_back_processing s h : processing (put_back s h) = processing s.
Proof. unfold put_back. destruct (hd_origin h); reflexivity. Qed.

Theorem finish_keeps_others c q order : forall s h,
  In h (processing s) -> owned_by c q h = false -> In h (processing (finish_order s c q order)).
Proof.
  induction order as [|i r IH]; intros s h Hin Ho; simpl; [exact Hin|].
  destruct (take_first _ (processing s)) as [[x p']|] eqn:E; [|apply IH; assumption].
  apply IH; [|exact Ho]. rewrite put_back_processing. cbn [set_processing processing].
  eapply take_first_keeps; [exact E | exact Hin | cbv beta; rewrite Ho; reflexivity].
Qed.

(* ... and returns everything this consumer holds *)
Lemma take_first_rest_subset {A} (P : A -> bool) l x r y : take_first P l = Some (x, r) -> In y r -> In y l.
Proof.
  revert x r. induction l as [|z l IH]; simpl; intros x r H Hin; [discriminate|].
  destruct (P z).
  - inversion H; subst. right. exact Hin.
  - destruct (take_first P l) as [[w r']|]; [|discriminate]. inversion H; subst.
    destruct Hin as [->|Hin]; [left; reflexivity | right; eapply IH; eauto].
Qed.

Lemma finish_order_subset c q order : forall s h, In h (processing (finish_order s c q order)) -> In h (processing s).
Proof.
  induction order as [|i r IH]; intros s h Hin; simpl in Hin; [exact Hin|].
  destruct (take_first _ (processing s)) as [[x p']|] eqn:E; [|apply IH; exact Hin].
  apply IH in Hin. rewrite put_back_processing in Hin. cbn [set_processing processing] in Hin.
  eapply take_first_rest_subset; eauto.
Qed.
