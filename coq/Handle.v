(* Handle.v — the message handle state machine.
   Mirrors repid/message.py:58-132 (Message: guards first, broker call, read-only flag set only after
   the broker call returned) and repid/dependencies/message_dependency.py:70-202 (MessageDependency:
   add_callback / set_result / set_exception with the lazily positioned store callback, and the six
   eager actions = Message action; run callbacks; raise _NoAction).

   Unknown code is an input of the model: whether the broker call of an API call fails (bfail),
   whether a user callback raises, whether the result store raises. *)
From Repid Require Import Base Sched.

(* broker-level calls *)
Inductive bcall := BAck | BNack | BReject | BRequeue (p : params).

Definition terminal_call (c : bcall) : bool := true.

(* message-API calls; the option is the next_retry argument *)
Inductive hcall :=
| HAck | HNack | HReject | HReschedule
| HRetry (d : option dur) | HForceRetry (d : option dur)
| HSetResult (v : Z) | HSetException (e : Z)
| HAddCallback (id : Z) (fails : bool).

(* callbacks held by a MessageDependency *)
Inductive cb :=
| CbUser (id : Z) (fails : bool)
| CbStore (success : bool) (data : Z) (exc : option Z).

Record hstate := mkH {
  h_dep : bool;                 (* MessageDependency (inside an actor) or plain Message (queue iteration) *)
  h_ro : bool;                  (* read-only flag *)
  h_cat : cat;                  (* category the message was taken from *)
  h_p : params;
  h_rbb : bool;                 (* a results bucket broker is configured *)
  h_cbs : list cb;
  h_lazy : option (nat * cb);   (* position and store callback remembered by the latest set_* call *)
  h_res : option (bool * option Z * option Z)   (* success, data, exception remembered by set_* *)
}.

Definition h_init (dep : bool) (c : cat) (p : params) (rbb : bool) : hstate :=
  mkH dep false c p rbb [] None None.

(* observable events *)
Inductive ev :=
| EBroker (c : bcall)                 (* broker call made and returned *)
| EBrokerFail (c : bcall)             (* broker call made and raised *)
| ERefused                            (* the API call raised ValueError, nothing touched *)
| ECallback (id : Z) (ok : bool)      (* user callback executed (ok = did not raise) *)
| EStore (success : bool) (data : Z) (exc : option Z) (ttl : option dur) (ok : bool)   (* result store *)
| ENoAction (success : bool) (data : option Z) (exc : option Z)   (* _NoAction raised: the actor body stops *)
| EDone.                              (* a non-terminal call returned normally *)

Definition set_ro (h : hstate) : hstate :=
  mkH (h_dep h) true (h_cat h) (h_p h) (h_rbb h) (h_cbs h) (h_lazy h) (h_res h).
Definition set_cbs (h : hstate) (l : list cb) : hstate :=
  mkH (h_dep h) (h_ro h) (h_cat h) (h_p h) (h_rbb h) l (h_lazy h) (h_res h).
Definition set_result_state (h : hstate) (lz : nat * cb) (r : bool * option Z * option Z) : hstate :=
  mkH (h_dep h) (h_ro h) (h_cat h) (h_p h) (h_rbb h) (h_cbs h) (Some lz) (Some r).

(* list.insert(pos, x) for pos <= len *)
Definition insert_at {A} (pos : nat) (x : A) (l : list A) : list A := firstn pos l ++ x :: skipn pos l.

Definition result_ttl (p : params) : option dur :=
  match p_result p with Some r => res_ttl r | None => None end.

(* run callbacks in order; a failing one is logged by repid and the rest still run (the message is already
   disposed of).  store_fails: the result store raises *)
Fixpoint run_cbs (ttl : option dur) (store_fails : bool) (l : list cb) : list ev :=
  match l with
  | [] => []
  | CbUser id fails :: rest => ECallback id (negb fails) :: run_cbs ttl store_fails rest
  | CbStore s d e :: rest => EStore s d e ttl (negb store_fails) :: run_cbs ttl store_fails rest
  end.

(* what a terminal API call wants from the broker, or a refusal *)
Definition wanted (pol : Z -> dur) (h : hstate) (c : hcall) (now : time) : option bcall :=
  let tried := r_tried (p_retries (h_p h)) in
  let max := r_max (p_retries (h_p h)) in
  let back (d : option dur) : dur :=
    match d with Some x => x | None => if h_dep h then pol (tried + 1) else 0 end in
  match c with
  | HAck => if h_ro h then None else Some BAck
  | HNack => if negb (cat_eqb (h_cat h) Normal) then None else if h_ro h then None else Some BNack
  | HReject => if h_ro h then None else Some BReject
  | HReschedule => if h_ro h then None else Some (BRequeue (prepare_reschedule (h_p h) now))
  | HRetry d =>
      if negb (cat_eqb (h_cat h) Normal) then None else if h_ro h then None
      else if max <=? tried then None
      else Some (BRequeue (prepare_retry (h_p h) now (back d)))
  | HForceRetry d =>
      if negb (cat_eqb (h_cat h) Normal) then None else if h_ro h then None
      else Some (BRequeue (prepare_retry (h_p h) now (back d)))
  | _ => None
  end.

(* default success flag carried by _NoAction *)
Definition default_success (c : hcall) : bool :=
  match c with HAck | HReschedule => true | _ => false end.

Definition is_terminal_api (c : hcall) : bool :=
  match c with HAck | HNack | HReject | HReschedule | HRetry _ | HForceRetry _ => true | _ => false end.

(* one API call. Returns the new state, the events, and whether control lft the actor body (_NoAction). *)
Definition hstep (pol : Z -> dur) (now : time) (store_fails : bool) (h : hstate) (c : hcall) (bfail : bool)
  : hstate * list ev * bool :=
  match c with
  | HAddCallback id fails => (set_cbs h (h_cbs h ++ [CbUser id fails]), [EDone], false)
  | HSetResult v =>
      match p_result (h_p h) with
      | None => (h, [ERefused], false)
      | Some _ => if h_rbb h
                  then (set_result_state h (length (h_cbs h), CbStore true v None) (true, Some v, None), [EDone], false)
                  else (h, [ERefused], false)
      end
  | HSetException e =>
      match p_result (h_p h) with
      | None => (h, [ERefused], false)
      | Some _ => if h_rbb h
                  then (set_result_state h (length (h_cbs h), CbStore false e (Some e)) (false, None, Some e), [EDone], false)
                  else (h, [ERefused], false)
      end
  | _ =>
      match wanted pol h c now with
      | None => (h, [ERefused], false)
      | Some b =>
          if bfail then (h, [EBrokerFail b], false)
          else
            let h1 := set_ro h in
            if h_dep h then
              let cbs := match h_lazy h with Some (pos, s) => insert_at pos s (h_cbs h) | None => h_cbs h end in
              let h2 := set_cbs h1 cbs in
              let evs := run_cbs (result_ttl (h_p h)) store_fails cbs in
              let '(s, d, e) := match h_res h with Some r => r | None => (default_success c, None, None) end in
              (h2, EBroker b :: evs ++ [ENoAction s d e], true)
            else (h1, [EBroker b; EDone], false)
      end
  end.

(* a sequence of API calls made by code that catches the exceptions a call may raise and goes on;
   _NoAction (a BaseException) ends the sequence *)
Fixpoint hrun (pol : Z -> dur) (now : time) (store_fails : bool) (h : hstate) (cs : list (hcall * bool))
  : hstate * list ev * bool :=
  match cs with
  | [] => (h, [], false)
  | (c, bf) :: rest =>
      let '(h1, evs, lft) := hstep pol now store_fails h c bf in
      if lft then (h1, evs, true)
      else let '(h2, evs2, lft2) := hrun pol now store_fails h1 rest in (h2, evs ++ evs2, lft2)
  end.

Definition is_broker_ok (e : ev) : bool := match e with EBroker _ => true | _ => false end.
Definition count_broker (l : list ev) : nat := length (filter is_broker_ok l).

(* ---------------- encoders for the correspondence ---------------- *)
Definition enc_bcall (c : bcall) : list Z :=
  match c with
  | BAck => [1] | BNack => [2] | BReject => [3]
  | BRequeue p => 4 :: enc_params p
  end.

Definition enc_ev (e : ev) : list Z :=
  match e with
  | EBroker c => 101 :: enc_bcall c
  | EBrokerFail c => 102 :: enc_bcall c
  | ERefused => [103]
  | ECallback id ok => [104; id; enc_bool ok]
  | EStore s d e ttl ok => [105; enc_bool s; d] ++ enc_optZ e ++ enc_optZ ttl ++ [enc_bool ok]
  | ENoAction s d e => [106; enc_bool s] ++ enc_optZ d ++ enc_optZ e
  | EDone => [107]
  end.

Definition enc_evs (l : list ev) : list Z := flat_map enc_ev l.

(* the default policy parameters travel with the case; a user policy is given as a table *)
Inductive policy :=
| PolDefault (minb maxb mult maxexp : Z)
| PolConst (d : dur)
| PolLinear (a b : dur).

Definition pol_fun (pl : policy) : Z -> dur :=
  match pl with
  | PolDefault a b m e => backoff_us a b m e
  | PolConst d => fun _ => d
  | PolLinear a b => fun n => a * n + b
  end.

Record hcase := mkHCase {
  hc_dep : bool; hc_cat : cat; hc_p : params; hc_rbb : bool; hc_pol : policy;
  hc_now : time; hc_store_fails : bool; hc_calls : list (hcall * bool) }.

Definition hcase_obs (c : hcase) : list Z :=
  let '(_, evs, _) := hrun (pol_fun (hc_pol c)) (hc_now c) (hc_store_fails c)
                           (h_init (hc_dep c) (hc_cat c) (hc_p c) (hc_rbb c)) (hc_calls c) in
  enc_evs evs.
