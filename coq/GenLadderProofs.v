(* GenLadderProofs.v - the disposition ladder generated from /repo's source (GenLadder.v, regenerated on every run by
   harness/translate.py from repid/_processor.py _Processor.report_to_broker) is EQUAL to the hand-written Ladder.decide: the
   theorems of C02 / C04 / C06 about `decide` are theorems about the branch structure the source has now.  An edit that changes
   a condition, the order of the branches, the broker call of a branch or the parameters it files breaks this equality. *)
From Repid Require Import Base Sched GenSched GenSchedProofs Handle Ladder GenLadder.

Theorem gen_decide_eq pol p success now : gen_decide pol p success now = decide pol p success now.
Proof.
  unfold gen_decide, decide, is_recurring, is_none.
  rewrite gen_prepare_retry_eq, gen_prepare_reschedule_eq.
  destruct success; destruct (r_tried (p_retries p) <? r_max (p_retries p)); cbn [negb andb];
    destruct (d_by (p_delay p)); reflexivity.
Qed.

(* ... hence the broker call of the source's ladder is the model's *)
Corollary gen_report_eq pol p success now : decision_call (gen_decide pol p success now) = report pol p success now.
Proof. unfold report. rewrite gen_decide_eq. reflexivity. Qed.
