(* Runner.v — the worker's consume loops, concurrency limiter, task accounting and messages_limit.
   Mirrors repid/_runner.py: _run_consumer (one loop per queue: take a message, acquire a slot - pausing the consumer
   around a blocked acquire -, spawn the processing task unless the limit of executions is reached, in which case the
   message is given back and the loop ends), _task_callback (release the slot, count, stop once the allowed number of executions has been started),
   run_one_queue (a set stop event cancels the loop) - at /repo HEAD (with the fix recorded for C10) - and CPython 3.12's
   asyncio.Semaphore (value + FIFO waiters; release hands the slot to the first waiter at once).

   The model is an event-labelled transition system: one event = one atomic block of the real code (the code between two
   suspensions), in any order the preconditions allow.  Theorems quantify over ALL event sequences the step function
   accepts, which contains every schedule of every event loop; the traces of real runs are checked to be accepted.
   Queues and messages are Z numbers assigned by the harness. *)
From Repid Require Import Base.

Inductive lstate :=
| LIdle                      (* awaiting consumer.consume() *)
| LGot (m : Z)               (* consume() returned m *)
| LWaiting (m : Z)           (* consumer paused, waiting in limiter.acquire() *)
| LGranted (m : Z)           (* a release handed it the slot; not resumed yet *)
| LHold (m : Z)              (* holds m and a slot; about to spawn *)
| LRejecting (m : Z)         (* limit of executions reached: giving m back *)
| LDone.                     (* loop ended (limit reached, or cancelled after the stop event) *)

Record loop := mkLoop { l_q : Z; l_st : lstate; l_paused : bool }.

Record rstate := mkR {
  limit : Z;                 (* tasks_limit *)
  maxt : option Z;           (* messages_limit (None = unbounded) *)
  value : Z;                 (* Semaphore._value *)
  waiters : list Z;          (* queues whose loop waits in acquire(), FIFO *)
  loops : list loop;
  tasks : list Z;            (* spawned and not done *)
  started : Z;
  processed : Z;
  stop : bool;
  backlog : list (Z * Z);    (* (queue, message) waiting in the broker, FIFO per queue *)
  leaked : list Z            (* messages a cancelled loop was holding *)
}.

Inductive event :=
| EvDeliver (q m : Z)        (* consume() of q's consumer returned m *)
| EvAcquireFast (q : Z)      (* limiter not locked: slot taken without suspending *)
| EvPause (q : Z)            (* limiter locked: consumer paused, loop queues up in acquire() *)
| EvUnpause (q : Z)          (* granted loop resumes: consumer unpaused *)
| EvSpawn (q : Z)            (* processing task created *)
| EvSurplus (q : Z)          (* limit of executions reached: slot released, message being given back *)
| EvRejected (q : Z)         (* ... reject returned; loop ends *)
| EvTaskDone (m : Z)         (* done-callback of m's task: release, count, stop decision *)
| EvStop                     (* stop requested from outside (signal, finish_gracefully) *)
| EvCancelLoop (q : Z)       (* run_one_queue cancels the loop after the stop event *)
| EvEnqueue (q m : Z)        (* a producer enqueues m on q *)
| EvCancelLost (q : Z)       (* the cancellation hit consume() after it had taken a message (in the middleware tail of the
                                call): the loop never saw the message - consumer.finish() returns it (in-memory broker) *)
| EvPauseStart (q : Z)       (* a consumer whose pause() is a round trip (RabbitMQ: basic.qos): the limiter was locked, pause() is
                                on the wire, the loop has NOT queued up yet - it does (EvPause) if the limiter is still locked
                                when pause() returns, and takes the slot at once (EvAcquireFast) if one has freed meanwhile *)
| EvUnpauseHold (q : Z).     (* ... in that second case: unpause() of a loop that never waited *)


Fixpoint get_loop (q : Z) (ls : list loop) : option loop :=
  match ls with [] => None | l :: r => if l_q l =? q then Some l else get_loop q r end.
Fixpoint set_loop (q : Z) (st : lstate) (p : bool) (ls : list loop) : list loop :=
  match ls with [] => [] | l :: r => if l_q l =? q then mkLoop q st p :: r else l :: set_loop q st p r end.

Definition upd (s : rstate) v w ls ts st pr sp bl lk : rstate := mkR (limit s) (maxt s) v w ls ts st pr sp bl lk.

(* Semaphore.locked() of CPython 3.12: no free slot, or somebody is queued - INCLUDING a waiter that has been handed a slot
   and has not resumed yet (its future stays in _waiters until it runs): a newcomer queues up behind it even when a second
   release has made the value positive again; the granted waiter passes the spare slot on when it resumes *)
Definition is_granted (l : loop) : bool := match l_st l with LGranted _ => true | _ => false end.
Definition locked (s : rstate) : bool :=
  (value s <=? 0) || negb (match waiters s with [] => true | _ => false end) || existsb is_granted (loops s).

(* Semaphore._wake_up_next(): the first waiter (if any) takes a slot at once *)
Definition wake_next (s : rstate) : rstate :=
  match waiters s with
  | [] => s
  | q :: w =>
      match get_loop q (loops s) with
      | Some (mkLoop _ (LWaiting m) p) =>
          upd s (value s - 1) w (set_loop q (LGranted m) p (loops s)) (tasks s) (started s) (processed s) (stop s) (backlog s) (leaked s)
      | _ => upd s (value s) w (loops s) (tasks s) (started s) (processed s) (stop s) (backlog s) (leaked s)
      end
  end.

(* Semaphore.release(): value+1, then _wake_up_next() *)
Definition release (s : rstate) : rstate :=
  wake_next (upd s (value s + 1) (waiters s) (loops s) (tasks s) (started s) (processed s) (stop s) (backlog s) (leaked s)).

(* max_tasks_hit: max_tasks - processed - (limit - value) <= 0 (the stop condition of _task_callback before the fix recorded for
   C10: it counts a slot handed to a loop as an execution under way; since then: limit_reached) *)
Definition max_tasks_hit (s : rstate) : bool :=
  match maxt s with None => false | Some mx => mx - processed s - (limit s - value s) <=? 0 end.

(* the limit of executions is reached (checked before every spawn) *)
Definition limit_reached (s : rstate) : bool := match maxt s with None => false | Some mx => mx <=? started s end.

Fixpoint take_msg (q : Z) (b : list (Z * Z)) : option (Z * list (Z * Z)) :=
  match b with
  | [] => None
  | (q', m) :: r => if q' =? q then Some (m, r)
                    else match take_msg q r with Some (m', r') => Some (m', (q', m) :: r') | None => None end
  end.

Fixpoint remove_one (m : Z) (l : list Z) : option (list Z) :=
  match l with
  | [] => None
  | x :: r => if x =? m then Some r else match remove_one m r with Some r' => Some (x :: r') | None => None end
  end.

Definition step_ev (s : rstate) (e : event) : option rstate :=
  match e with
  | EvEnqueue q m => Some (upd s (value s) (waiters s) (loops s) (tasks s) (started s) (processed s) (stop s) (backlog s ++ [(q, m)]) (leaked s))
  | EvDeliver q m =>
      match get_loop q (loops s), take_msg q (backlog s) with
      | Some (mkLoop _ LIdle p), Some (m', b') =>
          if (m' =? m) && negb p
          then Some (upd s (value s) (waiters s) (set_loop q (LGot m) p (loops s)) (tasks s) (started s) (processed s) (stop s) b' (leaked s))
          else None
      | _, _ => None
      end
  | EvAcquireFast q =>
      match get_loop q (loops s) with
      | Some (mkLoop _ (LGot m) p) =>
          if locked s then None
          else Some (upd s (value s - 1) (waiters s) (set_loop q (LHold m) p (loops s)) (tasks s) (started s) (processed s) (stop s) (backlog s) (leaked s))
      | _ => None
      end
  | EvPause q =>
      match get_loop q (loops s) with
      | Some (mkLoop _ (LGot m) p) =>
          if locked s
          then Some (upd s (value s) (waiters s ++ [q]) (set_loop q (LWaiting m) true (loops s)) (tasks s) (started s) (processed s) (stop s) (backlog s) (leaked s))
          else None
      | _ => None
      end
  | EvUnpause q =>
      match get_loop q (loops s) with
      | Some (mkLoop _ (LGranted m) _) =>
          (* acquire() resumes: `if self._value > 0: self._wake_up_next()` - a spare slot is passed on *)
          let s1 := upd s (value s) (waiters s) (set_loop q (LHold m) false (loops s)) (tasks s) (started s) (processed s) (stop s) (backlog s) (leaked s) in
          Some (if 0 <? value s1 then wake_next s1 else s1)
      | _ => None
      end
  | EvSpawn q =>
      match get_loop q (loops s) with
      | Some (mkLoop _ (LHold m) p) =>
          if limit_reached s then None
          else
            let s1 := upd s (value s) (waiters s) (loops s) (tasks s ++ [m]) (started s + 1) (processed s) (stop s) (backlog s) (leaked s) in
            (* after the spawn: a loop that has started the last allowed execution takes no further message *)
            Some (upd s1 (value s1) (waiters s1) (set_loop q (if limit_reached s1 then LDone else LIdle) p (loops s1))
                      (tasks s1) (started s1) (processed s1) (stop s1) (backlog s1) (leaked s1))
      | _ => None
      end
  | EvSurplus q =>
      match get_loop q (loops s) with
      | Some (mkLoop _ (LHold m) p) =>
          if limit_reached s
          then let s1 := release s in
               Some (upd s1 (value s1) (waiters s1) (set_loop q (LRejecting m) p (loops s1)) (tasks s1) (started s1) (processed s1) (stop s1) (backlog s1) (leaked s1))
          else None
      | _ => None
      end
  | EvRejected q =>
      match get_loop q (loops s) with
      | Some (mkLoop _ (LRejecting m) p) =>
          Some (upd s (value s) (waiters s) (set_loop q LDone p (loops s)) (tasks s) (started s) (processed s) (stop s) (backlog s ++ [(q, m)]) (leaked s))
      | _ => None
      end
  | EvTaskDone m =>
      match remove_one m (tasks s) with
      | Some ts =>
          let s1 := release (upd s (value s) (waiters s) (loops s) ts (started s) (processed s) (stop s) (backlog s) (leaked s)) in
          let s2 := upd s1 (value s1) (waiters s1) (loops s1) (tasks s1) (started s1) (processed s1 + 1) (stop s1) (backlog s1) (leaked s1) in
          Some (upd s2 (value s2) (waiters s2) (loops s2) (tasks s2) (started s2) (processed s2) (stop s2 || limit_reached s2) (backlog s2) (leaked s2))
      | None => None
      end
  | EvStop => Some (upd s (value s) (waiters s) (loops s) (tasks s) (started s) (processed s) true (backlog s) (leaked s))
  | EvCancelLoop q =>
      (* since the fix recorded for C03: a loop that is cancelled with a message in hand (waiting for a slot, pausing or
         un-pausing its consumer) gives the message back itself - the give-back is shielded, it runs to its end *)
      if negb (stop s) then None else
      match get_loop q (loops s) with
      | Some (mkLoop _ LIdle p) =>
          Some (upd s (value s) (waiters s) (set_loop q LDone p (loops s)) (tasks s) (started s) (processed s) (stop s) (backlog s) (leaked s))
      | Some (mkLoop _ (LGot m) p) =>
          Some (upd s (value s) (waiters s) (set_loop q (LRejecting m) p (loops s)) (tasks s) (started s) (processed s) (stop s) (backlog s) (leaked s))
      | Some (mkLoop _ (LRejecting m) p) =>
          (* cancelled while giving a message back: the (shielded) give-back goes on *)
          Some s
      | Some (mkLoop _ LDone p) =>
          (* the give-back has just ended and the loop has not returned yet: nothing left to do *)
          Some s
      | Some (mkLoop _ (LWaiting m) p) =>
          Some (upd s (value s) (filter (fun x => negb (x =? q)) (waiters s)) (set_loop q (LRejecting m) p (loops s)) (tasks s) (started s) (processed s) (stop s) (backlog s) (leaked s))
      | Some (mkLoop _ (LGranted m) p) | Some (mkLoop _ (LHold m) p) =>
          (* cancelled with a slot in hand: the slot goes back *)
          let s1 := upd s (value s) (waiters s) (set_loop q (LRejecting m) p (loops s)) (tasks s) (started s) (processed s) (stop s) (backlog s) (leaked s) in
          Some (release s1)
      | _ => None
      end
  | EvCancelLost q =>
      if negb (stop s) then None else
      match get_loop q (loops s) with
      | Some (mkLoop _ (LGot m) p) =>
          Some (upd s (value s) (waiters s) (set_loop q LDone p (loops s)) (tasks s) (started s) (processed s) (stop s) (backlog s) (leaked s ++ [m]))
      | _ => None
      end
  | EvPauseStart q =>
      match get_loop q (loops s) with
      | Some (mkLoop _ (LGot m) p) =>
          if locked s
          then Some (upd s (value s) (waiters s) (set_loop q (LGot m) true (loops s)) (tasks s) (started s) (processed s) (stop s) (backlog s) (leaked s))
          else None
      | _ => None
      end
  | EvUnpauseHold q =>
      match get_loop q (loops s) with
      | Some (mkLoop _ (LHold m) true) =>
          Some (upd s (value s) (waiters s) (set_loop q (LHold m) false (loops s)) (tasks s) (started s) (processed s) (stop s) (backlog s) (leaked s))
      | _ => None
      end
  end.

Fixpoint run_ev (s : rstate) (es : list event) : option rstate :=
  match es with [] => Some s | e :: r => match step_ev s e with Some s' => run_ev s' r | None => None end end.

Definition init (lim : Z) (mx : option Z) (qs : list Z) : rstate :=
  mkR lim mx lim [] (map (fun q => mkLoop q LIdle false) qs) [] 0 0 false [] [].

(* the same loop body without the limit check before the spawn (the code before the fix) *)
Definition step_ev_old (s : rstate) (e : event) : option rstate :=
  match e with
  | EvSpawn q =>
      match get_loop q (loops s) with
      | Some (mkLoop _ (LHold m) p) =>
          Some (upd s (value s) (waiters s) (set_loop q LIdle p (loops s)) (tasks s ++ [m]) (started s + 1) (processed s) (stop s) (backlog s) (leaked s))
      | _ => None
      end
  | _ => step_ev s e
  end.
Fixpoint run_ev_old (s : rstate) (es : list event) : option rstate :=
  match es with [] => Some s | e :: r => match step_ev_old s e with Some s' => run_ev_old s' r | None => None end end.

(* ---- slots in use: tasks, plus loops that hold a slot without having spawned yet ---- *)
Definition holds_slot (l : loop) : Z := match l_st l with LGranted _ | LHold _ => 1 | _ => 0 end.
Definition slots_held (ls : list loop) : Z := fold_right (fun l acc => holds_slot l + acc) 0 ls.

(* ---- correspondence: the trace of a real worker run must be accepted, and end in the observed counters ---- *)
Definition enc_lstate (st : lstate) : list Z :=
  match st with LIdle => [0] | LGot m => [1; m] | LWaiting m => [2; m] | LGranted m => [3; m] | LHold m => [4; m]
             | LRejecting m => [5; m] | LDone => [6] end.

Fixpoint insZ (x : Z) (l : list Z) : list Z := match l with [] => [x] | y :: r => if x <=? y then x :: l else y :: insZ x r end.
Definition sortZ (l : list Z) : list Z := fold_right insZ [] l.

Definition runner_obs (c : Z * option Z * list Z * list event) : list Z :=
  let '(lim, mx, qs, es) := c in
  match run_ev (init lim mx qs) es with
  | None =>
      (* index of the first event that is not accepted *)
      let fix first (s : rstate) (es : list event) (k : Z) : Z :=
        match es with [] => -1 | e :: r => match step_ev s e with Some s' => first s' r (k + 1) | None => k end end in
      [-1; first (init lim mx qs) es 0]
  | Some s =>
      (* what is left: waiting in the broker, or taken by a loop that was cancelled (returned by consumer.finish()) *)
      let rest := sortZ (map snd (backlog s) ++ leaked s) in
      [1; started s; processed s; value s; enc_bool (stop s); Z.of_nat (length (tasks s)); Z.of_nat (length rest)] ++ rest
  end.
