(* MwProofs.v — proofs about Mw.v (C17). *)
From Repid Require Import Base Mw.

(* induction over operation trees *)
Fixpoint optree_ind' (P : optree -> Prop)
  (H : forall n c pos kw ps ch o, Forall P ch -> P (Node n c pos kw ps ch o)) (t : optree) : P t :=
  match t with
  | Node n c pos kw ps ch o =>
      H n c pos kw ps ch o
        ((fix go (l : list optree) : Forall P l :=
            match l with [] => Forall_nil P | x :: r => Forall_cons x (optree_ind' P H x) (go r) end) ch)
  end.

Lemma sigs_app a b : filter is_sig (a ++ b) = filter is_sig a ++ filter is_sig b.
Proof. apply filter_app. Qed.

Lemma effects_app a b : effects (a ++ b) = effects a ++ effects b.
Proof. apply filter_app. Qed.

Lemma deliver_all_sig s sg kw : effects (deliver s sg kw) = [].
Proof. unfold deliver. destruct (forallb _ _); reflexivity. Qed.

Lemma emit_all_sig subs c sg kw : effects (emit subs c sg kw) = [].
Proof.
  unfold emit. induction subs as [|s subs IH]; [reflexivity|]. cbn [flat_map]. rewrite effects_app, IH.
  destruct ((s_conn s =? c) && (s_signal s =? sg)); [rewrite deliver_all_sig|]; reflexivity.
Qed.

Lemma flat_map_nil_sigs {A} (f : A -> list ev) l : Forall (fun x => filter is_sig (f x) = []) l -> filter is_sig (flat_map f l) = [].
Proof. induction 1 as [|x l Hx _ IH]; [reflexivity|]. cbn [flat_map]. rewrite sigs_app, Hx, IH. reflexivity. Qed.

(* operations nested inside another wrapped operation emit nothing *)
Theorem nested_silent subs t : filter is_sig (fst (run subs true t)) = [].
Proof.
  induction t as [n c pos kw ps ch o IH] using optree_ind'. cbn [run negb andb fst].
  rewrite sigs_app. rewrite (flat_map_nil_sigs _ _ IH). destruct o; reflexivity.
Qed.

(* exactly one 'before' before the operation takes effect, exactly one 'after' carrying the result once it succeeded,
   both to the subscribers of the operation's own connection; nothing from the operations nested inside *)
Theorem signals_exact_ok subs n c pos kw ps ch v :
  let skw := signal_kwargs ps pos kw in
  let body := flat_map (fun x => fst (run subs true x)) ch in
  run subs false (Node n (Some c) pos kw ps ch (ORet v)) =
    (emit subs c (before_of n) skw ++ body ++ [EEff n (Some c) v] ++ emit subs c (after_of n) (dict_set RESULT v skw), ORet v)
  /\ filter is_sig body = [].
Proof.
  cbv zeta. split; [reflexivity|]. apply flat_map_nil_sigs. apply Forall_forall. intros x _. apply nested_silent.
Qed.

(* a failing operation: the 'before' signal only; the exception propagates *)
Theorem signals_exact_fail subs n c pos kw ps ch e :
  let skw := signal_kwargs ps pos kw in
  let body := flat_map (fun x => fst (run subs true x)) ch in
  run subs false (Node n (Some c) pos kw ps ch (ORaise e)) = (emit subs c (before_of n) skw ++ body, ORaise e)
  /\ filter is_sig body = [].
Proof.
  cbv zeta. split; [cbn [run negb andb]; rewrite !app_nil_r; reflexivity|].
  apply flat_map_nil_sigs. apply Forall_forall. intros x _. apply nested_silent.
Qed.

(* without an emitter the operation runs plainly *)
Theorem no_emitter_no_signal subs b n pos kw ps ch o :
  fst (run subs b (Node n None pos kw ps ch o)) =
  flat_map (fun x => fst (run subs b x)) ch ++ match o with ORet v => [EEff n None v] | ORaise _ => [] end.
Proof. cbn [run]. rewrite andb_false_r. reflexivity. Qed.

(* whatever the subscribers are: same result / exception, same effects in the same order *)
Theorem noninterference subs : forall t b,
  snd (run subs b t) = snd (run [] b t) /\ effects (fst (run subs b t)) = effects (fst (run [] b t)).
Proof.
  induction t as [n c pos kw ps ch o IH] using optree_ind'. intros b.
  assert (Hb : forall b', effects (flat_map (fun x => fst (run subs b' x)) ch) = effects (flat_map (fun x => fst (run [] b' x)) ch)).
  { intros b'. induction IH as [|x l Hx _ IHl]; [reflexivity|]. cbn [flat_map]. rewrite !effects_app, IHl, (proj2 (Hx b')). reflexivity. }
  cbn [run]. destruct b, c as [c|]; cbn [negb andb fst snd]; (split; [reflexivity|]);
    rewrite ?effects_app, ?emit_all_sig, ?Hb; cbn [emit flat_map app]; try reflexivity.
  destruct o; cbn [emit flat_map]; rewrite ?effects_app, ?emit_all_sig, ?app_nil_r; reflexivity.
Qed.

(* a signal reaches only subscribers of that name added to the middleware of the emitting connection *)
Theorem own_connection subs c sg kw sid sg' kw' :
  In (ESig sid sg' kw') (emit subs c sg kw) ->
  exists s, In s subs /\ s_id s = sid /\ s_conn s = c /\ s_signal s = sg /\ sg' = sg.
Proof.
  unfold emit. intros H. apply in_flat_map in H. destruct H as [s [Hs Hin]].
  destruct ((s_conn s =? c) && (s_signal s =? sg)) eqn:E; [|destruct Hin].
  apply andb_true_iff in E. destruct E as [E1 E2]. apply Z.eqb_eq in E1, E2.
  unfold deliver in Hin. destruct (forallb _ _); [|destruct Hin]. destruct Hin as [Hin|[]]. inversion Hin; subst.
  exists s. auto.
Qed.

(* what a subscriber receives: entries of the signal's keyword arguments whose names its signature accepts *)
Theorem deliver_filtered s sg kw sid sg' kw' :
  In (ESig sid sg' kw') (deliver s sg kw) ->
  kw' = filter (fun kv => mem (fst kv) (s_accepts s)) kw /\ forall r, In r (s_required s) -> In r (map fst kw').
Proof.
  unfold deliver. destruct (forallb _ _) eqn:E; [|intros []]. intros [H|[]]. inversion H; subst. split; [reflexivity|].
  intros r Hr. rewrite forallb_forall in E. specialize (E r Hr). unfold mem in E. apply existsb_exists in E.
  destruct E as [x [Hx Hxe]]. apply Z.eqb_eq in Hxe. subst. exact Hx.
Qed.

(* ---- arguments by name, whatever the call style ---- *)
Fixpoint dget (k : Z) (d : list (Z * Z)) : option Z :=
  match d with [] => None | (k', v) :: r => if k =? k' then Some v else dget k r end.

Lemma dget_dict_set k k' v d : dget k (dict_set k' v d) = if k =? k' then Some v else dget k d.
Proof.
  induction d as [|[k2 v2] d IH]; cbn [dict_set dget].
  - reflexivity.
  - destruct (k' =? k2) eqn:E.
    + apply Z.eqb_eq in E. subst. cbn [dget]. destruct (k =? k2); reflexivity.
    + cbn [dget]. rewrite IH. destruct (k =? k2) eqn:E2; [|reflexivity].
      apply Z.eqb_eq in E2. subst. rewrite Z.eqb_sym, E. reflexivity.
Qed.

Lemma dget_app k a b : dget k (a ++ b) = match dget k a with Some v => Some v | None => dget k b end.
Proof. induction a as [|[k' v] a IH]; cbn [app dget]; [reflexivity|]. destruct (k =? k'); [reflexivity | exact IH]. Qed.

Lemma dget_update k upd : forall d,
  dget k (dict_update d upd) = match dget k (rev upd) with Some v => Some v | None => dget k d end.
Proof.
  unfold dict_update. induction upd as [|[k' v] upd IH]; intros d; cbn [fold_left rev]; [reflexivity|].
  rewrite IH, dget_app. cbn [fst snd dget]. destruct (dget k (rev upd)); [reflexivity|].
  rewrite dget_dict_set. destruct (k =? k'); reflexivity.
Qed.

(* the signal names every argument: positional ones by the parameter they fill, keyword ones as given *)
Theorem signal_kwargs_lookup ps pos kw k :
  dget k (signal_kwargs ps pos kw) = match dget k (rev (zip_named ps pos)) with Some v => Some v | None => dget k kw end.
Proof. apply dget_update. Qed.

Lemma zip_named_all_keyword ps : forall vals, length vals = length ps -> NoDup ps ->
  forall k, dget k (rev (zip_named ps vals)) = dget k (zip_named ps vals).
Proof.
  induction ps as [|p ps IH]; intros vals Hl Hnd k; [reflexivity|]. destruct vals as [|v vals]; [discriminate|].
  cbn [zip_named rev]. rewrite dget_app. inversion Hnd as [|x xs Hnot Hnd']; subst. cbn [length] in Hl.
  rewrite IH by (lia || assumption). cbn [dget]. destruct (k =? p) eqn:E; [|destruct (dget k (zip_named ps vals)); reflexivity].
  apply Z.eqb_eq in E. subst k. destruct (dget p (zip_named ps vals)) eqn:F; [|reflexivity]. exfalso. apply Hnot.
  clear - F. revert vals F. induction ps as [|q ps IH]; intros vals F; [destruct vals; discriminate|].
  destruct vals as [|w vals]; [discriminate|]. cbn [zip_named dget] in F. destruct (p =? q) eqn:E; [apply Z.eqb_eq in E; left; auto|].
  right. eapply IH. exact F.
Qed.

(* the same call made with positional or with keyword arguments yields the same named arguments in the signals *)
Theorem style_independent ps vals k : length vals = length ps -> NoDup ps ->
  dget k (signal_kwargs ps vals []) = dget k (signal_kwargs ps [] (zip_named ps vals)).
Proof.
  intros Hl Hnd. rewrite !signal_kwargs_lookup.
  assert (Z0 : zip_named ps [] = []) by (destruct ps; reflexivity). rewrite Z0. cbn [rev dget].
  rewrite zip_named_all_keyword by assumption. destruct (dget k (zip_named ps vals)); reflexivity.
Qed.

(* ---- actor_run: the signals of a processor go to its own connection, whatever was created before or after ---- *)
Theorem actor_run_emitter_own created p c : NoDup (map fst created) -> In (p, c) created -> actor_run_emitter created p = Some c.
Proof.
  unfold actor_run_emitter. induction created as [|[p' c'] created IH]; intros Hnd Hin; [destruct Hin|].
  cbn [find fst]. inversion Hnd as [|x xs Hnot Hnd']; subst. destruct (p' =? p) eqn:E.
  - apply Z.eqb_eq in E. subst. destruct Hin as [H|H]; [inversion H; reflexivity|].
    exfalso. apply Hnot. apply in_map_iff. exists (p, c). auto.
  - destruct Hin as [H|H]; [inversion H; subst; rewrite Z.eqb_refl in E; discriminate|]. apply IH; assumption.
Qed.

Theorem actor_run_emitter_before_fix_refuted :
  exists created p c, NoDup (map fst created) /\ In (p, c) created /\ actor_run_emitter_old created p <> Some c.
Proof.
  exists [(1, 10); (2, 20)], 1, 10. split; [|split].
  - repeat constructor; cbn; intuition discriminate.
  - left. reflexivity.
  - cbn. discriminate.
Qed.

(* non-vacuity: an actor run with an eager ack nested inside, two connections, a picky and a raising subscriber *)
Example lifecycle :
  let subs := [mkSub 1 10 (before_of 13) [1; 2] [] false; mkSub 2 10 (after_of 13) [1; 999] [999] true;
               mkSub 3 20 (before_of 13) [1] [] false; mkSub 4 10 (before_of 6) [1] [] false] in
  let t := Node 13 (Some 10) [7; 8] [(3, 9)] [1; 2; 3] [Node 6 (Some 10) [7] [] [1] [] (ORet 0)] (ORet 5) in
  fst (run subs false t) =
    [ESig 1 26 [(1, 7); (2, 8)]; EEff 6 (Some 10) 0; EEff 13 (Some 10) 5; ESig 2 27 [(1, 7); (999, 5)]].
Proof. vm_compute. reflexivity. Qed.
