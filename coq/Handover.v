(* Handover.v - custody of a message on its way through a prefetching consumer (repid/connections/redis/consumer.py, and
   the same pipeline minus the take phases for repid/connections/rabbitmq/consumer.py) up to the caller of consume(),
   with the cancellation of that caller and finish() landing anywhere.

   Every message of the universe `ms` is in exactly one custody.  One step = what one task does between two suspension
   points of the event loop:

     CQueue        waiting on the server, deliverable
     CTaking0      the background task has started the (shielded) take transaction; the server has not executed it yet
     CTaking1      the server has executed it (the message is marked as processing); the reply is on its way
     CTaken        the take task has ended, the consumer remembers the name in `_taken`
     CInHand       details fetched, `_in_hand` set, waiting for room in the local buffer
     CBuffer       in the local buffer
     CReturning    consume() has taken it out of the buffer and returned it; on its way to the caller through the
                   middleware wrapper (child task, `after_consume` subscribers)
     CUndelivered  the caller was cancelled while it was CReturning: kept by the consumer (`_undelivered` / `__returned`)
     CCaller       received by the caller of consume(): the caller's responsibility from here on
     CNacking      found expired (by the background task or by consume()): a shielded nack is on the wire
     CRejecting    finish() has issued the reject
     CBouncing     (RabbitMQ) a delivery that found the consumer paused or no longer consuming: its callback sleeps 0.1 s and
                   rejects it - nobody waits for that
     CDead         dead-lettered

   RabbitMQ (`push` = true): the server pushes deliveries.  CTaking1 then reads "delivered by the server (unacknowledged),
   the consumer's callback has not run yet"; the callback puts the message into the buffer, nacks it if it has expired, or
   bounces it.  finish() does not wait for deliveries on their way: they bounce.

   The model over-approximates on purpose where the property does not care (the background task is not forced to handle
   one message at a time after a nack, the buffer has no capacity or order): every behaviour of the client is a behaviour
   of the model, the theorems hold for the larger set. *)
From Repid Require Import Base.

Inductive cu := CQueue | CDead | CTaking0 | CTaking1 | CTaken | CInHand | CBuffer | CReturning | CUndelivered | CCaller
              | CNacking | CRejecting | CBouncing.
Inductive ph := PRun | PFinWait | PFinRejecting | PDone.

Definition cu_code (c : cu) : Z :=
  match c with CQueue => 0 | CDead => 1 | CTaking0 => 2 | CTaking1 => 3 | CTaken => 4 | CInHand => 5 | CBuffer => 6
             | CReturning => 7 | CUndelivered => 8 | CCaller => 9 | CNacking => 10 | CRejecting => 11 | CBouncing => 12 end.
Definition cu_eqb (a b : cu) : bool := cu_code a =? cu_code b.
Definition ph_code (p : ph) : Z := match p with PRun => 0 | PFinWait => 1 | PFinRejecting => 2 | PDone => 3 end.
Definition ph_eqb (a b : ph) : bool := ph_code a =? ph_code b.

Record hst := mkH {
  ms : list Z;            (* the messages of the run *)
  cust : Z -> cu;
  bgrun : bool;           (* the background task has not been cancelled *)
  call : bool;            (* a consume() call is in progress *)
  phase : ph;             (* progress of finish() *)
  expd : Z -> bool;       (* the message's ttl has run out *)
  late : bool;            (* a consume() call holding a returned message was cancelled after finish() had collected *)
  push : bool }.          (* the server pushes deliveries into the buffer (RabbitMQ) instead of being polled (Redis) *)

Inductive hev :=
| HTakeStart (m : Z) | HTakeApply (m : Z) | HTakeDone (m : Z) | HDetails (m : Z) | HPut (m : Z)
| HPushStart (m : Z) | HPushDone (m : Z) | HBounce (m : Z) | HBounceDone (m : Z)
| HNackDone (m : Z)
| HCallStart | HCallGet (m : Z) | HDeliver (m : Z) | HCancelCall
| HFinStart | HFinCollect | HRejectDone (m : Z) | HFinDone
| HExpire (m : Z).

Definition memz (m : Z) (l : list Z) : bool := existsb (Z.eqb m) l.
Definition setc (s : hst) (m : Z) (c : cu) : Z -> cu := fun x => if x =? m then c else cust s x.
Definition none_in (s : hst) (p : cu -> bool) : bool := forallb (fun x => negb (p (cust s x))) (ms s).

Definition bg_busy (c : cu) : bool := match c with CTaking0 | CTaking1 | CTaken | CInHand => true | _ => false end.
(* custodies that finish() must not leave behind: in the hands of a background task that is gone, or in the drained buffer *)
Definition stale (c : cu) : bool := match c with CTaking0 | CTaken | CInHand | CBuffer => true | _ => false end.
Definition collectable (c : cu) : bool := match c with CTaken | CInHand | CBuffer | CUndelivered => true | _ => false end.
Definition is_c (c0 : cu) (c : cu) : bool := cu_eqb c0 c.

Definition with_cust (s : hst) (f : Z -> cu) : hst := mkH (ms s) f (bgrun s) (call s) (phase s) (expd s) (late s) (push s).
Definition with_call (s : hst) (b : bool) : hst := mkH (ms s) (cust s) (bgrun s) b (phase s) (expd s) (late s) (push s).
Definition with_phase (s : hst) (p : ph) : hst := mkH (ms s) (cust s) (bgrun s) (call s) p (expd s) (late s) (push s).

Definition move (s : hst) (m : Z) (from to : cu) : option hst :=
  if memz m (ms s) && cu_eqb (cust s m) from then Some (with_cust s (setc s m to)) else None.

Definition hstep (s : hst) (e : hev) : option hst :=
  match e with
  | HTakeStart m =>
      if bgrun s && negb (push s) && none_in s bg_busy then move s m CQueue CTaking0 else None
  | HTakeApply m => move s m CTaking0 CTaking1                 (* shielded: also after the background task was cancelled *)
  | HTakeDone m => if push s then None else move s m CTaking1 CTaken
  | HDetails m => if bgrun s then move s m CTaken (if expd s m then CNacking else CInHand) else None
  | HPut m => if bgrun s then move s m CInHand CBuffer else None
  | HPushStart m =>                                             (* the server delivers until the cancel has reached it *)
      if push s && (ph_eqb (phase s) PRun || ph_eqb (phase s) PFinWait) then move s m CQueue CTaking1 else None
  | HPushDone m =>                                              (* the callback runs: one step up to the buffer (or the nack) *)
      if push s && bgrun s then move s m CTaking1 (if expd s m then CNacking else CBuffer) else None
  | HBounce m => if push s then move s m CTaking1 CBouncing else None      (* paused, or not consuming any more *)
  | HBounceDone m => move s m CBouncing CQueue
  | HNackDone m => move s m CNacking CDead
  | HCallStart => if call s then None else Some (with_call s true)
  | HCallGet m =>
      if call s && none_in s (is_c CReturning) &&
         (cu_eqb (cust s m) CUndelivered || (cu_eqb (cust s m) CBuffer && none_in s (is_c CUndelivered)))
      then (if memz m (ms s) then Some (with_cust s (setc s m (if expd s m then CNacking else CReturning))) else None)
      else None
  | HDeliver m => if call s then option_map (fun s' => with_call s' false) (move s m CReturning CCaller) else None
  | HCancelCall =>
      if call s then
        let hit := negb (none_in s (is_c CReturning)) in
        let collected := ph_eqb (phase s) PFinRejecting || ph_eqb (phase s) PDone in
        Some (mkH (ms s) (fun x => if cu_eqb (cust s x) CReturning then CUndelivered else cust s x) (bgrun s) false (phase s)
                  (expd s) (late s || (hit && collected)) (push s))
      else None
  | HFinStart =>
      if ph_eqb (phase s) PRun
      then Some (mkH (ms s) (cust s) false (call s) PFinWait (expd s) (late s) (push s)) else None
  | HFinCollect =>
      if ph_eqb (phase s) PFinWait && none_in s (is_c CTaking0) && (push s || none_in s (is_c CTaking1))
      then Some (mkH (ms s) (fun x => if collectable (cust s x) then CRejecting else cust s x) (bgrun s) (call s) PFinRejecting
                     (expd s) (late s) (push s))
      else None
  | HRejectDone m => move s m CRejecting CQueue
  | HFinDone => if ph_eqb (phase s) PFinRejecting && none_in s (is_c CRejecting) then Some (with_phase s PDone) else None
  | HExpire m => Some (mkH (ms s) (cust s) (bgrun s) (call s) (phase s) (fun x => if x =? m then true else expd s x) (late s) (push s))
  end.

Fixpoint hrun (s : hst) (es : list hev) : option hst :=
  match es with
  | [] => Some s
  | e :: es' => match hstep s e with Some s' => hrun s' es' | None => None end
  end.

Definition hinit (msgs expired : list Z) (pushing : bool) : hst :=
  mkH msgs (fun _ => CQueue) true false PRun (fun x => memz x expired) false pushing.

(* ---- observation and trace acceptance (used by the correspondence) ---- *)

Definition hobs (s : hst) : list Z :=
  ph_code (phase s) :: enc_bool (call s) :: enc_bool (late s) :: map (fun m => cu_code (cust s m)) (ms s).

(* all orders of a (short) list of events *)
Fixpoint insert_all {A} (x : A) (l : list A) : list (list A) :=
  match l with
  | [] => [[x]]
  | y :: l' => (x :: l) :: map (cons y) (insert_all x l')
  end.
Fixpoint perms {A} (l : list A) : list (list A) :=
  match l with
  | [] => [[]]
  | x :: l' => flat_map (insert_all x) (perms l')
  end.

Fixpoint first_some {A B} (f : A -> option B) (l : list A) : option B :=
  match l with
  | [] => None
  | x :: l' => match f x with Some y => Some y | None => first_some f l' end
  end.

(* one segment: the events the harness inferred between two snapshots, in some order, lead to the observed state *)
Definition accept_seg (s : hst) (evs : list hev) (o : list Z) : option hst :=
  first_some (fun p => match hrun s p with
                       | Some s' => if list_eqb Z.eqb (hobs s') o then Some s' else None
                       | None => None
                       end) (perms evs).

(* a run: 0 = accepted; k > 0 = the k-th segment is not a behaviour of the model *)
Fixpoint accept_from (k : Z) (s : hst) (segs : list (list hev * list Z)) : Z :=
  match segs with
  | [] => 0
  | (evs, o) :: rest => match accept_seg s evs o with
                        | Some s' => accept_from (k + 1) s' rest
                        | None => k
                        end
  end.

Definition handover_case (msgs expired : list Z) (pushing : bool) (segs : list (list hev * list Z)) : list Z :=
  [accept_from 1 (hinit msgs expired pushing) segs].

Definition handover_obs (c : list Z * list Z * bool * list (list hev * list Z)) : list Z :=
  let '(msgs, expired, pushing, segs) := c in handover_case msgs expired pushing segs.
