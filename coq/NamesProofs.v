(* NamesProofs.v — proofs about Names.v (C07, and the Redis topic filter used by C11). *)
From Repid Require Import Base Names.
From Coq Require Decimal DecimalNat.

(* ---- split / join ---- *)
Lemma split_aux_app p : forall cur rest, no_colon p = true ->
  split_colon_aux cur (p ++ rest) = split_colon_aux (List.rev p ++ cur) rest.
Proof.
  induction p as [|c p IH]; intros cur rest H; [reflexivity|]. cbn [no_colon forallb] in H. apply andb_true_iff in H.
  destruct H as [Hc Hp]. apply negb_true_iff in Hc. cbn [app split_colon_aux]. rewrite Hc. rewrite IH by exact Hp.
  cbn [List.rev]. rewrite <- app_assoc. reflexivity.
Qed.

Theorem split_join parts : parts <> [] -> Forall (fun p => no_colon p = true) parts -> split_colon (join_colon parts) = parts.
Proof.
  unfold split_colon. induction parts as [|p parts IH]; intros Hne Hf; [congruence|]. inversion Hf as [|x xs Hp Hf']; subst.
  destruct parts as [|q parts].
  - cbn [join_colon]. rewrite <- (app_nil_r p) at 1. rewrite split_aux_app by exact Hp. cbn [split_colon_aux].
    rewrite app_nil_r, rev_involutive. reflexivity.
  - cbn [join_colon]. rewrite split_aux_app by exact Hp. cbn [split_colon_aux]. rewrite Z.eqb_refl, app_nil_r, rev_involutive.
    f_equal. apply IH; [discriminate | exact Hf'].
Qed.

(* ---- what the validators accept contains no separator ---- *)
Lemma name_char_not_colon c : name_char c = true -> negb (c =? COLON) = true.
Proof.
  unfold name_char, name_start, is_lower, is_upper, is_digit, COLON. intros H. apply negb_true_iff, Z.eqb_neq. intros ->.
  cbn in H. discriminate.
Qed.

Lemma all_name_char_no_colon s : forallb name_char s = true -> no_colon s = true.
Proof.
  unfold no_colon. induction s as [|c s IH]; [reflexivity|]. cbn [forallb]. intros H. apply andb_true_iff in H. destruct H as [H1 H2].
  rewrite (name_char_not_colon c H1), (IH H2). reflexivity.
Qed.

Theorem valid_id_no_colon s : valid_id s = true -> no_colon s = true.
Proof. unfold valid_id. destruct s; [discriminate|]. apply all_name_char_no_colon. Qed.

Theorem valid_name_no_colon s : valid_name s = true -> no_colon s = true.
Proof.
  unfold valid_name. destruct s as [|c r]; [discriminate|]. intros H. apply andb_true_iff in H. destruct H as [H1 H2].
  apply all_name_char_no_colon. cbn [forallb]. rewrite H2, andb_true_r. unfold name_char. rewrite H1. reflexivity.
Qed.

(* ---- the priority as decimal text ---- *)
Lemma codes_uint_codes u : codes_uint (uint_codes u) = Some u.
Proof. induction u; cbn [uint_codes codes_uint]; try reflexivity; rewrite IHu; reflexivity. Qed.

Lemma uint_codes_no_colon u : no_colon (uint_codes u) = true.
Proof. unfold no_colon. induction u; cbn [uint_codes forallb]; try reflexivity; rewrite IHu; reflexivity. Qed.

Lemma to_uint_nonnil n : Nat.to_uint n <> Decimal.Nil.
Proof.
  intros E. pose proof (DecimalNat.Unsigned.of_to n) as H. rewrite E in H. cbn in H. subst n. cbv in E. discriminate.
Qed.

Theorem int_str n : nat_of_str (str_of_nat n) = Some n.
Proof.
  unfold nat_of_str, str_of_nat. destruct (uint_codes (Nat.to_uint n)) eqn:E.
  - exfalso. apply (to_uint_nonnil n). destruct (Nat.to_uint n); cbn in E; try discriminate. reflexivity.
  - rewrite <- E, codes_uint_codes. cbn [option_map]. rewrite DecimalNat.Unsigned.of_to. reflexivity.
Qed.

Lemma str_no_colon n : no_colon (str_of_nat n) = true.
Proof. apply uint_codes_no_colon. Qed.

(* ---- Redis message names ---- *)
Theorem parse_mnc k : valid_key k = true -> parse_message_name (mnc k) = Some k.
Proof.
  unfold valid_key. intros H. apply andb_true_iff in H. destruct H as [H Hq]. apply andb_true_iff in H. destruct H as [Hi Ht].
  unfold parse_message_name, mnc. rewrite split_join.
  - rewrite int_str. destruct k; reflexivity.
  - discriminate.
  - repeat constructor; try reflexivity; [apply valid_name_no_colon; exact Hq | apply str_no_colon
      | apply valid_name_no_colon; exact Ht | apply valid_id_no_colon; exact Hi].
Qed.

Theorem parse_short k : valid_key k = true -> parse_short_message_name (mnc_short k) = Some (k_topic k, k_id k).
Proof.
  unfold valid_key. intros H. apply andb_true_iff in H. destruct H as [H Hq]. apply andb_true_iff in H. destruct H as [Hi Ht].
  unfold parse_short_message_name, mnc_short. rewrite split_join; [reflexivity | discriminate|].
  repeat constructor; [apply valid_name_no_colon; exact Ht | apply valid_id_no_colon; exact Hi].
Qed.

Lemma kind_no_colon kd : no_colon (kind_text kd) = true.
Proof. destruct kd; reflexivity. Qed.

Lemma split_qnc q p kd : valid_name q = true -> split_colon (qnc q p kd) = [Q_; q; str_of_nat p; kind_text kd].
Proof.
  intros Hq. unfold qnc. apply split_join; [discriminate|].
  repeat constructor; try reflexivity; [apply valid_name_no_colon; exact Hq | apply str_no_colon | apply kind_no_colon].
Qed.

Theorem full_from_short k q p kd : valid_name q = true ->
  full_message_name_from_short (mnc_short k) (qnc q p kd) = Some (mnc (mkKey (k_id k) (k_topic k) q p)).
Proof.
  intros Hq. unfold full_message_name_from_short. rewrite (split_qnc q p kd Hq). unfold mnc, mnc_short. cbn [k_id k_topic k_queue k_prio join_colon].
  reflexivity.
Qed.

Theorem queue_marker q p kd : valid_name q = true -> get_queue_marker (qnc q p kd) = kind_text kd.
Proof. intros Hq. unfold get_queue_marker. rewrite (split_qnc q p kd Hq). reflexivity. Qed.

(* the queue-name encoding is unambiguous *)
Theorem qnc_injective q p kd q' p' kd' : valid_name q = true -> valid_name q' = true ->
  qnc q p kd = qnc q' p' kd' -> q = q' /\ p = p' /\ kd = kd'.
Proof.
  intros Hq Hq' E. pose proof (split_qnc q p kd Hq) as S1. rewrite E, (split_qnc q' p' kd' Hq') in S1.
  inversion S1 as [[E1 E2 E3]]. split; [reflexivity|]. split.
  - pose proof (int_str p) as A. pose proof (int_str p') as B. rewrite E2 in B. congruence.
  - destruct kd, kd'; try reflexivity; discriminate.
Qed.

(* the message-name encoding is unambiguous *)
Theorem mnc_injective k k' : valid_key k = true -> valid_key k' = true -> mnc k = mnc k' -> k = k'.
Proof. intros H H' E. pose proof (parse_mnc k H) as A. rewrite E, (parse_mnc k' H') in A. congruence. Qed.

(* ---- the Redis topic filter: "<topic>:" is a prefix of "<t>:<id>" exactly for t = topic ---- *)
Lemma starts_with_refl_app a b : starts_with a (a ++ b) = true.
Proof. induction a as [|x a IH]; [reflexivity|]. cbn [app starts_with]. rewrite Z.eqb_refl, IH. reflexivity. Qed.

Theorem topic_prefix_exact t' t i : no_colon t' = true -> no_colon t = true ->
  (topic_matches t' (t ++ COLON :: i) = true <-> t' = t).
Proof.
  unfold topic_matches. revert t. induction t' as [|a t' IH]; intros t Ht' Ht.
  - destruct t as [|b t]; cbn [app starts_with].
    + rewrite Z.eqb_refl. split; reflexivity.
    + cbn [no_colon forallb] in Ht. apply andb_true_iff in Ht. destruct Ht as [Hb _]. apply negb_true_iff in Hb.
      rewrite Z.eqb_sym, Hb. split; discriminate.
  - cbn [no_colon forallb] in Ht'. apply andb_true_iff in Ht'. destruct Ht' as [Ha Ht'']. apply negb_true_iff in Ha.
    destruct t as [|b t]; cbn [app starts_with].
    + rewrite Ha. split; discriminate.
    + cbn [no_colon forallb] in Ht. apply andb_true_iff in Ht. destruct Ht as [_ Ht2].
      destruct (a =? b) eqn:E; cbn [andb].
      * apply Z.eqb_eq in E. subst b. rewrite (IH t Ht'' Ht2). split; [intros ->; reflexivity | intros H; inversion H; reflexivity].
      * apply Z.eqb_neq in E. split; [discriminate | intros H; inversion H; congruence].
Qed.

(* ---- RabbitMQ queue names ---- *)
Theorem rabbit_qnc_injective q kd q' kd' : valid_name q = true -> valid_name q' = true ->
  rabbit_qnc q kd = rabbit_qnc q' kd' -> q = q' /\ kd = kd'.
Proof.
  intros Hq Hq' E.
  assert (S : forall q0 kd0, valid_name q0 = true ->
              split_colon (rabbit_qnc q0 kd0) = match kd0 with QNormal => [q0] | QDelayed => [q0; DELAYED_] | QDead => [q0; DEAD_] end).
  { intros q0 kd0 H0. pose proof (valid_name_no_colon q0 H0) as N0. destruct kd0.
    - refine (split_join [q0] _ _); [discriminate | repeat constructor; exact N0].
    - refine (split_join [q0; DELAYED_] _ _); [discriminate | constructor; [exact N0 | constructor; [reflexivity | constructor]]].
    - refine (split_join [q0; DEAD_] _ _); [discriminate | constructor; [exact N0 | constructor; [reflexivity | constructor]]]. }
  pose proof (S q kd Hq) as S1. rewrite E, (S q' kd' Hq') in S1.
  destruct kd, kd'; inversion S1; auto.
Qed.

(* ---- the bucket marker ---- *)
Theorem marker_check_construct id : marker_check (marker_construct id) = true.
Proof.
  unfold marker_check, marker_construct. cbn [app occurs_within].
  match goal with |- context [starts_with KEY (KEY ++ ?r)] => rewrite (starts_with_refl_app KEY r) end.
  rewrite !orb_true_r. reflexivity.
Qed.

Theorem marker_roundtrip id : marker_deconstruct (marker_construct id) = Some id.
Proof.
  unfold marker_deconstruct, marker_construct. cbn.
  rewrite rev_app_distr. cbn. rewrite rev_involutive. reflexivity.
Qed.

(* exactly which payloads are taken for a bucket reference: the key text starts at one of the first four characters *)
Lemma occurs_within_spec n : forall s,
  occurs_within n s = true <-> exists k, (k <= n)%nat /\ (k <= length s)%nat /\ starts_with KEY (skipn k s) = true.
Proof.
  induction n as [|n IH]; intros s; cbn [occurs_within].
  - rewrite orb_false_r. split.
    + intros H. exists 0%nat. cbn. repeat split; [lia | lia | exact H].
    + intros [k [H1 [_ H3]]]. assert (k = 0%nat) by lia. subst. exact H3.
  - split.
    + intros H. apply orb_true_iff in H. destruct H as [H|H].
      * exists 0%nat. cbn. repeat split; [lia | lia | exact H].
      * destruct s as [|c r]; [discriminate|]. apply IH in H. destruct H as [k [H1 [H2 H3]]].
        exists (S k). cbn [length skipn]. repeat split; [lia | lia | exact H3].
    + intros [k [H1 [H2 H3]]]. apply orb_true_iff. destruct k as [|k]; [left; exact H3|]. right.
      destruct s as [|c r]; [cbn in H2; lia|]. apply IH. exists k. cbn [length skipn] in *. repeat split; [lia | lia | exact H3].
Qed.

Theorem marker_check_spec s :
  marker_check s = true <-> exists k, (k <= 3)%nat /\ (k <= length s)%nat /\ starts_with KEY (skipn k s) = true.
Proof. apply occurs_within_spec. Qed.

(* non-vacuity *)
Example key_example :
  let k := mkKey [109; 49] [97; 99; 116] [113] 5 in
  valid_key k = true /\ mnc k = [109; 58; 113; 58; 53; 58; 97; 99; 116; 58; 109; 49] /\ parse_message_name (mnc k) = Some k.
Proof. vm_compute. repeat split. Qed.
