(* Sched.v — schedule arithmetic.
   Mirrors repid/retry_policy.py:36-39 (default_retry_policy_factory.inner),
   repid/data/_parameters.py:116-152 (is_overdue, compute_next_execution_time,
   _prepare_reschedule, _prepare_retry), the is_overdue of _buckets.py and job.py,
   and wait_until of connections/in_memory/utils.py:28 and connections/rabbitmq/utils.py:33.
   All arithmetic is exact integer arithmetic (Python int, timedelta // timedelta, timedelta * int,
   datetime + timedelta), so Z models it without loss. *)
From Repid Require Import Base.

(* retry_policy.py: exponent = min(n, max_exponent); backoff = min(multiplier * 2**exponent, max_backoff);
   timedelta(seconds = max(min_backoff, backoff)).  Result in whole seconds. *)
Definition backoff_s (minb maxb mult maxexp n : Z) : Z :=
  Z.max minb (Z.min (mult * 2 ^ (Z.min n maxexp)) maxb).

Definition backoff_us (minb maxb mult maxexp n : Z) : dur :=
  backoff_s minb maxb mult maxexp n * usec_per_sec.

(* largest timedelta Python can represent: 999999999 days, 23:59:59.999999 *)
Definition timedelta_max_us : Z := 86399999999999999999.

(* is_overdue: ttl is None -> False; else now > timestamp + ttl *)
Definition overdue (ts : time) (ttl : option dur) (now : time) : bool :=
  match ttl with
  | None => false
  | Some t => ts + t <? now
  end.

(* (now - timestamp) // defer_by + 1 periods after timestamp *)
Definition grid (ts : time) (by_ : dur) (now : time) : time :=
  ts + by_ * ((now - ts) / by_ + 1).

Definition grid_opt (p : params) (now : time) : option time :=
  match d_by (p_delay p) with
  | Some by_ => Some (grid (p_ts p) by_ now)
  | None => None
  end.

(* compute_next_execution_time (cron branch not modelled: it raises ImportError here) *)
Definition compute_next (p : params) (now : time) : option time :=
  match d_until (p_delay p) with
  | Some u => if now <? u then Some u else grid_opt p now
  | None => grid_opt p now
  end.

(* wait_until: next_execution_time or compute_next_execution_time *)
Definition wait_until (p : params) (now : time) : option time :=
  match d_next (p_delay p) with
  | Some t => Some t
  | None => compute_next p now
  end.

(* Redis: math.ceil(wait_until.timestamp()) — whole seconds, rounded UP (since the fix recorded for C05), so that the
   server's comparison with the whole second of "now" never finds a message before its time *)
Definition ceil_s (t : time) : Z := - ((- t) / usec_per_sec).
Definition wait_ts_s (p : params) (now : time) : option Z :=
  match wait_until p now with Some t => Some (ceil_s t) | None => None end.
(* before the fix: int(...), i.e. floor *)
Definition wait_ts_s_old (p : params) (now : time) : option Z :=
  match wait_until p now with Some t => Some (t / usec_per_sec) | None => None end.

Definition set_tried (r : retries) (t : Z) : retries := mkRetries (r_max r) t.
Definition set_next (d : delay) (n : option time) : delay := mkDelay (d_until d) (d_by d) n.

(* _prepare_retry: already_tried + 1, next_execution_time = now + backoff; everything else kept *)
Definition prepare_retry (p : params) (now : time) (back : dur) : params :=
  mkParams (p_timeout p) (p_result p) (set_tried (p_retries p) (r_tried (p_retries p) + 1))
           (set_next (p_delay p) (Some (now + back))) (p_ts p) (p_ttl p).

(* _prepare_reschedule: already_tried = 0, next_execution_time = compute_next(now), timestamp = now *)
Definition prepare_reschedule (p : params) (now : time) : params :=
  mkParams (p_timeout p) (p_result p) (set_tried (p_retries p) 0)
           (set_next (p_delay p) (compute_next p now)) now (p_ttl p).

Definition is_recurring (p : params) : bool :=
  match d_by (p_delay p) with Some _ => true | None => false end.

(* observation encoders for the correspondence *)
Inductive sched_case :=
| CBackoff (minb maxb mult maxexp n : Z)
| CNext (p : params) (now : time)
| COverdue (ts : time) (ttl : option dur) (now : time)
| CRetry (p : params) (now : time) (back : dur)
| CResched (p : params) (now : time)
| CWait (p : params) (now : time)
| CWaitS (p : params) (now : time).

Definition sched_obs (c : sched_case) : list Z :=
  match c with
  | CBackoff a b m e n => [backoff_us a b m e n]
  | CNext p now => enc_optZ (compute_next p now)
  | COverdue ts ttl now => [enc_bool (overdue ts ttl now)]
  | CRetry p now back => enc_params (prepare_retry p now back)
  | CResched p now => enc_params (prepare_reschedule p now)
  | CWait p now => enc_optZ (wait_until p now)
  | CWaitS p now => enc_optZ (wait_ts_s p now)
  end.
