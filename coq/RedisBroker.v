(* RedisBroker.v — the Redis client's programs over RedisSrv.v.
   Mirrors repid/connections/redis/message_broker.py (enqueue / ack / nack / reject / requeue / __put_in_queue /
   __mark_dead / __unmark_processing) and repid/connections/redis/consumer.py (consume_or_none, __get_message_normal /
   _delayed / _dead, __get_message_name, __fetch_message_name, __mark_processing, __get_message_details) at /repo HEAD.

   Every API call is a sequence of server steps (single commands or MULTI/EXEC transactions); `run_api` executes one call
   to the end with nothing interleaved (what a single client doing one thing at a time sees) and returns the steps it made
   with their replies - the correspondence compares exactly that stream with the commands the real client sent.
   Interleavings of two clients are built from the micro-steps `read_window` / `grab` (see RedisProofs.v). *)
From Repid Require Import Base Sched RedisSrv.

Definition PREFETCH : Z := 10.
Definition F_PAYLOAD := 1.  Definition F_PARAMS := 2.  Definition F_REJECT := 3.
(* queue markers stored in _reject_to: n, d, dead *)
Definition MK_N := 1.  Definition MK_D := 2.  Definition MK_DEAD := 3.

(* what the harness knows about a message name: its topic; and about a parameters document: its content *)
Record env := mkEnv { topic_of : list (Z * Z); ptab : list (Z * params) }.
Fixpoint zassoc {V} (k : Z) (l : list (Z * V)) : option V :=
  match l with [] => None | (k', v) :: r => if k =? k' then Some v else zassoc k r end.

Record rkey := mkRK { rk_name : Z; rk_q : Z; rk_prio : Z }.
Definition hk (k : rkey) : hkey := mkHK (rk_q k) (rk_prio k) (rk_name k).

(* __put_in_queue *)
Definition put_in_queue (k : rkey) (delay_until : option Z) (in_front : bool) : cmd :=
  match delay_until with
  | None => if in_front then RPush (mkLK (rk_q k) (rk_prio k) LNormal) (rk_name k) else LPush (mkLK (rk_q k) (rk_prio k) LNormal) (rk_name k)
  | Some t => ZAdd (ZDelayed (rk_q k) (rk_prio k)) (rk_name k) t
  end.
Definition mark_dead (k : rkey) : cmd := LPush (mkLK (rk_q k) (rk_prio k) LDead) (rk_name k).
Definition unmark_processing (k : rkey) : list cmd := [ZRem ZProcessing (rk_name k); HDel (hk k) F_REJECT].

(* wait_timestamp(params): whole seconds of next_execution_time or of the computed time *)
Definition wait_of (e : env) (pcode : Z) (now : time) : option Z :=
  match zassoc pcode (ptab e) with Some p => wait_ts_s p now | None => None end.

Definition enqueue_prog (e : env) (k : rkey) (payload pcode : Z) (now : time) : list (list cmd) :=
  [[HSetNX (hk k) F_PAYLOAD payload; HSetNX (hk k) F_PARAMS pcode; put_in_queue k (wait_of e pcode now) false]].
Definition ack_prog (k : rkey) : list (list cmd) := [DelH (hk k) :: unmark_processing k].
Definition nack_prog (k : rkey) : list (list cmd) := [mark_dead k :: unmark_processing k].
Definition requeue_prog (e : env) (k : rkey) (payload pcode : Z) (now : time) : list (list cmd) :=
  [HSet (hk k) [(F_PAYLOAD, payload); (F_PARAMS, pcode)] :: put_in_queue k (wait_of e pcode now) true :: unmark_processing k].

(* reject: read parameters and the marker, then one transaction *)
Definition reject_second (e : env) (k : rkey) (pcode : option Z) (marker : option Z) (now : time) : list cmd :=
  (if match marker with Some m => m =? MK_DEAD | None => false end then mark_dead k
   else put_in_queue k (match pcode with Some pc => wait_of e pc now | None => None end) true) :: unmark_processing k.

(* a step of a run: the commands of one server step *)
Definition step := list cmd.

(* run steps one after the other on the server, collecting replies *)
Fixpoint run_steps (s : srv) (st : list step) : srv * list (step * list Z) :=
  match st with
  | [] => (s, [])
  | c :: r => let '(s1, rep) := exec_all s c in let '(s2, tr) := run_steps s1 r in (s2, (c, rep) :: tr)
  end.

Definition run_reject (e : env) (s : srv) (k : rkey) (now : time) : srv * list (step * list Z) :=
  let v := aget hkey_eqb (hk k) (hashes s) in
  let pcode := match v with Some v => h_params v | None => None end in
  let marker := match v with Some v => h_reject_to v | None => None end in
  let '(s1, r1) := exec_all s [HGet (hk k) F_PARAMS; HGet (hk k) F_REJECT] in
  let c2 := reject_second e k pcode marker now in
  let '(s2, r2) := exec_all s1 c2 in
  (s2, [([HGet (hk k) F_PARAMS; HGet (hk k) F_REJECT], r1); (c2, r2)]).

(* ---- the take path ---- *)
Definition matches (e : env) (topics : list Z) (n : Z) : bool :=
  match topics with [] => true | _ => match zassoc n (topic_of e) with Some t => existsb (Z.eqb t) topics | None => false end end.
(* the name of the window whose topic is served: sorted-set windows are looked at in the order the server returned them
   (ascending due time), list windows from their tail end (the oldest message first; fix recorded for C15) *)
Definition pick (e : env) (topics : list Z) (window : list Z) : option Z := find (matches e topics) window.
Definition pick_old (e : env) (topics : list Z) (window : list Z) : option Z := find (matches e topics) window.

Inductive source := SDelayedDue | SDelayedAll | SList (kd : lkind).

(* __fetch_message_name: windows of PREFETCH names until a served one is found or a window comes back empty *)
Fixpoint fetch (fuel : nat) (e : env) (s : srv) (q prio : Z) (src : source) (topics : list Z) (now_s : Z) (off : Z)
  : option Z * list (step * list Z) :=
  match fuel with
  | O => (None, [])
  | S f =>
      let c := match src with
               | SList kd => LRange (mkLK q prio kd) (off - PREFETCH) (off - 1)
               | SDelayedDue => ZRangeByScore (ZDelayed q prio) now_s off PREFETCH
               | SDelayedAll => ZRangeIdx (ZDelayed q prio) off (off + PREFETCH - 1)
               end in
      let '(_, rep) := exec s c in
      let window := tl rep in
      match window with
      | [] => (None, [([c], rep)])
      | _ => match pick e topics (match src with SList _ => rev window | _ => window end) with
             | Some n => (Some n, [([c], rep)])
             | None =>
                 let '(r, tr) := fetch f e s q prio src topics now_s (match src with SList _ => off - PREFETCH | _ => off + PREFETCH end) in
                 (r, ([c], rep) :: tr)
             end
      end
  end.

Definition marker_of (src : source) : Z := match src with SList LNormal => MK_N | SList LDead => MK_DEAD | _ => MK_D end.

(* __get_message_name: fetch, then remove-and-mark in one transaction (the replies are not inspected) *)
Definition grab_cmds (q prio : Z) (src : source) (n now_s : Z) : list cmd :=
  [match src with SList kd => LRem (mkLK q prio kd) n | _ => ZRem (ZDelayed q prio) n end;
   ZAdd ZProcessing n now_s; HSet (mkHK q prio n) [(F_REJECT, marker_of src)]].

Definition get_name (fuel : nat) (e : env) (s : srv) (q prio : Z) (src : source) (topics : list Z) (now_s : Z)
  : srv * option Z * list (step * list Z) :=
  let '(r, tr) := fetch fuel e s q prio src topics now_s 0 in
  match r with
  | None => (s, None, tr)
  | Some n => let c := grab_cmds q prio src n now_s in let '(s1, rep) := exec_all s c in (s1, Some n, tr ++ [(c, rep)])
  end.

(* __get_message_details: two reads; a message without data is moved to the dead list of priority 5 and the search restarts *)
Inductive taken := TNone | TMsg (n payload pcode : Z).

Fixpoint get_message (fuel : nat) (e : env) (s : srv) (q prio : Z) (cat : cat) (topics : list Z) (now_s : Z)
  : srv * taken * list (step * list Z) :=
  match fuel with
  | O => (s, TNone, [])
  | S f =>
      let '(s1, r, tr1) :=
        match cat with
        | Normal =>
            let '(sa, ra, ta) := get_name (S fuel) e s q prio SDelayedDue topics now_s in
            match ra with
            | Some _ => (sa, ra, ta)
            | None => let '(sb, rb, tb) := get_name (S fuel) e sa q prio (SList LNormal) topics now_s in (sb, rb, ta ++ tb)
            end
        | DelayedC => get_name (S fuel) e s q prio SDelayedAll topics now_s
        | DeadC => get_name (S fuel) e s q prio (SList LDead) topics now_s
        end in
      match r with
      | None => (s1, TNone, tr1)
      | Some n =>
          let k := mkHK q prio n in
          let '(s2, rp) := exec s1 (HGet k F_PAYLOAD) in
          let '(s3, rq) := exec s2 (HGet k F_PARAMS) in
          let tr2 := tr1 ++ [([HGet k F_PAYLOAD], rp); ([HGet k F_PARAMS], rq)] in
          match rp, rq with
          | [1; pl], [1; pc] => (s3, TMsg n pl pc, tr2)
          | _, _ =>
              let c := [ZRem ZProcessing n; LPush (mkLK q 5 LDead) n] in
              let '(s4, rep) := exec_all s3 c in
              let '(s5, r5, tr5) := get_message f e s4 q prio cat topics now_s in
              (s5, r5, tr2 ++ [(c, rep)] ++ tr5)
          end
      end
  end.

(* get_priorities_order: HIGH 9, MEDIUM 5, LOW 0; the draw is an input (which of the three orders) *)
Definition prio_order (choice : Z) : list Z := if choice =? 0 then [9; 5; 0] else if choice =? 1 then [5; 9; 0] else [0; 9; 5].

Definition is_overdue_code (e : env) (pcode : Z) (now : time) : bool :=
  match zassoc pcode (ptab e) with Some p => overdue (p_ts p) (p_ttl p) now | None => false end.

(* consume_or_none: the priorities in the drawn order; in the NORMAL category an overdue message is nacked and the next
   priority is tried at once (the dead and delayed categories hand out what they find: fix recorded for C12);
   after an empty priority the client sleeps POLLING_WAIT = 0.1 s *)
Definition POLLING_WAIT : Z := 100000.
Fixpoint consume_or_none (e : env) (s : srv) (q : Z) (cat : cat) (topics : list Z) (prios : list Z) (now : time)
  : srv * taken * list (step * list Z) :=
  match prios with
  | p :: ps =>
      let fuel := (length (hashes s) + 2)%nat in
      let '(s1, r, tr) := get_message fuel e s q p cat topics (now / usec_per_sec) in
      match r with
      | TNone => let '(s2, r2, tr2) := consume_or_none e s1 q cat topics ps (now + POLLING_WAIT) in (s2, r2, tr ++ tr2)
      | TMsg n pl pc =>
          if cat_eqb cat Normal && is_overdue_code e pc now
          then let c := mark_dead (mkRK n q p) :: unmark_processing (mkRK n q p) in
               let '(s2, rep) := exec_all s1 c in
               let '(s3, r3, tr3) := consume_or_none e s2 q cat topics ps now in
               (s3, r3, tr ++ [(c, rep)] ++ tr3)
          else (s1, r, tr)
      end
  | [] => (s, TNone, [])
  end.

(* ---- maintenance (run on connect and disconnect): messages that have been "processing" for longer than their execution
   timeout are rejected, i.e. become deliverable again - this is how the messages of a worker that died are recovered ---- *)
Definition timed_out (e : env) (pcode : Z) (start_s : Z) (now : time) : bool :=
  match zassoc pcode (ptab e) with Some p => p_timeout p <? now - start_s * usec_per_sec | None => false end.

(* one processing entry: look its data up; returns the trace of the two reads and, if timed out, the key to reject *)
Definition maint_entry (e : env) (s : srv) (n start_s : Z) (now : time) : list (step * list Z) * list rkey :=
  let '(_, r1) := exec s (ScanM n) in
  match filter (fun k => hname k =? n) (map fst (hashes s)) with
  | k :: _ =>
      let '(_, r2) := exec s (HGet k F_PARAMS) in
      let tr := [([ScanM n], r1); ([HGet k F_PARAMS], r2)] in
      match r2 with
      | [1; pc] => (tr, if timed_out e pc start_s now then [mkRK n (hq k) (hprio k)] else [])
      | _ => (tr, [])
      end
  | [] => ([([ScanM n], r1)], [])
  end.

(* the rejects run concurrently: first every reject's read, then every reject's transaction (distinct messages) *)
Fixpoint reject_reads (s : srv) (ks : list rkey) : list (step * list Z) :=
  match ks with [] => [] | k :: r => let c := [HGet (hk k) F_PARAMS; HGet (hk k) F_REJECT] in (c, snd (exec_all s c)) :: reject_reads s r end.
Fixpoint reject_writes (e : env) (s s0 : srv) (ks : list rkey) (now : time) : srv * list (step * list Z) :=
  match ks with
  | [] => (s, [])
  | k :: r =>
      let v := aget hkey_eqb (hk k) (hashes s0) in
      let c := reject_second e k (match v with Some v => h_params v | None => None end) (match v with Some v => h_reject_to v | None => None end) now in
      let '(s1, rep) := exec_all s c in
      let '(s2, tr) := reject_writes e s1 s0 r now in (s2, (c, rep) :: tr)
  end.

Definition maintenance (e : env) (s : srv) (now : time) : srv * list (step * list Z) :=
  let z := get_zset s ZProcessing in
  let '(_, r0) := exec s (ZScan ZProcessing) in
  let per := map (fun en => maint_entry e s (fst en) (snd en) now) z in
  let ks := flat_map snd per in
  let '(s1, trw) := reject_writes e s s ks now in
  (s1, ([ZScan ZProcessing], r0) :: flat_map fst per ++ reject_reads s ks ++ trw).

(* ---- API histories (one client, one call at a time) ---- *)
Inductive rop :=
| ROEnqueue (k : rkey) (payload pcode : Z) (now : time)
| ROAck (k : rkey) | RONack (k : rkey) | ROReject (k : rkey) (now : time)
| RORequeue (k : rkey) (payload pcode : Z) (now : time)
| ROTake (q : Z) (ct : cat) (topics : list Z) (choice : Z) (now : time)
| ROMaintenance (now : time).

Definition run_api (e : env) (s : srv) (o : rop) : srv * taken * list (step * list Z) :=
  match o with
  | ROEnqueue k pl pc now => let '(s1, tr) := run_steps s (enqueue_prog e k pl pc now) in (s1, TNone, tr)
  | ROAck k => let '(s1, tr) := run_steps s (ack_prog k) in (s1, TNone, tr)
  | RONack k => let '(s1, tr) := run_steps s (nack_prog k) in (s1, TNone, tr)
  | ROReject k now => let '(s1, tr) := run_reject e s k now in (s1, TNone, tr)
  | RORequeue k pl pc now => let '(s1, tr) := run_steps s (requeue_prog e k pl pc now) in (s1, TNone, tr)
  | ROTake q ct topics choice now => consume_or_none e s q ct topics (prio_order choice) now
  | ROMaintenance now => let '(s1, tr) := maintenance e s now in (s1, TNone, tr)
  end.

(* ---- correspondence ---- *)
Definition enc_hk (k : hkey) : list Z := [hq k; hprio k; hname k].
Definition enc_zkey (k : zkey) : list Z := match k with ZDelayed q p => [1; q; p] | ZProcessing => [2; 0; 0] end.
Definition enc_cmd (c : cmd) : list Z :=
  match c with
  | HSetNX k f v => 1 :: enc_hk k ++ [f; v]
  | HSet k fields => 2 :: enc_hk k ++ Z.of_nat (length fields) :: flat_map (fun fv => [fst fv; snd fv]) fields
  | HGet k f => 3 :: enc_hk k ++ [f]
  | HDel k f => 4 :: enc_hk k ++ [f]
  | DelH k => 5 :: enc_hk k
  | LPush k m => 6 :: enc_lkey k ++ [m]
  | RPush k m => 7 :: enc_lkey k ++ [m]
  | LRange k a b => 8 :: enc_lkey k ++ [a; b]
  | LRem k m => 9 :: enc_lkey k ++ [m]
  | ZAdd k m sc => 10 :: enc_zkey k ++ [m; sc]
  | ZRem k m => 11 :: enc_zkey k ++ [m]
  | ZRangeByScore k mx off num => 12 :: enc_zkey k ++ [mx; off; num]
  | ZRangeIdx k a b => 13 :: enc_zkey k ++ [a; b]
  | ZScan k => 14 :: enc_zkey k
  | ScanM m => [15; m]
  end.
Definition enc_step (sr : step * list Z) : list Z := [-1; Z.of_nat (length (fst sr))] ++ flat_map enc_cmd (fst sr) ++ [-2] ++ snd sr.
Definition enc_trace (tr : list (step * list Z)) : list Z := flat_map enc_step tr.

(* the rejects of one maintenance run are concurrent tasks whose commands interleave with the scan; they concern distinct
   messages and commute, so the steps of a maintenance run are compared as a multiset (sorted) *)
Fixpoint list_leb (a b : list Z) : bool :=
  match a, b with
  | [], _ => true
  | _ :: _, [] => false
  | x :: a', y :: b' => if x <? y then true else if y <? x then false else list_leb a' b'
  end.
Fixpoint ins_sorted (x : list Z) (l : list (list Z)) : list (list Z) :=
  match l with [] => [x] | y :: r => if list_leb x y then x :: l else y :: ins_sorted x r end.
Definition enc_trace_sorted (tr : list (step * list Z)) : list Z := concat (fold_right ins_sorted [] (map enc_step tr)).
Definition enc_taken (t : taken) : list Z := match t with TNone => [0] | TMsg n pl pc => [1; n; pl; pc] end.

Definition dump (s : srv) (lks : list lkey) (zks : list zkey) : list Z :=
  flat_map (fun k => let l := get_list s k in Z.of_nat (length l) :: l) lks ++ [-8] ++
  flat_map (fun k => let z := get_zset s k in Z.of_nat (length z) :: flat_map (fun e => [fst e; snd e]) z) zks ++
  [-9; Z.of_nat (length (hashes s))].

Fixpoint run_hist (e : env) (s : srv) (ops : list rop) (lks : list lkey) (zks : list zkey) : list Z :=
  match ops with
  | [] => [-7] ++ dump s lks zks
  | o :: r => let '(s1, t, tr) := run_api e s o in
              (match o with ROMaintenance _ => enc_trace_sorted tr | _ => enc_trace tr end) ++ [-3] ++ enc_taken t ++ run_hist e s1 r lks zks
  end.

(* the whole command/reply stream of a history, the message each take returned, and the final server state *)
Definition redis_obs (c : env * list rop * list lkey * list zkey) : list Z :=
  let '(e, ops, lks, zks) := c in run_hist e srv0 ops lks zks.
