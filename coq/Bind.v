(* Bind.v — how a payload becomes the arguments of an actor.
   Mirrors repid/converter.py: BasicConverter.__init__/convert_inputs (57-97, with fix 4b2594b),
   PydanticConverter.__init__/convert_inputs (104-176, with fix 59e3a3e), the call
   fn( *args, **kwargs, **dependency_kwargs) of repid/_processor.py:102-107, and Python's call binding.
   Names and values are numbers assigned by the harness; pydantic validation is "lookup, else default,
   else ValidationError; extras ignored; values of the annotated type unchanged" (trusted). *)
From Repid Require Import Base.

Inductive pkind := PosOnly | PosOrKw | KwOnly | VarPos | VarKw.

Record param := mkParam { pn : Z; pk : pkind; pdef : option Z; pdep : bool }.
Definition sig := list param.

(* payload: None = empty string, Some l = JSON object, keys in document order (distinct) *)
Definition payload := option (list (Z * Z)).

Fixpoint lookup (k : Z) (l : list (Z * Z)) : option Z :=
  match l with
  | [] => None
  | (k', v) :: r => if k =? k' then Some v else lookup k r
  end.

Fixpoint remove_key (k : Z) (l : list (Z * Z)) : list (Z * Z) :=
  match l with
  | [] => []
  | (k', v) :: r => if k =? k' then remove_key k r else (k', v) :: remove_key k r
  end.

Definition is_pos (p : param) : bool := match pk p with PosOnly | PosOrKw => true | _ => false end.
Definition is_named (p : param) : bool := match pk p with VarPos | VarKw => false | _ => true end.
Definition has_varpos (s : sig) : bool := existsb (fun p => match pk p with VarPos => true | _ => false end) s.
Definition has_varkw (s : sig) : bool := existsb (fun p => match pk p with VarKw => true | _ => false end) s.

(* ---------- Python's call binding:  fn( *args, **kwargs) ---------- *)
Inductive bound := Bound (named : list (Z * Z)) (varargs : list Z) (varkw : list (Z * Z)) | TypeErr.

(* positional arguments fill the positional-capable parameters in order *)
Fixpoint bind_pos (ps : list param) (args : list Z) : list (Z * Z) * list Z :=
  match ps, args with
  | _, [] => ([], [])
  | [], _ => ([], args)
  | p :: ps', a :: args' => let '(b, extra) := bind_pos ps' args' in ((pn p, a) :: b, extra)
  end.

Definition kw_capable (s : sig) (k : Z) : bool :=
  existsb (fun p => (pn p =? k) && match pk p with PosOrKw | KwOnly => true | _ => false end) s.

(* keyword arguments: to the parameter of that name (error if already bound), else to **kwargs (error if none) *)
Fixpoint bind_kw (s : sig) (vkw : bool) (kwargs : list (Z * Z)) (named varkw : list (Z * Z))
  : option (list (Z * Z) * list (Z * Z)) :=
  match kwargs with
  | [] => Some (named, varkw)
  | (k, v) :: r =>
      if kw_capable s k then
        match lookup k named with
        | Some _ => None
        | None => bind_kw s vkw r (named ++ [(k, v)]) varkw
        end
      else if vkw then
        match lookup k varkw with
        | Some _ => None
        | None => bind_kw s vkw r named (varkw ++ [(k, v)])
        end
      else None
  end.

(* defaults for what is still unbound; a parameter without default is an error *)
Fixpoint fill_defaults (ps : list param) (named : list (Z * Z)) : option (list (Z * Z)) :=
  match ps with
  | [] => Some []
  | p :: r =>
      match (match lookup (pn p) named with Some v => Some v | None => pdef p end) with
      | Some v => match fill_defaults r named with Some l => Some ((pn p, v) :: l) | None => None end
      | None => None
      end
  end.

Definition pycall (s : sig) (args : list Z) (kwargs : list (Z * Z)) : bound :=
  let '(posb, extra) := bind_pos (filter is_pos s) args in
  if negb (has_varpos s) && negb (match extra with [] => true | _ => false end) then TypeErr
  else match bind_kw s (has_varkw s) kwargs posb [] with
       | None => TypeErr
       | Some (named, varkw) =>
           match fill_defaults (filter is_named s) named with
           | Some full => Bound full extra varkw
           | None => TypeErr
           end
       end.

(* ---------- converters ---------- *)
Inductive conv := Basic | Pydantic.

(* dependency parameters resolve to a value determined by the parameter (the harness uses 7000 + name) *)
Definition dep_value (p : param) : Z := 7000 + pn p.
Definition dep_kwargs (s : sig) : list (Z * Z) :=
  map (fun p => (pn p, dep_value p))
      (filter (fun p => pdep p && match pk p with PosOrKw | KwOnly => true | _ => false end) s).

(* declaration-time checks *)
Definition init_ok (c : conv) (s : sig) : bool :=
  negb (existsb (fun p => pdep p && match pk p with PosOnly => true | _ => false end) s) &&
  match c with Basic => true | Pydantic => negb (has_varpos s) && negb (has_varkw s) end.

Definition payload_params (s : sig) : list param :=
  filter (fun p => is_named p && negb (pdep p && match pk p with PosOrKw | KwOnly => true | _ => false end)) s.

(* value for one parameter from the loaded object: the entry of its name, else the default, else failure *)
Definition value_for (l : list (Z * Z)) (p : param) : option Z :=
  match lookup (pn p) l with Some v => Some v | None => pdef p end.

Fixpoint values_for (l : list (Z * Z)) (ps : list param) : option (list (Z * Z)) :=
  match ps with
  | [] => Some []
  | p :: r => match value_for l p, values_for l r with
              | Some v, Some vs => Some ((pn p, v) :: vs)
              | _, _ => None
              end
  end.

Definition is_posonly (p : param) : bool := match pk p with PosOnly => true | _ => false end.

Fixpoint remove_keys (ks : list Z) (l : list (Z * Z)) : list (Z * Z) :=
  match ks with [] => l | k :: r => remove_keys r (remove_key k l) end.

(* (args, kwargs) produced by convert_inputs, or None when it raises *)
Definition convert (c : conv) (s : sig) (pl : payload) : option (list Z * list (Z * Z)) :=
  let ps := payload_params s in
  match c, pl with
  | Basic, None => Some ([], [])
  | Basic, Some l =>
      match values_for l (filter is_posonly ps), values_for l (filter (fun p => negb (is_posonly p)) ps) with
      | Some a, Some k =>
          let rest := remove_keys (map pn ps) l in
          if has_varkw s then Some (map snd a, k ++ rest)
          else if has_varpos s then Some (map snd a ++ map snd rest, k)
          else Some (map snd a, k)
      | _, _ => None
      end
  | Pydantic, _ =>
      let l := match pl with Some l => l | None => [] end in
      match values_for l (filter is_posonly ps), values_for l (filter (fun p => negb (is_posonly p)) ps) with
      | Some a, Some k => Some (map snd a, k)
      | _, _ => None
      end
  end.

Inductive outcome := Rejected | Failed | Called (named : list (Z * Z)) (varargs : list Z) (varkw : list (Z * Z)).

(* declaration, conversion and call *)
Definition run_actor (c : conv) (s : sig) (pl : payload) : outcome :=
  if negb (init_ok c s) then Rejected
  else match convert c s pl with
       | None => Failed
       | Some (args, kwargs) =>
           match pycall s args (kwargs ++ dep_kwargs s) with
           | TypeErr => Failed
           | Bound n va vk => Called n va vk
           end
       end.

(* ---------- correspondence ---------- *)
Definition enc_assoc (l : list (Z * Z)) : list Z := flat_map (fun kv => [fst kv; snd kv]) l.

Definition enc_outcome (o : outcome) : list Z :=
  match o with
  | Rejected => [1]
  | Failed => [2]
  | Called n va vk => [3; Z.of_nat (length n)] ++ enc_assoc n ++ [Z.of_nat (length va)] ++ va ++ [Z.of_nat (length vk)] ++ enc_assoc vk
  end.

Definition bind_obs (c : conv * sig * payload) : list Z :=
  let '(cv, s, pl) := c in enc_outcome (run_actor cv s pl).
