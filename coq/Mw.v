(* Mw.v — the middleware wrapper, the subscriber wrapper and the emitter assignment.
   Mirrors repid/middlewares/wrapper.py (_middleware_wrapper.__call__ / call_set_context: inside-flag, emitter option,
   before signal, the call in a child context with the flag set, after signal carrying the result),
   repid/middlewares/middleware.py (add_subscriber's wrapper: keyword filtering by the subscriber's signature, Exception
   swallowed; emit_signal: every subscriber of that name), repid/connections/abc.py:28-53 (per-instance wrapping of broker,
   bucket-broker and consumer methods, emitter assigned per instance by Connection.__post_init__) and
   repid/_processor.py (actor_run: one wrapper per processor, emitter = the processor's own connection; see C17's fix).

   An operation is a tree: the wrapped operation, the wrapped operations its body calls, and how it ends.
   Operation names, parameter names, connections, values and exception codes are Z numbers assigned by the harness. *)
From Repid Require Import Base.

Inductive outcome := ORet (v : Z) | ORaise (e : Z).

(* name, owning connection (None: no emitter was ever assigned), positional arguments, keyword arguments, the parameter
   names of the wrapped function in order, wrapped operations called by the body, how the body ends *)
Inductive optree :=
  Node (name : Z) (conn : option Z) (pos : list Z) (kw : list (Z * Z)) (params : list Z) (children : list optree) (out : outcome).

(* a subscriber: the connection whose middleware it was added to, the signal it is named after, the keyword names its
   signature accepts, the names it requires (no default), whether its body raises an Exception *)
Record sub := mkSub { s_id : Z; s_conn : Z; s_signal : Z; s_accepts : list Z; s_required : list Z; s_raises : bool }.

Definition before_of (name : Z) : Z := 2 * name.
Definition after_of (name : Z) : Z := 2 * name + 1.
Definition RESULT : Z := 999.                                  (* the keyword under which the result is passed *)

Inductive ev :=
| ESig (sid : Z) (signal : Z) (kwargs : list (Z * Z))          (* subscriber sid ran with these keyword arguments *)
| EEff (name : Z) (conn : option Z) (v : Z).                   (* the operation itself took effect and returned v *)

Definition mem (x : Z) (l : list Z) : bool := existsb (Z.eqb x) l.

(* signal_kwargs = kwargs.copy(); signal_kwargs.update(zip(parameters, args)) *)
Fixpoint zip_named (params pos : list Z) : list (Z * Z) :=
  match params, pos with
  | p :: ps, a :: as_ => (p, a) :: zip_named ps as_
  | _, _ => []
  end.
Fixpoint dict_set (k v : Z) (d : list (Z * Z)) : list (Z * Z) :=
  match d with
  | [] => [(k, v)]
  | (k', v') :: r => if k =? k' then (k, v) :: r else (k', v') :: dict_set k v r
  end.
Definition dict_update (d upd : list (Z * Z)) : list (Z * Z) := fold_left (fun acc kv => dict_set (fst kv) (snd kv) acc) upd d.
Definition signal_kwargs (params pos : list Z) (kw : list (Z * Z)) : list (Z * Z) := dict_update kw (zip_named params pos).

(* the subscriber wrapper: only the keyword arguments its signature accepts; a missing required argument is a TypeError,
   an Exception raised by the body is logged - either way nothing propagates; the log records the subscribers that ran *)
Definition deliver (s : sub) (signal : Z) (kwargs : list (Z * Z)) : list ev :=
  let given := filter (fun kv => mem (fst kv) (s_accepts s)) kwargs in
  if forallb (fun r => mem r (map fst given)) (s_required s) then [ESig (s_id s) signal given] else [].

(* Middleware.emit_signal on connection c *)
Definition emit (subs : list sub) (c : Z) (signal : Z) (kwargs : list (Z * Z)) : list ev :=
  flat_map (fun s => if (s_conn s =? c) && (s_signal s =? signal) then deliver s signal kwargs else []) subs.

(* _middleware_wrapper.__call__ *)
Fixpoint run (subs : list sub) (inside : bool) (t : optree) : list ev * outcome :=
  match t with
  | Node name conn pos kw params children out =>
      let emits := negb inside && match conn with Some _ => true | None => false end in
      let inside' := if emits then true else inside in
      let body := flat_map (fun ch => fst (run subs inside' ch)) children in
      let own := match out with ORet v => [EEff name conn v] | ORaise _ => [] end in
      match emits, conn with
      | true, Some c =>
          let skw := signal_kwargs params pos kw in
          let before := emit subs c (before_of name) skw in
          let after := match out with
                       | ORet v => emit subs c (after_of name) (dict_set RESULT v skw)
                       | ORaise _ => []
                       end in
          (before ++ body ++ own ++ after, out)
      | _, _ => (body ++ own, out)
      end
  end.

Definition is_sig (e : ev) : bool := match e with ESig _ _ _ => true | EEff _ _ _ => false end.
Definition effects (l : list ev) : list ev := filter (fun e => negb (is_sig e)) l.

(* ---- emitter assignment for actor_run: processors are created over time, each for a connection ---- *)
(* since the fix: the wrapper belongs to the processor *)
Definition actor_run_emitter (created : list (Z * Z)) (p : Z) : option Z :=
  option_map snd (find (fun pc => fst pc =? p) created).
(* before the fix: one wrapper on the class, re-pointed by every new processor *)
Definition actor_run_emitter_old (created : list (Z * Z)) (p : Z) : option Z :=
  match rev created with [] => None | (_, c) :: _ => Some c end.

(* ---- correspondence ---- *)
Fixpoint ins_kv (x : Z * Z) (l : list (Z * Z)) : list (Z * Z) :=
  match l with [] => [x] | y :: r => if fst x <=? fst y then x :: l else y :: ins_kv x r end.
Definition sort_kv (l : list (Z * Z)) : list (Z * Z) := fold_right ins_kv [] l.

Definition enc_ev (e : ev) : list Z :=
  match e with
  | ESig sid signal kwargs => [1; sid; signal; Z.of_nat (length kwargs)] ++ flat_map (fun kv => [fst kv; snd kv]) (sort_kv kwargs)
  | EEff name conn v => [2; name; match conn with Some c => c | None => -1 end; v]
  end.

Definition enc_outcome (o : outcome) : list Z := match o with ORet v => [0; v] | ORaise e => [1; e] end.

(* a case: the subscribers and a sequence of top-level operations; signals of one emit_signal run concurrently
   (asyncio.gather) but start in list order, and the harness's subscribers log when they start *)
Definition mw_obs (c : list sub * list optree) : list Z :=
  let '(subs, ts) := c in
  flat_map (fun t => let '(evs, o) := run subs false t in flat_map enc_ev evs ++ [-3] ++ enc_outcome o) ts.
