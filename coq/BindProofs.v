From Repid Require Import Base Bind.

(* ---- conversion ---- *)
Lemma values_for_missing l ps p :
  In p ps -> lookup (pn p) l = None -> pdef p = None -> values_for l ps = None.
Proof.
  induction ps as [|q ps IH]; simpl; intros Hin Hl Hd; [contradiction|].
  destruct Hin as [->|Hin].
  - unfold value_for. rewrite Hl, Hd. reflexivity.
  - rewrite (IH Hin Hl Hd). destruct (value_for l q); reflexivity.
Qed.

Lemma values_for_spec l ps vs :
  values_for l ps = Some vs ->
  map fst vs = map pn ps /\
  forall p, In p ps -> exists v, In (pn p, v) vs /\ value_for l p = Some v.
Proof.
  revert vs. induction ps as [|q ps IH]; simpl; intros vs H.
  - inversion H; subst. split; [reflexivity | intros p []].
  - destruct (value_for l q) as [v|] eqn:Ev; [|discriminate].
    destruct (values_for l ps) as [vs'|] eqn:Es; [|discriminate]. inversion H; subst.
    destruct (IH vs' eq_refl) as (Hm & Hall). split; [simpl; rewrite Hm; reflexivity|].
    intros p [->|Hin]; [exists v; split; [left; reflexivity | exact Ev]|].
    destruct (Hall p Hin) as (w & Hw & He). exists w. split; [right; exact Hw | exact He].
Qed.

(* every value handed to a named parameter is the payload entry of its name, or else its declared default *)
Theorem value_is_entry_or_default l p v :
  value_for l p = Some v -> lookup (pn p) l = Some v \/ (lookup (pn p) l = None /\ pdef p = Some v).
Proof. unfold value_for. destruct (lookup (pn p) l); intros H; [left; exact H | right; auto]. Qed.

(* a payload lacking a parameter that has no default fails the execution (both converters, non-empty payload) *)
Theorem missing_required_fails c s l p :
  In p (payload_params s) -> lookup (pn p) l = None -> pdef p = None ->
  convert c s (Some l) = None.
Proof.
  intros Hin Hl Hd. unfold convert.
  destruct (is_posonly p) eqn:Ep.
  - assert (H : values_for l (filter is_posonly (payload_params s)) = None).
    { apply (values_for_missing l _ p); auto. apply filter_In. auto. }
    destruct c; rewrite H; reflexivity.
  - assert (H : values_for l (filter (fun p => negb (is_posonly p)) (payload_params s)) = None).
    { apply (values_for_missing l _ p); auto. apply filter_In. rewrite Ep. auto. }
    destruct c; rewrite H; destruct (values_for l (filter is_posonly (payload_params s))); reflexivity.
Qed.

Theorem missing_required_fails_run c s l p :
  In p (payload_params s) -> lookup (pn p) l = None -> pdef p = None ->
  run_actor c s (Some l) = Rejected \/ run_actor c s (Some l) = Failed.
Proof.
  intros. unfold run_actor. destruct (negb (init_ok c s)); [left; reflexivity|].
  rewrite (missing_required_fails c s l p); auto.
Qed.

(* the pydantic converter also refuses an empty payload lacking a required parameter *)
Theorem pydantic_missing_required_fails_empty s p :
  In p (payload_params s) -> pdef p = None -> convert Pydantic s None = None.
Proof.
  intros Hin Hd. unfold convert.
  destruct (is_posonly p) eqn:Ep.
  - rewrite (values_for_missing [] _ p); auto. apply filter_In. auto.
  - assert (H : values_for [] (filter (fun p => negb (is_posonly p)) (payload_params s)) = None).
    { apply (values_for_missing [] _ p); auto. apply filter_In. rewrite Ep. auto. }
    rewrite H. destruct (values_for [] (filter is_posonly (payload_params s))); reflexivity.
Qed.

(* on signatures both accept, the two converters produce the same (args, kwargs) for every non-empty payload *)
Theorem converters_agree s l :
  has_varpos s = false -> has_varkw s = false -> convert Basic s (Some l) = convert Pydantic s (Some l).
Proof. intros Hp Hk. unfold convert. rewrite Hp, Hk. reflexivity. Qed.

(* hence the actor is called with equal arguments *)
Theorem converters_agree_run s l :
  has_varpos s = false -> has_varkw s = false -> run_actor Basic s (Some l) = run_actor Pydantic s (Some l).
Proof.
  intros Hp Hk. unfold run_actor, init_ok. rewrite Hp, Hk, (converters_agree s l Hp Hk). simpl.
  rewrite andb_true_r. reflexivity.
Qed.

(* declaration-time rejections *)
Theorem declaration_rejects_posonly_dependency c s p :
  In p s -> pdep p = true -> pk p = PosOnly -> forall pl, run_actor c s pl = Rejected.
Proof.
  intros Hin Hd Hk pl. unfold run_actor, init_ok.
  assert (E : existsb (fun p => pdep p && match pk p with PosOnly => true | _ => false end) s = true).
  { apply existsb_exists. exists p. rewrite Hd, Hk. auto. }
  rewrite E. reflexivity.
Qed.

Theorem declaration_rejects_var_under_pydantic s :
  has_varpos s = true \/ has_varkw s = true -> forall pl, run_actor Pydantic s pl = Rejected.
Proof.
  intros H pl. unfold run_actor, init_ok.
  destruct H as [H|H]; rewrite H; simpl; rewrite ?andb_false_r; reflexivity.
Qed.

(* ---- a job without arguments ---- *)
Lemma values_for_all_defaults ps :
  (forall p, In p ps -> pdef p <> None) -> exists vs, values_for [] ps = Some vs /\
     forall p, In p ps -> exists v, pdef p = Some v /\ In (pn p, v) vs.
Proof.
  induction ps as [|q ps IH]; simpl; intros H.
  - exists []. split; [reflexivity | intros p []].
  - destruct IH as (vs & Hvs & Hall); [intros p Hp; apply H; right; exact Hp|].
    unfold value_for. simpl. destruct (pdef q) as [d|] eqn:Ed; [|exfalso; apply (H q); auto].
    rewrite Hvs. exists ((pn q, d) :: vs). split; [reflexivity|].
    intros p [->|Hin]; [exists d; split; [exact Ed | left; reflexivity]|].
    destruct (Hall p Hin) as (v & Hv & Hi). exists v. split; [exact Hv | right; exact Hi].
Qed.

(* empty payload, every payload parameter defaulted: conversion succeeds under both converters *)
Theorem no_args_converts c s :
  (forall p, In p (payload_params s) -> pdef p <> None) -> exists a k, convert c s None = Some (a, k).
Proof.
  intros H. destruct c; simpl; [eexists; eexists; reflexivity|].
  destruct (values_for_all_defaults (filter is_posonly (payload_params s))) as (va & Ha & _).
  { intros p Hp. apply H. apply filter_In in Hp. tauto. }
  destruct (values_for_all_defaults (filter (fun p => negb (is_posonly p)) (payload_params s))) as (vk & Hk & _).
  { intros p Hp. apply H. apply filter_In in Hp. tauto. }
  unfold convert. rewrite Ha, Hk. eexists; eexists; reflexivity.
Qed.

(* ---- the *args catch-all after a positional-or-keyword parameter: extras collide (known finding) ---- *)
Theorem extras_to_varpos_after_keyword_refuted :
  exists s l, init_ok Basic s = true /\ (forall p, In p (payload_params s) -> lookup (pn p) l <> None) /\
              run_actor Basic s (Some l) = Failed.
Proof.
  exists [mkParam 1 PosOrKw None false; mkParam 2 VarPos None false], [(1, 10); (3, 30)].
  split; [reflexivity|]. split; [|vm_compute; reflexivity].
  intros p Hp. vm_compute in Hp. destruct Hp as [<-|[]]. vm_compute. discriminate.
Qed.

(* non-vacuity and sanity of the binding model *)
Example bind_examples :
  map bind_obs
    [ (Basic, [mkParam 1 PosOnly None false; mkParam 2 PosOrKw (Some 20) false; mkParam 3 VarKw None false], Some [(2, 5); (1, 4); (9, 90)]);
      (Basic, [mkParam 1 PosOnly None false; mkParam 4 VarPos None false; mkParam 2 KwOnly (Some 20) false], Some [(1, 4); (8, 80); (9, 90)]);
      (Pydantic, [mkParam 1 PosOrKw (Some 10) false; mkParam 5 KwOnly None true], None);
      (Basic, [mkParam 1 PosOrKw None false], Some [(2, 5)]);
      (Pydantic, [mkParam 1 PosOrKw None false; mkParam 2 VarKw None false], Some []) ]
  = [ [3; 2; 1; 4; 2; 5; 0; 1; 9; 90]; [3; 2; 1; 4; 2; 20; 2; 80; 90; 0]; [3; 2; 1; 10; 5; 7005; 0; 0]; [2]; [1] ].
Proof. vm_compute. reflexivity. Qed.
