(* Ladder.v — from an actor outcome to the broker call sequence.
   Mirrors repid/_processor.py: actor_run (75-143: Exception -> failure, _NoAction -> reporting_done),
   report_to_broker (145-172: retry -> reschedule -> ack -> nack), set_result_bucket (174-205),
   process (207-223: skip reporting after an eager response; report, then store the result). *)
From Repid Require Import Base Sched Handle.

(* how the actor body ended when no eager action ended it first.  Every kind of Exception
   (dependency failure, input conversion, TypeError at binding, actor raise, TimeoutError,
   output conversion) is FFail; the number identifies (str(exc), type name). *)
Inductive final := FReturn (v : Z) | FFail (e : Z).

Definition final_success (f : final) : bool := match f with FReturn _ => true | FFail _ => false end.

(* the decision ladder, first matching row *)
Inductive decision := DRetry (p' : params) | DResched (p' : params) | DAck | DNack.

Definition decide (pol : Z -> dur) (p : params) (success : bool) (now : time) : decision :=
  let tried := r_tried (p_retries p) in
  if negb success && (tried <? r_max (p_retries p))
  then DRetry (prepare_retry p now (pol (tried + 1)))
  else if is_recurring p then DResched (prepare_reschedule p now)
  else if success then DAck else DNack.

Definition decision_call (d : decision) : bcall :=
  match d with DRetry p' | DResched p' => BRequeue p' | DAck => BAck | DNack => BNack end.

Definition report (pol : Z -> dur) (p : params) (success : bool) (now : time) : bcall :=
  decision_call (decide pol p success now).

Definition final_store (p : params) (f : final) (ok : bool) : list ev :=
  match p_result p with
  | None => []
  | Some r =>
      match f with
      | FReturn v => [EStore true v None (res_ttl r) ok]
      | FFail e => [EStore false e (Some e) (res_ttl r) ok]
      end
  end.

(* process(): the actor makes `calls` through its MessageDependency (catching the exceptions the
   calls raise), then ends with `fin` unless an eager action ended it.  Without a results bucket
   broker the store step raises before any store call is made (Connection._rb), so nothing is logged. *)
Definition process (pol : Z -> dur) (now : time) (store_fails report_fails : bool)
                   (p : params) (rbb : bool) (calls : list (hcall * bool)) (fin : final) : list ev :=
  let '(_, evs, lft) := hrun pol now store_fails (h_init true Normal p rbb) calls in
  if lft then evs
  else
    let b := report pol p (final_success fin) now in
    if report_fails then evs ++ [EBrokerFail b]
    else evs ++ [EBroker b] ++ (if rbb then final_store p fin (negb store_fails) else []).

(* ---- retry chain of one scheduling: attempt outcomes with the instant of each report ---- *)
Fixpoint chain (pol : Z -> dur) (p : params) (outs : list (bool * time)) : list decision :=
  match outs with
  | [] => []
  | (succ, now) :: rest =>
      let d := decide pol p succ now in
      match d with
      | DRetry p' => d :: chain pol p' rest
      | _ => [d]
      end
  end.

Definition is_retry (d : decision) : bool := match d with DRetry _ => true | _ => false end.

(* ---- recurring chain: one entry per iteration = (finish instant, success) with no retries lft ---- *)
Fixpoint recur (p : params) (finishes : list time) : list params :=
  match finishes with
  | [] => []
  | now :: rest => let p' := prepare_reschedule p now in p' :: recur p' rest
  end.

(* ---------------- correspondence ---------------- *)
Record pcase := mkPCase {
  pc_p : params; pc_rbb : bool; pc_pol : policy; pc_now : time;
  pc_store_fails : bool; pc_report_fails : bool;
  pc_calls : list (hcall * bool); pc_fin : final }.

Definition pcase_obs (c : pcase) : list Z :=
  enc_evs (process (pol_fun (pc_pol c)) (pc_now c) (pc_store_fails c) (pc_report_fails c)
                   (pc_p c) (pc_rbb c) (pc_calls c) (pc_fin c)).

Definition enc_decision (d : decision) : list Z :=
  match d with
  | DRetry p' => 1 :: enc_params p'
  | DResched p' => 2 :: enc_params p'
  | DAck => [3]
  | DNack => [4]
  end.

Definition chain_obs (c : policy * params * list (bool * time)) : list Z :=
  let '(pl, p, outs) := c in flat_map enc_decision (chain (pol_fun pl) p outs).

Definition recur_obs (c : params * list time) : list Z :=
  let '(p, fs) := c in flat_map enc_params (recur p fs).
