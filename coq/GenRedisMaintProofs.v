(* GenRedisMaintProofs.v - the time-out test of RedisMessageBroker.maintenance at /repo's current source (GenRedisMaint.v,
   regenerated on every run) is RedisBroker.timed_out: strictly more than the execution timeout since the second the message was
   taken.  The seeded changes C03r, C14r and C03i (`.seconds` instead of the whole difference) all live in this one comparison. *)
From Coq Require Import Lia.
From Repid Require Import Base Sched RedisSrv RedisBroker GenRedisMaint.

Theorem gen_redis_timed_out_eq p start_s now :
  gen_redis_timed_out p start_s now = (p_timeout p <? now - start_s * usec_per_sec).
Proof. unfold gen_redis_timed_out, usec_per_sec. reflexivity. Qed.

Corollary gen_redis_timed_out_model e pcode p start_s now :
  zassoc pcode (ptab e) = Some p -> timed_out e pcode start_s now = gen_redis_timed_out p start_s now.
Proof. intros H. unfold timed_out. rewrite H, gen_redis_timed_out_eq. reflexivity. Qed.
