(* GenRabbitProofs.v - the expiration RabbitMessageBroker.enqueue computes at /repo's current source (GenRabbit.v, regenerated on
   every run) is the model's: whole milliseconds until the due time, rounded UP, and none (normal queue) when that is not
   positive.  RabbitBroker.expiration_of is this function applied to the parameters of the message. *)
From Coq Require Import Lia.
From Repid Require Import Base Sched GenSched GenSchedProofs AmqpSrv RabbitBroker GenRabbit.

Theorem gen_rabbit_expiration_eq p now :
  gen_rabbit_expiration p now =
  match wait_until p now with
  | Some d => let ms := ceil_ms (d - now) in if 0 <? ms then Some ms else None
  | None => None
  end.
Proof.
  unfold gen_rabbit_expiration, ceil_ms. rewrite gen_wait_until_rabbit_eq.
  destruct (wait_until p now) as [d|]; [|reflexivity]. cbv zeta.
  replace (- (d - now)) with (now - d) by lia. replace (1 * 1000) with 1000 by reflexivity. reflexivity.
Qed.

Corollary gen_rabbit_expiration_model e pcode p now :
  zassoc pcode (ptab e) = Some p -> expiration_of e pcode now = gen_rabbit_expiration p now.
Proof.
  intros H. unfold expiration_of, wait_of. rewrite H. rewrite gen_rabbit_expiration_eq. reflexivity.
Qed.

(* rounded up: the message never leaves the delayed queue before its due time, and at most a millisecond after it *)
Theorem gen_rabbit_expiration_covers p now d ms :
  wait_until p now = Some d -> gen_rabbit_expiration p now = Some ms -> d <= now + ms * 1000 < d + 1000.
Proof.
  intros Hw H. rewrite gen_rabbit_expiration_eq, Hw in H. cbv zeta in H. unfold ceil_ms in H.
  destruct (0 <? - (- (d - now) / 1000)) eqn:E; [|discriminate]. inversion H; subst; clear H.
  pose proof (Z.div_mod (- (d - now)) 1000 ltac:(lia)) as Hdm.
  pose proof (Z.mod_pos_bound (- (d - now)) 1000 ltac:(lia)) as Hb. lia.
Qed.
