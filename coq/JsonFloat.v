(* JsonFloat.v — a duration survives the float-seconds wire format (C07).
   timedelta.total_seconds() is the correctly rounded binary64 quotient RN(n / 10^6) of the microsecond count n;
   timedelta(seconds=d) for a float d is CPython's delta_new/accum: whole seconds floor(d), plus the fraction times 10^6
   rounded to binary64 and then to the nearest integer.  For 0 <= n < 2^32 * 10^6 (about 136 years) the round trip is
   exact, for every tie-breaking rule.  Uses Flocq (Core) and Coq's Reals: the axioms printed by Print Assumptions are
   those of the standard library's real numbers and classical logic. *)
From Coq Require Import ZArith Reals Lia Lra Psatz.
From Flocq Require Import Core.
Open Scope R_scope.
Definition fexp := FLT_exp (-1074) 53.
Definition RN := round radix2 fexp ZnearestE.
Lemma fexp_valid : Valid_exp fexp. Proof. apply FLT_exp_valid. unfold Prec_gt_0; lia. Qed.
#[local] Existing Instance fexp_valid.

Lemma RN_err x (e : Z) : (-1021 <= e)%Z -> Rabs x < bpow radix2 e -> Rabs (RN x - x) <= bpow radix2 (e - 54).
Proof.
  intros He Hx. destruct (Req_dec x 0) as [->|Hx0].
  { unfold RN. rewrite round_0 by apply valid_rnd_N. rewrite Rminus_0_r, Rabs_R0. apply bpow_ge_0. }
  eapply Rle_trans. { apply error_le_half_ulp. apply fexp_valid. }
  rewrite ulp_neq_0 by exact Hx0. unfold cexp.
  assert (Hm : (mag radix2 x <= e)%Z) by (apply mag_le_bpow; assumption).
  assert (Hf : (fexp (mag radix2 x) <= e - 53)%Z) by (unfold fexp, FLT_exp; lia).
  replace (e - 54)%Z with ((e - 53) + -1)%Z by lia. rewrite bpow_plus.
  replace (bpow radix2 (-1)) with (/2) by (simpl; unfold Z.pow_pos; simpl; lra).
  rewrite Rmult_comm. apply Rmult_le_compat_r; [lra|]. apply bpow_le. exact Hf.
Qed.
Lemma bpow22 : bpow radix2 (-22) = / 4194304.     Proof. simpl. unfold Z.pow_pos; simpl. reflexivity. Qed.
Lemma bpow34 : bpow radix2 (-34) = / 17179869184. Proof. simpl. unfold Z.pow_pos; simpl. reflexivity. Qed.
Lemma bpow32 : bpow radix2 32 = 4294967296.       Proof. simpl. unfold Z.pow_pos; simpl. lra. Qed.
Lemma bpow20 : bpow radix2 20 = 1048576.          Proof. simpl. unfold Z.pow_pos; simpl. lra. Qed.
Lemma int_format (q : Z) : (Z.abs q < 2 ^ 53)%Z -> generic_format radix2 fexp (IZR q).
Proof.
  intros Hq. replace (IZR q) with (F2R (Float radix2 q 0)) by (unfold F2R; simpl; lra).
  apply generic_format_F2R. intros Hq0. unfold cexp.
  assert (Hm : (mag radix2 (F2R (Float radix2 q 0)) <= 53)%Z).
  { apply mag_le_bpow. { unfold F2R; simpl. rewrite Rmult_1_r. apply IZR_neq; exact Hq0. }
    unfold F2R; simpl. rewrite Rmult_1_r, <- abs_IZR.
    change (bpow radix2 53) with (IZR (2 ^ 53)). apply IZR_lt. exact Hq. }
  unfold fexp, FLT_exp. lia.
Qed.
Definition us_of_float_seconds (d : R) : Z :=
  let s := Zfloor d in let f := d - IZR s in (s * 1000000 + ZnearestE (RN (1000000 * f)))%Z.
Theorem td_roundtrip_nonneg (n : Z) :
  (0 <= n < 4294967296 * 1000000)%Z -> us_of_float_seconds (RN (IZR n / 1000000)) = n.
Proof.
  intros Hn. set (q := (n / 1000000)%Z). set (r := (n mod 1000000)%Z).
  assert (Hqr : n = (q * 1000000 + r)%Z) by (unfold q, r; pose proof (Z.div_mod n 1000000); lia).
  assert (Hr : (0 <= r < 1000000)%Z) by (unfold r; apply Z.mod_pos_bound; lia).
  assert (Hq : (0 <= q < 4294967296)%Z) by (unfold q; split; [apply Z.div_pos; lia | apply Z.div_lt_upper_bound; lia]).
  set (x := IZR n / 1000000).
  assert (Hx : x = IZR q + IZR r / 1000000) by (unfold x; rewrite Hqr, plus_IZR, mult_IZR; field).
  assert (Hrq : 0 <= IZR r <= 999999) by (split; [apply (IZR_le 0) | apply (IZR_le r 999999)]; lia).
  assert (Hqq : 0 <= IZR q <= 4294967295) by (split; [apply (IZR_le 0) | apply (IZR_le q 4294967295)]; lia).
  assert (Hxb : Rabs x < bpow radix2 32) by (rewrite bpow32, Rabs_pos_eq; rewrite Hx; lra).
  pose proof (RN_err x 32 ltac:(lia) Hxb) as E1. simpl (32 - 54)%Z in E1. rewrite bpow22 in E1.
  set (d := RN x) in *. assert (Hd : Rabs (d - x) <= / 4194304) by exact E1. apply Rabs_le_inv in Hd.
  assert (Hlow : IZR q <= d).
  { unfold d, RN. rewrite <- (round_generic radix2 fexp ZnearestE (IZR q)).
    - apply round_le; [apply fexp_valid | apply valid_rnd_N | rewrite Hx; lra].
    - apply int_format. rewrite Z.abs_eq by lia. lia. }
  assert (Hfl : Zfloor d = q).
  { apply Zfloor_imp. rewrite plus_IZR. split; [exact Hlow|]. rewrite Hx in Hd. lra. }
  unfold us_of_float_seconds. rewrite Hfl. set (f := d - IZR q).
  assert (Hf : Rabs (1000000 * f - IZR r) <= 1000000 / 4194304) by (apply Rabs_le; unfold f; rewrite Hx in Hd; lra).
  apply Rabs_le_inv in Hf.
  assert (Hyb : Rabs (1000000 * f) < bpow radix2 20) by (rewrite bpow20; apply Rabs_lt; lra).
  pose proof (RN_err (1000000 * f) 20 ltac:(lia) Hyb) as E2. simpl (20 - 54)%Z in E2. rewrite bpow34 in E2.
  apply Rabs_le_inv in E2.
  assert (Hz : ZnearestE (RN (1000000 * f)) = r) by (apply Znearest_imp; apply Rabs_lt; lra).
  rewrite Hz. lia.
Qed.

(* in the vocabulary of Json.v *)
Theorem td_roundtrip (n : Z) : (0 <= n < 4294967296 * 1000000)%Z -> us_of_float_seconds (RN (IZR n / 1000000)) = n.
Proof. exact (td_roundtrip_nonneg n). Qed.
