(* RedisSrv.v — the subset of Redis the repid client uses, as an executable state machine.
   This is the description of the server the Redis theorems rest on (trusted; mirrored by harness/fakeredis.py, and the
   two are compared on the command stream of every recorded client run): commands execute one at a time; MULTI/EXEC
   executes its commands atomically; LPUSH inserts at the head, RPUSH at the tail; LRANGE takes inclusive, possibly
   negative indices; LREM with count -1 removes the occurrence nearest to the tail; ZADD sets (overwrites) the score; sorted
   sets are ordered by (score, member); ZRANGE BYSCORE -inf..max LIMIT offset num; HSETNX writes only an absent field;
   DEL removes the key; removing the last element removes the key.

   Keys are structured instead of textual (their textual form and its injectivity: Names.v).  Members (short message
   names "<topic>:<id>") are Z codes assigned by the harness in the lexicographic order of the names, so that the
   numeric order of codes is the server's order of members.  Payloads, parameter documents and markers are Z codes. *)
From Repid Require Import Base.

Inductive lkind := LNormal | LDead.
Record lkey := mkLK { lq : Z; lprio : Z; lkd : lkind }.                    (* q:<queue>:<prio>:(n|dead) *)
Inductive zkey := ZDelayed (q prio : Z) | ZProcessing.                       (* q:<queue>:<prio>:d , processing *)
Record hkey := mkHK { hq : Z; hprio : Z; hname : Z }.                       (* m:<queue>:<prio>:<topic>:<id> *)
Record hval := mkHV { h_payload : option Z; h_params : option Z; h_reject_to : option Z }.

Record srv := mkSrv {
  lists : list (lkey * list Z);            (* head first *)
  zsets : list (zkey * list (Z * Z));      (* (member, score), ordered by (score, member) *)
  hashes : list (hkey * hval)
}.
Definition srv0 : srv := mkSrv [] [] [].

Definition lkind_eqb (a b : lkind) : bool := match a, b with LNormal, LNormal | LDead, LDead => true | _, _ => false end.
Definition lkey_eqb (a b : lkey) : bool := (lq a =? lq b) && (lprio a =? lprio b) && lkind_eqb (lkd a) (lkd b).
Definition zkey_eqb (a b : zkey) : bool :=
  match a, b with
  | ZDelayed q p, ZDelayed q' p' => (q =? q') && (p =? p')
  | ZProcessing, ZProcessing => true
  | _, _ => false
  end.
Definition hkey_eqb (a b : hkey) : bool := (hq a =? hq b) && (hprio a =? hprio b) && (hname a =? hname b).

Fixpoint aget {K V} (eqb : K -> K -> bool) (k : K) (l : list (K * V)) : option V :=
  match l with [] => None | (k', v) :: r => if eqb k k' then Some v else aget eqb k r end.
Fixpoint aset {K V} (eqb : K -> K -> bool) (k : K) (v : V) (l : list (K * V)) : list (K * V) :=
  match l with [] => [(k, v)] | (k', v') :: r => if eqb k k' then (k, v) :: r else (k', v') :: aset eqb k v r end.
Definition adel {K V} (eqb : K -> K -> bool) (k : K) (l : list (K * V)) : list (K * V) :=
  filter (fun kv => negb (eqb k (fst kv))) l.

Definition get_list (s : srv) (k : lkey) : list Z := match aget lkey_eqb k (lists s) with Some l => l | None => [] end.
Definition get_zset (s : srv) (k : zkey) : list (Z * Z) := match aget zkey_eqb k (zsets s) with Some l => l | None => [] end.
Definition put_list (s : srv) (k : lkey) (l : list Z) : srv :=
  mkSrv (match l with [] => adel lkey_eqb k (lists s) | _ => aset lkey_eqb k l (lists s) end) (zsets s) (hashes s).
Definition put_zset (s : srv) (k : zkey) (z : list (Z * Z)) : srv :=
  mkSrv (lists s) (match z with [] => adel zkey_eqb k (zsets s) | _ => aset zkey_eqb k z (zsets s) end) (hashes s).

(* sorted sets *)
Definition zlt (a b : Z * Z) : bool := (snd a <? snd b) || ((snd a =? snd b) && (fst a <? fst b)).
Fixpoint zinsert (x : Z * Z) (z : list (Z * Z)) : list (Z * Z) :=
  match z with [] => [x] | y :: r => if zlt x y then x :: z else y :: zinsert x r end.
Definition zremove (m : Z) (z : list (Z * Z)) : list (Z * Z) := filter (fun e => negb (fst e =? m)) z.
Definition zmem (m : Z) (z : list (Z * Z)) : bool := existsb (fun e => fst e =? m) z.

(* LREM key -1 value: remove the occurrence nearest to the tail *)
Fixpoint remove_first (m : Z) (l : list Z) : list Z * bool :=
  match l with [] => ([], false) | x :: r => if x =? m then (r, true) else let '(r', b) := remove_first m r in (x :: r', b) end.
Definition remove_last (m : Z) (l : list Z) : list Z * bool := let '(r, b) := remove_first m (rev l) in (rev r, b).

(* LRANGE start end *)
Definition lrange (l : list Z) (start end_ : Z) : list Z :=
  let n := Z.of_nat (length l) in
  let st := if start <? 0 then Z.max (n + start) 0 else start in
  let en := Z.min (if end_ <? 0 then n + end_ else end_) (n - 1) in
  if (en <? st) || (n <=? st) then [] else firstn (Z.to_nat (en - st + 1)) (skipn (Z.to_nat st) l).

Inductive cmd :=
| HSetNX (k : hkey) (field : Z) (v : Z)              (* field: 1 payload, 2 parameters, 3 _reject_to *)
| HSet (k : hkey) (fields : list (Z * Z))
| HGet (k : hkey) (field : Z)
| HDel (k : hkey) (field : Z)
| DelH (k : hkey)
| LPush (k : lkey) (m : Z) | RPush (k : lkey) (m : Z)
| LRange (k : lkey) (start end_ : Z)
| LRem (k : lkey) (m : Z)                            (* count = -1 *)
| ZAdd (k : zkey) (m score : Z)
| ZRem (k : zkey) (m : Z)
| ZRangeByScore (k : zkey) (max offset num : Z)      (* -inf .. max LIMIT offset num *)
| ZRangeIdx (k : zkey) (start end_ : Z)
| ZScan (k : zkey)
| ScanM (m : Z).                                     (* SCAN MATCH m:*:<short name>: the hash keys of that message name *)

Definition hfield (v : hval) (f : Z) : option Z := if f =? 1 then h_payload v else if f =? 2 then h_params v else h_reject_to v.
Definition hwith (v : hval) (f x : Z) : hval :=
  if f =? 1 then mkHV (Some x) (h_params v) (h_reject_to v) else if f =? 2 then mkHV (h_payload v) (Some x) (h_reject_to v)
  else mkHV (h_payload v) (h_params v) (Some x).
Definition hwithout (v : hval) (f : Z) : hval :=
  if f =? 1 then mkHV None (h_params v) (h_reject_to v) else if f =? 2 then mkHV (h_payload v) None (h_reject_to v)
  else mkHV (h_payload v) (h_params v) None.
Definition hempty (v : hval) : bool := match h_payload v, h_params v, h_reject_to v with None, None, None => true | _, _, _ => false end.
Definition hnone : hval := mkHV None None None.

Definition opt_reply (o : option Z) : list Z := match o with Some x => [1; x] | None => [0] end.

(* one command: new state and the reply (as a list of numbers) *)
Definition exec (s : srv) (c : cmd) : srv * list Z :=
  match c with
  | HSetNX k f x =>
      let v := match aget hkey_eqb k (hashes s) with Some v => v | None => hnone end in
      match hfield v f with
      | Some _ => (s, [0])
      | None => (mkSrv (lists s) (zsets s) (aset hkey_eqb k (hwith v f x) (hashes s)), [1])
      end
  | HSet k fields =>
      let v := match aget hkey_eqb k (hashes s) with Some v => v | None => hnone end in
      let v' := fold_left (fun acc fx => hwith acc (fst fx) (snd fx)) fields v in
      (mkSrv (lists s) (zsets s) (aset hkey_eqb k v' (hashes s)),
       [Z.of_nat (length (filter (fun fx => match hfield v (fst fx) with None => true | Some _ => false end) fields))])
  | HGet k f => (s, opt_reply (match aget hkey_eqb k (hashes s) with Some v => hfield v f | None => None end))
  | HDel k f =>
      match aget hkey_eqb k (hashes s) with
      | Some v => match hfield v f with
                  | Some _ => let v' := hwithout v f in
                              (mkSrv (lists s) (zsets s) (if hempty v' then adel hkey_eqb k (hashes s) else aset hkey_eqb k v' (hashes s)), [1])
                  | None => (s, [0])
                  end
      | None => (s, [0])
      end
  | DelH k => match aget hkey_eqb k (hashes s) with
              | Some _ => (mkSrv (lists s) (zsets s) (adel hkey_eqb k (hashes s)), [1])
              | None => (s, [0])
              end
  | LPush k m => let l := m :: get_list s k in (put_list s k l, [Z.of_nat (length l)])
  | RPush k m => let l := get_list s k ++ [m] in (put_list s k l, [Z.of_nat (length l)])
  | LRange k a b => let r := lrange (get_list s k) a b in (s, Z.of_nat (length r) :: r)
  | LRem k m => let '(l, b) := remove_last m (get_list s k) in (put_list s k l, [enc_bool b])
  | ZAdd k m sc => let z := get_zset s k in (put_zset s k (zinsert (m, sc) (zremove m z)), [enc_bool (negb (zmem m z))])
  | ZRem k m => let z := get_zset s k in (put_zset s k (zremove m z), [enc_bool (zmem m z)])
  | ZRangeByScore k mx off num =>
      let sel := map fst (filter (fun e => snd e <=? mx) (get_zset s k)) in
      let r := firstn (Z.to_nat num) (skipn (Z.to_nat off) sel) in (s, Z.of_nat (length r) :: r)
  | ZRangeIdx k a b => let r := lrange (map fst (get_zset s k)) a b in (s, Z.of_nat (length r) :: r)
  | ZScan k => let z := get_zset s k in (s, Z.of_nat (length z) :: flat_map (fun e => [fst e; snd e]) z)
  | ScanM m => let ks := filter (fun k => hname k =? m) (map fst (hashes s)) in
               (s, Z.of_nat (length ks) :: flat_map (fun k => [hq k; hprio k]) ks)
  end.

(* MULTI/EXEC: all commands, atomically *)
Fixpoint exec_all (s : srv) (cs : list cmd) : srv * list Z :=
  match cs with
  | [] => (s, [])
  | c :: r => let '(s1, r1) := exec s c in let '(s2, r2) := exec_all s1 r in (s2, r1 ++ r2)
  end.

(* ---- correspondence: replay the command stream of a recorded run ---- *)
Definition enc_lkey (k : lkey) : list Z := [lq k; lprio k; match lkd k with LNormal => 0 | LDead => 1 end].
Definition enc_srv (s : srv) : list Z :=
  [Z.of_nat (length (lists s))] ++ flat_map (fun kl => enc_lkey (fst kl) ++ Z.of_nat (length (snd kl)) :: snd kl) (lists s) ++
  [Z.of_nat (length (zsets s))] ++
  flat_map (fun kz => (match fst kz with ZDelayed q p => [1; q; p] | ZProcessing => [2; 0; 0] end) ++
                      Z.of_nat (length (snd kz)) :: flat_map (fun e => [fst e; snd e]) (snd kz)) (zsets s) ++
  [Z.of_nat (length (hashes s))].

Fixpoint replay (s : srv) (steps : list (list cmd)) : list Z * srv :=
  match steps with
  | [] => ([], s)
  | cs :: r => let '(s1, rep) := exec_all s cs in let '(reps, s2) := replay s1 r in (rep ++ [-1] ++ reps, s2)
  end.

(* lists and sorted sets are compared in a canonical key order chosen by the harness: it sends the keys to list *)
Definition srv_obs (c : list (list cmd) * list lkey * list zkey) : list Z :=
  let '(steps, lks, zks) := c in
  let '(reps, s) := replay srv0 steps in
  reps ++ [-7] ++ flat_map (fun k => let l := get_list s k in Z.of_nat (length l) :: l) lks ++ [-8] ++
  flat_map (fun k => let z := get_zset s k in Z.of_nat (length z) :: flat_map (fun e => [fst e; snd e]) z) zks ++
  [-9; Z.of_nat (length (hashes s))].
