From Coq Require Import ZifyBool.
From Repid Require Import Base Sched MemBroker.

(* ================= counting ================= *)
Definition ind (b : bool) : Z := if b then 1 else 0.

Lemma cnt_nil i : cnt i [] = 0.  Proof. reflexivity. Qed.
Lemma cnt_cons i m l : cnt i (m :: l) = ind (is_id i m) + cnt i l.
Proof. unfold cnt. cbn [filter]. destruct (is_id i m); cbn [ind length]; [rewrite Nat2Z.inj_succ|]; lia. Qed.
Lemma cnt_app i a b : cnt i (a ++ b) = cnt i a + cnt i b.
Proof. unfold cnt. rewrite filter_app, app_length. lia. Qed.
Lemma cnt_nonneg i l : 0 <= cnt i l.  Proof. unfold cnt. lia. Qed.
Lemma cnt_single i m : cnt i [m] = ind (is_id i m).
Proof. rewrite cnt_cons, cnt_nil. lia. Qed.

Lemma is_id_with_stamp i m st : is_id i (with_stamp m st) = is_id i m.  Proof. reflexivity. Qed.
Lemma is_id_with_due i m d : is_id i (with_due m d) = is_id i m.  Proof. reflexivity. Qed.

Lemma cntP_app i a b : cntP i (a ++ b) = cntP i a + cntP i b.
Proof. unfold cntP. rewrite map_app. apply cnt_app. Qed.
Lemma cntP_cons i h l : cntP i (h :: l) = ind (is_id i (hd_msg h)) + cntP i l.
Proof. unfold cntP. simpl. apply cnt_cons. Qed.

Lemma cntD_cons i e d : cntD i (e :: d) = cnt i (de_msgs e) + cntD i d.
Proof. unfold cntD. simpl. apply cnt_app. Qed.
Lemma cntD_nil i : cntD i [] = 0.  Proof. reflexivity. Qed.

Lemma take_first_cnt i P l m r :
  take_first P l = Some (m, r) -> cnt i l = ind (is_id i m) + cnt i r.
Proof.
  revert m r. induction l as [|x l IH]; simpl; intros m r H; [discriminate|].
  destruct (P x).
  - inversion H; subst. apply cnt_cons.
  - destruct (take_first P l) as [[y r']|]; [|discriminate]. inversion H; subst.
    rewrite !cnt_cons, (IH _ _ eq_refl). lia.
Qed.

Lemma take_first_cntP i P l h r :
  take_first P l = Some (h, r) -> cntP i l = ind (is_id i (hd_msg h)) + cntP i r.
Proof.
  revert h r. induction l as [|x l IH]; simpl; intros h r H; [discriminate|].
  destruct (P x).
  - inversion H; subst. apply cntP_cons.
  - destruct (take_first P l) as [[y r']|]; [|discriminate]. inversion H; subst.
    rewrite !cntP_cons, (IH _ _ eq_refl). lia.
Qed.

Lemma take_first_sat {A} (P : A -> bool) l x r : take_first P l = Some (x, r) -> P x = true.
Proof.
  revert x r. induction l as [|y l IH]; simpl; intros x r H; [discriminate|].
  destruct (P y) eqn:E; [inversion H; subst; exact E|].
  destruct (take_first P l) as [[z r']|]; [|discriminate]. inversion H; subst. eapply IH; reflexivity.
Qed.

Lemma d_add_cnt i q k m d : cntD i (d_add q k m d) = cntD i d + ind (is_id i m).
Proof.
  induction d as [|e d IH]; simpl.
  - rewrite cntD_cons, cntD_nil. simpl. rewrite cnt_single. lia.
  - destruct ((de_queue e =? q) && (de_key e =? k)).
    + rewrite !cntD_cons. simpl. rewrite cnt_app, cnt_single. lia.
    + rewrite !cntD_cons, IH. lia.
Qed.

Lemma due_split_cnt i q now d mv keep :
  due_split q now d = (mv, keep) -> cntD i d = cnt i mv + cntD i keep.
Proof.
  revert mv keep. induction d as [|e d IH]; simpl; intros mv keep H.
  - inversion H; subst. reflexivity.
  - destruct (due_split q now d) as [mv0 keep0]. specialize (IH mv0 keep0 eq_refl).
    destruct ((de_queue e =? q) && (de_key e <? now)); inversion H; subst;
      rewrite ?cntD_cons, ?cnt_app, IH; lia.
Qed.

Lemma d_pop_cnt i q k d m d' :
  d_pop q k d = Some (m, d') -> cntD i d = ind (is_id i m) + cntD i d'.
Proof.
  revert m d'. induction d as [|e d IH]; simpl; intros m d' H; [discriminate|].
  destruct ((de_queue e =? q) && (de_key e =? k)).
  - destruct (de_msgs e) as [|x [|y ms]] eqn:E; [discriminate| |]; inversion H; subst;
      rewrite !cntD_cons, E; simpl; rewrite !cnt_cons, ?cnt_nil; lia.
  - destruct (d_pop q k d) as [[x r']|]; [|discriminate]. inversion H; subst.
    rewrite !cntD_cons, (IH _ _ eq_refl). lia.
Qed.

(* ================= live count per effect ================= *)
Lemma live_append_simple i s m : live i (append_simple s m) = live i s + ind (is_id i m).
Proof. unfold live, append_simple. simpl. rewrite cnt_app, cnt_single, is_id_with_stamp. lia. Qed.

Lemma live_fold_append i mv : forall s, live i (fold_left append_simple mv s) = live i s + cnt i mv.
Proof.
  induction mv as [|m mv IH]; intros s; simpl; [rewrite cnt_nil; lia|].
  rewrite IH, live_append_simple, cnt_cons. lia.
Qed.

Lemma live_put i s m now : live i (put s m now) = live i s + ind (is_id i m).
Proof.
  unfold put. destruct (wait_until (m_params m) now).
  - unfold live. simpl. rewrite d_add_cnt, is_id_with_due. lia.
  - rewrite live_append_simple, is_id_with_due. reflexivity.
Qed.

Lemma live_put_back i s h : live i (put_back s h) = live i s + ind (is_id i (hd_msg h)).
Proof.
  unfold put_back. destruct (hd_origin h).
  - apply live_append_simple.
  - unfold live. simpl. rewrite cnt_app, cnt_single. lia.
  - unfold live. simpl. rewrite d_add_cnt. lia.
Qed.

Lemma live_update i s q now : live i (update_delayed s q now) = live i s.
Proof.
  unfold update_delayed. destruct (due_split q now (delayed s)) as [mv keep] eqn:E.
  rewrite live_fold_append. unfold live. simpl. rewrite (due_split_cnt i _ _ _ _ _ E). lia.
Qed.

Lemma live_clk i s c : live i (mkS (simple s) (delayed s) (dead s) (processing s) (gone s) (stamp s) c) = live i s.
Proof. reflexivity. Qed.

Lemma cntP_nil i : cntP i [] = 0.  Proof. reflexivity. Qed.

Ltac lv := unfold live, set_processing in *; cbn [fst simple delayed dead processing] in *;
           rewrite ?cnt_app, ?cntP_app, ?cnt_single, ?cntP_cons, ?cntP_nil in *; cbn [hd_msg] in *.

(* the full turn of the waiting list: nothing appears, nothing disappears *)
Lemma scan_cnt i q topics now l d f k :
  scan q topics now l = (d, f, k) ->
  cnt i l = cnt i d + match f with Some m => ind (is_id i m) | None => 0 end + cnt i k.
Proof.
  revert d f k. induction l as [|m r IH]; cbn [scan]; intros d f k H.
  - inversion H; subst. rewrite !cnt_nil. lia.
  - destruct (scan q topics now r) as [[d0 f0] k0]. specialize (IH _ _ _ eq_refl).
    destruct (in_queue q m); [destruct (msg_overdue m now); [|destruct (topic_ok topics m)]|];
      inversion H; subst; rewrite ?cnt_cons, ?cnt_nil; lia.
Qed.

Lemma live_poll i s c q ct topics now upd : live i (fst (poll s c q ct topics now upd)) = live i s.
Proof.
  unfold poll.
  set (s1 := if upd then update_delayed s q now else s).
  assert (H1 : live i s1 = live i s) by (unfold s1; destruct upd; [apply live_update | reflexivity]).
  set (s2 := mkS (simple s1) (delayed s1) (dead s1) (processing s1) (gone s1) (stamp s1) (Z.max (clk s1) now)).
  assert (H2 : live i s2 = live i s) by (unfold s2; rewrite live_clk; exact H1).
  clearbody s2. clear H1. destruct ct.
  - destruct (scan q topics now (simple s2)) as [[d f] k] eqn:E.
    pose proof (scan_cnt i _ _ _ _ _ _ _ E) as Hc. destruct f as [m|]; lv; lia.
  - destruct (min_key q (delayed s2)) as [k|]; [|exact H2].
    destruct (d_pop q k (delayed s2)) as [[m d']|] eqn:E; [|exact H2].
    pose proof (d_pop_cnt i _ _ _ _ _ E) as Hc. lv. lia.
  - destruct (take_first (in_queue q) (dead s2)) as [[m rest]|] eqn:E; [|exact H2].
    pose proof (take_first_cnt i _ _ _ _ E) as Hc. lv. lia.
Qed.

Lemma live_set_processing i s p : live i (set_processing s p) = live i s - cntP i (processing s) + cntP i p.
Proof. unfold live, set_processing. simpl. lia. Qed.

Lemma live_finish_order i c q order : forall s, live i (finish_order s c q order) = live i s.
Proof.
  induction order as [|j r IH]; intros s; simpl; [reflexivity|].
  destruct (take_first _ (processing s)) as [[h p']|] eqn:E; [|apply IH].
  rewrite IH, live_put_back, live_set_processing, (take_first_cntP i _ _ _ _ E). lia.
Qed.

(* change of the live count of id j caused by one call *)
Definition delta (s : mstate) (o : op) (j : Z) : Z :=
  match o with
  | OPut m _ => ind (is_id j m)
  | OAck i q => match take_first (is_held i q) (processing s) with Some (h, _) => - ind (is_id j (hd_msg h)) | None => 0 end
  | ORequeue i q m' _ =>
      match take_first (is_held i q) (processing s) with Some (h, _) => - ind (is_id j (hd_msg h)) | None => 0 end + ind (is_id j m')
  | _ => 0
  end.

Theorem live_step s o j : live j (fst (step s o)) = live j s + delta s o j.
Proof.
  destruct o as [m now | i q | i q | i q | i q m' now | c q ct topics now upd | c q order]; simpl.
  - apply live_put.
  - destruct (take_first (is_held i q) (processing s)) as [[h p']|] eqn:E; simpl; [|lia].
    unfold live. simpl. rewrite (take_first_cntP j _ _ _ _ E). lia.
  - destruct (take_first (is_held i q) (processing s)) as [[h p']|] eqn:E; simpl; [|lia].
    unfold live. simpl. rewrite (take_first_cntP j _ _ _ _ E), cnt_app, cnt_single. lia.
  - destruct (take_first (is_held i q) (processing s)) as [[h p']|] eqn:E; simpl; [|lia].
    rewrite live_put_back, live_set_processing, (take_first_cntP j _ _ _ _ E). lia.
  - destruct (take_first (is_held i q) (processing s)) as [[h p']|] eqn:E; simpl.
    + rewrite live_put. unfold live. simpl. rewrite (take_first_cntP j _ _ _ _ E). lia.
    + rewrite live_put. lia.
  - rewrite live_poll. lia.
  - rewrite live_finish_order. lia.
Qed.

(* ================= C01: every message is in exactly one place ================= *)
(* well-behaved clients: fresh ids on enqueue; requeue keeps the id and acts on a held message *)
Definition wb (s : mstate) (o : op) : Prop :=
  match o with
  | OPut m _ => live (m_id m) s = 0
  | ORequeue i q m' _ => m_id m' = i /\ exists h p', take_first (is_held i q) (processing s) = Some (h, p')
  | _ => True
  end.

Definition Partition (s : mstate) : Prop := forall j, 0 <= live j s <= 1.

Lemma live_nonneg j s : 0 <= live j s.
Proof. unfold live, cntD, cntP. pose proof (cnt_nonneg j (simple s)). pose proof (cnt_nonneg j (flat_map de_msgs (delayed s))).
  pose proof (cnt_nonneg j (dead s)). pose proof (cnt_nonneg j (map hd_msg (processing s))). lia. Qed.

Lemma is_held_id i q h : is_held i q h = true -> m_id (hd_msg h) = i.
Proof. unfold is_held. lia. Qed.

Theorem partition_step s o : Partition s -> wb s o -> Partition (fst (step s o)).
Proof.
  intros HP Hwb j. pose proof (live_nonneg j (fst (step s o))) as Hn. split; [exact Hn|].
  rewrite live_step. specialize (HP j).
  destruct o as [m now | i q | i q | i q | i q m' now | c q ct topics now upd | c q order]; simpl in *; try lia.
  - unfold is_id. destruct (m_id m =? j) eqn:E; simpl; [|lia]. apply Z.eqb_eq in E. subst. lia.
  - destruct (take_first (is_held i q) (processing s)) as [[h p']|]; [|lia]. destruct (is_id j (hd_msg h)); simpl; lia.
  - destruct Hwb as (Hid & h & p' & E). rewrite E.
    pose proof (is_held_id _ _ _ (take_first_sat _ _ _ _ E)) as Hh.
    unfold is_id. rewrite Hid, Hh. lia.
Qed.

Fixpoint wb_run (s : mstate) (h : list op) : Prop :=
  match h with [] => True | o :: r => wb s o /\ wb_run (fst (step s o)) r end.

Theorem partition_run h : forall s, Partition s -> wb_run s h -> Partition (run s h).
Proof.
  induction h as [|o r IH]; intros s HP Hw; simpl; [exact HP|].
  destruct Hw as [Hw Hr]. apply IH; [apply partition_step; assumption | exact Hr].
Qed.

Lemma partition_s0 : Partition s0.
Proof. intros j. unfold live, s0. simpl. unfold cntD, cntP. simpl. rewrite !cnt_nil. lia. Qed.

(* for every finite history of well-behaved clients from the empty broker *)
Corollary partition_all h : wb_run s0 h -> Partition (run s0 h).
Proof. apply partition_run. apply partition_s0. Qed.

(* the live count is enqueues minus effective acknowledgements: nothing vanishes, nothing is duplicated *)
Fixpoint deltas (s : mstate) (h : list op) (j : Z) : Z :=
  match h with [] => 0 | o :: r => delta s o j + deltas (fst (step s o)) r j end.

Theorem live_run h : forall s j, live j (run s h) = live j s + deltas s h j.
Proof. induction h as [|o r IH]; intros s j; simpl; [lia|]. rewrite IH, live_step. lia. Qed.

(* ---- what each action does ---- *)
Definition holds (s : mstate) (i q : Z) (h : held) (p' : list held) : Prop :=
  take_first (is_held i q) (processing s) = Some (h, p').

Theorem ack_removes s i q h p' :
  holds s i q h p' -> live i s = 1 -> live i (fst (step s (OAck i q))) = 0 /\
  processing (fst (step s (OAck i q))) = p' /\ simple (fst (step s (OAck i q))) = simple s /\
  delayed (fst (step s (OAck i q))) = delayed s /\ dead (fst (step s (OAck i q))) = dead s.
Proof.
  intros Hh Hl. pose proof (live_step s (OAck i q) i) as H. simpl in *. unfold holds in Hh. rewrite Hh in *. simpl in *.
  pose proof (is_held_id _ _ _ (take_first_sat _ _ _ _ Hh)) as Hid. unfold is_id in H. rewrite Hid, Z.eqb_refl in H. simpl in H.
  repeat split; auto. lia.
Qed.

Theorem nack_dead_letters s i q h p' :
  holds s i q h p' ->
  dead (fst (step s (ONack i q))) = dead s ++ [hd_msg h] /\ processing (fst (step s (ONack i q))) = p' /\
  simple (fst (step s (ONack i q))) = simple s /\ delayed (fst (step s (ONack i q))) = delayed s.
Proof. intros Hh. unfold holds in Hh. simpl. rewrite Hh. simpl. auto. Qed.

Theorem reject_returns_to_origin s i q h p' :
  holds s i q h p' ->
  let s' := fst (step s (OReject i q)) in
  processing s' = p' /\
  match hd_origin h with
  | ONormal => simple s' = simple s ++ [with_stamp (hd_msg h) (stamp s)] /\ delayed s' = delayed s /\ dead s' = dead s
  | ODead => dead s' = dead s ++ [hd_msg h] /\ simple s' = simple s /\ delayed s' = delayed s
  | ODelayed k => delayed s' = d_add (m_queue (hd_msg h)) k (hd_msg h) (delayed s) /\ simple s' = simple s /\ dead s' = dead s
  end.
Proof.
  intros Hh. unfold holds in Hh. simpl. rewrite Hh. simpl. unfold put_back.
  destruct (hd_origin h); simpl; auto.
Qed.

(* requeue: the held message leaves, the replacement (same id, new payload and parameters) is filed by its
   new wait_until, in one atomic effect *)
Theorem requeue_replaces s i q m' now h p' :
  holds s i q h p' ->
  let s' := fst (step s (ORequeue i q m' now)) in
  processing s' = p' /\ dead s' = dead s /\
  match wait_until (m_params m') now with
  | Some d => delayed s' = d_add (m_queue m') d (with_due m' (Some d)) (delayed s) /\ simple s' = simple s
  | None => simple s' = simple s ++ [with_stamp (with_due m' None) (stamp s)] /\ delayed s' = delayed s
  end.
Proof.
  intros Hh. unfold holds in Hh. simpl. rewrite Hh. simpl. unfold put. simpl.
  destruct (wait_until (m_params m') now); simpl; auto.
Qed.

(* every broker call is a single atomic effect: a cancelled call has done all of it or nothing (the model has no
   intermediate state to be cut at); consume() is a sequence of polls, each atomic *)
Theorem call_atomic s o : forall cut : bool, (if cut then s else fst (step s o)) = s \/ (if cut then s else fst (step s o)) = fst (step s o).
Proof. intros [|]; auto. Qed.
