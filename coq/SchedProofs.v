From Coq Require Import ZifyBool.
From Repid Require Import Base Sched.
Ltac Zify.zify_post_hook ::= Z.to_euclidean_division_equations.

(* ---- back-off ---- *)
Lemma backoff_range minb maxb mult maxexp n :
  minb <= maxb -> minb <= backoff_s minb maxb mult maxexp n <= maxb.
Proof. unfold backoff_s. lia. Qed.

Lemma backoff_mono minb maxb mult maxexp n n' :
  0 < mult -> 0 <= maxexp -> 0 <= n -> n <= n' ->
  backoff_s minb maxb mult maxexp n <= backoff_s minb maxb mult maxexp n'.
Proof.
  intros Hm He Hn Hle. unfold backoff_s.
  assert (H2 : 2 ^ Z.min n maxexp <= 2 ^ Z.min n' maxexp) by (apply Z.pow_le_mono_r; lia).
  assert (H3 : mult * 2 ^ Z.min n maxexp <= mult * 2 ^ Z.min n' maxexp) by (apply Z.mul_le_mono_nonneg_l; lia).
  lia.
Qed.

Lemma backoff_representable minb maxb mult maxexp n :
  0 < minb -> minb <= maxb -> maxb <= 1000000000 ->
  0 < backoff_us minb maxb mult maxexp n <= timedelta_max_us.
Proof.
  intros H0 H1 H2. pose proof (backoff_range minb maxb mult maxexp n H1) as Hr.
  unfold backoff_us, usec_per_sec, timedelta_max_us. lia.
Qed.

(* the default policy is constant once the exponent is capped *)
Lemma backoff_capped minb maxb mult maxexp n n' :
  maxexp <= n -> maxexp <= n' -> backoff_s minb maxb mult maxexp n = backoff_s minb maxb mult maxexp n'.
Proof. intros. unfold backoff_s. replace (Z.min n maxexp) with maxexp by lia. replace (Z.min n' maxexp) with maxexp by lia. reflexivity. Qed.

(* ---- grid ---- *)
Lemma grid_bounds ts by_ now : 0 < by_ -> now < grid ts by_ now <= now + by_.
Proof.
  intros H. unfold grid.
  pose proof (Z.div_mod (now - ts) by_ ltac:(lia)) as Hdm.
  pose proof (Z.mod_pos_bound (now - ts) by_ H) as Hb.
  set (q := (now - ts) / by_) in *. set (r := (now - ts) mod by_) in *. nia.
Qed.

Lemma grid_on_grid ts by_ now : exists k, grid ts by_ now = ts + k * by_.
Proof. unfold grid. exists ((now - ts) / by_ + 1). lia. Qed.

(* the number of whole periods is the least one that lands after now *)
Lemma grid_least ts by_ now k : 0 < by_ -> now < ts + k * by_ -> grid ts by_ now <= ts + k * by_.
Proof.
  intros H Hk. unfold grid.
  pose proof (Z.div_mod (now - ts) by_ ltac:(lia)) as Hdm.
  pose proof (Z.mod_pos_bound (now - ts) by_ H) as Hb.
  set (q := (now - ts) / by_) in *. set (r := (now - ts) mod by_) in *.
  assert (q + 1 <= k) by nia. nia.
Qed.

Lemma compute_next_spec p now :
  compute_next p now =
  match d_until (p_delay p) with
  | Some u => if now <? u then Some u else grid_opt p now
  | None => grid_opt p now
  end.
Proof. reflexivity. Qed.

Lemma next_deferred p now u :
  d_until (p_delay p) = Some u -> now < u -> compute_next p now = Some u.
Proof. intros Hu Hlt. unfold compute_next. rewrite Hu. destruct (now <? u) eqn:E; [reflexivity|lia]. Qed.

Lemma next_not_deferred p now u by_ :
  d_until (p_delay p) = Some u -> u <= now -> d_by (p_delay p) = Some by_ ->
  compute_next p now = Some (grid (p_ts p) by_ now).
Proof.
  intros Hu Hle Hb. unfold compute_next, grid_opt. rewrite Hu, Hb.
  destruct (now <? u) eqn:E; [lia|reflexivity].
Qed.

Lemma next_periodic_bounds p now by_ t :
  d_by (p_delay p) = Some by_ -> 0 < by_ -> compute_next p now = Some t ->
  (exists u, d_until (p_delay p) = Some u /\ now < u /\ t = u) \/
  (now < t <= now + by_ /\ exists k, t = p_ts p + k * by_).
Proof.
  intros Hb Hpos. unfold compute_next, grid_opt. rewrite Hb.
  destruct (d_until (p_delay p)) as [u|].
  - destruct (now <? u) eqn:E; intros H; inversion H; subst.
    + left. exists t. repeat split; lia.
    + right. split; [apply grid_bounds; exact Hpos | apply grid_on_grid].
  - intros H; inversion H; subst. right. split; [apply grid_bounds; exact Hpos | apply grid_on_grid].
Qed.

(* ---- expiry ---- *)
Lemma overdue_def ts ttl now :
  overdue ts ttl now = true <-> exists t, ttl = Some t /\ now > ts + t.
Proof.
  unfold overdue. destruct ttl as [t|].
  - split; [intros H; exists t; split; [reflexivity|lia] | intros [t' [Ht Hgt]]; inversion Ht; subst; lia].
  - split; [discriminate | intros [t' [Ht _]]; discriminate].
Qed.

Lemma overdue_monotone ts ttl now now' :
  now <= now' -> overdue ts ttl now = true -> overdue ts ttl now' = true.
Proof. unfold overdue. destruct ttl; [lia | discriminate]. Qed.

Lemma overdue_boundary ts t : overdue ts (Some t) (ts + t) = false /\ overdue ts (Some t) (ts + t + 1) = true.
Proof. unfold overdue. lia. Qed.

(* non-vacuity *)
Example backoff_default_values :
  map (backoff_s 10 86400 5 15) [1; 2; 3; 14; 15; 16; 1000] = [10; 20; 40; 81920; 86400; 86400; 86400].
Proof. vm_compute. reflexivity. Qed.

Example grid_example : grid 0 10000000 13000000 = 20000000 /\ grid 0 10000000 20000000 = 30000000
                       /\ grid 5 10 (-17) = -15.
Proof. vm_compute. repeat split. Qed.
