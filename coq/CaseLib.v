(* CaseLib.v — helpers used by the generated correspondence files (coq/_cases/*.v).
   A case pairs a model input with the observation the implementation produced, encoded as list Z;
   bad_indices returns the positions at which the model's observation differs. *)
From Repid Require Import Base.

Fixpoint bad_from {I} (f : I -> list Z) (cases : list (I * list Z)) (k : Z) : list Z :=
  match cases with
  | [] => []
  | (i, o) :: rest =>
      if list_eqb Z.eqb (f i) o then bad_from f rest (k + 1) else k :: bad_from f rest (k + 1)
  end.

Definition bad_indices {I} (f : I -> list Z) (cases : list (I * list Z)) : list Z := bad_from f cases 0.

Lemma bad_from_nil {I} (f : I -> list Z) cases k :
  bad_from f cases k = [] -> forall i o, In (i, o) cases -> f i = o.
Proof.
  revert k; induction cases as [|[i0 o0] rest IH]; simpl; intros k H i o Hin; [contradiction|].
  destruct (list_eqb Z.eqb (f i0) o0) eqn:E; [|discriminate].
  destruct Hin as [Heq|Hin].
  - inversion Heq; subst. apply list_eqb_Z_eq. exact E.
  - eapply IH; eauto.
Qed.
