(* C03 - Stopping or killing a worker at any moment loses no message: the process-death clause, on the Redis client.
   Statements only; every proof is `exact <lemma>`. *)
From Repid Require Import Base Sched RedisSrv RedisBroker RedisProofs GenRedisMaint GenRedisMaintProofs.

(* maintenance gives a message marked as being processed back exactly when its execution timeout has elapsed since the
   (whole) second it was taken - not before *)
Theorem C03_redis_timed_out_iff : forall e pc p start_s now, zassoc pc (ptab e) = Some p ->
  (timed_out e pc start_s now = true <-> p_timeout p < now - start_s * usec_per_sec).
Proof. exact timed_out_iff. Qed.

Theorem C03_redis_maint_entry_decision : forall e s n start_s now k rest pc,
  filter (fun k => hname k =? n) (map fst (hashes s)) = k :: rest ->
  snd (exec s (HGet k F_PARAMS)) = [1; pc] ->
  snd (maint_entry e s n start_s now) = if timed_out e pc start_s now then [mkRK n (hq k) (hprio k)] else [].
Proof. exact maint_entry_decision. Qed.

(* ... and what it gives back is in exactly one deliverable place again, no longer marked (reject) *)
Theorem C03_redis_recovered_message_places : forall e k pcode marker now s, WF s -> occ (rk_name k) s = 1 -> held (rk_name k) s = 1 ->
  let s' := fst (exec_all s (reject_second e k pcode marker now)) in occ (rk_name k) s' = 1 /\ held (rk_name k) s' = 0.
Proof. exact reject_places. Qed.

(* end to end on the model: taken at second 2 by a worker that dies; execution timeout 600 s; maintenance 599 s later leaves
   it marked, maintenance 601 s later returns it to the waiting list, and it is delivered again *)
Theorem C03_redis_death_recovery :
  let '(s1, _, _) := run_api env2 srv0 (ROEnqueue (mkRK 1 1 5) 11 100 0) in
  let '(s2, t2, _) := run_api env2 s1 (ROTake 1 Normal [] 1 2000000) in
  let '(s3, _, _) := run_api env2 s2 (ROMaintenance 601000000) in
  let '(s4, _, _) := run_api env2 s3 (ROMaintenance 603000000) in
  let '(_, t5, _) := run_api env2 s4 (ROTake 1 Normal [] 1 604000000) in
  t2 = TMsg 1 11 100 /\ held 1 s3 = 1 /\ get_list s3 (mkLK 1 5 LNormal) = [] /\
  held 1 s4 = 0 /\ get_list s4 (mkLK 1 5 LNormal) = [1] /\ t5 = TMsg 1 11 100.
Proof. exact redis_death_recovery. Qed.

(* the time-out test of the model IS the comparison RedisMessageBroker.maintenance makes at /repo's current source (GenRedisMaint.v
   is regenerated from it on every run) *)
Theorem C03_redis_source_is_model_timed_out : forall e pcode p start_s now,
  zassoc pcode (ptab e) = Some p -> timed_out e pcode start_s now = gen_redis_timed_out p start_s now.
Proof. exact gen_redis_timed_out_model. Qed.

Print Assumptions C03_redis_timed_out_iff.
Print Assumptions C03_redis_maint_entry_decision.
Print Assumptions C03_redis_recovered_message_places.
Print Assumptions C03_redis_death_recovery.
Print Assumptions C03_redis_source_is_model_timed_out.
