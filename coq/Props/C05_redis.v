(* C05 - Delayed messages are never delivered early: the Redis client (one client, one call at a time) over the server model RedisSrv.v.
   Statements only; every proof is `exact <lemma>`. *)
From Repid Require Import Base Sched RedisSrv RedisBroker RedisProofs.

(* never early (since the fix recorded for C05: due times are stored rounded UP to the second) *)
Theorem C05_redis_due_score_not_early : forall p now0 now sc, wait_ts_s p now0 = Some sc -> sc <= now / usec_per_sec ->
  exists t, wait_until p now0 = Some t /\ t <= now.
Proof. exact redis_due_score_not_early. Qed.

(* the due-window query hands the normal consumer only members whose stored second is <= the whole second of now *)
Theorem C05_redis_due_window_scores : forall s q prio mx off num n,
  In n (tl (snd (exec s (ZRangeByScore (ZDelayed q prio) mx off num)))) ->
  exists sc, In (n, sc) (get_zset s (ZDelayed q prio)) /\ sc <= mx.
Proof. exact due_window_scores. Qed.

Print Assumptions C05_redis_due_score_not_early.
Print Assumptions C05_redis_due_window_scores.
