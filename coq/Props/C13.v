(* C13 - The stored result is the outcome of the latest execution.
   Statements only; every proof is `exact <lemma>`. *)
From Repid Require Import Base Sched Handle HandleProofs Ladder LadderProofs.

(* success flag, encoded value or exception text+type, configured ttl; the disposition precedes the store *)
Theorem C13_result_matches_outcome : forall pol now p fin r,
  p_result p = Some r ->
  process pol now false false p true [] fin =
    [EBroker (report pol p (final_success fin) now);
     match fin with FReturn v => EStore true v None (res_ttl r) true
                  | FFail e => EStore false e (Some e) (res_ttl r) true end].
Proof. exact result_matches_outcome. Qed.

(* each set_result overwrites what was remembered (with C16_callback_order: the store executed is the one set last) *)
Theorem C13_eager_result_last_set : forall pol now sf h v bf r,
  p_result (h_p h) = Some r -> h_rbb h = true ->
  hstep pol now sf h (HSetResult v) bf =
    (set_result_state h (length (h_cbs h), CbStore true v None) (true, Some v, None), [EDone], false).
Proof. exact hstep_set_result_position. Qed.

Theorem C13_disabled_writes_nothing : forall pol now sf rf p rbb calls fin,
  p_result p = None -> filter is_store (process pol now sf rf p rbb calls fin) = [].
Proof. exact disabled_writes_nothing. Qed.

(* a failure to store a result never changes the disposition, for every actor behaviour (eager or not) *)
Theorem C13_store_failure_harmless : forall pol now rf p rbb calls fin,
  filter is_broker_ok (process pol now true rf p rbb calls fin) =
  filter is_broker_ok (process pol now false rf p rbb calls fin).
Proof. exact store_failure_harmless. Qed.

(* each attempt overwrites *)
Theorem C13_latest_wins : forall stores id v, bucket_after (stores ++ [(id, v)]) id = Some v.
Proof. exact latest_wins. Qed.

Print Assumptions C13_result_matches_outcome.
Print Assumptions C13_eager_result_last_set.
Print Assumptions C13_disabled_writes_nothing.
Print Assumptions C13_store_failure_harmless.
Print Assumptions C13_latest_wins.
