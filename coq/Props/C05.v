(* C05 - Delayed messages are never delivered early and never forgotten (in-memory broker).
   Statements only; every proof is `exact <lemma>`. *)
From Repid Require Import Base Sched MemBroker MemProofs MemProofs2 MemProofs3.
From Repid Require Import GenSched GenSchedProofs.

(* in-memory broker, any reachable state, non-decreasing clock: a message handed to a normal consumer at now was filed under a next execution time strictly before now (microsecond resolution, hence also at millisecond resolution) *)
Theorem C05_mem_no_early_delivery : forall h c q topics now upd s' m d,
  clk (run s0 h) <= now -> poll (run s0 h) c q Normal topics now upd = (s', PDelivered m) -> m_due m = Some d -> d < now.
Proof. exact no_early_delivery_reachable. Qed.

(* the invariant behind it, preserved by every call (reject and finish return delayed messages to the delayed category: fix 60dc6fd) *)
Theorem C05_mem_due_invariant : forall s o, DueInv s -> DueInv (fst (step s o)).
Proof. exact DueInv_step. Qed.

(* until its due time a message is not in the waiting list: it is visible through the delayed category only *)
Theorem C05_mem_not_waiting_before_due : forall s m d, DueInv s -> In m (simple s) -> m_due m = Some d -> d < clk s.
Proof. exact not_waiting_before_due. Qed.

Theorem C05_mem_put_files_under_due : forall s m now,
  match wait_until (m_params m) now with
  | Some d => delayed (put s m now) = d_add (m_queue m) d (with_due m (Some d)) (delayed s) /\ simple (put s m now) = simple s
  | None => simple (put s m now) = simple s ++ [with_stamp (with_due m None) (stamp s)] /\ delayed (put s m now) = delayed s
  end.
Proof. exact put_files_under_due. Qed.

(* PARTIAL form of 'never forgotten': every update pass (first poll of each consume, then periodically) moves every entry past its due time; the bound on the number of polls between passes is observed on the real code, not proved *)
Theorem C05_mem_update_moves_all_due : forall s q now,
  DueInv s -> Forall (fun e => de_queue e = q -> now <= de_key e) (delayed (update_delayed s q now)).
Proof. exact update_moves_all_due. Qed.

(* the source is the model: generated from /repo's current source on every run (harness/translate.py), proved equal *)
Theorem C05_source_is_model_wait_until : forall p now, gen_wait_until_mem p now = wait_until p now.
Proof. exact gen_wait_until_mem_eq. Qed.

Print Assumptions C05_mem_no_early_delivery.
Print Assumptions C05_mem_due_invariant.
Print Assumptions C05_mem_not_waiting_before_due.
Print Assumptions C05_mem_put_files_under_due.
Print Assumptions C05_mem_update_moves_all_due.
Print Assumptions C05_source_is_model_wait_until.
