(* C03 - Stopping or killing a worker at any moment loses no message (in-memory broker).
   Statements only; every proof is `exact <lemma>`.  The theorems quantify over ALL event sequences accepted by the
   ownership model (Shutdown.v): the stop request, the forced cancellation and the consumers' shutdown may land on any
   atomic step of any phase of message handling (taken by the loop, payload fetch / actor body, inside the terminal broker
   call before or after its effect, result store), for any number of messages and any interleaving. *)
From Repid Require Import Base Runner RunnerProofs Shutdown ShutdownProofs.

(* at every moment every message exists exactly once: waiting, in flight, acknowledged, dead-lettered or requeued *)
Theorem C03_exactly_one_place : forall msgs es s m, NoDup msgs -> srun true (sinit msgs) es = Some s -> In m msgs -> copies m s = 1.
Proof. exact exactly_one_place. Qed.

(* after the run has finished its consumers: none is marked in flight, no task or loop holds anything, and every message it
   had taken is either fully disposed or back in the waiting list - never both, never neither (true since the fix recorded
   for C03) *)
Theorem C03_stop_no_loss : forall msgs es s, NoDup msgs -> srun true (sinit msgs) es = Some s -> finished s = true ->
  held s = [] /\ tasks s = [] /\ inloop s = [] /\
  forall m, In m msgs -> cntz m (waiting s) + cntz m (acked s) + cntz m (deadl s) + cntz m (requeued s) = 1.
Proof. exact stop_no_loss. Qed.

(* a processing task that has not made its terminal call holds a message that is still marked in flight: whoever is cut
   short (by cancellation) leaves it where reject / consumer.finish() find it *)
Theorem C03_owner_holds : forall msgs es s m p, NoDup msgs -> srun true (sinit msgs) es = Some s ->
  get_task m (tasks s) = Some p -> active p = true -> In m (held s).
Proof. exact owner_holds. Qed.

(* the invariant behind them, step by step *)
Theorem C03_invariant_step : forall msgs s e s', NoDup msgs -> SInv msgs s -> sstep true s e = Some s' -> SInv msgs s'.
Proof. exact SInv_step. Qed.

(* the shutdown order before the fix - consumers finished underneath the cancelled tasks - is refuted by a six-step witness:
   the message ends both returned to the queue and requeued *)
Theorem C03_shutdown_before_fix_refuted :
  exists es s, srun false (sinit [1]) es = Some s /\ finished s = true /\ copies 1 s = 2.
Proof. exact shutdown_before_fix_refuted. Qed.

(* the worker rejects only what is still marked in flight - never a message whose report to the broker has started (the Redis
   client's reject puts the name back whether the message is held or not; the model's reject does the same) *)
Theorem C03_reject_only_when_held : forall msgs es s m s', NoDup msgs -> srun true (sinit msgs) es = Some s ->
  (sstep true s (SRejectEffect m) = Some s' \/ sstep true s (SLoopGiveBack m) = Some s') -> In m (held s).
Proof. exact reject_only_when_held. Qed.

(* the runner before c813f53 cancelled-and-rejected a task inside or after its terminal call: acknowledged AND given back *)
Theorem C03_reject_after_ack_before_fix_refuted :
  exists es s, srun false (sinit [1]) es = Some s /\ cntz 1 (acked s) = 1 /\ cntz 1 (waiting s) = 1 /\ copies 1 s = 2.
Proof. exact reject_after_ack_before_fix_refuted. Qed.

(* slots: a task that ends in any way (return, exception, cancellation) gives its slot back and is counted once (C09) *)
Theorem C03_task_end_releases : forall s m s', Inv s -> step_ev s (EvTaskDone m) = Some s' ->
  processed s' = processed s + 1 /\ len (Runner.tasks s') = len (Runner.tasks s) - 1 /\
  value s' + slots_held (loops s') = value s + slots_held (loops s) + 1.
Proof. exact task_end_releases. Qed.

Print Assumptions C03_exactly_one_place.
Print Assumptions C03_stop_no_loss.
Print Assumptions C03_owner_holds.
Print Assumptions C03_invariant_step.
Print Assumptions C03_shutdown_before_fix_refuted.
Print Assumptions C03_task_end_releases.
Print Assumptions C03_reject_only_when_held.
Print Assumptions C03_reject_after_ack_before_fix_refuted.
