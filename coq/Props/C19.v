(* C19 — Schedule arithmetic is well-behaved for all inputs.
   This file contains statements only; every proof is `exact <lemma>`. *)
From Repid Require Import Base Sched SchedProofs GenSched GenSchedProofs.

(* back-off stays in [min_backoff, max_backoff] for every retry number *)
Theorem C19_backoff_range : forall minb maxb mult maxexp n,
  minb <= maxb -> minb <= backoff_s minb maxb mult maxexp n <= maxb.
Proof. exact backoff_range. Qed.

(* monotonically non-decreasing in the retry number *)
Theorem C19_backoff_mono : forall minb maxb mult maxexp n n',
  0 < mult -> 0 <= maxexp -> 0 <= n -> n <= n' ->
  backoff_s minb maxb mult maxexp n <= backoff_s minb maxb mult maxexp n'.
Proof. exact backoff_mono. Qed.

(* never overflows: the result is a representable positive timedelta (intermediates are unbounded ints) *)
Theorem C19_backoff_representable : forall minb maxb mult maxexp n,
  0 < minb -> minb <= maxb -> maxb <= 1000000000 ->
  0 < backoff_us minb maxb mult maxexp n <= timedelta_max_us.
Proof. exact backoff_representable. Qed.

(* now < next <= now + period, for every timestamp, now and positive period *)
Theorem C19_next_bounds : forall ts by_ now, 0 < by_ -> now < grid ts by_ now <= now + by_.
Proof. exact grid_bounds. Qed.

(* a whole number of periods after the time base *)
Theorem C19_next_on_grid : forall ts by_ now, exists k, grid ts by_ now = ts + k * by_.
Proof. exact grid_on_grid. Qed.

(* the first grid point after now: no slot is skipped needlessly *)
Theorem C19_next_least : forall ts by_ now k, 0 < by_ -> now < ts + k * by_ -> grid ts by_ now <= ts + k * by_.
Proof. exact grid_least. Qed.

(* equals deferred_until while that is still ahead *)
Theorem C19_next_deferred : forall p now u,
  d_until (p_delay p) = Some u -> now < u -> compute_next p now = Some u.
Proof. exact next_deferred. Qed.

(* the full case analysis for a periodic job *)
Theorem C19_next_periodic : forall p now by_ t,
  d_by (p_delay p) = Some by_ -> 0 < by_ -> compute_next p now = Some t ->
  (exists u, d_until (p_delay p) = Some u /\ now < u /\ t = u) \/
  (now < t <= now + by_ /\ exists k, t = p_ts p + k * by_).
Proof. exact next_periodic_bounds. Qed.

(* expiry is decided by now > timestamp + ttl *)
Theorem C19_overdue_def : forall ts ttl now,
  overdue ts ttl now = true <-> exists t, ttl = Some t /\ now > ts + t.
Proof. exact overdue_def. Qed.

Theorem C19_overdue_monotone : forall ts ttl now now',
  now <= now' -> overdue ts ttl now = true -> overdue ts ttl now' = true.
Proof. exact overdue_monotone. Qed.

(* ---- the source IS the model: the definitions generated from /repo's current source by harness/translate.py (GenSched.v,
   regenerated on every run) are equal to the hand-written ones every theorem above is about ---- *)
Theorem C19_source_is_model_is_overdue : forall p now, gen_is_overdue p now = overdue (p_ts p) (p_ttl p) now.
Proof. exact gen_is_overdue_eq. Qed.
(* "for messages, jobs and buckets alike": ArgsBucket.is_overdue, ResultBucket.is_overdue (repid/data/_buckets.py) and
   Job.is_overdue (repid/job.py) are translated as well, each over the (timestamp, ttl) pair of its own object *)
Theorem C19_source_is_model_args_bucket_is_overdue : forall p now, gen_args_bucket_is_overdue p now = overdue (p_ts p) (p_ttl p) now.
Proof. exact gen_args_bucket_is_overdue_eq. Qed.
Theorem C19_source_is_model_result_bucket_is_overdue : forall p now, gen_result_bucket_is_overdue p now = overdue (p_ts p) (p_ttl p) now.
Proof. exact gen_result_bucket_is_overdue_eq. Qed.
Theorem C19_source_is_model_job_is_overdue : forall p now, gen_job_is_overdue p now = overdue (p_ts p) (p_ttl p) now.
Proof. exact gen_job_is_overdue_eq. Qed.
Theorem C19_expiry_alike : forall p now,
  gen_is_overdue p now = gen_args_bucket_is_overdue p now /\ gen_is_overdue p now = gen_result_bucket_is_overdue p now /\
  gen_is_overdue p now = gen_job_is_overdue p now.
Proof. intros p now. rewrite gen_is_overdue_eq, gen_args_bucket_is_overdue_eq, gen_result_bucket_is_overdue_eq, gen_job_is_overdue_eq. auto. Qed.
Theorem C19_source_is_model_compute_next : forall p now, gen_compute_next p now = compute_next p now.
Proof. exact gen_compute_next_eq. Qed.
Theorem C19_source_is_model_prepare_reschedule : forall p now, gen_prepare_reschedule p now = prepare_reschedule p now.
Proof. exact gen_prepare_reschedule_eq. Qed.
Theorem C19_source_is_model_prepare_retry : forall p now back, gen_prepare_retry p now back = prepare_retry p now back.
Proof. exact gen_prepare_retry_eq. Qed.
Theorem C19_source_is_model_backoff : forall a b m e n, gen_backoff_us a b m e n = backoff_us a b m e n.
Proof. exact gen_backoff_eq. Qed.
Theorem C19_source_is_model_wait_until_mem : forall p now, gen_wait_until_mem p now = wait_until p now.
Proof. exact gen_wait_until_mem_eq. Qed.
Theorem C19_source_is_model_wait_until_rabbit : forall p now, gen_wait_until_rabbit p now = wait_until p now.
Proof. exact gen_wait_until_rabbit_eq. Qed.
Theorem C19_source_is_model_wait_timestamp_redis : forall p now, gen_wait_timestamp_redis p now = wait_ts_s p now.
Proof. exact gen_wait_timestamp_redis_eq. Qed.

Print Assumptions C19_backoff_range.
Print Assumptions C19_backoff_mono.
Print Assumptions C19_backoff_representable.
Print Assumptions C19_next_bounds.
Print Assumptions C19_next_on_grid.
Print Assumptions C19_next_least.
Print Assumptions C19_next_deferred.
Print Assumptions C19_next_periodic.
Print Assumptions C19_overdue_def.
Print Assumptions C19_overdue_monotone.
Print Assumptions C19_source_is_model_is_overdue.
Print Assumptions C19_source_is_model_compute_next.
Print Assumptions C19_source_is_model_prepare_reschedule.
Print Assumptions C19_source_is_model_prepare_retry.
Print Assumptions C19_source_is_model_backoff.
Print Assumptions C19_source_is_model_wait_until_mem.
Print Assumptions C19_source_is_model_wait_until_rabbit.
Print Assumptions C19_source_is_model_wait_timestamp_redis.
Print Assumptions C19_source_is_model_args_bucket_is_overdue.
Print Assumptions C19_source_is_model_result_bucket_is_overdue.
Print Assumptions C19_source_is_model_job_is_overdue.
Print Assumptions C19_expiry_alike.
