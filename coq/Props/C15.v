(* C15 - Within a queue and priority, delivery is first-in first-out (in-memory broker).
   Statements only; every proof is `exact <lemma>`. *)
From Repid Require Import Base Sched MemBroker MemProofs MemProofs2 MemProofs3.

(* any history, ANY number of consumers with any topic filters on the queue (since the full-turn poll, fix recorded for C11,
   nothing is rotated any more): the delivered message arrived in the waiting list before every message of the consumer's
   queue and topics still waiting; arrival = enqueue, return (reject/finish) or becoming due *)
Theorem C15_mem_fifo_delivery : forall q F h c now upd s' m,
  poll (run s0 h) c q Normal F now upd = (s', PDelivered m) ->
  Forall (fun m' => matchP q F m' = true -> m_stamp m < m_stamp m') (simple s').
Proof. exact fifo_delivery_reachable. Qed.

(* it is the OLDEST live message of its queue and topics: later arrivals cannot overtake a waiting message *)
Theorem C15_mem_fifo_oldest_first : forall q F s c now upd s' m,
  FifoInv s -> poll s c q Normal F now upd = (s', PDelivered m) ->
  forall m', In m' (simple (pre_poll s q now upd)) -> hit q F now m' = true -> m_stamp m <= m_stamp m'.
Proof. exact fifo_oldest_first. Qed.

(* the waiting list is in arrival order in every reachable state *)
Theorem C15_mem_fifo_invariant : forall s o, FifoInv s -> FifoInv (fst (step s o)).
Proof. exact FifoInv_step. Qed.

Theorem C15_mem_fifo_reachable : forall h, FifoInv (run s0 h).
Proof. exact FifoInv_all. Qed.

(* stamps are handed out in arrival order, so a returned message is ahead of everything enqueued after its return *)
Theorem C15_mem_stamps_increase : forall s m, stamp (append_simple s m) = stamp s + 1 /\
  exists m', simple (append_simple s m) = simple s ++ [m'] /\ m_stamp m' = stamp s /\ m_id m' = m_id m.
Proof. exact stamps_increase. Qed.

Print Assumptions C15_mem_fifo_delivery.
Print Assumptions C15_mem_fifo_invariant.
Print Assumptions C15_mem_fifo_oldest_first.
Print Assumptions C15_mem_fifo_reachable.
Print Assumptions C15_mem_stamps_increase.
