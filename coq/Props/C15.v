(* C15 - Within a queue and priority, delivery is first-in first-out (in-memory broker).
   Statements only; every proof is `exact <lemma>`. *)
From Repid Require Import Base Sched MemBroker MemProofs MemProofs2 MemProofs3.

(* one consumer (filter F) on queue q, any history: the delivered message arrived in the waiting list before every matching message still waiting; arrival = enqueue, return (reject/finish) or becoming due *)
Theorem C15_mem_fifo_delivery : forall q F h c now upd s' m,
  fifo_ok_run q F h -> poll (run s0 h) c q Normal F now upd = (s', PDelivered m) ->
  Forall (fun m' => matchP q F m' = true -> m_stamp m < m_stamp m') (simple s').
Proof. exact fifo_delivery_reachable. Qed.

Theorem C15_mem_fifo_invariant : forall q F s o, FifoInv q F s -> fifo_ok q F o -> FifoInv q F (fst (step s o)).
Proof. exact FifoInv_step. Qed.

(* stamps are handed out in arrival order, so a returned message is ahead of everything enqueued after its return *)
Theorem C15_mem_stamps_increase : forall s m, stamp (append_simple s m) = stamp s + 1 /\
  exists m', simple (append_simple s m) = simple s ++ [m'] /\ m_stamp m' = stamp s /\ m_id m' = m_id m.
Proof. exact stamps_increase. Qed.

Print Assumptions C15_mem_fifo_delivery.
Print Assumptions C15_mem_fifo_invariant.
Print Assumptions C15_mem_stamps_increase.
