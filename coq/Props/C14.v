(* C14 - A message is held by at most one consumer at a time (in-memory broker).
   Statements only; every proof is `exact <lemma>`. *)
From Repid Require Import Base Sched MemBroker MemProofs MemProofs2 MemProofs3.

(* any number of consumers, any interleaving of their (atomic) polls: what is delivered was held by nobody and is now held exactly once *)
Theorem C14_mem_exclusive_delivery : forall s c q ct topics now upd s' m,
  Partition s -> poll s c q ct topics now upd = (s', PDelivered m) ->
  cntP (m_id m) (processing s) = 0 /\ cntP (m_id m) (processing s') = 1.
Proof. exact exclusive_delivery. Qed.

(* a held message is delivered again only after it was returned (reject / requeue / finish of its holder move it out of processing) *)
Theorem C14_mem_held_not_redelivered : forall s c q ct topics now upd s' m i,
  Partition s -> 0 < cntP i (processing s) -> poll s c q ct topics now upd = (s', PDelivered m) -> m_id m <> i.
Proof. exact held_not_redelivered. Qed.

Theorem C14_mem_partition_reachable : forall h, wb_run s0 h -> Partition (run s0 h).
Proof. exact partition_all. Qed.

(* the shutdown of one consumer does not return messages held by others (true since fix 09419a9) *)
Theorem C14_mem_finish_keeps_others : forall c q order s h,
  In h (processing s) -> owned_by c q h = false -> In h (processing (finish_order s c q order)).
Proof. exact finish_keeps_others. Qed.

Theorem C14_mem_finish_returns_subset : forall c q order s h, In h (processing (finish_order s c q order)) -> In h (processing s).
Proof. exact finish_order_subset. Qed.

Print Assumptions C14_mem_exclusive_delivery.
Print Assumptions C14_mem_held_not_redelivered.
Print Assumptions C14_mem_partition_reachable.
Print Assumptions C14_mem_finish_keeps_others.
Print Assumptions C14_mem_finish_returns_subset.
