(* C09 - Concurrency never exceeds tasks_limit and the worker never stalls.
   Statements only; every proof is `exact <lemma>`.  The theorems quantify over ALL event sequences accepted by the
   worker model (Runner.v): every arrival pattern, every actor duration, every interleaving of queue loops, task
   completions, stop requests and cancellations. *)
From Repid Require Import Base Runner RunnerProofs.

(* every slot is free, with a running task, or with a loop about to spawn: value + tasks + held = tasks_limit, value >= 0 *)
Theorem C09_limiter_inv : forall lim mx qs es s, 0 <= lim -> NoDup qs -> run_ev (init lim mx qs) es = Some s ->
  value s + len (tasks s) + slots_held (loops s) = lim /\ 0 <= value s.
Proof. exact limiter_inv. Qed.

(* at no instant are more than tasks_limit processing tasks (hence actor invocations) in progress *)
Theorem C09_tasks_le_limit : forall lim mx qs es s, 0 <= lim -> NoDup qs -> run_ev (init lim mx qs) es = Some s -> len (tasks s) <= lim.
Proof. exact tasks_le_limit. Qed.

(* every way a task ends gives its slot back - to the first waiting loop, else to the pool - and is counted once *)
Theorem C09_task_end_releases : forall s m s', Inv s -> step_ev s (EvTaskDone m) = Some s' ->
  processed s' = processed s + 1 /\ len (tasks s') = len (tasks s) - 1 /\
  value s' + slots_held (loops s') = value s + slots_held (loops s) + 1.
Proof. exact task_end_releases. Qed.

(* consumption pauses exactly when the limiter is locked *)
Theorem C09_pause_iff_locked : forall s q m p, get_loop q (loops s) = Some (mkLoop q (LGot m) p) ->
  (step_ev s (EvPause q) <> None <-> locked s = true) /\ (step_ev s (EvAcquireFast q) <> None <-> locked s = false).
Proof. exact pause_iff_locked. Qed.

(* ... and resumes as soon as a slot frees: a release hands the slot to the first waiting loop at once *)
Theorem C09_release_wakes_first_waiter : forall s q w m p,
  waiters s = q :: w -> get_loop q (loops s) = Some (mkLoop q (LWaiting m) p) ->
  get_loop q (loops (release s)) = Some (mkLoop q (LGranted m) p) /\ waiters (release s) = w /\ value (release s) = value s.
Proof. exact release_wakes_first_waiter. Qed.

(* no lost wake-up: while a loop waits for a slot, either all tasks_limit slots are in use by tasks or by loops about to
   spawn (each of which releases one, and a release hands it to the first waiter at once), or a loop that was handed a slot
   has not resumed yet - CPython 3.12 keeps the semaphore locked for newcomers until it has - and when it resumes with a
   spare slot in the semaphore it passes that slot to the first waiter.  (The second alternative was missing from the
   model until the thorough tier produced a real trace with it: two tasks ending while one loop waits, a second loop
   arriving before the first has resumed.) *)
Theorem C09_no_lost_wakeup : forall lim mx qs es s, 0 < lim -> NoDup qs -> run_ev (init lim mx qs) es = Some s ->
  waiters s <> [] -> (value s = 0 /\ len (tasks s) + slots_held (loops s) = lim) \/ existsb is_granted (loops s) = true.
Proof. exact no_lost_wakeup. Qed.

Theorem C09_unpause_passes_spare_slot : forall s q m p s',
  get_loop q (loops s) = Some (mkLoop q (LGranted m) p) -> 0 < value s -> step_ev s (EvUnpause q) = Some s' ->
  s' = wake_next (upd s (value s) (waiters s) (set_loop q (LHold m) false (loops s)) (tasks s) (started s) (processed s) (stop s) (backlog s) (leaked s)).
Proof. exact unpause_passes_spare_slot. Qed.

Theorem C09_wake_grants_first_waiter : forall s q w m p,
  waiters s = q :: w -> get_loop q (loops s) = Some (mkLoop q (LWaiting m) p) ->
  get_loop q (loops (wake_next s)) = Some (mkLoop q (LGranted m) p) /\ waiters (wake_next s) = w /\ value (wake_next s) = value s - 1.
Proof. exact wake_grants_first_waiter. Qed.

(* progress (PARTIAL: enabledness, the fairness of the event loop is assumed): a loop that has work and is not waiting
   for a slot always has an enabled step - a deliverable message is taken, a taken message acquires or waits, a granted
   loop resumes, a loop holding a slot spawns (or gives the surplus message back) *)
Theorem C09_loop_not_stuck : forall s q l, get_loop q (loops s) = Some l ->
  match l_st l with
  | LIdle => forall m b', take_msg q (backlog s) = Some (m, b') -> l_paused l = false -> step_ev s (EvDeliver q m) <> None
  | LGot _ => step_ev s (EvAcquireFast q) <> None \/ step_ev s (EvPause q) <> None
  | LWaiting _ => True
  | LGranted _ => step_ev s (EvUnpause q) <> None
  | LHold _ => step_ev s (EvSpawn q) <> None \/ step_ev s (EvSurplus q) <> None
  | LRejecting _ => step_ev s (EvRejected q) <> None
  | LDone => True
  end.
Proof. exact loop_not_stuck. Qed.

(* a consumer whose pause() / unpause() are round trips (RabbitMQ's basic.qos): pause() on the wire changes only the consumer's
   flag; when it returns the loop queues up if the limiter is still locked and takes the slot at once if one has freed *)
Theorem C09_pause_start_keeps_going : forall s q m p s',
  get_loop q (loops s) = Some (mkLoop q (LGot m) p) -> step_ev s (EvPauseStart q) = Some s' ->
  get_loop q (loops s') = Some (mkLoop q (LGot m) true) /\ value s' = value s /\ waiters s' = waiters s /\
  (forall s2, get_loop q (loops s2) = Some (mkLoop q (LGot m) true) ->
     step_ev s2 (EvAcquireFast q) <> None \/ step_ev s2 (EvPause q) <> None).
Proof. exact pause_start_keeps_going. Qed.

(* ... the loop that never waited un-pauses its consumer before it spawns: the step is enabled, and there is no other way back
   to consumption - a paused consumer is never delivered from *)
Theorem C09_unpause_hold_enabled : forall s q m,
  get_loop q (loops s) = Some (mkLoop q (LHold m) true) ->
  exists s', step_ev s (EvUnpauseHold q) = Some s' /\ get_loop q (loops s') = Some (mkLoop q (LHold m) false) /\ value s' = value s.
Proof. exact unpause_hold_enabled. Qed.

Theorem C09_paused_consumer_never_delivers : forall s q st m,
  get_loop q (loops s) = Some (mkLoop q st true) -> step_ev s (EvDeliver q m) = None.
Proof. exact paused_consumer_never_delivers. Qed.

Theorem C09_suspending_pause_example :
  exists s, run_ev (init 1 None [1])
              [EvEnqueue 1 10; EvEnqueue 1 11; EvDeliver 1 10; EvAcquireFast 1; EvSpawn 1; EvDeliver 1 11; EvPauseStart 1;
               EvTaskDone 10; EvAcquireFast 1; EvUnpauseHold 1; EvSpawn 1; EvTaskDone 11] = Some s
            /\ started s = 2 /\ processed s = 2 /\ value s = 1 /\ get_loop 1 (loops s) = Some (mkLoop 1 LIdle false).
Proof. exact suspending_pause_example. Qed.

Print Assumptions C09_limiter_inv.
Print Assumptions C09_tasks_le_limit.
Print Assumptions C09_task_end_releases.
Print Assumptions C09_pause_iff_locked.
Print Assumptions C09_release_wakes_first_waiter.
Print Assumptions C09_no_lost_wakeup.
Print Assumptions C09_unpause_passes_spare_slot.
Print Assumptions C09_wake_grants_first_waiter.
Print Assumptions C09_loop_not_stuck.
Print Assumptions C09_pause_start_keeps_going.
Print Assumptions C09_unpause_hold_enabled.
Print Assumptions C09_paused_consumer_never_delivers.
Print Assumptions C09_suspending_pause_example.
