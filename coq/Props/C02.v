(* C02 - Every delivery ends in exactly one, correct disposition.
   Statements only; every proof is `exact <lemma>`. *)
From Repid Require Import Base Sched Handle HandleProofs Ladder LadderProofs GenSched GenLadder GenLadderProofs.

(* exactly one terminal action for every actor behaviour (any API call sequence, any ending, callbacks and result store failing or not); only a raising broker call is excluded *)
Theorem C02_process_one_terminal : forall pol now sf p rbb calls fin,
  no_faults calls = true -> count_broker (process pol now sf false p rbb calls fin) = 1%nat.
Proof. exact process_one_terminal. Qed.

(* nothing more after an eager response *)
Theorem C02_eager_nothing_more : forall pol now sf rf p rbb calls fin h evs,
  hrun pol now sf (h_init true Normal p rbb) calls = (h, evs, true) ->
  process pol now sf rf p rbb calls fin = evs.
Proof. exact eager_nothing_more. Qed.

Theorem C02_plain_actor_trace : forall pol now p fin,
  process pol now false false p true [] fin = EBroker (report pol p (final_success fin) now) :: final_store p fin true.
Proof. exact plain_actor_trace. Qed.

(* ack on success, retry-requeue on failure while retries remain, nack with none left, reschedule instead of ack/nack for recurring jobs *)
Theorem C02_disposition_table : forall pol p success now,
  let tried := r_tried (p_retries p) in let max := r_max (p_retries p) in
  ((exists p', decide pol p success now = DRetry p') <-> (success = false /\ tried < max)) /\
  ((exists p', decide pol p success now = DResched p') <-> (is_recurring p = true /\ (success = true \/ max <= tried))) /\
  (decide pol p success now = DAck <-> (success = true /\ is_recurring p = false)) /\
  (decide pol p success now = DNack <-> (success = false /\ max <= tried /\ is_recurring p = false)).
Proof. exact disposition_table. Qed.

(* the ladder `decide` the theorems above are about IS the branch structure of repid/_processor.py report_to_broker at /repo's
   current source: GenLadder.gen_decide is regenerated from it on every run (harness/translate.py) and proved equal *)
Theorem C02_source_is_model_ladder : forall pol p success now, gen_decide pol p success now = decide pol p success now.
Proof. exact gen_decide_eq. Qed.

Print Assumptions C02_process_one_terminal.
Print Assumptions C02_eager_nothing_more.
Print Assumptions C02_plain_actor_trace.
Print Assumptions C02_disposition_table.
Print Assumptions C02_source_is_model_ladder.
