(* C05 - Delayed messages are never delivered early and never forgotten: the RabbitMQ client (RabbitBroker.v) over the server description AmqpSrv.v
   (trusted, written from the RabbitMQ documentation; no server is available here to compare it with).
   Statements only; every proof is `exact <lemma>`. *)
From Repid Require Import Base Sched AmqpSrv RabbitBroker RabbitProofs GenSched GenRabbit GenRabbitProofs.

(* never early (since the fix recorded for C05: the TTL is rounded UP to the millisecond): a message whose due time d lies
   ahead goes to the delayed queue with a TTL that runs out at d or later ... *)
Theorem C05_rabbit_delay_covers_due : forall e now id topic q prio payload pcode d,
  wait_of e pcode now = Some d -> now < d ->
  exists ms, enqueue_meth e now id topic q prio payload pcode = Publish (mkQK q QDelayed) id prio topic q payload pcode (Some ms) /\
             d <= now + ms * 1000.
Proof. exact rabbit_delay_covers_due. Qed.

(* ... and leaves it only when that TTL has run out *)
Theorem C05_rabbit_expiry_not_early : forall s now s', expire_one s now = Some s' ->
  exists k m rest e, ready s k = m :: rest /\ a_expire m = Some e /\ e <= now.
Proof. exact rabbit_expiry_not_early. Qed.

Theorem C05_rabbit_immediate : forall e now id topic q prio payload pcode,
  (wait_of e pcode now = None \/ exists d, wait_of e pcode now = Some d /\ d <= now) ->
  enqueue_meth e now id topic q prio payload pcode = Publish (mkQK q QNormal) id prio topic q payload pcode None.
Proof. exact rabbit_immediate. Qed.

(* never forgotten: REFUTED (recorded finding) - TTLs run out at the head of the delayed queue only *)
Theorem C05_rabbit_delayed_head_of_line_refuted :
  snd (run_w env_w world0 h_delayed_hol) = [0; 0; 0; 0; 0; 0; 0; 1; 2] /\
  map a_id (ready (w_srv (fst (run_w env_w world0 (firstn 6 h_delayed_hol)))) (mkQK 1 QDelayed)) = [1; 2].
Proof. exact rabbit_delayed_head_of_line_refuted. Qed.

(* the expiration the model's enqueue files a delayed message under IS the one RabbitMessageBroker.enqueue computes at /repo's
   current source (GenRabbit.v is regenerated from it on every run): whole milliseconds, rounded up *)
Theorem C05_rabbit_source_is_model_expiration : forall e pcode p now,
  zassoc pcode (ptab e) = Some p -> expiration_of e pcode now = gen_rabbit_expiration p now.
Proof. exact gen_rabbit_expiration_model. Qed.

(* ... so the message leaves the delayed queue not before its due time and less than a millisecond after it *)
Theorem C05_rabbit_source_expiration_covers : forall p now d ms,
  wait_until p now = Some d -> gen_rabbit_expiration p now = Some ms -> d <= now + ms * 1000 < d + 1000.
Proof. exact gen_rabbit_expiration_covers. Qed.

Print Assumptions C05_rabbit_delay_covers_due.
Print Assumptions C05_rabbit_expiry_not_early.
Print Assumptions C05_rabbit_immediate.
Print Assumptions C05_rabbit_delayed_head_of_line_refuted.
Print Assumptions C05_rabbit_source_is_model_expiration.
Print Assumptions C05_rabbit_source_expiration_covers.
