(* C11 - A job reaches exactly the actor it names, only through that actor's queue.
   Statements only; every proof is `exact <lemma>`. *)
From Repid Require Import Base Sched Router RouterProofs MemBroker MemProofs MemProofs2.

(* every router reachable by ANY sequence of actor declarations (including overrides that change the queue) and
   inclusions lists a name under a queue iff that is the queue of the actor currently registered under the name
   (true since the fix recorded for C11) *)
Theorem C11_topics_by_queue_consistent : forall n ops, Forall Consistent (rrun n ops).
Proof. exact consistent_reachable. Qed.

Theorem C11_register_keeps_consistent : forall r a, Consistent r -> Consistent (register r a).
Proof. exact consistent_register. Qed.

Theorem C11_worker_consistent : forall rs, Consistent (worker_of rs).
Proof. exact consistent_worker. Qed.

(* including routers yields exactly the union of their actors, the last registration of a name winning *)
Theorem C11_include_union_last_wins : forall r r' n, Consistent r' ->
  find_actor n (actors (include r r')) = match find_actor n (actors r') with Some a => Some a | None => find_actor n (actors r) end.
Proof. exact include_union_last_wins. Qed.

Theorem C11_worker_actors_last_registration : forall rs n, find_actor n (actors (worker_of rs)) = find_last n (flat_map actors rs).
Proof. exact worker_actors. Qed.

Theorem C11_worker_union : forall rs n,
  find_actor n (actors (worker_of rs)) <> None <-> exists r, In r rs /\ find_actor n (actors r) <> None.
Proof. exact worker_union. Qed.

(* a worker runs function f for a job (topic t, queue q) iff the actor registered under t has queue q and function f *)
Theorem C11_dispatch_exact : forall w t q f, Consistent w ->
  (executes w t q = Some f <-> exists a, find_actor t (actors w) = Some a /\ a_queue a = q /\ a_fn a = f).
Proof. exact dispatch_exact. Qed.

(* otherwise it leaves the message alone *)
Theorem C11_dispatch_none : forall w t q, Consistent w ->
  (executes w t q = None <-> forall a, find_actor t (actors w) = Some a -> a_queue a <> q).
Proof. exact dispatch_none. Qed.

(* in-memory broker: what a consumer receives matches its queue and topic filter *)
Theorem C11_mem_delivered_matches : forall s c q topics now upd s' m,
  poll s c q Normal topics now upd = (s', PDelivered m) -> in_queue q m = true /\ topic_ok topics m = true.
Proof. exact delivered_matches. Qed.

(* in-memory broker: live messages of topics the consumer does not serve are untouched by its poll - the same records
   (payload, parameters) in the same order, still waiting, not dead-lettered, held by nobody - whatever else the poll did *)
Theorem C11_mem_foreign_untouched : forall s c q topics now upd,
  filter (foreign q topics now) (simple (fst (poll s c q Normal topics now upd))) =
  filter (foreign q topics now) (simple (pre_poll s q now upd)).
Proof. exact foreign_untouched. Qed.

(* ... and they never block it (since the fix recorded for C11; before it a foreign message at the head hid the ones behind
   it and two consumers could rotate the list in lock-step for ever): a poll delivers exactly when a live message of its
   queue and topics is waiting ANYWHERE in the list, and it delivers the first one *)
Theorem C11_mem_foreign_never_blocks : forall s c q topics now upd,
  snd (poll s c q Normal topics now upd) =
  match find (hit q topics now) (simple (pre_poll s q now upd)) with Some m => PDelivered m | None => PNone end.
Proof. exact foreign_never_blocks. Qed.

(* messages of other queues are not looked at *)
Theorem C11_mem_other_queues_untouched : forall s c q topics now upd q', q' <> q ->
  filter (in_queue q') (simple (fst (poll s c q Normal topics now upd))) = filter (in_queue q') (simple (pre_poll s q now upd)).
Proof. exact other_queues_untouched. Qed.

(* the registration as it was before the fix: a job sent to the OLD queue of an overridden name was executed by the
   new actor (which is registered for another queue) *)
Theorem C11_override_before_fix_refuted :
  find_actor 1 (actors w_before_fix) = Some (mkA 1 2 20) /\ executes w_before_fix 1 1 = Some 20 /\ ~ Consistent w_before_fix.
Proof. exact override_before_fix_refuted. Qed.

Print Assumptions C11_topics_by_queue_consistent.
Print Assumptions C11_register_keeps_consistent.
Print Assumptions C11_worker_consistent.
Print Assumptions C11_include_union_last_wins.
Print Assumptions C11_worker_actors_last_registration.
Print Assumptions C11_worker_union.
Print Assumptions C11_dispatch_exact.
Print Assumptions C11_dispatch_none.
Print Assumptions C11_mem_delivered_matches.
Print Assumptions C11_mem_foreign_untouched.
Print Assumptions C11_mem_foreign_never_blocks.
Print Assumptions C11_mem_other_queues_untouched.
Print Assumptions C11_override_before_fix_refuted.
