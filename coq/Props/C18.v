(* C18 - Dependencies resolve to exactly what their providers return.
   Statements only; every proof is `exact <lemma>`. *)
From Repid Require Import Base Sched Handle Ladder LadderProofs Bind BindProofs Deps DepsProofs.

(* for ANY acyclic graph (a rank decreasing along sub-dependency edges; any depth, fan-out, sharing), any providers:
   a dependency resolves to its provider applied - by keyword - to its own resolved sub-dependencies; if one of those
   failed, to that failure *)
Theorem C18_resolve_denotes : forall prov msgv st rk i n fuel,
  Ranked st rk -> nth_error st i = Some n -> (S (rk i) <= fuel)%nat ->
  fst (resolve prov msgv fuel st (DNode i)) =
  match collect (map (fun nd => (fst nd, fst (resolve prov msgv fuel st (snd nd)))) (n_subs n)) with
  | inl kwargs => prov (n_fn n) kwargs
  | inr e => e
  end.
Proof. exact resolve_denotes. Qed.

(* resolution of an acyclic graph terminates and its result does not depend on the recursion budget *)
Theorem C18_resolve_terminates : forall prov msgv st rk, Ranked st rk -> total_prov prov ->
  forall fuel d, (match d with DNode i => (i < length st)%nat | DMsg => True end) -> (depth rk d <= fuel)%nat ->
  fst (resolve prov msgv fuel st d) <> OutOfFuel.
Proof. exact resolve_terminates. Qed.

Theorem C18_resolve_fuel_independent : forall prov msgv st rk, Ranked st rk -> forall f1 f2 d,
  (depth rk d <= f1)%nat -> (depth rk d <= f2)%nat -> resolve prov msgv f1 st d = resolve prov msgv f2 st d.
Proof. exact fuel_indep. Qed.

(* the message dependency is the message handle of the delivery being processed *)
Theorem C18_message_dependency : forall prov msgv fuel st, fst (resolve prov msgv fuel st DMsg) = Ok msgv.
Proof. exact msg_dependency. Qed.

(* the actor receives, for each dependency parameter and under that parameter's name, exactly that resolution *)
Theorem C18_actor_receives : forall prov msgv fuel st deps kw,
  fst (actor_deps prov msgv fuel st deps) = inl kw ->
  map fst kw = map fst deps /\ Forall2 (fun nd kv => fst (resolve prov msgv fuel st (snd nd)) = Ok (snd kv)) deps kw.
Proof. exact actor_receives. Qed.

(* an override replaces the provider (and its sub-dependency set) for every later resolution, wherever the node is used *)
Theorem C18_override_everywhere : forall prov msgv st i f subs rk fuel,
  (i < length st)%nat -> Ranked (override st i f subs) rk -> (S (rk i) <= fuel)%nat ->
  fst (resolve prov msgv fuel (override st i f subs) (DNode i)) =
  match collect (map (fun nd => (fst nd, fst (resolve prov msgv fuel (override st i f subs) (snd nd)))) subs) with
  | inl kwargs => prov f kwargs
  | inr e => e
  end.
Proof. exact override_everywhere. Qed.

Theorem C18_override_keeps_other_nodes : forall st i f subs j, j <> i -> nth_error (override st i f subs) j = nth_error st j.
Proof. exact override_keeps_other_nodes. Qed.

(* a failing provider fails every dependency above it (whose provider is then not called) ... *)
Theorem C18_failure_skips_provider : forall prov msgv st i n fuel p d e,
  nth_error st i = Some n -> In (p, d) (n_subs n) -> fst (resolve prov msgv fuel st d) = Err e ->
  (forall x, In x (n_subs n) -> fst (resolve prov msgv fuel st (snd x)) <> OutOfFuel) ->
  (exists e', fst (resolve prov msgv (S fuel) st (DNode i)) = Err e') /\
  snd (resolve prov msgv (S fuel) st (DNode i)) = flat_map (fun x => snd (resolve prov msgv fuel st (snd x))) (n_subs n).
Proof. exact failure_skips_provider. Qed.

(* ... and the actor run *)
Theorem C18_actor_fails_if_a_provider_fails : forall prov msgv fuel st deps p d e,
  In (p, d) deps -> fst (resolve prov msgv fuel st d) = Err e ->
  (forall x, In x deps -> fst (resolve prov msgv fuel st (snd x)) <> OutOfFuel) ->
  exists e', fst (actor_deps prov msgv fuel st deps) = inr (Err e').
Proof. exact actor_fails_if_a_provider_fails. Qed.

(* which is a failed execution of the message: retry while retries remain, else nack, or reschedule if recurring *)
Theorem C18_provider_failure_is_actor_failure : forall pol p now e,
  let tried := r_tried (p_retries p) in let max := r_max (p_retries p) in
  process pol now false false p true [] (FFail e) = EBroker (report pol p false now) :: final_store p (FFail e) true /\
  (tried < max -> exists p', decide pol p false now = DRetry p') /\
  (max <= tried -> is_recurring p = false -> decide pol p false now = DNack) /\
  (max <= tried -> is_recurring p = true -> exists p', decide pol p false now = DResched p').
Proof. exact provider_failure_is_actor_failure. Qed.

(* unsupported declarations are refused when declared: accepted iff no dependency in a positional-only parameter and
   every non-dependency parameter of a provider has a default *)
Theorem C18_declaration_rejects_unsupported : forall ps, provider_check ps = None <-> Forall param_ok ps.
Proof. exact declaration_rejects_unsupported. Qed.

(* for actors (both converters): a dependency in a positional-only parameter is refused at declaration *)
Theorem C18_actor_declaration_rejects_posonly_dependency : forall c s p,
  In p s -> pdep p = true -> pk p = PosOnly -> forall pl, run_actor c s pl = Rejected.
Proof. exact BindProofs.declaration_rejects_posonly_dependency. Qed.

Print Assumptions C18_resolve_denotes.
Print Assumptions C18_resolve_terminates.
Print Assumptions C18_resolve_fuel_independent.
Print Assumptions C18_message_dependency.
Print Assumptions C18_actor_receives.
Print Assumptions C18_override_everywhere.
Print Assumptions C18_override_keeps_other_nodes.
Print Assumptions C18_failure_skips_provider.
Print Assumptions C18_actor_fails_if_a_provider_fails.
Print Assumptions C18_provider_failure_is_actor_failure.
Print Assumptions C18_declaration_rejects_unsupported.
Print Assumptions C18_actor_declaration_rejects_posonly_dependency.
