(* C12 - Expired messages are never executed; live ones are never dropped: the RabbitMQ client (RabbitBroker.v) over the server description AmqpSrv.v
   (trusted, written from the RabbitMQ documentation; no server is available here to compare it with).
   Statements only; every proof is `exact <lemma>`. *)
From Repid Require Import Base Sched AmqpSrv RabbitBroker RabbitProofs.

(* an expired message delivered to a normal consumer is never put into its buffer ... *)
Theorem C12_rabbit_expired_not_accepted : forall e w now d w',
  react e w now d = (w', RNone) ->
  forall c cs, cl_by_ctag (d_ctag d) (w_cl w) = Some (c, cs) -> cs_cat cs = Normal ->
  overdue_code e (a_pcode (d_msg d)) now = true ->
  w_cl w' = w_cl w /\ w_tags w' = w_tags w.
Proof. exact rabbit_expired_not_accepted. Qed.

(* ... it is nacked ... *)
Theorem C12_rabbit_expired_nacked : forall e w now d c cs,
  cl_by_ctag (d_ctag d) (w_cl w) = Some (c, cs) -> cs_cat cs = Normal -> cs_paused cs = false -> cs_consuming cs = true ->
  topic_ok (cs_topics cs) (a_topic (d_msg d)) = true -> overdue_code e (a_pcode (d_msg d)) now = true ->
  react e w now d = (w, RMeth (Nack (d_tag d))).
Proof. exact rabbit_expired_nacked. Qed.

(* ... and the nack moves it into <q>:dead, where a DEAD-category consumer receives it *)
Theorem C12_rabbit_nack_dead_letters : forall s now t u r,
  take_tag t (unacked s) = Some (u, r) -> qkd (u_q u) = QNormal -> declared s (mkQK (qnum (u_q u)) QDead) = true ->
  let s' := fst (exec s now (Nack t)) in
  unacked s' = r /\
  ready s' (mkQK (qnum (u_q u)) QDead) = enq (with_redel (with_expire (u_msg u) None) false) (ready s (mkQK (qnum (u_q u)) QDead)).
Proof. exact rabbit_nack_dead_letters. Qed.

Print Assumptions C12_rabbit_expired_not_accepted.
Print Assumptions C12_rabbit_expired_nacked.
Print Assumptions C12_rabbit_nack_dead_letters.
