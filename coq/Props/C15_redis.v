(* C15 - Within a queue and priority, delivery is first-in first-out: the Redis client (one client, one call at a time) over the server model RedisSrv.v.
   Statements only; every proof is `exact <lemma>`. *)
From Repid Require Import Base Sched RedisSrv RedisBroker RedisProofs.

(* since the fix recorded for C15: the list fetch returns the OLDEST waiting name whose topic is served - new messages are
   pushed at the head, returned ones at the tail - for EVERY list length, shorter or longer than the window of ten *)
Theorem C15_redis_take_list_oldest : forall e s q prio kd topics now_s fuel,
  (length (get_list s (mkLK q prio kd)) < 10 * fuel)%nat ->
  fst (fetch fuel e s q prio (SList kd) topics now_s 0) = find (matches e topics) (rev (get_list s (mkLK q prio kd))).
Proof. exact take_list_oldest. Qed.

Theorem C15_redis_tail_window : forall (l : list Z) (k : nat),
  lrange l (- (10 * Z.of_nat (S k))) (- (10 * Z.of_nat k) - 1) = rev (firstn 10 (skipn (10 * k) (rev l))).
Proof. exact lrange_tail_window. Qed.

Print Assumptions C15_redis_take_list_oldest.
Print Assumptions C15_redis_tail_window.
