(* C20 - The health endpoint tells the truth and cannot be knocked over.
   Statements only; every proof is `exact <lemma>`. *)
From Repid Require Import Base Http HttpProofs.

(* for every byte string (decodable or not) the handler either answers 200/503/404 or aborts that one connection; it has no other effect *)
Theorem C20_handle_total : forall ep h msg,
  handle ep h msg = Abort \/ handle ep h msg = Respond 200 \/ handle ep h msg = Respond 503 \/ handle ep h msg = Respond 404.
Proof. exact handle_total. Qed.

(* 200 (healthy) / 503 (unhealthy) iff the request line is GET <endpoint> *)
Theorem C20_status_iff : forall ep h m,
  handle ep h (Some m) = Respond (status_code h) <-> parse m = Some (GET, ep).
Proof. exact status_iff. Qed.

(* any other path or method answers 404 *)
Theorem C20_not_found_iff : forall ep h m,
  handle ep h (Some m) = Respond 404 <-> exists mt p, parse m = Some (mt, p) /\ (mt <> GET \/ p <> ep).
Proof. exact not_found_iff. Qed.

Theorem C20_abort_iff : forall ep h m, handle ep h (Some m) = Abort <-> parse m = None.
Proof. exact abort_iff. Qed.

Theorem C20_parse_sound : forall m mt p,
  parse m = Some (mt, p) ->
  exists headers body rest, m = headers ++ BLANK ++ body /\
     ((exists more, headers = (mt ++ [SP] ++ p ++ [SP] ++ rest) ++ CRLF ++ more) \/ headers = mt ++ [SP] ++ p ++ [SP] ++ rest).
Proof. exact parse_sound. Qed.

(* a well-formed GET on the endpoint is answered with the current status *)
Theorem C20_wellformed_get_answers_status : forall ep h ver body,
  ~ In SP ep -> ~ In CR ep -> ~ In CR ver ->
  handle ep h (Some ((GET ++ [SP] ++ ep ++ [SP] ++ ver) ++ BLANK ++ body)) = Respond (status_code h).
Proof. exact wellformed_get_answers_status. Qed.

(* whether a request is answered does not depend on the status, and the function has no state a request could change *)
Theorem C20_status_not_influenced : forall ep h m1 m2, handle ep h m2 = handle ep h m2 /\ (forall h', handle ep h' m1 = Abort <-> handle ep h m1 = Abort).
Proof. exact handle_pure. Qed.

Print Assumptions C20_handle_total.
Print Assumptions C20_status_iff.
Print Assumptions C20_not_found_iff.
Print Assumptions C20_abort_iff.
Print Assumptions C20_parse_sound.
Print Assumptions C20_wellformed_get_answers_status.
Print Assumptions C20_status_not_influenced.
