(* C12 - Expired messages are never executed; live ones are never dropped (in-memory broker).
   Statements only; every proof is `exact <lemma>`. *)
From Repid Require Import Base Sched MemBroker MemProofs MemProofs2 MemProofs3 Handle Ladder LadderProofs.
From Repid Require Import GenSched GenSchedProofs.

(* an expired message is never handed to a normal consumer (hence never to an actor) *)
Theorem C12_mem_no_expired_delivery : forall s c q topics now upd s' m,
  poll s c q Normal topics now upd = (s', PDelivered m) -> msg_overdue m now = false.
Proof. exact no_expired_delivery. Qed.

(* it ends in the dead-letter list (and is not among the messages the poll hands out) *)
Theorem C12_mem_expired_to_dead : forall s c q topics now upd m rest,
  take_first (in_queue q) (simple (pre_poll s q now upd)) = Some (m, rest) -> msg_overdue m now = true ->
  let s' := fst (poll s c q Normal topics now upd) in
  In m (dead s') /\ ~ In m (map hd_msg (skipn (length (processing s)) (processing s'))).
Proof. exact expired_to_dead. Qed.

(* where it stays retrievable *)
Theorem C12_mem_dead_retrievable : forall s c q topics now upd m rest,
  take_first (in_queue q) (dead s) = Some (m, rest) ->
  snd (poll s c q DeadC topics now upd) = PDelivered m.
Proof. exact dead_retrievable. Qed.

(* a message within its time-to-live (or without one) is never dead-lettered by a consumer: what a poll adds to the
   dead-letter list are expired messages only, and only a normal poll adds any; nothing is removed *)
Theorem C12_mem_live_not_dropped : forall s c q ct topics now upd,
  ct <> DeadC ->
  let s' := fst (poll s c q ct topics now upd) in
  exists d, dead s' = dead s ++ d /\ Forall (fun m => msg_overdue m now = true) d /\ (ct <> Normal -> d = []).
Proof. exact dead_only_grows_unless_dead_consumer. Qed.

(* exactly at the expiry instant the message is still live *)
Theorem C12_overdue_boundary : forall ts t, overdue ts (Some t) (ts + t) = false /\ overdue ts (Some t) (ts + t + 1) = true.
Proof. exact SchedProofs.overdue_boundary. Qed.

(* time-to-live counts from the latest scheduling *)
Theorem C12_reschedule_restarts_clock : forall p now t now',
  p_ttl p = Some t -> now' <= now + t ->
  overdue (p_ts (prepare_reschedule p now)) (p_ttl (prepare_reschedule p now)) now' = false.
Proof. exact reschedule_restarts_clock. Qed.

Theorem C12_retry_keeps_clock : forall p now back, p_ts (prepare_retry p now back) = p_ts p /\ p_ttl (prepare_retry p now back) = p_ttl p.
Proof. exact retry_keeps_clock. Qed.

(* the source is the model: generated from /repo's current source on every run (harness/translate.py), proved equal *)
Theorem C12_source_is_model_is_overdue : forall p now, gen_is_overdue p now = overdue (p_ts p) (p_ttl p) now.
Proof. exact gen_is_overdue_eq. Qed.

Print Assumptions C12_mem_no_expired_delivery.
Print Assumptions C12_mem_expired_to_dead.
Print Assumptions C12_mem_dead_retrievable.
Print Assumptions C12_mem_live_not_dropped.
Print Assumptions C12_overdue_boundary.
Print Assumptions C12_reschedule_restarts_clock.
Print Assumptions C12_retry_keeps_clock.
Print Assumptions C12_source_is_model_is_overdue.
