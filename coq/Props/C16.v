(* C16 - Message handles are single-use and respect their category.
   Statements only; every proof is `exact <lemma>`. *)
From Repid Require Import Base Sched Handle HandleProofs GenSched GenHandle GenHandleProofs.

(* in any sequence of API calls at most one broker call succeeds; once it has, the handle is read-only; a read-only handle never reaches the broker *)
Theorem C16_single_use : forall pol now sf cs h h' evs lft,
  hrun pol now sf h cs = (h', evs, lft) ->
  (count_broker evs <= 1)%nat /\ (h_ro h = false -> count_broker evs = 1%nat -> h_ro h' = true)
  /\ (h_ro h = true -> count_broker evs = 0%nat).
Proof. exact single_use. Qed.

(* afterwards every further action raises and touches nothing *)
Theorem C16_spent_handle_refuses : forall pol now sf h c bf,
  h_ro h = true -> is_terminal_api c = true -> hstep pol now sf h c bf = (h, [ERefused], false).
Proof. exact spent_handle_refuses. Qed.

(* a refusal (category, spent budget) or a failing broker call leaves the handle usable and unchanged *)
Theorem C16_refusal_keeps_handle : forall pol now sf h c bf h' evs lft,
  is_terminal_api c = true -> hstep pol now sf h c bf = (h', evs, lft) ->
  count_broker evs = 0%nat -> h' = h /\ lft = false.
Proof. exact refusal_keeps_handle. Qed.

(* nack, retry, force_retry are refused for messages taken from the delayed or dead categories *)
Theorem C16_category_rules : forall pol h now,
  h_cat h <> Normal ->
  wanted pol h HNack now = None /\ (forall d, wanted pol h (HRetry d) now = None)
  /\ (forall d, wanted pol h (HForceRetry d) now = None).
Proof. exact category_rules. Qed.

Theorem C16_category_allowed : forall pol h now,
  h_ro h = false ->
  wanted pol h HAck now = Some BAck /\ wanted pol h HReject now = Some BReject /\
  wanted pol h HReschedule now = Some (BRequeue (prepare_reschedule (h_p h) now)).
Proof. exact category_allowed. Qed.

(* retry is refused once the budget is spent *)
Theorem C16_retry_budget : forall pol h now d,
  r_max (p_retries (h_p h)) <= r_tried (p_retries (h_p h)) -> wanted pol h (HRetry d) now = None.
Proof. exact retry_budget. Qed.

Theorem C16_retry_within_budget : forall pol h now d,
  h_cat h = Normal -> h_ro h = false -> r_tried (p_retries (h_p h)) < r_max (p_retries (h_p h)) ->
  exists back, wanted pol h (HRetry d) now = Some (BRequeue (prepare_retry (h_p h) now back)).
Proof. exact retry_within_budget. Qed.

Theorem C16_force_retry_ignores_budget : forall pol h now d,
  h_cat h = Normal -> h_ro h = false ->
  exists back, wanted pol h (HForceRetry d) now = Some (BRequeue (prepare_retry (h_p h) now back)).
Proof. exact force_retry_ignores_budget. Qed.

(* after an eager action: broker call, then every callback in registration order with the store at the position of the latest set_* call (a failing callback does not stop the others), then _NoAction *)
Theorem C16_callback_order : forall pol now sf h c b,
  h_dep h = true -> is_terminal_api c = true -> wanted pol h c now = Some b ->
  let cbs := match h_lazy h with Some (pos, s) => insert_at pos s (h_cbs h) | None => h_cbs h end in
  exists s d e, hstep pol now sf h c false =
    (set_cbs (set_ro h) cbs, EBroker b :: map (cb_event (result_ttl (h_p h)) sf) cbs ++ [ENoAction s d e], true).
Proof. exact callback_order. Qed.

(* the rest of the actor body does not run *)
Theorem C16_eager_stops_body : forall pol now sf h cs1 cs2 h' evs,
  hrun pol now sf h cs1 = (h', evs, true) -> hrun pol now sf h (cs1 ++ cs2) = (h', evs, true).
Proof. exact eager_stops_body. Qed.

(* the guards, their order and the broker call of the six terminal methods ARE those of repid/message.py (and of the overrides in
   repid/dependencies/message_dependency.py) at /repo's current source: GenHandle.v is regenerated from them on every run
   (harness/translate.py, which also insists that the read-only flag is set right after the broker call and nowhere else) *)
Theorem C16_source_is_model_handle : forall pol h now, h_dep h = false ->
  gen_msg_ack (h_ro h) (h_cat h) (h_p h) now = wanted pol h HAck now /\
  gen_msg_nack (h_ro h) (h_cat h) (h_p h) now = wanted pol h HNack now /\
  gen_msg_reject (h_ro h) (h_cat h) (h_p h) now = wanted pol h HReject now /\
  gen_msg_reschedule (h_ro h) (h_cat h) (h_p h) now = wanted pol h HReschedule now /\
  (forall d, gen_msg_retry (h_ro h) (h_cat h) (h_p h) now d = wanted pol h (HRetry d) now) /\
  (forall d, gen_msg_force_retry (h_ro h) (h_cat h) (h_p h) now d = wanted pol h (HForceRetry d) now).
Proof. exact gen_msg_eq. Qed.

Theorem C16_source_is_model_dependency : forall pol h now, h_dep h = true ->
  gen_msg_ack (h_ro h) (h_cat h) (h_p h) now = wanted pol h HAck now /\
  gen_msg_nack (h_ro h) (h_cat h) (h_p h) now = wanted pol h HNack now /\
  gen_msg_reject (h_ro h) (h_cat h) (h_p h) now = wanted pol h HReject now /\
  gen_msg_reschedule (h_ro h) (h_cat h) (h_p h) now = wanted pol h HReschedule now /\
  (forall d, gen_dep_retry pol (h_ro h) (h_cat h) (h_p h) now d = wanted pol h (HRetry d) now) /\
  (forall d, gen_dep_force_retry pol (h_ro h) (h_cat h) (h_p h) now d = wanted pol h (HForceRetry d) now).
Proof. exact gen_dep_eq. Qed.

Theorem C16_source_is_model_default_success :
  gen_dep_default_success_ack = default_success HAck /\ gen_dep_default_success_nack = default_success HNack /\
  gen_dep_default_success_reject = default_success HReject /\ gen_dep_default_success_reschedule = default_success HReschedule /\
  (forall d, gen_dep_default_success_retry = default_success (HRetry d)) /\
  (forall d, gen_dep_default_success_force_retry = default_success (HForceRetry d)).
Proof. exact gen_dep_default_success_eq. Qed.

Print Assumptions C16_single_use.
Print Assumptions C16_spent_handle_refuses.
Print Assumptions C16_refusal_keeps_handle.
Print Assumptions C16_category_rules.
Print Assumptions C16_category_allowed.
Print Assumptions C16_retry_budget.
Print Assumptions C16_retry_within_budget.
Print Assumptions C16_force_retry_ignores_budget.
Print Assumptions C16_callback_order.
Print Assumptions C16_eager_stops_body.
Print Assumptions C16_source_is_model_handle.
Print Assumptions C16_source_is_model_dependency.
Print Assumptions C16_source_is_model_default_success.
