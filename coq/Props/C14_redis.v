(* C14 - A message is held by at most one consumer at a time: the Redis client (one client, one call at a time) over the server model RedisSrv.v.
   Statements only; every proof is `exact <lemma>`. *)
From Repid Require Import Base Sched RedisSrv RedisBroker RedisProofs RedisRun.

(* NOT exclusive under interleaving (recorded finding redis_double_delivery_two_consumers): two consumers read the same
   window before either removes the name: both transactions go through (the reply of LREM is not inspected) and both
   obtain the message.  For ONE consumer the take is exclusive (C01_redis_grab_places_list / _delayed). *)
Theorem C14_redis_double_delivery_refuted :
  let '(s1, _, _) := run_api env2 srv0 (ROEnqueue (mkRK 1 1 5) 11 100 0) in
  let a := fst (fetch 5 env2 s1 1 5 (SList LNormal) [] 1 0) in
  let b := fst (fetch 5 env2 s1 1 5 (SList LNormal) [] 1 0) in
  let '(s2, ra) := exec_all s1 (grab_cmds 1 5 (SList LNormal) 1 1) in
  let '(s3, rb) := exec_all s2 (grab_cmds 1 5 (SList LNormal) 1 1) in
  a = Some 1 /\ b = Some 1 /\ hd 9 ra = 1 /\ hd 9 rb = 0 /\
  snd (exec s3 (HGet (mkHK 1 5 1) F_PAYLOAD)) = [1; 11].
Proof. exact redis_double_delivery_refuted. Qed.

(* one client, any sequential history: a name is never in two places, and what a take hands out is marked as being processed
   exactly once - so it is in no list or sorted set from which a later take could hand it out again *)
Theorem C14_redis_sequential_one_place : forall e h, wb_rhist e srv0 h -> forall n, occ n (run_rops e srv0 h) <= 1.
Proof. exact redis_no_duplicates_from_empty. Qed.

Print Assumptions C14_redis_double_delivery_refuted.
Print Assumptions C14_redis_sequential_one_place.
