(* C17 - Middleware only observes.
   Statements only; every proof is `exact <lemma>`. *)
From Repid Require Import Base Mw MwProofs.

(* a wrapped operation that succeeds: one 'before' signal before it takes effect, one 'after' signal carrying the result,
   both to the subscribers of its own connection with its arguments by name; the operations nested inside emit nothing *)
Theorem C17_signals_exact_ok : forall subs n c pos kw ps ch v,
  let skw := signal_kwargs ps pos kw in
  let body := flat_map (fun x => fst (run subs true x)) ch in
  run subs false (Node n (Some c) pos kw ps ch (ORet v)) =
    (emit subs c (before_of n) skw ++ body ++ [EEff n (Some c) v] ++ emit subs c (after_of n) (dict_set RESULT v skw), ORet v)
  /\ filter is_sig body = [].
Proof. exact signals_exact_ok. Qed.

(* a wrapped operation that fails: the 'before' signal only, and the exception propagates *)
Theorem C17_signals_exact_fail : forall subs n c pos kw ps ch e,
  let skw := signal_kwargs ps pos kw in
  let body := flat_map (fun x => fst (run subs true x)) ch in
  run subs false (Node n (Some c) pos kw ps ch (ORaise e)) = (emit subs c (before_of n) skw ++ body, ORaise e)
  /\ filter is_sig body = [].
Proof. exact signals_exact_fail. Qed.

(* operations nested inside another wrapped operation emit nothing (any depth) *)
Theorem C17_nested_silent : forall subs t, filter is_sig (fst (run subs true t)) = [].
Proof. exact nested_silent. Qed.

(* whatever subscribers do - raise an Exception, accept any subset of the arguments, be absent -: same result, same
   exception, same effects in the same order (for every operation tree) *)
Theorem C17_noninterference : forall subs t b,
  snd (run subs b t) = snd (run [] b t) /\ effects (fst (run subs b t)) = effects (fst (run [] b t)).
Proof. exact noninterference. Qed.

(* a signal reaches only subscribers of that name on the connection the operation belongs to *)
Theorem C17_own_connection : forall subs c sg kw sid sg' kw',
  In (ESig sid sg' kw') (emit subs c sg kw) ->
  exists s, In s subs /\ s_id s = sid /\ s_conn s = c /\ s_signal s = sg /\ sg' = sg.
Proof. exact own_connection. Qed.

(* a subscriber is called with exactly the named arguments its signature accepts *)
Theorem C17_deliver_filtered : forall s sg kw sid sg' kw',
  In (ESig sid sg' kw') (deliver s sg kw) ->
  kw' = filter (fun kv => mem (fst kv) (s_accepts s)) kw /\ forall r, In r (s_required s) -> In r (map fst kw').
Proof. exact deliver_filtered. Qed.

(* arguments by name: positional arguments are named after the parameters they fill *)
Theorem C17_signal_kwargs_lookup : forall ps pos kw k,
  dget k (signal_kwargs ps pos kw) = match dget k (rev (zip_named ps pos)) with Some v => Some v | None => dget k kw end.
Proof. exact signal_kwargs_lookup. Qed.

(* ... so the positional and the keyword call style produce the same signal arguments *)
Theorem C17_style_independent : forall ps vals k, length vals = length ps -> NoDup ps ->
  dget k (signal_kwargs ps vals []) = dget k (signal_kwargs ps [] (zip_named ps vals)).
Proof. exact style_independent. Qed.

(* actor_run: for any history of processors created for any connections, a processor's signals go to its own connection
   (true since the fix recorded for C17) ... *)
Theorem C17_actor_run_emitter_own : forall created p c,
  NoDup (map fst created) -> In (p, c) created -> actor_run_emitter created p = Some c.
Proof. exact actor_run_emitter_own. Qed.

(* ... which the class-level wrapper used before the fix violated: with two connections alive the signals of the first
   processor went to the connection of the last one created *)
Theorem C17_actor_run_emitter_before_fix_refuted :
  exists created p c, NoDup (map fst created) /\ In (p, c) created /\ actor_run_emitter_old created p <> Some c.
Proof. exact actor_run_emitter_before_fix_refuted. Qed.

Print Assumptions C17_signals_exact_ok.
Print Assumptions C17_signals_exact_fail.
Print Assumptions C17_nested_silent.
Print Assumptions C17_noninterference.
Print Assumptions C17_own_connection.
Print Assumptions C17_deliver_filtered.
Print Assumptions C17_signal_kwargs_lookup.
Print Assumptions C17_style_independent.
Print Assumptions C17_actor_run_emitter_own.
Print Assumptions C17_actor_run_emitter_before_fix_refuted.
