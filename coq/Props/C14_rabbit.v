(* C14 - A message is held by at most one consumer at a time: the RabbitMQ client (RabbitBroker.v) over the server description AmqpSrv.v
   (trusted, written from the RabbitMQ documentation; no server is available here to compare it with).
   Statements only; every proof is `exact <lemma>`. *)
From Repid Require Import Base Sched AmqpSrv RabbitBroker RabbitProofs.

(* in a state where no id is in two places, what is delivered was unacknowledged by nobody; it is then unacknowledged under
   a fresh tag, i.e. out of every queue until its holder (or nobody else) acks, nacks or rejects it *)
Theorem C14_rabbit_exclusive_delivery : forall s s' d,
  (forall i, occ i s <= 1) -> deliver_one s = Some (s', d) -> cntu (a_id (d_msg d)) (unacked s) = 0.
Proof. exact rabbit_exclusive_delivery. Qed.

(* ... and that premise holds in every reachable state: no id is in two places, so a message held (unacknowledged) by a
   consumer is in no queue and cannot be delivered to another one *)
Theorem C14_rabbit_one_place_always : forall e h, wb_hist e world0 h -> forall i, occ i (w_srv (run_ops e world0 h)) <= 1.
Proof. exact rabbit_no_duplicates_from_empty. Qed.

Theorem C14_rabbit_fresh_tag : forall s s' d, TagsBelow s -> deliver_one s = Some (s', d) ->
  Forall (fun u => u_tag u <> d_tag d) (unacked s) /\ TagsBelow s'.
Proof. exact rabbit_fresh_tag. Qed.

Print Assumptions C14_rabbit_exclusive_delivery.
Print Assumptions C14_rabbit_fresh_tag.
Print Assumptions C14_rabbit_one_place_always.
