(* C04 - Retries are bounded, counted and backed off as configured.
   Statements only; every proof is `exact <lemma>`. *)
From Repid Require Import Base Sched Handle Ladder LadderProofs.
From Repid Require Import GenSched GenSchedProofs.

(* retries = N, every attempt failing: exactly N+1 executions (from tried = 0), then dead-letter or reschedule *)
Theorem C04_chain_all_fail : forall pol outs p,
  all_fail outs -> 0 <= r_tried (p_retries p) <= r_max (p_retries p) ->
  r_max (p_retries p) - r_tried (p_retries p) + 1 <= Z.of_nat (length outs) ->
  Z.of_nat (length (chain pol p outs)) = r_max (p_retries p) - r_tried (p_retries p) + 1 /\
  (last_decision (chain pol p outs) = DNack \/ exists p', last_decision (chain pol p outs) = DResched p' /\ is_recurring p = true).
Proof. exact chain_all_fail. Qed.

(* the counter grows and never exceeds N along a chain *)
Theorem C04_chain_counter : forall pol outs p d,
  r_tried (p_retries p) <= r_max (p_retries p) -> In d (chain pol p outs) ->
  match d with
  | DRetry p' => r_tried (p_retries p) < r_tried (p_retries p') <= r_max (p_retries p') /\ r_max (p_retries p') = r_max (p_retries p)
  | _ => True
  end.
Proof. exact chain_counter. Qed.

Theorem C04_chain_success_stops : forall pol p now rest,
  chain pol p ((true, now) :: rest) = [if is_recurring p then DResched (prepare_reschedule p now) else DAck].
Proof. exact chain_success_stops. Qed.

(* the k-th retry is due at failure instant + policy(k), counter + 1 *)
Theorem C04_retry_due : forall pol p now rest,
  r_tried (p_retries p) < r_max (p_retries p) ->
  exists p', chain pol p ((false, now) :: rest) = DRetry p' :: chain pol p' rest /\
             d_next (p_delay p') = Some (now + pol (r_tried (p_retries p) + 1)) /\
             r_tried (p_retries p') = r_tried (p_retries p) + 1.
Proof. exact retry_due. Qed.

(* every broker files the retry under that instant (delivery not before it: C05) *)
Theorem C04_retry_filed_under_due : forall p now back now', wait_until (prepare_retry p now back) now' = Some (now + back).
Proof. exact retry_filed_under_due. Qed.

(* Message.retry refuses when the budget is spent; force_retry does not (C16_force_retry_ignores_budget) *)
Theorem C04_retry_budget : forall pol h now d,
  r_max (p_retries (h_p h)) <= r_tried (p_retries (h_p h)) -> wanted pol h (HRetry d) now = None.
Proof. exact HandleProofs.retry_budget. Qed.

(* the source is the model: generated from /repo's current source on every run (harness/translate.py), proved equal *)
Theorem C04_source_is_model_prepare_retry : forall p now back, gen_prepare_retry p now back = prepare_retry p now back.
Proof. exact gen_prepare_retry_eq. Qed.
Theorem C04_source_is_model_backoff : forall a b m e n, gen_backoff_us a b m e n = backoff_us a b m e n.
Proof. exact gen_backoff_eq. Qed.

Print Assumptions C04_chain_all_fail.
Print Assumptions C04_chain_counter.
Print Assumptions C04_chain_success_stops.
Print Assumptions C04_retry_due.
Print Assumptions C04_retry_filed_under_due.
Print Assumptions C04_retry_budget.
Print Assumptions C04_source_is_model_prepare_retry.
Print Assumptions C04_source_is_model_backoff.
