(* C08 - Arguments bind to the actor signature identically under every converter.
   Statements only; every proof is `exact <lemma>`. *)
From Repid Require Import Base Bind BindProofs.

(* each parameter receives the payload entry of its name or else its declared default (values handed over by convert_inputs) *)
Theorem C08_value_is_entry_or_default : forall l p v,
  value_for l p = Some v -> lookup (pn p) l = Some v \/ (lookup (pn p) l = None /\ pdef p = Some v).
Proof. exact value_is_entry_or_default. Qed.

(* conversion hands over exactly one value per payload parameter, in signature order *)
Theorem C08_values_complete : forall l ps vs,
  values_for l ps = Some vs ->
  map fst vs = map pn ps /\
  forall p, In p ps -> exists v, In (pn p, v) vs /\ value_for l p = Some v.
Proof. exact values_for_spec. Qed.

(* a payload lacking a parameter without default fails the execution, under both converters (true for Basic since fix 4b2594b) *)
Theorem C08_missing_required_fails : forall c s l p,
  In p (payload_params s) -> lookup (pn p) l = None -> pdef p = None ->
  run_actor c s (Some l) = Rejected \/ run_actor c s (Some l) = Failed.
Proof. exact missing_required_fails_run. Qed.

Theorem C08_pydantic_missing_required_fails_empty : forall s p,
  In p (payload_params s) -> pdef p = None -> convert Pydantic s None = None.
Proof. exact pydantic_missing_required_fails_empty. Qed.

(* a job without arguments converts under both converters when every parameter has a default (true for Pydantic since fix 59e3a3e); that the call then binds the defaults is checked on the executable model against Python's binding *)
Theorem C08_no_args_converts : forall c s,
  (forall p, In p (payload_params s) -> pdef p <> None) -> exists a k, convert c s None = Some (a, k).
Proof. exact no_args_converts. Qed.

(* both converters call the actor with equal arguments on every payload *)
Theorem C08_converters_agree : forall s l,
  has_varpos s = false -> has_varkw s = false -> run_actor Basic s (Some l) = run_actor Pydantic s (Some l).
Proof. exact converters_agree_run. Qed.

Theorem C08_declaration_rejects_posonly_dependency : forall c s p,
  In p s -> pdep p = true -> pk p = PosOnly -> forall pl, run_actor c s pl = Rejected.
Proof. exact declaration_rejects_posonly_dependency. Qed.

Theorem C08_declaration_rejects_var_under_pydantic : forall s,
  has_varpos s = true \/ has_varkw s = true -> forall pl, run_actor Pydantic s pl = Rejected.
Proof. exact declaration_rejects_var_under_pydantic. Qed.

(* REFUTED (known finding varpos_extras_collide_with_keyword): def f(a, *args) with extra entries - the spilled extras collide with the keyword a *)
Theorem C08_extras_to_varpos_after_keyword_refuted : exists s l, init_ok Basic s = true /\ (forall p, In p (payload_params s) -> lookup (pn p) l <> None) /\
              run_actor Basic s (Some l) = Failed.
Proof. exact extras_to_varpos_after_keyword_refuted. Qed.

Print Assumptions C08_value_is_entry_or_default.
Print Assumptions C08_values_complete.
Print Assumptions C08_missing_required_fails.
Print Assumptions C08_pydantic_missing_required_fails_empty.
Print Assumptions C08_no_args_converts.
Print Assumptions C08_converters_agree.
Print Assumptions C08_declaration_rejects_posonly_dependency.
Print Assumptions C08_declaration_rejects_var_under_pydantic.
Print Assumptions C08_extras_to_varpos_after_keyword_refuted.
