(* C06 - Recurring jobs: exactly one successor per run, on a steady cadence.
   Statements only; every proof is `exact <lemma>`. *)
From Repid Require Import Base Sched SchedProofs Handle Ladder LadderProofs.
From Repid Require Import GenSched GenSchedProofs.

(* exactly one successor: the single terminal call (C02_process_one_terminal) is a requeue under the same id *)
Theorem C06_one_successor : forall pol p success now,
  is_recurring p = true -> (success = true \/ r_max (p_retries p) <= r_tried (p_retries p)) ->
  report pol p success now = BRequeue (prepare_reschedule p now).
Proof. exact one_successor. Qed.

(* retry counter reset, ttl clock restarted, everything else kept *)
Theorem C06_successor_reset : forall p now,
  let p' := prepare_reschedule p now in
  r_tried (p_retries p') = 0 /\ r_max (p_retries p') = r_max (p_retries p) /\ p_ts p' = now /\
  p_ttl p' = p_ttl p /\ p_timeout p' = p_timeout p /\ p_result p' = p_result p /\
  d_by (p_delay p') = d_by (p_delay p) /\ d_until (p_delay p') = d_until (p_delay p) /\
  d_next (p_delay p') = compute_next p now.
Proof. exact successor_reset. Qed.

(* strictly in the future, at most one period ahead *)
Theorem C06_successor_window : forall p now by_,
  d_by (p_delay p) = Some by_ -> 0 < by_ ->
  exists t, d_next (p_delay (prepare_reschedule p now)) = Some t /\
    ((exists u, d_until (p_delay p) = Some u /\ now < u /\ t = u) \/
     (now < t <= now + by_ /\ exists k, t = p_ts p + k * by_)).
Proof. exact successor_window. Qed.

Theorem C06_no_slot_twice : forall p now by_ sched,
  d_by (p_delay p) = Some by_ -> 0 < by_ -> sched <= now ->
  exists t, d_next (p_delay (prepare_reschedule p now)) = Some t /\ sched < t /\ now < t.
Proof. exact no_slot_twice. Qed.

Theorem C06_first_run_deferred : forall p now u,
  d_next (p_delay p) = None -> d_until (p_delay p) = Some u -> now < u -> wait_until p now = Some u.
Proof. exact first_run_deferred. Qed.

(* exact characterisation of 'at least one full period after the slot that just ran' *)
Theorem C06_cadence_iff : forall ts by_ sched now,
  0 < by_ -> ts < sched <= ts + by_ -> sched <= now ->
  (sched + by_ <= grid ts by_ now <-> by_ <= now - ts).
Proof. exact cadence_iff. Qed.

(* REFUTED full statement (known finding cadence_grid_anchored_at_timestamp) *)
Theorem C06_cadence_refuted : exists ts by_ sched now, 0 < by_ /\ ts < sched <= ts + by_ /\ sched <= now /\ grid ts by_ now < sched + by_.
Proof. exact cadence_refuted. Qed.

(* REFUTED, second pattern of the same finding: first slot = deferred_until, off the timestamp grid *)
Theorem C06_cadence_after_deferred_until_refuted : exists ts by_ sched now, 0 < by_ /\ ts < sched /\ sched <= now /\ grid ts by_ now < sched + by_.
Proof. exact cadence_after_deferred_until_refuted. Qed.

(* PARTIAL: a slot on the grid of the current time base is followed by a slot at least one period later, however late the run *)
Theorem C06_cadence_aligned : forall ts by_ k now,
  0 < by_ -> ts + k * by_ <= now -> ts + k * by_ + by_ <= grid ts by_ now.
Proof. exact cadence_aligned. Qed.

(* PARTIAL: holds when consecutive completions are at least one period apart *)
Theorem C06_cadence_partial : forall ts by_ sched now,
  0 < by_ -> ts < sched <= ts + by_ -> sched <= now -> by_ <= now - ts -> sched + by_ <= grid ts by_ now.
Proof. exact cadence_partial. Qed.

Theorem C06_reschedule_restarts_clock : forall p now t now',
  p_ttl p = Some t -> now' <= now + t ->
  overdue (p_ts (prepare_reschedule p now)) (p_ttl (prepare_reschedule p now)) now' = false.
Proof. exact reschedule_restarts_clock. Qed.

(* the source is the model: generated from /repo's current source on every run (harness/translate.py), proved equal *)
Theorem C06_source_is_model_compute_next : forall p now, gen_compute_next p now = compute_next p now.
Proof. exact gen_compute_next_eq. Qed.
Theorem C06_source_is_model_prepare_reschedule : forall p now, gen_prepare_reschedule p now = prepare_reschedule p now.
Proof. exact gen_prepare_reschedule_eq. Qed.

Print Assumptions C06_one_successor.
Print Assumptions C06_successor_reset.
Print Assumptions C06_successor_window.
Print Assumptions C06_no_slot_twice.
Print Assumptions C06_first_run_deferred.
Print Assumptions C06_cadence_iff.
Print Assumptions C06_cadence_refuted.
Print Assumptions C06_cadence_partial.
Print Assumptions C06_cadence_after_deferred_until_refuted.
Print Assumptions C06_cadence_aligned.
Print Assumptions C06_reschedule_restarts_clock.
Print Assumptions C06_source_is_model_compute_next.
Print Assumptions C06_source_is_model_prepare_reschedule.
