(* C03 - Stopping a worker at any moment loses no message: the hand-over of a message from a prefetching consumer (Redis,
   RabbitMQ) to the caller of consume(), with finish() and the cancellation of the caller landing on any step.
   Statements only; every proof is `exact <lemma>`.  The theorems quantify over ALL event sequences of Handover.v. *)
From Repid Require Import Base Handover HandoverProofs.

(* once finish() has returned, every message is back in its queue, dead-lettered or with the caller - or on a way that ends
   there by itself (a shielded nack on the wire; a RabbitMQ delivery being bounced, or pushed a moment ago and about to be;
   a consume() call in progress that is about to deliver).  The one exception is named: a consume() call cancelled while
   handing a message over AFTER finish() had collected *)
Theorem C03_handover_finish_clean : forall msgs expired pushing es s,
  hrun (hinit msgs expired pushing) es = Some s -> phase s = PDone ->
  forall m, In m msgs ->
    cust s m = CQueue \/ cust s m = CDead \/ cust s m = CCaller \/ cust s m = CNacking \/ cust s m = CBouncing \/
    (cust s m = CTaking1 /\ push s = true) \/
    (cust s m = CReturning /\ call s = true) \/ (cust s m = CUndelivered /\ late s = true).
Proof. exact handover_finish_clean. Qed.

(* under the worker's discipline (the queue loops have ended before the consumers are finished: no call in progress, none
   cancelled late) and with the nacks and bounces settled, nothing is in flight but what a caller received *)
Theorem C03_handover_quiescent : forall msgs expired pushing es s,
  hrun (hinit msgs expired pushing) es = Some s -> phase s = PDone -> call s = false -> late s = false ->
  (forall m, In m msgs -> cust s m <> CNacking /\ cust s m <> CBouncing /\ cust s m <> CTaking1) ->
  forall m, In m msgs -> cust s m = CQueue \/ cust s m = CDead \/ cust s m = CCaller.
Proof. exact handover_quiescent. Qed.

(* the transitional custodies are never resting places *)
Theorem C03_handover_bouncing_progress : forall s m, In m (ms s) -> cust s m = CBouncing ->
  exists s', hstep s (HBounceDone m) = Some s' /\ cust s' m = CQueue.
Proof. exact bouncing_progress. Qed.

Theorem C03_handover_pushed_after_finish_bounces : forall s m, In m (ms s) -> push s = true -> cust s m = CTaking1 -> bgrun s = false ->
  hstep s (HPushDone m) = None /\ hstep s (HTakeDone m) = None /\
  exists s', hstep s (HBounce m) = Some s' /\ cust s' m = CBouncing.
Proof. exact pushed_after_finish_bounces. Qed.

(* the invariant behind them, step by step *)
Theorem C03_handover_invariant_step : forall s e s', HInv s -> hstep s e = Some s' -> HInv s'.
Proof. exact HInv_step. Qed.

(* the exception can only be raised by exactly that event ... *)
Theorem C03_handover_late_only_by_late_cancel : forall s e s',
  hstep s e = Some s' -> late s = false -> late s' = true -> e = HCancelCall /\ coll s = true /\ none_in s (is_c CReturning) = false.
Proof. exact late_only_by_late_cancel. Qed.

(* ... and is real in the model (not reachable by a worker, whose loops end before its consumers are finished; the
   harness checks on every run that no late cancellation is observed) *)
Theorem C03_handover_late_cancel_refuted :
  exists es s, hrun (hinit [1] [] false) es = Some s /\ phase s = PDone /\ call s = false /\ cust s 1 = CUndelivered /\ late s = true.
Proof. exact late_cancel_refuted. Qed.

(* a nack on the wire completes *)
Theorem C03_handover_nacking_progress : forall s m, In m (ms s) -> cust s m = CNacking ->
  exists s', hstep s (HNackDone m) = Some s' /\ cust s' m = CDead.
Proof. exact nacking_progress. Qed.

(* premises are satisfiable: a run with a cancelled call, a take cut by finish() and three messages ends clean *)
Theorem C03_handover_example :
  exists s, hrun (hinit [1; 2; 3] [] false)
              [HTakeStart 1; HTakeApply 1; HTakeDone 1; HDetails 1; HPut 1; HCallStart; HCallGet 1; HCancelCall;
               HTakeStart 2; HTakeApply 2; HFinStart; HTakeDone 2; HFinCollect; HRejectDone 1; HRejectDone 2; HFinDone] = Some s
            /\ phase s = PDone /\ map (cust s) [1; 2; 3] = [CQueue; CQueue; CQueue] /\ late s = false.
Proof. exact collect_covers_taken. Qed.

(* RabbitMQ flavour of the example *)
Theorem C03_handover_push_example :
  exists s, hrun (hinit [1; 2; 3] [] true)
              [HPushStart 1; HPushDone 1; HPushStart 2; HPushDone 2; HCallStart; HCallGet 1; HCancelCall; HPushStart 3; HFinStart;
               HBounce 3; HFinCollect; HRejectDone 1; HRejectDone 2; HFinDone; HBounceDone 3] = Some s
            /\ phase s = PDone /\ map (cust s) [1; 2; 3] = [CQueue; CQueue; CQueue] /\ late s = false.
Proof. exact push_collect_example. Qed.

Print Assumptions C03_handover_finish_clean.
Print Assumptions C03_handover_bouncing_progress.
Print Assumptions C03_handover_pushed_after_finish_bounces.
Print Assumptions C03_handover_push_example.
Print Assumptions C03_handover_quiescent.
Print Assumptions C03_handover_invariant_step.
Print Assumptions C03_handover_late_only_by_late_cancel.
Print Assumptions C03_handover_late_cancel_refuted.
Print Assumptions C03_handover_nacking_progress.
Print Assumptions C03_handover_example.
