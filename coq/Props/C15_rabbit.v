(* C15 - Within a queue and priority, delivery is first-in first-out: the RabbitMQ client (RabbitBroker.v) over the server description AmqpSrv.v
   (trusted, written from the RabbitMQ documentation; no server is available here to compare it with).
   Statements only; every proof is `exact <lemma>`. *)
From Repid Require Import Base Sched AmqpSrv RabbitBroker RabbitProofs.

Theorem C15_rabbit_publish_behind : forall m l, psorted l -> filter (same_prio (a_prio m)) (enq m l) = filter (same_prio (a_prio m)) l ++ [m].
Proof. exact enq_fifo. Qed.

Theorem C15_rabbit_publish_other_priorities : forall m l p, p <> a_prio m -> filter (same_prio p) (enq m l) = filter (same_prio p) l.
Proof. exact enq_other_prio. Qed.

(* a returned message is delivered again no later than messages enqueued after its return: it goes to the front *)
Theorem C15_rabbit_returned_in_front : forall m l, psorted l -> filter (same_prio (a_prio m)) (enq_front m l) = m :: filter (same_prio (a_prio m)) l.
Proof. exact enq_front_first. Qed.

Theorem C15_rabbit_queues_stay_sorted : forall m l, psorted l -> psorted (enq m l) /\ psorted (enq_front m l).
Proof. exact enq_both_psorted. Qed.

Theorem C15_rabbit_delivered_is_oldest_of_highest : forall s s' d, deliver_one s = Some (s', d) ->
  exists k rest, ready s k = d_msg d :: rest /\
    (psorted (ready s k) -> Forall (fun y => a_prio y <= a_prio (d_msg d)) rest) /\
    filter (same_prio (a_prio (d_msg d))) (ready s k) = d_msg d :: filter (same_prio (a_prio (d_msg d))) rest.
Proof. exact delivered_is_oldest_of_highest. Qed.

Print Assumptions C15_rabbit_publish_behind.
Print Assumptions C15_rabbit_publish_other_priorities.
Print Assumptions C15_rabbit_returned_in_front.
Print Assumptions C15_rabbit_queues_stay_sorted.
Print Assumptions C15_rabbit_delivered_is_oldest_of_highest.
