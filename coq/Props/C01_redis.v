(* C01 - Broker operations never lose or duplicate a message: the Redis client (one client, one call at a time) over the server model RedisSrv.v.
   Statements only; every proof is `exact <lemma>`. *)
From Repid Require Import Base Sched RedisSrv RedisBroker RedisProofs RedisRun.

(* enqueue of a fresh name: exactly one place afterwards *)
Theorem C01_redis_enqueue_places : forall e k pl pc now s, WF s -> occ (rk_name k) s = 0 ->
  occ (rk_name k) (fst (exec_all s (hd [] (enqueue_prog e k pl pc now)))) = 1.
Proof. exact enqueue_places. Qed.

(* ack removes the held message *)
Theorem C01_redis_ack_places : forall k s, WF s -> occ (rk_name k) s = 1 -> held (rk_name k) s = 1 ->
  occ (rk_name k) (fst (exec_all s (hd [] (ack_prog k)))) = 0.
Proof. exact ack_places. Qed.

(* nack dead-letters it *)
Theorem C01_redis_nack_places : forall k s, WF s -> occ (rk_name k) s = 1 -> held (rk_name k) s = 1 ->
  let s' := fst (exec_all s (hd [] (nack_prog k))) in
  occ (rk_name k) s' = 1 /\ held (rk_name k) s' = 0 /\ cntl (rk_name k) (get_list s' (mkLK (rk_q k) (rk_prio k) LDead)) = 1.
Proof. exact nack_places. Qed.

(* requeue replaces it in ONE server transaction (atomic under cancellation) *)
Theorem C01_redis_requeue_places : forall e k pl pc now s, WF s -> occ (rk_name k) s = 1 -> held (rk_name k) s = 1 ->
  length (requeue_prog e k pl pc now) = 1%nat /\
  let s' := fst (exec_all s (hd [] (requeue_prog e k pl pc now))) in occ (rk_name k) s' = 1 /\ held (rk_name k) s' = 0.
Proof. exact requeue_places. Qed.

(* reject returns it (dead list if it came from there, else waiting list / delayed set by its parameters) *)
Theorem C01_redis_reject_places : forall e k pcode marker now s, WF s -> occ (rk_name k) s = 1 -> held (rk_name k) s = 1 ->
  let s' := fst (exec_all s (reject_second e k pcode marker now)) in occ (rk_name k) s' = 1 /\ held (rk_name k) s' = 0.
Proof. exact reject_places. Qed.

(* a take moves a name that is in the source container into 'being processed', in one transaction *)
Theorem C01_redis_grab_places_list : forall q prio kd n now_s s, WF s -> Uniq s -> In n (get_list s (mkLK q prio kd)) ->
  let s' := fst (exec_all s (grab_cmds q prio (SList kd) n now_s)) in occ n s' = 1 /\ held n s' = 1.
Proof. exact grab_places_list. Qed.

Theorem C01_redis_grab_places_delayed : forall q prio src n now_s s, WF s -> Uniq s -> src <> SList LNormal -> src <> SList LDead ->
  zmem n (get_zset s (ZDelayed q prio)) = true ->
  let s' := fst (exec_all s (grab_cmds q prio src n now_s)) in occ n s' = 1 /\ held n s' = 1.
Proof. exact grab_places_delayed. Qed.

(* every transaction writes one name only: all other messages stay where they are *)
Theorem C01_redis_other_names_untouched : forall n' cs s, WF s -> Forall (fun c => member_of c <> Some n') cs ->
  occ n' (fst (exec_all s cs)) = occ n' s.
Proof. exact tx_other_names_untouched. Qed.

(* enqueue / ack / nack / requeue are ONE server step: a cancelled call has done nothing or everything *)
Theorem C01_redis_single_step_calls : forall e k pl pc now,
  length (enqueue_prog e k pl pc now) = 1%nat /\ length (ack_prog k) = 1%nat /\ length (nack_prog k) = 1%nat /\
  length (requeue_prog e k pl pc now) = 1%nat.
Proof. exact single_step_calls. Qed.

(* whole sequential histories (unbounded): from the empty server, through ANY sequence of API calls - enqueue, take (with its
   window reads, the take transaction, the burial of a message without data, the dead-lettering of an expired one), ack,
   nack, reject, requeue, maintenance (rejects of every timed-out processing entry) - by a caller that enqueues fresh names
   and disposes only of what it holds, the key layout stays well-formed and no name is ever in two places *)
Theorem C01_redis_no_duplicates_step : forall e s o, RI s -> wb_rop s o -> RI (fst (fst (run_api e s o))).
Proof. exact redis_no_duplicates. Qed.

Theorem C01_redis_no_duplicates_from_empty : forall e h, wb_rhist e srv0 h -> forall n, occ n (run_rops e srv0 h) <= 1.
Proof. exact redis_no_duplicates_from_empty. Qed.

(* what a take hands out is marked as being processed, exactly once: the premise under which the caller may dispose of it *)
Theorem C01_redis_take_holds : forall e s q ct topics choice now s1 n pl pc tr,
  RI s -> run_api e s (ROTake q ct topics choice now) = (s1, TMsg n pl pc, tr) -> occ n s1 = 1 /\ held n s1 = 1.
Proof. exact redis_take_holds. Qed.

Print Assumptions C01_redis_enqueue_places.
Print Assumptions C01_redis_ack_places.
Print Assumptions C01_redis_nack_places.
Print Assumptions C01_redis_requeue_places.
Print Assumptions C01_redis_reject_places.
Print Assumptions C01_redis_grab_places_list.
Print Assumptions C01_redis_grab_places_delayed.
Print Assumptions C01_redis_other_names_untouched.
Print Assumptions C01_redis_single_step_calls.
Print Assumptions C01_redis_no_duplicates_step.
Print Assumptions C01_redis_no_duplicates_from_empty.
Print Assumptions C01_redis_take_holds.
