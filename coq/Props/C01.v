(* C01 - Broker operations never lose or duplicate a message (in-memory broker).
   Statements only; every proof is `exact <lemma>`. *)
From Repid Require Import Base Sched MemBroker MemProofs MemProofs2 MemProofs3.

(* in-memory broker: after ANY finite history of calls by well-behaved clients (fresh ids on enqueue, requeue on held messages), with any cancellation cuts (a cut call is simply absent or present: each call is one atomic effect), every id is in at most one place; with live_run: exactly one unless acknowledged *)
Theorem C01_mem_partition : forall h, wb_run s0 h -> Partition (run s0 h).
Proof. exact partition_all. Qed.

(* nothing vanishes, nothing is duplicated: the number of live copies of id j changes only by +1 per enqueue of j and -1 per effective ack of j *)
Theorem C01_mem_conservation : forall h s j, live j (run s h) = live j s + deltas s h j.
Proof. exact live_run. Qed.

Theorem C01_mem_partition_step : forall s o, Partition s -> wb s o -> Partition (fst (step s o)).
Proof. exact partition_step. Qed.

(* ack removes the message and touches nothing else *)
Theorem C01_mem_ack_removes : forall s i q h p',
  holds s i q h p' -> live i s = 1 -> live i (fst (step s (OAck i q))) = 0 /\
  processing (fst (step s (OAck i q))) = p' /\ simple (fst (step s (OAck i q))) = simple s /\
  delayed (fst (step s (OAck i q))) = delayed s /\ dead (fst (step s (OAck i q))) = dead s.
Proof. exact ack_removes. Qed.

Theorem C01_mem_nack_dead_letters : forall s i q h p',
  holds s i q h p' ->
  dead (fst (step s (ONack i q))) = dead s ++ [hd_msg h] /\ processing (fst (step s (ONack i q))) = p' /\
  simple (fst (step s (ONack i q))) = simple s /\ delayed (fst (step s (ONack i q))) = delayed s.
Proof. exact nack_dead_letters. Qed.

(* reject returns it to the category it was taken from (true since fix 60dc6fd) *)
Theorem C01_mem_reject_returns_to_origin : forall s i q h p',
  holds s i q h p' ->
  let s' := fst (step s (OReject i q)) in
  processing s' = p' /\
  match hd_origin h with
  | ONormal => simple s' = simple s ++ [with_stamp (hd_msg h) (stamp s)] /\ delayed s' = delayed s /\ dead s' = dead s
  | ODead => dead s' = dead s ++ [hd_msg h] /\ simple s' = simple s /\ delayed s' = delayed s
  | ODelayed k => delayed s' = d_add (m_queue (hd_msg h)) k (hd_msg h) (delayed s) /\ simple s' = simple s /\ dead s' = dead s
  end.
Proof. exact reject_returns_to_origin. Qed.

(* requeue atomically replaces the held message by its new payload and parameters under the same id (one effect since fix ee1e1bb) *)
Theorem C01_mem_requeue_replaces : forall s i q m' now h p',
  holds s i q h p' ->
  let s' := fst (step s (ORequeue i q m' now)) in
  processing s' = p' /\ dead s' = dead s /\
  match wait_until (m_params m') now with
  | Some d => delayed s' = d_add (m_queue m') d (with_due m' (Some d)) (delayed s) /\ simple s' = simple s
  | None => simple s' = simple s ++ [with_stamp (with_due m' None) (stamp s)] /\ delayed s' = delayed s
  end.
Proof. exact requeue_replaces. Qed.

(* consume moves the message into 'held by that consumer' *)
Theorem C01_mem_delivery_marks_holder : forall s c q ct topics now upd s' m,
  poll s c q ct topics now upd = (s', PDelivered m) ->
  exists o, processing s' = processing s ++ [mkHeld m o c].
Proof. exact delivery_marks_holder. Qed.

Print Assumptions C01_mem_partition.
Print Assumptions C01_mem_conservation.
Print Assumptions C01_mem_partition_step.
Print Assumptions C01_mem_ack_removes.
Print Assumptions C01_mem_nack_dead_letters.
Print Assumptions C01_mem_reject_returns_to_origin.
Print Assumptions C01_mem_requeue_replaces.
Print Assumptions C01_mem_delivery_marks_holder.
