(* C11 - A job reaches exactly the actor it names: the RabbitMQ client (RabbitBroker.v) over the server description AmqpSrv.v
   (trusted, written from the RabbitMQ documentation; no server is available here to compare it with).
   Statements only; every proof is `exact <lemma>`. *)
From Repid Require Import Base Sched AmqpSrv RabbitBroker RabbitProofs.

(* "never blocks on messages it has no actor for": REFUTED for the RabbitMQ client (recorded finding) *)
Theorem C11_rabbit_foreign_head_of_line_refuted :
  let w := fst (run_w env_w world0 h_foreign_hol) in
  snd (run_w env_w world0 h_foreign_hol) = [0; 0; 0; 0; 0; 0] /\
  map a_id (ready (w_srv w) (mkQK 1 QNormal)) = [2] /\ map (fun u => (u_tag u, a_id (u_msg u))) (unacked (w_srv w)) = [(31, 1)].
Proof. exact rabbit_foreign_head_of_line_refuted. Qed.

Print Assumptions C11_rabbit_foreign_head_of_line_refuted.
