(* C10 - messages_limit is an upper bound and a stop condition.
   Statements only; every proof is `exact <lemma>`. *)
From Repid Require Import Base Runner RunnerProofs.

(* a worker with messages_limit = M starts at most M executions - whatever the backlog, the actor durations, tasks_limit,
   the number of queues and the schedule (all accepted event sequences); true since the fix recorded for C10 *)
Theorem C10_started_le_M : forall lim M qs es s, 0 <= lim -> NoDup qs -> 0 <= M ->
  run_ev (init lim (Some M) qs) es = Some s -> started s <= M.
Proof. exact started_le_M. Qed.

(* once M executions have finished the stop event is set (Worker.run then returns through the graceful shutdown) *)
Theorem C10_stop_after_M : forall lim M qs es s, 0 <= lim -> NoDup qs -> 0 < M ->
  run_ev (init lim (Some M) qs) es = Some s -> M <= processed s -> stop s = true.
Proof. exact stop_after_M. Qed.

(* executions are counted exactly: started = finished + in progress *)
Theorem C10_counting : forall s e s', Inv s -> step_ev s e = Some s' -> started s' = processed s' + len (tasks s').
Proof. intros s e s' Hi H. exact (i_count _ (Inv_step _ _ _ Hi H)). Qed.

(* a message taken beyond the limit goes back to its queue as it was (no execution started, nothing counted) *)
Theorem C10_surplus_returned : forall s q s1 s2 m p,
  get_loop q (loops s) = Some (mkLoop q (LHold m) p) -> step_ev s (EvSurplus q) = Some s1 -> step_ev s1 (EvRejected q) = Some s2 ->
  backlog s2 = backlog s ++ [(q, m)] /\ started s2 = started s /\ tasks s2 = tasks s.
Proof. exact surplus_returned. Qed.

(* the loop as it was before the fix (limit looked at only when a task finishes): M = 2, backlog 5, slow actors, 5 executions *)
Theorem C10_started_le_M_before_fix_refuted :
  exists es s, run_ev_old (init 5 (Some 2) [1]) es = Some s /\ started s = 5.
Proof. exact started_le_M_before_fix_refuted. Qed.

(* the stop condition before the fix of _task_callback counted a slot handed to a loop as an execution under way: with M-1
   executions finished and the M-th message in a granted loop's hands it said "stop" (the loop, cancelled, gave the message
   back: M-1 executions - observable with a consumer whose unpause() is a round trip) *)
Theorem C10_old_stop_condition_fires_early :
  exists es s, run_ev (init 1 (Some 2) [1]) es = Some s /\ started s = 1 /\ processed s = 1 /\
               get_loop 1 (loops s) = Some (mkLoop 1 (LGranted 2) true) /\ max_tasks_hit s = true /\ stop s = false.
Proof. exact old_stop_condition_fires_early. Qed.

Theorem C10_last_allowed_message_is_started :
  exists s, run_ev (init 1 (Some 2) [1])
              [EvEnqueue 1 1; EvEnqueue 1 2; EvDeliver 1 1; EvAcquireFast 1; EvSpawn 1; EvDeliver 1 2; EvPause 1; EvTaskDone 1;
               EvUnpause 1; EvSpawn 1; EvTaskDone 2] = Some s
            /\ started s = 2 /\ processed s = 2 /\ stop s = true.
Proof. exact last_allowed_message_is_started. Qed.

Print Assumptions C10_started_le_M.
Print Assumptions C10_stop_after_M.
Print Assumptions C10_counting.
Print Assumptions C10_surplus_returned.
Print Assumptions C10_started_le_M_before_fix_refuted.
Print Assumptions C10_old_stop_condition_fires_early.
Print Assumptions C10_last_allowed_message_is_started.
