(* C07 - What the producer enqueued is what the consumer receives.
   Statements only; every proof is `exact <lemma>`. *)
From Repid Require Import Base Names NamesProofs Json JsonProofs JsonFloat Sched MemBroker MemProofs MemProofs2.
From Coq Require Import Reals.

(* encoding then decoding parameters is the identity: timeout, result settings, retries, delay, timestamp, time-to-live *)
Theorem C07_params_roundtrip : forall p, dec_jparams (enc_jparams p) = Some p.
Proof. exact params_roundtrip. Qed.

Theorem C07_args_bucket_roundtrip : forall b, dec_args (enc_args b) = Some b.
Proof. exact args_bucket_roundtrip. Qed.

Theorem C07_result_bucket_roundtrip : forall b, dec_resb (enc_resb b) = Some b.
Proof. exact result_bucket_roundtrip. Qed.

(* durations travel as binary64 seconds: exact at microsecond precision for every duration below 2^32 s (~136 years) *)
Theorem C07_td_roundtrip : forall n : Z, (0 <= n < 4294967296 * 1000000)%Z -> us_of_float_seconds (RN (IZR n / 1000000)) = n.
Proof. exact td_roundtrip. Qed.

(* every name / id the validators accept survives the Redis message-name encoding, for every priority *)
Theorem C07_redis_parse_mnc : forall k, valid_key k = true -> parse_message_name (mnc k) = Some k.
Proof. exact parse_mnc. Qed.

Theorem C07_redis_parse_short : forall k, valid_key k = true -> parse_short_message_name (mnc_short k) = Some (k_topic k, k_id k).
Proof. exact parse_short. Qed.

Theorem C07_redis_full_from_short : forall k q p kd, valid_name q = true ->
  full_message_name_from_short (mnc_short k) (qnc q p kd) = Some (mnc (mkKey (k_id k) (k_topic k) q p)).
Proof. exact full_from_short. Qed.

Theorem C07_redis_queue_marker : forall q p kd, valid_name q = true -> get_queue_marker (qnc q p kd) = kind_text kd.
Proof. exact queue_marker. Qed.

(* unambiguously: different keys / queues never share a name *)
Theorem C07_redis_mnc_injective : forall k k', valid_key k = true -> valid_key k' = true -> mnc k = mnc k' -> k = k'.
Proof. exact mnc_injective. Qed.

Theorem C07_redis_qnc_injective : forall q p kd q' p' kd', valid_name q = true -> valid_name q' = true ->
  qnc q p kd = qnc q' p' kd' -> q = q' /\ p = p' /\ kd = kd'.
Proof. exact qnc_injective. Qed.

Theorem C07_rabbit_qnc_injective : forall q kd q' kd', valid_name q = true -> valid_name q' = true ->
  rabbit_qnc q kd = rabbit_qnc q' kd' -> q = q' /\ kd = kd'.
Proof. exact rabbit_qnc_injective. Qed.

(* the separator never occurs in what the validators accept; str(priority) / int(...) is the identity *)
Theorem C07_valid_name_no_colon : forall s, valid_name s = true -> no_colon s = true.
Proof. exact valid_name_no_colon. Qed.
Theorem C07_valid_id_no_colon : forall s, valid_id s = true -> no_colon s = true.
Proof. exact valid_id_no_colon. Qed.
Theorem C07_priority_text : forall n, nat_of_str (str_of_nat n) = Some n.
Proof. exact int_str. Qed.

(* the Redis topic filter "<topic>:" matches the short name "<t>:<id>" exactly when t = topic (also used by C11) *)
Theorem C07_topic_prefix_exact : forall t' t i, no_colon t' = true -> no_colon t = true ->
  (topic_matches t' (t ++ COLON :: i) = true <-> t' = t).
Proof. exact topic_prefix_exact. Qed.

(* the bucket marker: what construct builds is recognised and gives the id back; exactly which payloads are taken for a
   bucket reference (the excluded set of the property) *)
Theorem C07_marker_roundtrip : forall id, marker_deconstruct (marker_construct id) = Some id.
Proof. exact marker_roundtrip. Qed.
Theorem C07_marker_check_construct : forall id, marker_check (marker_construct id) = true.
Proof. exact marker_check_construct. Qed.
Theorem C07_marker_check_spec : forall s,
  marker_check s = true <-> exists k, (k <= 3)%nat /\ (k <= length s)%nat /\ starts_with KEY (skipn k s) = true.
Proof. exact marker_check_spec. Qed.

(* in-memory broker: what a consumer receives is a message record that was put (payload and parameters are not touched by
   polls: a poll only moves records between containers) *)
Theorem C07_mem_delivery_is_the_stored_record : forall s c q ct topics now upd s' m,
  poll s c q ct topics now upd = (s', PDelivered m) -> exists o, processing s' = processing s ++ [mkHeld m o c].
Proof. exact delivery_marks_holder. Qed.

Print Assumptions C07_params_roundtrip.
Print Assumptions C07_args_bucket_roundtrip.
Print Assumptions C07_result_bucket_roundtrip.
Print Assumptions C07_td_roundtrip.
Print Assumptions C07_redis_parse_mnc.
Print Assumptions C07_redis_parse_short.
Print Assumptions C07_redis_full_from_short.
Print Assumptions C07_redis_queue_marker.
Print Assumptions C07_redis_mnc_injective.
Print Assumptions C07_redis_qnc_injective.
Print Assumptions C07_rabbit_qnc_injective.
Print Assumptions C07_valid_name_no_colon.
Print Assumptions C07_valid_id_no_colon.
Print Assumptions C07_priority_text.
Print Assumptions C07_topic_prefix_exact.
Print Assumptions C07_marker_roundtrip.
Print Assumptions C07_marker_check_construct.
Print Assumptions C07_marker_check_spec.
Print Assumptions C07_mem_delivery_is_the_stored_record.
