(* C01 - Every message is in exactly one place: the RabbitMQ client (RabbitBroker.v) over the server description AmqpSrv.v
   (trusted, written from the RabbitMQ documentation; no server is available here to compare it with).
   Statements only; every proof is `exact <lemma>`. *)
From Repid Require Import Base Sched AmqpSrv RabbitBroker RabbitProofs.

(* every method changes the number of places an id is in by exactly `delta`: +1 for its publish, -1 for its ack, 0 for reject
   (requeue=true), 0 for nack (dead-lettered) - except from <q>:dead, which has no dead-letter target (see the refutation) *)
Theorem C01_rabbit_method_places : forall s now m i, Closed s -> UnackedOk s -> occ i (fst (exec s now m)) = occ i s + delta s m i.
Proof. exact occ_exec. Qed.

Theorem C01_rabbit_invariants_kept : forall s now m, Closed s -> UnackedOk s -> meth_ok s m ->
  Closed (fst (exec s now m)) /\ UnackedOk (fst (exec s now m)).
Proof. exact inv_exec. Qed.

(* whatever the server does by itself (expiry + dead-lettering, delivery) moves messages and never loses or copies one *)
Theorem C01_rabbit_server_keeps_places : forall fuel s now i, Closed s -> NoTtlDead s -> occ i (fst (pump fuel s now)) = occ i s.
Proof. exact occ_pump. Qed.

(* whole histories (unbounded): from the empty server, through ANY sequence of API calls by well-behaved callers (fresh ids
   on enqueue, requeue of a held message) with everything the client and the server do in between - deliveries, callbacks,
   sleeping rejects, TTL expiries, buffered-expiry nacks - no id is ever in two places *)
Theorem C01_rabbit_no_duplicates_step : forall e w now o, WI w -> wb_op w o -> WI (fst (fst (run_op e w now o))).
Proof. exact rabbit_no_duplicates. Qed.

Theorem C01_rabbit_no_duplicates_from_empty : forall e h, wb_hist e world0 h -> forall i, occ i (w_srv (run_ops e world0 h)) <= 1.
Proof. exact rabbit_no_duplicates_from_empty. Qed.

(* recorded findings, by witness: nack of a message taken through the DEAD category discards it; requeue = ack, then publish *)
Theorem C01_rabbit_nack_from_dead_refuted :
  occ 1 (w_srv (fst (run_w env_w world0 (firstn 7 h_nack_dead)))) = 1 /\ occ 1 (w_srv (fst (run_w env_w world0 h_nack_dead))) = 0.
Proof. exact rabbit_nack_from_dead_refuted. Qed.

Theorem C01_rabbit_requeue_gap_refuted :
  let w := fst (run_w env_w world0 [(0, RDeclare 1); (0, RAddConsumer 1 1 Normal [] 0); (0, RPut 1 1 1 5 11 3); (0, RTake 1)]) in
  occ 1 (w_srv w) = 1 /\ occ 1 (w_srv (fst (terminal env_w w 0 1 Ack))) = 0.
Proof. exact rabbit_requeue_gap_refuted. Qed.

Print Assumptions C01_rabbit_method_places.
Print Assumptions C01_rabbit_invariants_kept.
Print Assumptions C01_rabbit_server_keeps_places.
Print Assumptions C01_rabbit_nack_from_dead_refuted.
Print Assumptions C01_rabbit_requeue_gap_refuted.
Print Assumptions C01_rabbit_no_duplicates_step.
Print Assumptions C01_rabbit_no_duplicates_from_empty.
