(* Json.v — wire encoding of parameters and buckets, at the level of JSON values.
   Mirrors repid/data/_parameters.py (RetriesProperties / ResultProperties / DelayProperties / Parameters .encode()/.decode())
   and repid/data/_buckets.py (ArgsBucket / ResultBucket), with repid/_utils/json_encoder.py: encode = JSON text of
   dataclasses.asdict(self) (field order of the dataclass; datetime -> isoformat text, timedelta -> total_seconds() float);
   decode = json.loads, then per key: None stays None, nested properties are decoded from the nested object, durations by
   timedelta(seconds=float(x)), instants by datetime.fromisoformat, then cls( **loaded).

   json.dumps/json.loads and isoformat/fromisoformat are trusted inverses on these values.  A duration of n microseconds
   travels as the binary64 number RN(n / 10^6) (JDur n); decoding it with CPython's timedelta(seconds=float) gives back n
   for 0 <= n < 2^32 * 10^6 (JsonFloat.td_roundtrip), which is why decode reads JDur n as n.
   Strings (ids, cron expressions, data) and field names are Z codes assigned by the harness. *)
From Repid Require Import Base.

Inductive jv := JNull | JBool (b : bool) | JInt (z : Z) | JStr (s : Z) | JDur (us : Z) | JTime (us : Z) | JObj (fields : list (Z * jv)).

Record jretries := mkJRetries { jt_max : Z; jt_tried : Z }.
Record jresult := mkJResult { jr_id : Z; jr_ttl : option Z }.
Record jdelay := mkJDelay { jd_until : option Z; jd_by : option Z; jd_cron : option Z; jd_next : option Z }.
Record jparams := mkJParams { jp_timeout : Z; jp_result : option jresult; jp_retries : jretries; jp_delay : jdelay;
                              jp_ts : Z; jp_ttl : option Z }.
Record jargs := mkJArgs { ja_data : Z; ja_ts : Z; ja_ttl : option Z }.
Record jresb := mkJResB { jb_data : Z; jb_started : Z; jb_finished : Z; jb_success : bool; jb_exception : option Z;
                          jb_ts : Z; jb_ttl : option Z }.

(* field names *)
Definition F_timeout := 1.  Definition F_result := 2.  Definition F_retries := 3.  Definition F_delay := 4.
Definition F_timestamp := 5.  Definition F_ttl := 6.  Definition F_max := 7.  Definition F_tried := 8.  Definition F_id := 9.
Definition F_until := 10.  Definition F_by := 11.  Definition F_cron := 12.  Definition F_next := 13.
Definition F_data := 14.  Definition F_started := 15.  Definition F_finished := 16.  Definition F_success := 17.
Definition F_exception := 18.

Definition opt_j (f : Z -> jv) (o : option Z) : jv := match o with None => JNull | Some x => f x end.

Definition enc_retries (r : jretries) : jv := JObj [(F_max, JInt (jt_max r)); (F_tried, JInt (jt_tried r))].
Definition enc_result (r : jresult) : jv := JObj [(F_id, JStr (jr_id r)); (F_ttl, opt_j JDur (jr_ttl r))].
Definition enc_delay (d : jdelay) : jv :=
  JObj [(F_until, opt_j JTime (jd_until d)); (F_by, opt_j JDur (jd_by d)); (F_cron, opt_j JStr (jd_cron d)); (F_next, opt_j JTime (jd_next d))].
Definition enc_jparams (p : jparams) : jv :=
  JObj [(F_timeout, JDur (jp_timeout p));
        (F_result, match jp_result p with None => JNull | Some r => enc_result r end);
        (F_retries, enc_retries (jp_retries p)); (F_delay, enc_delay (jp_delay p));
        (F_timestamp, JTime (jp_ts p)); (F_ttl, opt_j JDur (jp_ttl p))].
Definition enc_args (b : jargs) : jv := JObj [(F_data, JStr (ja_data b)); (F_timestamp, JTime (ja_ts b)); (F_ttl, opt_j JDur (ja_ttl b))].
Definition enc_resb (b : jresb) : jv :=
  JObj [(F_data, JStr (jb_data b)); (F_started, JInt (jb_started b)); (F_finished, JInt (jb_finished b));
        (F_success, JBool (jb_success b)); (F_exception, opt_j JStr (jb_exception b));
        (F_timestamp, JTime (jb_ts b)); (F_ttl, opt_j JDur (jb_ttl b))].

(* ---- decoding ---- *)
Fixpoint jget (k : Z) (l : list (Z * jv)) : option jv :=
  match l with [] => None | (k', v) :: r => if k =? k' then Some v else jget k r end.

(* a required scalar of the given shape *)
Definition as_int (v : jv) : option Z := match v with JInt z => Some z | _ => None end.
Definition as_str (v : jv) : option Z := match v with JStr s => Some s | _ => None end.
Definition as_bool (v : jv) : option bool := match v with JBool b => Some b | _ => None end.
Definition as_dur (v : jv) : option Z := match v with JDur n => Some n | JInt z => Some (z * 1000000) | _ => None end.   (* float(x) *)
Definition as_time (v : jv) : option Z := match v with JTime t => Some t | _ => None end.
(* an optional value: None stays None *)
Definition opt_of {A} (f : jv -> option A) (v : jv) : option (option A) :=
  match v with JNull => Some None | _ => option_map Some (f v) end.

Definition bind {A B} (o : option A) (f : A -> option B) : option B := match o with Some x => f x | None => None end.
Notation "x <- e ;; f" := (bind e (fun x => f)) (at level 61, e at next level, right associativity).

Definition only_keys (allowed : list Z) (l : list (Z * jv)) : bool := forallb (fun kv => existsb (Z.eqb (fst kv)) allowed) l.

Definition dec_retries (v : jv) : option jretries :=
  match v with
  | JObj l => if only_keys [F_max; F_tried] l then
                m <- bind (jget F_max l) as_int ;; t <- bind (jget F_tried l) as_int ;; Some (mkJRetries m t)
              else None
  | _ => None
  end.
Definition dec_result (v : jv) : option jresult :=
  match v with
  | JObj l => if only_keys [F_id; F_ttl] l then
                i <- bind (jget F_id l) as_str ;; t <- bind (jget F_ttl l) (opt_of as_dur) ;; Some (mkJResult i t)
              else None
  | _ => None
  end.
Definition dec_delay (v : jv) : option jdelay :=
  match v with
  | JObj l => if only_keys [F_until; F_by; F_cron; F_next] l then
                u <- bind (jget F_until l) (opt_of as_time) ;; b <- bind (jget F_by l) (opt_of as_dur) ;;
                c <- bind (jget F_cron l) (opt_of as_str) ;; n <- bind (jget F_next l) (opt_of as_time) ;; Some (mkJDelay u b c n)
              else None
  | _ => None
  end.
Definition dec_jparams (v : jv) : option jparams :=
  match v with
  | JObj l => if only_keys [F_timeout; F_result; F_retries; F_delay; F_timestamp; F_ttl] l then
                t <- bind (jget F_timeout l) as_dur ;;
                r <- bind (jget F_result l) (fun x => match x with JNull => Some None | _ => option_map Some (dec_result x) end) ;;
                rt <- bind (jget F_retries l) dec_retries ;; d <- bind (jget F_delay l) dec_delay ;;
                ts <- bind (jget F_timestamp l) as_time ;; tl <- bind (jget F_ttl l) (opt_of as_dur) ;;
                Some (mkJParams t r rt d ts tl)
              else None
  | _ => None
  end.
(* ArgsBucket.decode also accepts (and drops) the extra keys of a result bucket *)
Definition dec_args (v : jv) : option jargs :=
  match v with
  | JObj l => if only_keys [F_data; F_timestamp; F_ttl; F_started; F_finished; F_success; F_exception] l then
                d <- bind (jget F_data l) as_str ;; ts <- bind (jget F_timestamp l) as_time ;;
                tl <- bind (jget F_ttl l) (opt_of as_dur) ;; Some (mkJArgs d ts tl)
              else None
  | _ => None
  end.
Definition dec_resb (v : jv) : option jresb :=
  match v with
  | JObj l => if only_keys [F_data; F_started; F_finished; F_success; F_exception; F_timestamp; F_ttl] l then
                d <- bind (jget F_data l) as_str ;; s <- bind (jget F_started l) as_int ;; f <- bind (jget F_finished l) as_int ;;
                ok <- bind (jget F_success l) as_bool ;; e <- bind (jget F_exception l) (opt_of as_str) ;;
                ts <- bind (jget F_timestamp l) as_time ;; tl <- bind (jget F_ttl l) (opt_of as_dur) ;;
                Some (mkJResB d s f ok e ts tl)
              else None
  | _ => None
  end.

(* durations the wire format carries exactly (JsonFloat.td_roundtrip): 0 <= n < 2^32 s (about 136 years) *)
Definition dur_ok (n : Z) : Prop := 0 <= n < 4294967296 * 1000000.
Definition odur_ok (o : option Z) : Prop := match o with Some n => dur_ok n | None => True end.

(* ---- correspondence: flat encoding of a JSON value ---- *)
Fixpoint enc_jv (v : jv) : list Z :=
  match v with
  | JNull => [0] | JBool b => [1; enc_bool b] | JInt z => [2; z] | JStr s => [3; s] | JDur n => [4; n] | JTime t => [5; t]
  | JObj l => 6 :: Z.of_nat (length l) :: flat_map (fun kv => fst kv :: enc_jv (snd kv)) l
  end.

Definition enc_opt_params (o : option jparams) : list Z := match o with Some p => 1 :: enc_jv (enc_jparams p) | None => [0] end.

Inductive json_case := JParams (p : jparams) | JArgs (b : jargs) | JResB (b : jresb).
Definition json_obs (c : json_case) : list Z :=
  match c with
  | JParams p => enc_jv (enc_jparams p) ++ [-2] ++ enc_opt_params (dec_jparams (enc_jparams p))
  | JArgs b => enc_jv (enc_args b) ++ [-2] ++ match dec_args (enc_args b) with Some b' => 1 :: enc_jv (enc_args b') | None => [0] end
  | JResB b => enc_jv (enc_resb b) ++ [-2] ++ match dec_resb (enc_resb b) with Some b' => 1 :: enc_jv (enc_resb b') | None => [0] end
  end.
