(* Base.v — shared vocabulary of the repid models.
   Time is Z microseconds since the epoch (datetime resolution); durations are Z microseconds.
   Identifiers (message ids, topics, queues, consumers) are Z numbers assigned by the harness. *)
From Coq Require Export ZArith List Bool Lia.
Export ListNotations.
Open Scope Z_scope.

Definition time := Z.
Definition dur := Z.

Definition usec_per_sec : Z := 1000000.

Inductive cat := Normal | DelayedC | DeadC.

Definition cat_eqb (a b : cat) : bool :=
  match a, b with
  | Normal, Normal | DelayedC, DelayedC | DeadC, DeadC => true
  | _, _ => false
  end.

Lemma cat_eqb_eq a b : cat_eqb a b = true <-> a = b.
Proof. destruct a, b; simpl; split; congruence. Qed.

Record retries := mkRetries { r_max : Z; r_tried : Z }.

(* cron schedules are outside every model (croniter is not installed in this image) *)
Record delay := mkDelay { d_until : option time; d_by : option dur; d_next : option time }.

Record resultp := mkResultp { res_id : Z; res_ttl : option dur }.

Record params := mkParams {
  p_timeout : dur;
  p_result : option resultp;
  p_retries : retries;
  p_delay : delay;
  p_ts : time;
  p_ttl : option dur }.

Definition opt_eqb {A} (eqb : A -> A -> bool) (a b : option A) : bool :=
  match a, b with
  | None, None => true
  | Some x, Some y => eqb x y
  | _, _ => false
  end.

Fixpoint list_eqb {A} (eqb : A -> A -> bool) (a b : list A) : bool :=
  match a, b with
  | [], [] => true
  | x :: a', y :: b' => eqb x y && list_eqb eqb a' b'
  | _, _ => false
  end.

Lemma list_eqb_Z_eq (a b : list Z) : list_eqb Z.eqb a b = true <-> a = b.
Proof.
  revert b; induction a as [|x a IH]; destruct b as [|y b]; simpl; split; try congruence; try reflexivity.
  - intros H. apply andb_true_iff in H as [H1 H2]. apply Z.eqb_eq in H1. apply IH in H2. congruence.
  - intros H. inversion H; subst. rewrite Z.eqb_refl. simpl. apply IH. reflexivity.
Qed.

(* encoders to list Z used by the correspondence (observations are compared as list Z) *)
Definition enc_bool (b : bool) : Z := if b then 1 else 0.
Definition enc_optZ (o : option Z) : list Z := match o with None => [0] | Some z => [1; z] end.
Definition enc_cat (c : cat) : Z := match c with Normal => 0 | DelayedC => 1 | DeadC => 2 end.
Definition enc_retries (r : retries) : list Z := [r_max r; r_tried r].
Definition enc_delay (d : delay) : list Z := enc_optZ (d_until d) ++ enc_optZ (d_by d) ++ enc_optZ (d_next d).
Definition enc_resultp (o : option resultp) : list Z :=
  match o with None => [0] | Some r => 1 :: res_id r :: enc_optZ (res_ttl r) end.
Definition enc_params (p : params) : list Z :=
  p_timeout p :: enc_resultp (p_result p) ++ enc_retries (p_retries p) ++ enc_delay (p_delay p)
  ++ [p_ts p] ++ enc_optZ (p_ttl p).
