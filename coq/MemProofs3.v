From Coq Require Import ZifyBool.
From Repid Require Import Base Sched MemBroker MemProofs MemProofs2.

(* ================= C05: never early ================= *)
Definition ok_due (c : time) (m : msg) : Prop := match m_due m with Some d => d < c | None => True end.
Definition held_ok (c : time) (h : held) : Prop :=
  match hd_origin h with
  | ONormal => ok_due c (hd_msg h)
  | ODelayed k => m_due (hd_msg h) = Some k
  | ODead => True
  end.
Definition entry_ok (e : dentry) : Prop := Forall (fun m => m_due m = Some (de_key e)) (de_msgs e).

(* waiting messages are past their due time; delayed ones are filed under it; held ones remember where they go back *)
Record DueInv (s : mstate) : Prop := mkDI {
  di_simple : Forall (ok_due (clk s)) (simple s);
  di_delayed : Forall entry_ok (delayed s);
  di_proc : Forall (held_ok (clk s)) (processing s) }.

Lemma ok_due_mono c c' m : c <= c' -> ok_due c m -> ok_due c' m.
Proof. unfold ok_due. destruct (m_due m); [lia|auto]. Qed.
Lemma held_ok_mono c c' h : c <= c' -> held_ok c h -> held_ok c' h.
Proof. unfold held_ok. destruct (hd_origin h); auto. apply ok_due_mono. Qed.
Lemma ok_due_stamp c m st : ok_due c (with_stamp m st) <-> ok_due c m.
Proof. reflexivity. Qed.

Lemma take_first_Forall {A} (P : A -> bool) (Q : A -> Prop) l x r :
  take_first P l = Some (x, r) -> Forall Q l -> Q x /\ Forall Q r.
Proof.
  revert x r. induction l as [|z l IH]; simpl; intros x r H HF; [discriminate|].
  inversion HF as [|? ? Hz Hl]; subst. destruct (P z).
  - inversion H; subst. auto.
  - destruct (take_first P l) as [[w r']|]; [|discriminate]. inversion H; subst.
    destruct (IH _ _ eq_refl Hl) as [Hx Hr]. auto.
Qed.

Lemma d_add_ok q k m d : m_due m = Some k -> Forall entry_ok d -> Forall entry_ok (d_add q k m d).
Proof.
  intros Hm. induction d as [|e d IH]; simpl; intros HF.
  - constructor; [|constructor]. unfold entry_ok. simpl. auto.
  - inversion HF as [|? ? He Hd]; subst. destruct ((de_queue e =? q) && (de_key e =? k)) eqn:E.
    + constructor; [|exact Hd]. unfold entry_ok in *. simpl. apply Forall_app. split; [|auto].
      assert (de_key e = k) by lia. subst. exact He.
    + constructor; [exact He | apply IH; exact Hd].
Qed.

Lemma due_split_ok q now d mv keep :
  due_split q now d = (mv, keep) -> Forall entry_ok d ->
  Forall entry_ok keep /\ Forall (fun m => exists k, m_due m = Some k /\ k < now) mv /\
  Forall (fun e => de_queue e = q -> now <= de_key e) keep.
Proof.
  revert mv keep. induction d as [|e d IH]; simpl; intros mv keep H HF.
  - inversion H; subst. auto.
  - inversion HF as [|? ? He Hd]; subst. destruct (due_split q now d) as [mv0 keep0].
    destruct (IH _ _ eq_refl Hd) as (A & B & C).
    destruct ((de_queue e =? q) && (de_key e <? now)) eqn:E; inversion H; subst.
    + repeat split; auto. apply Forall_app. split; [|exact B].
      unfold entry_ok in He. eapply Forall_impl; [|exact He]. intros m Hm. exists (de_key e). split; [exact Hm|lia].
    + repeat split; auto. constructor; [|exact C]. intros Hq. lia.
Qed.

Lemma fold_append_fields mv : forall s,
  let s' := fold_left append_simple mv s in
  delayed s' = delayed s /\ processing s' = processing s /\ clk s' = clk s /\ dead s' = dead s /\
  exists tail, simple s' = simple s ++ tail /\ length tail = length mv /\
               forall Q : msg -> Prop, (forall m st, Q m -> Q (with_stamp m st)) -> Forall Q mv -> Forall Q tail.
Proof.
  induction mv as [|m mv IH]; intros s; simpl.
  - repeat split; auto. exists []. rewrite app_nil_r. repeat split; auto.
  - destruct (IH (append_simple s m)) as (A & B & C & D & tail & Ht & Hl & HQ). simpl in *.
    repeat split; auto. exists (with_stamp m (stamp s) :: tail). rewrite Ht, <- app_assoc. simpl. repeat split; auto.
    intros Q Hst HF. inversion HF; subst. constructor; [apply Hst; assumption | apply HQ; assumption].
Qed.

Lemma DueInv_pre_poll s q now upd : DueInv s -> DueInv (pre_poll s q now upd).
Proof.
  intros [H1 H2 H3]. unfold pre_poll. destruct upd.
  - unfold update_delayed. destruct (due_split q now (delayed s)) as [mv keep] eqn:E.
    destruct (due_split_ok _ _ _ _ _ E H2) as (Hk & Hmv & _).
    destruct (fold_append_fields mv (mkS (simple s) keep (dead s) (processing s) (gone s) (stamp s) (clk s)))
      as (A & B & C & D & tail & Ht & _ & HQ).
    cbn [simple delayed processing clk dead] in *. constructor; cbn [simple delayed processing clk].
    + rewrite Ht, C. apply Forall_app. split.
      * eapply Forall_impl; [|exact H1]. intros m. apply ok_due_mono. lia.
      * apply (HQ (ok_due (Z.max (clk s) now))); [intros m st Hm; exact Hm|].
        eapply Forall_impl; [|exact Hmv]. intros m (k & Hk1 & Hk2). unfold ok_due. rewrite Hk1. lia.
    + rewrite A. exact Hk.
    + rewrite B, C. eapply Forall_impl; [|exact H3]. intros h. apply held_ok_mono. lia.
  - constructor; cbn [simple delayed processing clk].
    + eapply Forall_impl; [|exact H1]. intros m. apply ok_due_mono. lia.
    + exact H2.
    + eapply Forall_impl; [|exact H3]. intros h. apply held_ok_mono. lia.
Qed.

Lemma d_pop_ok q k d m d' :
  d_pop q k d = Some (m, d') -> Forall entry_ok d -> m_due m = Some k /\ Forall entry_ok d'.
Proof.
  revert m d'. induction d as [|e d IH]; simpl; intros m d' H HF; [discriminate|].
  inversion HF as [|? ? He Hd]; subst. destruct ((de_queue e =? q) && (de_key e =? k)) eqn:E.
  - assert (Hk : de_key e = k) by lia. unfold entry_ok in He.
    destruct (de_msgs e) as [|x [|y ms]] eqn:Em; [discriminate| |]; inversion H; subst.
    + inversion He; subst. auto.
    + inversion He as [|? ? Hx Hr]; subst. split; [exact Hx|]. constructor; [|exact Hd]. unfold entry_ok. simpl. exact Hr.
  - destruct (d_pop q k d) as [[x r']|]; [|discriminate]. inversion H; subst.
    destruct (IH _ _ eq_refl Hd) as [A B]. split; [exact A|]. constructor; assumption.
Qed.

Lemma DueInv_poll s c q ct topics now upd : DueInv s -> DueInv (fst (poll s c q ct topics now upd)).
Proof.
  intros HI. apply (DueInv_pre_poll s q now upd) in HI. rewrite poll_unfold. cbv zeta.
  set (s1 := pre_poll s q now upd) in *. clearbody s1. destruct HI as [H1 H2 H3]. destruct ct.
  - destruct (scan q topics now (simple s1)) as [[d f] k] eqn:E.
    destruct (scan_Forall _ _ _ _ _ _ _ _ E H1) as (_ & Hk & Hf).
    destruct f as [x|]; constructor; cbn [fst simple delayed processing clk]; auto.
    apply Forall_app. split; [exact H3 | constructor; [exact Hf | constructor]].
  - destruct (min_key q (delayed s1)) as [k|]; [|constructor; assumption].
    destruct (d_pop q k (delayed s1)) as [[x d']|] eqn:E; [|constructor; assumption].
    destruct (d_pop_ok _ _ _ _ _ E H2) as [Hx Hd]. constructor; cbn [fst simple delayed processing clk]; auto.
    apply Forall_app. split; [exact H3 | constructor; [exact Hx | constructor]].
  - destruct (take_first (in_queue q) (dead s1)) as [[x rest]|]; [|constructor; assumption].
    constructor; cbn [fst simple delayed processing clk]; auto.
    apply Forall_app. split; [exact H3 | constructor; [exact I | constructor]].
Qed.

Lemma DueInv_append s m : DueInv s -> ok_due (clk s) m -> DueInv (append_simple s m).
Proof.
  intros [H1 H2 H3] Hm. constructor; cbn [append_simple simple delayed processing clk]; auto.
  apply Forall_app. split; [exact H1 | constructor; [exact Hm | constructor]].
Qed.

Lemma DueInv_put s m now : DueInv s -> DueInv (put s m now).
Proof.
  intros HI. unfold put. destruct (wait_until (m_params m) now) as [d|].
  - destruct HI as [H1 H2 H3]. constructor; cbn [simple delayed processing clk]; auto. apply d_add_ok; auto.
  - apply DueInv_append; [exact HI | exact I].
Qed.

Lemma DueInv_put_back s h : DueInv s -> held_ok (clk s) h -> DueInv (put_back s h).
Proof.
  intros HI Hh. unfold put_back, held_ok in *. destruct (hd_origin h).
  - apply DueInv_append; assumption.
  - destruct HI as [H1 H2 H3]. constructor; cbn [simple delayed processing clk]; auto.
  - destruct HI as [H1 H2 H3]. constructor; cbn [simple delayed processing clk]; auto. apply d_add_ok; auto.
Qed.

Lemma DueInv_set_processing s p : DueInv s -> Forall (held_ok (clk s)) p -> DueInv (set_processing s p).
Proof. intros [H1 H2 H3] Hp. constructor; cbn [set_processing simple delayed processing clk]; auto. Qed.

Lemma put_back_clk s h : clk (put_back s h) = clk s.
Proof. unfold put_back. destruct (hd_origin h); reflexivity. Qed.

Lemma DueInv_finish c q order : forall s, DueInv s -> DueInv (finish_order s c q order).
Proof.
  induction order as [|i r IH]; intros s HI; simpl; [exact HI|].
  destruct (take_first _ (processing s)) as [[h p']|] eqn:E; [|apply IH; exact HI].
  destruct (take_first_Forall _ _ _ _ _ E (di_proc s HI)) as [Hh Hp].
  apply IH. apply DueInv_put_back; [apply DueInv_set_processing; assumption | exact Hh].
Qed.

Theorem DueInv_step s o : DueInv s -> DueInv (fst (step s o)).
Proof.
  intros HI. destruct o as [m now | i q | i q | i q | i q m' now | c q ct topics now upd | c q order]; simpl.
  - apply DueInv_put. exact HI.
  - destruct (take_first (is_held i q) (processing s)) as [[h p']|] eqn:E; [|exact HI].
    destruct (take_first_Forall _ _ _ _ _ E (di_proc s HI)) as [_ Hp]. destruct HI as [H1 H2 H3].
    constructor; cbn [fst simple delayed processing clk]; auto.
  - destruct (take_first (is_held i q) (processing s)) as [[h p']|] eqn:E; [|exact HI].
    destruct (take_first_Forall _ _ _ _ _ E (di_proc s HI)) as [_ Hp]. destruct HI as [H1 H2 H3].
    constructor; cbn [fst simple delayed processing clk]; auto.
  - destruct (take_first (is_held i q) (processing s)) as [[h p']|] eqn:E; [|exact HI].
    destruct (take_first_Forall _ _ _ _ _ E (di_proc s HI)) as [Hh Hp]. cbn [fst].
    apply DueInv_put_back; [apply DueInv_set_processing; assumption | exact Hh].
  - destruct (take_first (is_held i q) (processing s)) as [[h p']|] eqn:E; cbn [fst]; [|apply DueInv_put; exact HI].
    destruct (take_first_Forall _ _ _ _ _ E (di_proc s HI)) as [_ Hp]. destruct HI as [H1 H2 H3].
    apply DueInv_put. constructor; cbn [simple delayed processing clk]; auto.
  - apply DueInv_poll. exact HI.
  - apply DueInv_finish. exact HI.
Qed.

Theorem DueInv_run h : forall s, DueInv s -> DueInv (run s h).
Proof. induction h as [|o r IH]; intros s HI; simpl; [exact HI | apply IH, DueInv_step, HI]. Qed.

Lemma DueInv_s0 : DueInv s0.
Proof. constructor; constructor. Qed.

(* no early delivery: in any state reachable by any history, with a clock that does not run backwards, a message
   handed to a normal consumer at `now` has a due time (next execution time at which it was filed) strictly before now *)
Theorem no_early_delivery s c q topics now upd s' m d :
  DueInv s -> clk s <= now -> poll s c q Normal topics now upd = (s', PDelivered m) -> m_due m = Some d -> d < now.
Proof.
  intros HI Hc H Hd. apply (DueInv_pre_poll s q now upd) in HI. rewrite poll_unfold in H. cbv zeta in H.
  assert (Hclk : clk (pre_poll s q now upd) = now).
  { unfold pre_poll. cbn [clk]. destruct upd; [|lia]. unfold update_delayed.
    destruct (due_split q now (delayed s)) as [mv keep].
    destruct (fold_append_fields mv (mkS (simple s) keep (dead s) (processing s) (gone s) (stamp s) (clk s))) as (_ & _ & C & _).
    rewrite C. cbn [clk]. lia. }
  destruct (scan q topics now (simple (pre_poll s q now upd))) as [[dd f] k] eqn:E.
  destruct (scan_Forall _ _ _ _ _ _ _ _ E (di_simple _ HI)) as (_ & _ & Hx).
  destruct f as [x|]; [|discriminate].
  injection H as _ Hm. subst x. unfold ok_due in Hx. rewrite Hd, Hclk in Hx. exact Hx.
Qed.

Corollary no_early_delivery_reachable h c q topics now upd s' m d :
  clk (run s0 h) <= now -> poll (run s0 h) c q Normal topics now upd = (s', PDelivered m) -> m_due m = Some d -> d < now.
Proof. apply no_early_delivery. apply DueInv_run, DueInv_s0. Qed.

(* until its due time a message is not in the waiting list (it is visible through the delayed category only) *)
Corollary not_waiting_before_due s m d : DueInv s -> In m (simple s) -> m_due m = Some d -> d < clk s.
Proof.
  intros HI Hin Hd. pose proof (di_simple s HI) as H. rewrite Forall_forall in H. specialize (H m Hin).
  unfold ok_due in H. rewrite Hd in H. exact H.
Qed.

(* never forgotten: an update pass leaves no entry of the queue that is past its due time *)
Theorem update_moves_all_due s q now :
  DueInv s -> Forall (fun e => de_queue e = q -> now <= de_key e) (delayed (update_delayed s q now)).
Proof.
  intros HI. unfold update_delayed. destruct (due_split q now (delayed s)) as [mv keep] eqn:E.
  destruct (due_split_ok _ _ _ _ _ E (di_delayed s HI)) as (_ & _ & Hk).
  destruct (fold_append_fields mv (mkS (simple s) keep (dead s) (processing s) (gone s) (stamp s) (clk s))) as (A & _).
  rewrite A. exact Hk.
Qed.

(* put files a message under its wait_until *)
Theorem put_files_under_due s m now :
  match wait_until (m_params m) now with
  | Some d => delayed (put s m now) = d_add (m_queue m) d (with_due m (Some d)) (delayed s) /\ simple (put s m now) = simple s
  | None => simple (put s m now) = simple s ++ [with_stamp (with_due m None) (stamp s)] /\ delayed (put s m now) = delayed s
  end.
Proof. unfold put. destruct (wait_until (m_params m) now); simpl; auto. Qed.

(* ================= C15: first in, first out ================= *)
Definition matchP (q : Z) (F : list Z) (m : msg) : bool := in_queue q m && topic_ok F m.

Fixpoint sorted (l : list Z) : Prop :=
  match l with [] => True | x :: r => Forall (fun y => x < y) r /\ sorted r end.

(* since the full-turn poll nothing is ever rotated: the waiting list is ALWAYS in arrival order, for every queue, every
   number of consumers and every mix of topic filters *)
Definition FifoInv (s : mstate) : Prop :=
  sorted (map m_stamp (simple s)) /\ Forall (fun m => m_stamp m < stamp s) (simple s).

Lemma sorted_app_one l x : sorted l -> Forall (fun y => y < x) l -> sorted (l ++ [x]).
Proof.
  induction l as [|a l IH]; simpl; intros Hs Hb; [auto|].
  destruct Hs as [Ha Hs]. inversion Hb; subst. split; [apply Forall_app; split; [exact Ha | constructor; [lia|constructor]] | apply IH; assumption].
Qed.

Lemma FifoInv_append s m : FifoInv s -> FifoInv (append_simple s m).
Proof.
  intros [Hs Hb]. unfold FifoInv, append_simple. cbn [simple stamp]. split.
  - rewrite map_app. cbn [map m_stamp with_stamp]. apply sorted_app_one; [exact Hs|]. rewrite Forall_map. exact Hb.
  - apply Forall_app. split; [eapply Forall_impl; [|exact Hb]; intros; simpl in *; lia | constructor; [simpl; lia | constructor]].
Qed.

Lemma FifoInv_fold mv : forall s, FifoInv s -> FifoInv (fold_left append_simple mv s).
Proof. induction mv as [|m mv IH]; intros s H; simpl; [exact H | apply IH, FifoInv_append, H]. Qed.

(* what remains after a turn is still in arrival order *)
Lemma scan_sorted q topics now l : sorted (map m_stamp l) -> sorted (map m_stamp (snd (scan q topics now l))).
Proof.
  induction l as [|m r IH]; cbn [scan]; [auto|]. intros [Hm Hr]. specialize (IH Hr).
  pose proof (scan_rest_subset q topics now r) as Hsub.
  destruct (scan q topics now r) as [[d f] k]. cbn [snd] in *.
  assert (Hk : Forall (fun y => m_stamp m < y) (map m_stamp k)).
  { rewrite Forall_map in *. rewrite Forall_forall in *. intros y Hy. apply Hm, Hsub, Hy. }
  destruct (in_queue q m); [destruct (msg_overdue m now); [|destruct (topic_ok topics m)]|]; cbn [snd map sorted]; auto.
Qed.

(* and the message found arrived before every message of the consumer's queue and topics which remains *)
Lemma scan_fifo q topics now l d m k :
  scan q topics now l = (d, Some m, k) -> sorted (map m_stamp l) ->
  Forall (fun m' => matchP q topics m' = true -> m_stamp m < m_stamp m') k.
Proof.
  revert d k. induction l as [|x r IH]; cbn [scan]; intros d k H Hs; [discriminate|].
  destruct Hs as [Hx Hr]. destruct (scan q topics now r) as [[d0 f0] k0].
  destruct (in_queue q x) eqn:Eq; [destruct (msg_overdue x now); [|destruct (topic_ok topics x) eqn:Et]|]; inversion H; subst.
  - eapply IH; eauto.
  - rewrite Forall_map in Hx. eapply Forall_impl; [|exact Hx]. cbv beta. auto.
  - constructor; [unfold matchP; rewrite Eq, Et; discriminate | eapply IH; eauto].
  - constructor; [unfold matchP; rewrite Eq; discriminate | eapply IH; eauto].
Qed.

Lemma FifoInv_state s s' :
  simple s' = simple s -> stamp s' = stamp s -> FifoInv s -> FifoInv s'.
Proof. intros H1 H2 [A B]. unfold FifoInv. rewrite H1, H2. auto. Qed.

Lemma FifoInv_pre_poll s q' now upd : FifoInv s -> FifoInv (pre_poll s q' now upd).
Proof.
  intros H. unfold pre_poll. destruct upd.
  - eapply FifoInv_state; [reflexivity | reflexivity |]. unfold update_delayed.
    destruct (due_split q' now (delayed s)) as [mv keep]. apply FifoInv_fold.
    eapply FifoInv_state; [| |exact H]; reflexivity.
  - eapply FifoInv_state; [| |exact H]; reflexivity.
Qed.

Lemma put_back_simple_cases s h :
  put_back s h = append_simple s (hd_msg h) \/ (simple (put_back s h) = simple s /\ stamp (put_back s h) = stamp s).
Proof. unfold put_back. destruct (hd_origin h); auto. Qed.

Lemma FifoInv_put_back s h : FifoInv s -> FifoInv (put_back s h).
Proof.
  intros H. destruct (put_back_simple_cases s h) as [->|[A B]]; [apply FifoInv_append; exact H | eapply FifoInv_state; eauto].
Qed.

Lemma FifoInv_finish c q' order : forall s, FifoInv s -> FifoInv (finish_order s c q' order).
Proof.
  induction order as [|i r IH]; intros s H; simpl; [exact H|].
  destruct (take_first _ (processing s)) as [[h p']|]; [|apply IH; exact H].
  apply IH, FifoInv_put_back. eapply FifoInv_state; [| |exact H]; reflexivity.
Qed.

Lemma FifoInv_put s m now : FifoInv s -> FifoInv (put s m now).
Proof.
  intros H. unfold put. destruct (wait_until (m_params m) now); [eapply FifoInv_state; [| |exact H]; reflexivity | apply FifoInv_append; exact H].
Qed.

Theorem FifoInv_step s o : FifoInv s -> FifoInv (fst (step s o)).
Proof.
  intros H. destruct o as [m now | i q0 | i q0 | i q0 | i q0 m' now | c q0 ct topics now upd | c q0 order]; simpl.
  - apply FifoInv_put; exact H.
  - destruct (take_first _ (processing s)) as [[h p']|]; [eapply FifoInv_state; [| |exact H]; reflexivity | exact H].
  - destruct (take_first _ (processing s)) as [[h p']|]; [eapply FifoInv_state; [| |exact H]; reflexivity | exact H].
  - destruct (take_first _ (processing s)) as [[h p']|]; [|exact H]. cbn [fst].
    apply FifoInv_put_back. eapply FifoInv_state; [| |exact H]; reflexivity.
  - destruct (take_first _ (processing s)) as [[h p']|]; cbn [fst]; apply FifoInv_put; [|exact H].
    eapply FifoInv_state; [| |exact H]; reflexivity.
  - apply (FifoInv_pre_poll s q0 now upd) in H. rewrite poll_unfold. cbv zeta.
    set (s1 := pre_poll s q0 now upd) in *. clearbody s1. destruct H as [Hs Hb]. destruct ct.
    + pose proof (scan_sorted q0 topics now _ Hs) as Hss.
      destruct (scan q0 topics now (simple s1)) as [[d f] k] eqn:E. cbn [snd] in Hss.
      destruct (scan_Forall _ _ _ _ _ _ _ _ E Hb) as (_ & Hk & _).
      destruct f as [x|]; split; cbn [fst simple stamp]; assumption.
    + destruct (min_key q0 (delayed s1)); [destruct (d_pop q0 _ _) as [[x d']|]|]; split; assumption.
    + destruct (take_first (in_queue q0) (dead s1)) as [[x rest]|]; split; assumption.
  - apply FifoInv_finish. exact H.
Qed.

Theorem FifoInv_run h : forall s, FifoInv s -> FifoInv (run s h).
Proof. induction h as [|o r IH]; intros s H; simpl; [exact H | apply IH, FifoInv_step, H]. Qed.

Lemma FifoInv_s0 : FifoInv s0.
Proof. split; simpl; auto. Qed.

Corollary FifoInv_all h : FifoInv (run s0 h).
Proof. apply FifoInv_run, FifoInv_s0. Qed.

(* FIFO: what is delivered arrived in the waiting list before every other message of the consumer's queue and topics
   still waiting - whoever else polls the queue with whatever filter *)
Theorem fifo_delivery q F s c now upd s' m :
  FifoInv s -> poll s c q Normal F now upd = (s', PDelivered m) ->
  Forall (fun m' => matchP q F m' = true -> m_stamp m < m_stamp m') (simple s').
Proof.
  intros H Hp. apply (FifoInv_pre_poll s q now upd) in H. rewrite poll_unfold in Hp. cbv zeta in Hp.
  set (s1 := pre_poll s q now upd) in *. clearbody s1. destruct H as [Hs _].
  destruct (scan q F now (simple s1)) as [[d f] k] eqn:E. destruct f as [x|]; [|discriminate].
  injection Hp as Hs' Hm. subst x s'. cbn [simple]. eapply scan_fifo; eauto.
Qed.

Corollary fifo_delivery_reachable q F h c now upd s' m :
  poll (run s0 h) c q Normal F now upd = (s', PDelivered m) ->
  Forall (fun m' => matchP q F m' = true -> m_stamp m < m_stamp m') (simple s').
Proof. apply fifo_delivery. apply FifoInv_run, FifoInv_s0. Qed.

(* no starvation by later arrivals: the delivered message is the OLDEST live message of the consumer's queue and topics *)
Theorem fifo_oldest_first q F s c now upd s' m :
  FifoInv s -> poll s c q Normal F now upd = (s', PDelivered m) ->
  forall m', In m' (simple (pre_poll s q now upd)) -> hit q F now m' = true -> m_stamp m <= m_stamp m'.
Proof.
  intros H Hp m' Hin Hh. pose proof (foreign_never_blocks s c q F now upd) as Hf. rewrite Hp in Hf. cbn [snd] in Hf.
  apply (FifoInv_pre_poll s q now upd) in H. destruct H as [Hs _].
  set (l := simple (pre_poll s q now upd)) in *. clearbody l.
  destruct (find (hit q F now) l) as [x|] eqn:E; [|discriminate]. injection Hf as ->.
  revert Hs Hin E. induction l as [|y r IH]; cbn [find map sorted]; [intros _ []|intros [Hy Hr] Hin E].
  destruct (hit q F now y) eqn:Ey.
  - injection E as ->. destruct Hin as [->|Hin]; [lia|]. rewrite Forall_map, Forall_forall in Hy. specialize (Hy _ Hin). lia.
  - destruct Hin as [->|Hin]; [congruence|]. apply IH; assumption.
Qed.

(* arrival stamps follow the order of enqueue / return *)
Theorem stamps_increase s m : stamp (append_simple s m) = stamp s + 1 /\
  exists m', simple (append_simple s m) = simple s ++ [m'] /\ m_stamp m' = stamp s /\ m_id m' = m_id m.
Proof. unfold append_simple. simpl. split; [reflexivity|]. eexists. repeat split. Qed.
