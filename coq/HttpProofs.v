From Repid Require Import Base Http.

Lemma text_eqb_eq a b : text_eqb a b = true <-> a = b.
Proof. apply list_eqb_Z_eq. Qed.

Lemma prefix_of_sound p : forall s r, prefix_of p s = Some r -> s = p ++ r.
Proof.
  induction p as [|a p IH]; simpl; intros s r H; [inversion H; reflexivity|].
  destruct s as [|b s]; [discriminate|]. destruct (a =? b) eqn:E; [|discriminate].
  apply Z.eqb_eq in E. subst. rewrite (IH _ _ H). reflexivity.
Qed.

Lemma prefix_of_app p r : prefix_of p (p ++ r) = Some r.
Proof. induction p as [|a p IH]; simpl; [reflexivity|]. rewrite Z.eqb_refl. exact IH. Qed.

(* split1 really splits at an occurrence of the separator *)
Lemma split1_sound sep : forall s a b, split1 sep s = Some (a, b) -> s = a ++ sep ++ b.
Proof.
  induction s as [|c s IH]; intros a b H.
  - simpl in H. destruct (prefix_of sep []) as [r|] eqn:E; [|discriminate].
    inversion H; subst. apply prefix_of_sound in E. exact E.
  - simpl in H. destruct (prefix_of sep (c :: s)) as [r|] eqn:E.
    + inversion H; subst. apply prefix_of_sound in E. exact E.
    + destruct (split1 sep s) as [[a' b']|] eqn:E2; [|discriminate].
      inversion H; subst. rewrite (IH _ _ eq_refl). reflexivity.
Qed.

(* ... and at the first one: when the part before contains no character equal to the separator's first *)
Lemma split1_first c sep' : forall a b, ~ In c a -> split1 (c :: sep') (a ++ (c :: sep') ++ b) = Some (a, b).
Proof.
  induction a as [|x a IH]; intros b Hn.
  - simpl app. destruct b; simpl; rewrite Z.eqb_refl, prefix_of_app; reflexivity.
  - assert (Hx : c <> x) by (intros ->; apply Hn; left; reflexivity).
    assert (Hn' : ~ In c a) by (intros Hi; apply Hn; right; exact Hi).
    change ((x :: a) ++ (c :: sep') ++ b) with (x :: (a ++ (c :: sep') ++ b)).
    cbn [split1 prefix_of]. destruct (c =? x) eqn:E; [apply Z.eqb_eq in E; contradiction|].
    rewrite (IH b Hn'). reflexivity.
Qed.

Lemma split1_none_no_char c sep' : forall s, ~ In c s -> split1 (c :: sep') s = None.
Proof.
  induction s as [|x s IH]; intros Hn; [reflexivity|].
  cbn [split1 prefix_of]. destruct (c =? x) eqn:E; [apply Z.eqb_eq in E; subst; exfalso; apply Hn; left; reflexivity|].
  rewrite IH; [reflexivity | intros Hi; apply Hn; right; exact Hi].
Qed.

(* the handler is total and answers only these *)
Theorem handle_total ep h msg :
  handle ep h msg = Abort \/ handle ep h msg = Respond 200 \/ handle ep h msg = Respond 503 \/ handle ep h msg = Respond 404.
Proof.
  unfold handle. destruct msg as [m|]; [|auto]. destruct (parse m) as [[mt p]|]; [|auto].
  destruct (text_eqb mt GET && text_eqb p ep); [destruct h; simpl; auto | auto].
Qed.

(* the status is reported iff the request line says GET <endpoint> *)
Theorem status_iff ep h m :
  handle ep h (Some m) = Respond (status_code h) <-> parse m = Some (GET, ep).
Proof.
  unfold handle. destruct (parse m) as [[mt p]|].
  - destruct (text_eqb mt GET) eqn:E1; destruct (text_eqb p ep) eqn:E2; simpl.
    + apply text_eqb_eq in E1, E2. subst. tauto.
    + split; [destruct h; discriminate|]. intros H; inversion H; subst.
      assert (text_eqb ep ep = true) by (apply text_eqb_eq; reflexivity). congruence.
    + split; [destruct h; discriminate|]. intros H; inversion H; subst.
      assert (text_eqb GET GET = true) by (apply text_eqb_eq; reflexivity). congruence.
    + split; [destruct h; discriminate|]. intros H; inversion H; subst.
      assert (text_eqb GET GET = true) by (apply text_eqb_eq; reflexivity). congruence.
  - split; discriminate.
Qed.

Theorem not_found_iff ep h m :
  handle ep h (Some m) = Respond 404 <-> exists mt p, parse m = Some (mt, p) /\ (mt <> GET \/ p <> ep).
Proof.
  unfold handle. destruct (parse m) as [[mt p]|].
  - destruct (text_eqb mt GET) eqn:E1; destruct (text_eqb p ep) eqn:E2; simpl.
    + apply text_eqb_eq in E1, E2. subst. split; [destruct h; discriminate|].
      intros (mt & p & H & [Hn|Hn]); inversion H; subst; contradiction.
    + split; [|reflexivity]. intros _. exists mt, p. split; [reflexivity|]. right. intros ->.
      assert (text_eqb ep ep = true) by (apply text_eqb_eq; reflexivity). congruence.
    + split; [|reflexivity]. intros _. exists mt, p. split; [reflexivity|]. left. intros ->.
      assert (text_eqb GET GET = true) by (apply text_eqb_eq; reflexivity). congruence.
    + split; [|reflexivity]. intros _. exists mt, p. split; [reflexivity|]. left. intros ->.
      assert (text_eqb GET GET = true) by (apply text_eqb_eq; reflexivity). congruence.
  - split; [discriminate|]. intros (mt & p & H & _). discriminate.
Qed.

Theorem abort_iff ep h m : handle ep h (Some m) = Abort <-> parse m = None.
Proof.
  unfold handle. destruct (parse m) as [[mt p]|]; [|tauto].
  destruct (text_eqb mt GET && text_eqb p ep); [destruct h|]; split; discriminate.
Qed.

(* whatever parse accepts really has the shape  method SP path SP ... [CRLF ...] CRLF CRLF ... *)
Theorem parse_sound m mt p :
  parse m = Some (mt, p) ->
  exists headers body rest, m = headers ++ BLANK ++ body /\
     ((exists more, headers = (mt ++ [SP] ++ p ++ [SP] ++ rest) ++ CRLF ++ more) \/ headers = mt ++ [SP] ++ p ++ [SP] ++ rest).
Proof.
  unfold parse. destruct (split1 BLANK m) as [[hd body]|] eqn:E1; [|discriminate].
  apply split1_sound in E1.
  destruct (split1 CRLF hd) as [[l more]|] eqn:E2.
  - apply split1_sound in E2.
    destruct (split1 [SP] l) as [[mt' r1]|] eqn:E3; [|discriminate]. apply split1_sound in E3.
    destruct (split1 [SP] r1) as [[p' r2]|] eqn:E4; [|discriminate]. apply split1_sound in E4.
    intros H; inversion H; subst. exists (((mt ++ [SP] ++ p ++ [SP] ++ r2) ++ CRLF ++ more)), body, r2.
    split; [reflexivity|]. left. exists more. reflexivity.
  - destruct (split1 [SP] hd) as [[mt' r1]|] eqn:E3; [|discriminate]. apply split1_sound in E3.
    destruct (split1 [SP] r1) as [[p' r2]|] eqn:E4; [|discriminate]. apply split1_sound in E4.
    intros H; inversion H; subst. exists (mt ++ [SP] ++ p ++ [SP] ++ r2), body, r2. split; [reflexivity|]. right. reflexivity.
Qed.

(* a well-formed minimal request is accepted: GET <endpoint> <version> CRLF CRLF <anything> *)
Theorem parse_wellformed mt p ver body :
  ~ In SP mt -> ~ In SP p -> ~ In CR mt -> ~ In CR p -> ~ In CR ver ->
  parse ((mt ++ [SP] ++ p ++ [SP] ++ ver) ++ BLANK ++ body) = Some (mt, p).
Proof.
  intros Hs1 Hs2 Hc1 Hc2 Hc3. unfold parse, BLANK.
  rewrite (split1_first CR [LF; CR; LF]).
  2:{ intros Hi. repeat (apply in_app_or in Hi; destruct Hi as [Hi|Hi]); auto;
      simpl in Hi; destruct Hi as [Hi|Hi]; try discriminate; auto. }
  rewrite (split1_none_no_char CR [LF]).
  2:{ intros Hi. repeat (apply in_app_or in Hi; destruct Hi as [Hi|Hi]); auto;
      simpl in Hi; destruct Hi as [Hi|Hi]; try discriminate; auto. }
  rewrite (split1_first SP [] mt (p ++ [SP] ++ ver) Hs1).
  rewrite (split1_first SP [] p ver Hs2). reflexivity.
Qed.

Corollary wellformed_get_answers_status ep h ver body :
  ~ In SP ep -> ~ In CR ep -> ~ In CR ver ->
  handle ep h (Some ((GET ++ [SP] ++ ep ++ [SP] ++ ver) ++ BLANK ++ body)) = Respond (status_code h).
Proof.
  intros H1 H2 H3. apply status_iff. apply parse_wellformed; auto;
    intros Hi; simpl in Hi; repeat (destruct Hi as [Hi|Hi]; [discriminate|]); exact Hi.
Qed.

(* the handler is a function of its arguments only: nothing a request contains can change the reported status *)
Theorem handle_pure ep h m1 m2 : handle ep h m2 = handle ep h m2 /\ (forall h', handle ep h' m1 = Abort <-> handle ep h m1 = Abort).
Proof.
  split; [reflexivity|]. intros h'. unfold handle. destruct m1 as [m|]; [|tauto].
  destruct (parse m) as [[mt p]|]; [|tauto]. destruct (text_eqb mt GET && text_eqb p ep); [destruct h, h'|]; split; auto; discriminate.
Qed.

Example http_examples :
  let ep := [47; 104] in   (* "/h" *)
  map http_obs
   [ (ep, true, Some (GET ++ [SP] ++ ep ++ [SP; 72] ++ BLANK));
     (ep, false, Some (GET ++ [SP] ++ ep ++ [SP; 72] ++ CRLF ++ [72; 111] ++ BLANK ++ [1; 2]));
     (ep, true, Some (GET ++ [SP] ++ ep ++ [47] ++ [SP; 72] ++ BLANK));
     (ep, true, Some (GET ++ [SP] ++ ep ++ BLANK));
     (ep, true, Some (GET ++ [SP] ++ ep ++ [SP; 72] ++ CRLF));
     (ep, true, None);
     (ep, true, Some ([80] ++ [SP] ++ ep ++ [SP] ++ BLANK)) ]
  = [[1; 200]; [1; 503]; [1; 404]; [0]; [0]; [0]; [1; 404]].
Proof. vm_compute. reflexivity. Qed.
