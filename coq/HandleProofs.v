From Coq Require Import ZifyBool.
From Repid Require Import Base Sched Handle.

Lemma count_broker_app a b : count_broker (a ++ b) = (count_broker a + count_broker b)%nat.
Proof. unfold count_broker. rewrite filter_app, app_length. reflexivity. Qed.

(* callbacks never talk to the broker *)
Lemma run_cbs_no_broker ttl sf l : count_broker (run_cbs ttl sf l) = 0%nat.
Proof. induction l as [|c l IH]; simpl; [reflexivity|]. destruct c; simpl; exact IH. Qed.

Definition cb_event (ttl : option dur) (sf : bool) (c : cb) : ev :=
  match c with CbUser id fails => ECallback id (negb fails) | CbStore s d e => EStore s d e ttl (negb sf) end.

(* all callbacks run, in list order, whether or not some of them fail *)
Lemma run_cbs_all ttl sf l : run_cbs ttl sf l = map (cb_event ttl sf) l.
Proof. induction l as [|c l IH]; simpl; [reflexivity|]. destruct c; simpl; rewrite IH; reflexivity. Qed.

(* wanted = None for every terminal call on a read-only handle *)
Lemma wanted_ro pol h c now : h_ro h = true -> wanted pol h c now = None.
Proof.
  intros Hro. destruct c; simpl; rewrite ?Hro; try reflexivity;
    destruct (cat_eqb (h_cat h) Normal); simpl; try reflexivity;
    destruct (_ <=? _); reflexivity.
Qed.

Ltac break_hstep :=
  repeat match goal with
  | |- context [match ?x with _ => _ end] => destruct x eqn:?
  | |- context [if ?x then _ else _] => destruct x eqn:?
  end.

(* ---------- one step ---------- *)
Lemma hstep_terminal_shape pol now sf h c bf :
  is_terminal_api c = true ->
  hstep pol now sf h c bf =
  match wanted pol h c now with
  | None => (h, [ERefused], false)
  | Some b =>
      if bf then (h, [EBrokerFail b], false)
      else
        let h1 := set_ro h in
        if h_dep h then
          let cbs := match h_lazy h with Some (pos, s) => insert_at pos s (h_cbs h) | None => h_cbs h end in
          let h2 := set_cbs h1 cbs in
          let evs := run_cbs (result_ttl (h_p h)) sf cbs in
          let '(s, d, e) := match h_res h with Some r => r | None => (default_success c, None, None) end in
          (h2, EBroker b :: evs ++ [ENoAction s d e], true)
        else (h1, [EBroker b; EDone], false)
  end.
Proof. destruct c; simpl; intros; try discriminate; reflexivity. Qed.

Lemma hstep_nonterminal pol now sf h c bf h' evs lft :
  is_terminal_api c = false -> hstep pol now sf h c bf = (h', evs, lft) ->
  h_ro h' = h_ro h /\ count_broker evs = 0%nat /\ lft = false /\ h_cat h' = h_cat h /\ h_p h' = h_p h /\ h_dep h' = h_dep h.
Proof.
  intros Ht H. destruct c; simpl in Ht; try discriminate; simpl in H.
  - destruct (p_result (h_p h)); [destruct (h_rbb h)|]; inversion H; subst; simpl; repeat split; auto.
  - destruct (p_result (h_p h)); [destruct (h_rbb h)|]; inversion H; subst; simpl; repeat split; auto.
  - inversion H; subst; simpl; repeat split; auto.
Qed.

Lemma hstep_ro pol now sf h c bf h' evs lft :
  h_ro h = true -> hstep pol now sf h c bf = (h', evs, lft) ->
  h_ro h' = true /\ count_broker evs = 0%nat /\ lft = false /\
  (is_terminal_api c = true -> evs = [ERefused] /\ h' = h).
Proof.
  intros Hro H. destruct (is_terminal_api c) eqn:Ht.
  - rewrite (hstep_terminal_shape _ _ _ _ _ _ Ht), (wanted_ro _ _ _ _ Hro) in H.
    inversion H; subst. repeat split; auto.
  - destruct (hstep_nonterminal _ _ _ _ _ _ _ _ _ Ht H) as (A & B & C & _).
    rewrite A. repeat split; auto; discriminate.
Qed.

(* the shape of a terminal step, as a disjunction *)
Lemma hstep_terminal_cases pol now sf h c bf h' evs lft :
  is_terminal_api c = true -> hstep pol now sf h c bf = (h', evs, lft) ->
  (wanted pol h c now = None /\ h' = h /\ evs = [ERefused] /\ lft = false) \/
  (exists b, wanted pol h c now = Some b /\ bf = true /\ h' = h /\ evs = [EBrokerFail b] /\ lft = false) \/
  (exists b, wanted pol h c now = Some b /\ bf = false /\ h_ro h' = true /\ count_broker evs = 1%nat /\
             hd_error evs = Some (EBroker b) /\ h_cat h' = h_cat h /\ h_p h' = h_p h /\ h_dep h' = h_dep h).
Proof.
  intros Ht H. rewrite (hstep_terminal_shape _ _ _ _ _ _ Ht) in H.
  destruct (wanted pol h c now) as [b|] eqn:W.
  - destruct bf.
    + inversion H; subst. right; left. exists b. auto.
    + right; right. exists b. cbv zeta in H. destruct (h_dep h) eqn:Hd.
      * pose proof (run_cbs_no_broker (result_ttl (h_p h)) sf
                      (match h_lazy h with Some (pos, s) => insert_at pos s (h_cbs h) | None => h_cbs h end)) as Hn.
        set (evs0 := run_cbs _ _ _) in *.
        destruct (match h_res h with Some r => r | None => (default_success c, None, None) end) as [[s d] e].
        inversion H; subst. simpl. repeat split; auto.
        change (EBroker b :: evs0 ++ [ENoAction s d e]) with ([EBroker b] ++ evs0 ++ [ENoAction s d e]).
        rewrite !count_broker_app, Hn. reflexivity.
      * inversion H; subst. simpl. repeat split; auto.
  - inversion H; subst. left. auto.
Qed.

(* ---------- single use, over whole sequences ---------- *)
Lemma hrun_ro pol now sf cs : forall h h' evs lft,
  h_ro h = true -> hrun pol now sf h cs = (h', evs, lft) ->
  h_ro h' = true /\ count_broker evs = 0%nat /\ lft = false.
Proof.
  induction cs as [|[c bf] cs IH]; simpl; intros h h' evs lft Hro H.
  - inversion H; subst. auto.
  - destruct (hstep pol now sf h c bf) as [[h1 evs1] lft1] eqn:E.
    destruct (hstep_ro _ _ _ _ _ _ _ _ _ Hro E) as (Hro1 & Hc1 & Hl1 & _). subst lft1.
    destruct (hrun pol now sf h1 cs) as [[h2 evs2] lft2] eqn:E2.
    destruct (IH _ _ _ _ Hro1 E2) as (Hro2 & Hc2 & Hl2).
    inversion H; subst. rewrite count_broker_app, Hc1, Hc2. auto.
Qed.

Theorem single_use pol now sf cs : forall h h' evs lft,
  hrun pol now sf h cs = (h', evs, lft) ->
  (count_broker evs <= 1)%nat /\ (h_ro h = false -> count_broker evs = 1%nat -> h_ro h' = true)
  /\ (h_ro h = true -> count_broker evs = 0%nat).
Proof.
  induction cs as [|[c bf] cs IH]; simpl; intros h h' evs lft H.
  - inversion H; subst. simpl. repeat split; auto; discriminate.
  - destruct (hstep pol now sf h c bf) as [[h1 evs1] lft1] eqn:E.
    destruct (h_ro h) eqn:Hro.
    + (* already spent *)
      destruct (hstep_ro _ _ _ _ _ _ _ _ _ Hro E) as (Hro1 & Hc1 & Hl1 & _). subst lft1.
      destruct (hrun pol now sf h1 cs) as [[h2 evs2] lft2] eqn:E2.
      destruct (hrun_ro _ _ _ _ _ _ _ _ Hro1 E2) as (Hro2 & Hc2 & _).
      inversion H; subst. rewrite count_broker_app, Hc1, Hc2. repeat split; auto; discriminate.
    + destruct (is_terminal_api c) eqn:Ht.
      * destruct (hstep_terminal_cases _ _ _ _ _ _ _ _ _ Ht E) as
          [(W & -> & -> & ->) | [(b & W & _ & -> & -> & ->) | (b & W & _ & Hro1 & Hc1 & _)]].
        -- destruct (hrun pol now sf h cs) as [[h2 evs2] lft2] eqn:E2. specialize (IH _ _ _ _ E2).
           inversion H; subst. unfold count_broker in *. simpl in *. rewrite Hro in IH.
           destruct IH as (A & B & C). repeat split; auto; discriminate.
        -- destruct (hrun pol now sf h cs) as [[h2 evs2] lft2] eqn:E2. specialize (IH _ _ _ _ E2).
           inversion H; subst. unfold count_broker in *. simpl in *. rewrite Hro in IH.
           destruct IH as (A & B & C). repeat split; auto; discriminate.
        -- destruct lft1.
           ++ inversion H; subst. rewrite Hc1. repeat split; auto; discriminate.
           ++ destruct (hrun pol now sf h1 cs) as [[h2 evs2] lft2] eqn:E2.
              destruct (hrun_ro _ _ _ _ _ _ _ _ Hro1 E2) as (Hro2 & Hc2 & _).
              inversion H; subst. rewrite count_broker_app, Hc1, Hc2. repeat split; auto; discriminate.
      * destruct (hstep_nonterminal _ _ _ _ _ _ _ _ _ Ht E) as (Hro1 & Hc1 & Hl1 & _). subst lft1.
        destruct (hrun pol now sf h1 cs) as [[h2 evs2] lft2] eqn:E2. specialize (IH _ _ _ _ E2).
        inversion H; subst. rewrite count_broker_app, Hc1. simpl. rewrite Hro1, Hro in IH.
        destruct IH as (A & B & C). repeat split; auto; discriminate.
Qed.

(* after the handle is spent, every action raises and nothing reaches the broker *)
Theorem spent_handle_refuses pol now sf h c bf :
  h_ro h = true -> is_terminal_api c = true -> hstep pol now sf h c bf = (h, [ERefused], false).
Proof.
  intros Hro Ht. rewrite (hstep_terminal_shape _ _ _ _ _ _ Ht), (wanted_ro _ _ _ _ Hro). reflexivity.
Qed.

(* a refusal or a failing broker call leaves the handle exactly as it was *)
Theorem refusal_keeps_handle pol now sf h c bf h' evs lft :
  is_terminal_api c = true -> hstep pol now sf h c bf = (h', evs, lft) ->
  count_broker evs = 0%nat -> h' = h /\ lft = false.
Proof.
  intros Ht E Hc.
  destruct (hstep_terminal_cases _ _ _ _ _ _ _ _ _ Ht E) as
    [(W & -> & -> & ->) | [(b & W & _ & -> & -> & ->) | (b & W & _ & Hro1 & Hc1 & _)]]; auto.
  rewrite Hc in Hc1. discriminate.
Qed.

(* category rules *)
Theorem category_rules pol h now :
  h_cat h <> Normal ->
  wanted pol h HNack now = None /\ (forall d, wanted pol h (HRetry d) now = None)
  /\ (forall d, wanted pol h (HForceRetry d) now = None).
Proof.
  intros Hc. assert (E : cat_eqb (h_cat h) Normal = false).
  { destruct (cat_eqb (h_cat h) Normal) eqn:E; [apply cat_eqb_eq in E; contradiction | reflexivity]. }
  simpl. rewrite E. simpl. auto.
Qed.

(* ack, reject and reschedule are allowed in every category while the handle is fresh *)
Theorem category_allowed pol h now :
  h_ro h = false ->
  wanted pol h HAck now = Some BAck /\ wanted pol h HReject now = Some BReject /\
  wanted pol h HReschedule now = Some (BRequeue (prepare_reschedule (h_p h) now)).
Proof. intros Hro. simpl. rewrite Hro. auto. Qed.

(* retry budget *)
Theorem retry_budget pol h now d :
  r_max (p_retries (h_p h)) <= r_tried (p_retries (h_p h)) -> wanted pol h (HRetry d) now = None.
Proof.
  intros Hle. simpl. destruct (cat_eqb (h_cat h) Normal); simpl; [|reflexivity].
  destruct (h_ro h); [reflexivity|]. destruct (_ <=? _) eqn:E; [reflexivity|lia].
Qed.

Theorem retry_within_budget pol h now d :
  h_cat h = Normal -> h_ro h = false -> r_tried (p_retries (h_p h)) < r_max (p_retries (h_p h)) ->
  exists back, wanted pol h (HRetry d) now = Some (BRequeue (prepare_retry (h_p h) now back)).
Proof.
  intros Hc Hro Hlt. simpl. rewrite Hc, Hro. simpl. destruct (_ <=? _) eqn:E; [lia|]. eexists. reflexivity.
Qed.

Theorem force_retry_ignores_budget pol h now d :
  h_cat h = Normal -> h_ro h = false ->
  exists back, wanted pol h (HForceRetry d) now = Some (BRequeue (prepare_retry (h_p h) now back)).
Proof. intros Hc Hro. simpl. rewrite Hc, Hro. simpl. eexists. reflexivity. Qed.

(* callback order after a successful eager action: registration order, the store at the position of the
   latest set_result / set_exception call, every callback executed even when some fail; then _NoAction *)
Theorem callback_order pol now sf h c b :
  h_dep h = true -> is_terminal_api c = true -> wanted pol h c now = Some b ->
  let cbs := match h_lazy h with Some (pos, s) => insert_at pos s (h_cbs h) | None => h_cbs h end in
  exists s d e, hstep pol now sf h c false =
    (set_cbs (set_ro h) cbs, EBroker b :: map (cb_event (result_ttl (h_p h)) sf) cbs ++ [ENoAction s d e], true).
Proof.
  intros Hd Ht W cbs. rewrite (hstep_terminal_shape _ _ _ _ _ _ Ht), W, Hd. cbv zeta.
  fold cbs. rewrite run_cbs_all.
  destruct (match h_res h with Some r => r | None => (default_success c, None, None) end) as [[s d] e].
  exists s, d, e. reflexivity.
Qed.

(* the store callback lands where the latest set_* call was made *)
Lemma hstep_set_result_position pol now sf h v bf r :
  p_result (h_p h) = Some r -> h_rbb h = true ->
  hstep pol now sf h (HSetResult v) bf =
    (set_result_state h (length (h_cbs h), CbStore true v None) (true, Some v, None), [EDone], false).
Proof. intros Hr Hb. simpl. rewrite Hr, Hb. reflexivity. Qed.

(* control leaves the actor: nothing after a successful eager action runs *)
Theorem eager_stops_body pol now sf h cs1 cs2 h' evs :
  hrun pol now sf h cs1 = (h', evs, true) -> hrun pol now sf h (cs1 ++ cs2) = (h', evs, true).
Proof.
  revert h h' evs. induction cs1 as [|[c bf] cs1 IH]; simpl; intros h h' evs H; [inversion H|].
  destruct (hstep pol now sf h c bf) as [[h1 evs1] lft1]. destruct lft1; [exact H|].
  destruct (hrun pol now sf h1 cs1) as [[h2 evs2] lft2] eqn:E2.
  inversion H; subst. rewrite (IH _ _ _ E2). reflexivity.
Qed.

(* non-vacuity: a concrete sequence touching every rule *)
Example handle_example :
  let p := mkParams 1000000 (Some (mkResultp 7 None)) (mkRetries 1 0) (mkDelay None None None) 0 None in
  hcase_obs (mkHCase true Normal p true (PolConst 5) 100 false
     [(HAddCallback 1 false, false); (HSetResult 42, false); (HAddCallback 2 false, false);
      (HSetException 9, false); (HAddCallback 3 false, false); (HRetry None, true); (HRetry None, false); (HAck, false)])
  = [107; 107; 107; 107; 107;
     102; 4; 1000000; 1; 7; 0; 1; 1; 0; 0; 1; 105; 0; 0;
     101; 4; 1000000; 1; 7; 0; 1; 1; 0; 0; 1; 105; 0; 0;
     104; 1; 1; 104; 2; 1; 105; 0; 9; 1; 9; 0; 1; 104; 3; 1; 106; 0; 0; 1; 9].
Proof. vm_compute. reflexivity. Qed.
