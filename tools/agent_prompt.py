#!/usr/bin/env python3
"""tools/agent_prompt.py <PROP> <worktree>: prints the prompt given to a mutation sub-agent (property text only)."""
import json, sys
pid, wt = sys.argv[1], sys.argv[2]
focus = sys.argv[3] if len(sys.argv) > 3 else ""
FOCUS = {"redis": "\n\nFOCUS FOR THIS ROUND: make the change in the Redis client (files under repid/connections/redis/), i.e. break the property for users of the Redis broker. There is no Redis server here: for demo.py write your own small in-process stand-in for the `redis.asyncio` connection object (assign it to `broker.conn` of a RedisMessageBroker constructed with any URL; it needs only the handful of commands the client really issues - lists, sorted sets, hashes, scan, and `pipeline(transaction=True)` as an async context manager whose queued commands run at `execute()`), implementing the documented semantics of those Redis commands faithfully, and drive the real client code through it.", "": ""}[focus]
p = {json.loads(l)["id"]: json.loads(l) for l in open("/verif/properties.jsonl")}[pid]
print(f"""You are working on a scratch copy of the open-source Python project aleksul/repid (a small asyncio job-queue framework: producers enqueue jobs, workers run actors with retries, delays, cron and results over in-memory, Redis or RabbitMQ brokers). Your copy is the git worktree {wt} — work ONLY inside that directory (never touch /repo or /verif or other directories under /tmp/wt). Python: /venv/bin/python. Always run with PYTHONPATH={wt} so that your copy is the one imported, e.g.
  cd {wt} && PYTHONPATH={wt} /venv/bin/python -m pytest -q -p no:cacheprovider --timeout=900 --continue-on-collection-errors
On the unchanged tree 194 tests pass; tests/integration (collection error) and tests/test_hypothesis.py::test_job_creation always fail here — ignore those two. There is no network, no Redis server, no RabbitMQ server and croniter is not installed; everything you run must work in this sandbox.

This is a mutation-testing exercise for a verification effort. Here is a semantic property the library is supposed to satisfy:

PROPERTY {pid}: {p['title']}
Statement: {p['statement']}
Quantified over: {p['quantifier']['text']}
Why the existing tests do not settle it: {p['why_tests_cant']}

YOUR TASK: make a change to the library source (files under {wt}/repid/) that BREAKS this property, while the package still imports and the existing test suite still passes exactly as before (all 194). The change must look like a realistic regression (a refactor, an 'optimisation', an off-by-one, a reordered await, a changed comparison, a dropped branch, state shared where it should not be ...), and it must be SUBTLE: it should need something specific to manifest — a particular interleaving or timing, a cancellation/crash/fault at a particular point, a multi-step sequence of operations, an unusual or boundary input, or two cooperating sites that each look fine alone. Do NOT make a change that ordinary use would expose at once (e.g. every job failing).{FOCUS}

Also write a demonstration {wt}/demo.py: a standalone script (run as `cd {wt} && PYTHONPATH={wt} /venv/bin/python demo.py`) that exits 0 on the UNCHANGED tree and exits non-zero (printing what went wrong) WITH your change. Verify both: use `git diff -- repid > patch.diff; git checkout -- repid; ...; git apply patch.diff` to run demo.py and the test suite on both versions. NEVER use `git stash`: the stash is shared between all worktrees of this repository and other people are working in sibling worktrees. The demo should finish in well under a minute.

Deliverables, all inside {wt}: patch.diff (output of `git diff -- repid`, must apply with `git apply` to the unchanged tree), demo.py, and leave the change applied in the working tree. Do not commit. Finish with a short report: what you changed and why it looks innocent, which clause of the property it breaks, exactly what is needed for it to manifest, and the commands you ran with their results (test suite with the change: N passed; demo without change: exit 0; demo with change: exit code and message).""")
