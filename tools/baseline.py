#!/usr/bin/env python3
"""tools/baseline.py [repo_dir]: run the pinned test suite on repo_dir (default /repo) and compare with BASELINE.json."""
import json, os, subprocess, sys, tempfile
import xml.etree.ElementTree as ET

repo = os.path.abspath(sys.argv[1] if len(sys.argv) > 1 else "/repo")
base = json.load(open("/root/.vp/BASELINE.json"))
want = set(base["stable_pass"])
with tempfile.TemporaryDirectory() as d:
    x = os.path.join(d, "j.xml")
    env = dict(os.environ, PYTHONPATH=repo, PYTHONDONTWRITEBYTECODE="1")
    env.pop("REPID_VERIF", None)
    p = subprocess.run(["/venv/bin/python", "-m", "pytest", "-q", "-p", "no:cacheprovider", "--timeout=900",
                        "--continue-on-collection-errors", f"--junitxml={x}"], cwd=repo, env=env,
                       capture_output=True, text=True)
    passed = set()
    for tc in ET.parse(x).getroot().iter("testcase"):
        if not any(ch.tag in ("failure", "error", "skipped") for ch in tc):
            passed.add(f"{tc.get('classname')}::{tc.get('name')}")
missing = sorted(want - passed)
print(f"baseline: {len(want & passed)}/{len(want)} stable tests pass in {repo}")
for m in missing:
    print("  NOT PASSING:", m)
sys.exit(1 if missing else 0)
