#!/bin/bash
# tools/mut.sh <PROP> <file-in-repo> <sed-expr> : apply a one-line mutation to /repo, run the quick check, undo it.
P=$1; F=$2; E=$3
cd /repo && sed -i "$E" "$F" && git diff --stat | head -3
if git diff --quiet; then echo "MUTATION DID NOT APPLY"; exit 2; fi
cd /verif && ./check $P --tier quick 2>&1 | grep -v "^$" | tail -4
git -C /repo checkout -- .
