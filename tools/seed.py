#!/usr/bin/env python3
"""tools/seed.py <name> <breaks-prop> <check-prop>[,<check-prop>...] [--needs "text"]
Confirms a sub-agent's mutant in its scratch worktree /tmp/wt/<name> (demo passes without / fails with the change, the
pinned suite still passes with it), runs the given checks against it in /repo (apply, check, undo) and files it under
/verif/seeded/<name>/."""
import argparse, json, os, shutil, subprocess, sys, time

ap = argparse.ArgumentParser()
ap.add_argument("name"); ap.add_argument("breaks"); ap.add_argument("checks")
ap.add_argument("--needs", default="")
ap.add_argument("--skip-confirm", action="store_true")
ap.add_argument("--tier", default="quick")
a = ap.parse_args()
wt = f"/tmp/wt/{a.name}"
dst = f"/verif/seeded/{a.name}"
src = wt if os.path.exists(f"{wt}/patch.diff") else dst
patch, demo = f"{src}/patch.diff", f"{src}/demo.py"
def sh(cmd, cwd=None, env=None, timeout=1800):
    p = subprocess.run(cmd, shell=True, cwd=cwd, env=env, capture_output=True, text=True, timeout=timeout)
    return p.returncode, (p.stdout + p.stderr)
meta = {"name": a.name, "breaks": a.breaks, "needs_to_manifest": a.needs, "ran": []}
if os.path.exists(f"{dst}/meta.json"):
    old = json.load(open(f"{dst}/meta.json"))
    for k in ("needs_to_manifest", "confirmation", "ran"):
        if old.get(k) and not meta.get(k):
            meta[k] = old[k]
rc, out = sh("git status --porcelain", "/repo")
assert out.strip() == "", "/repo is not clean:\n" + out
rc, out = sh(f"git apply --check {patch}", "/repo")
assert rc == 0, "patch does not apply to /repo HEAD:\n" + out
if not a.skip_confirm:
    scratch = f"/tmp/wt/_confirm_{a.name}"
    sh(f"git worktree remove --force {scratch}", "/repo")
    rc, out = sh(f"git worktree add --detach {scratch} HEAD", "/repo"); assert rc == 0, out
    try:
        env = dict(os.environ, PYTHONPATH=scratch, PYTHONDONTWRITEBYTECODE="1"); env.pop("REPID_VERIF", None)
        shutil.copy(demo, f"{scratch}/demo.py")
        rc0, out0 = sh("/venv/bin/python demo.py", scratch, env, 600)
        rc, out = sh(f"git apply {patch}", scratch); assert rc == 0, out
        rc1, out1 = sh("/venv/bin/python demo.py", scratch, env, 600)
        rcb, outb = sh(f"python3 /verif/tools/baseline.py {scratch}", None, None, 1800)
        meta["confirmation"] = {"demo_without_change_exit": rc0, "demo_with_change_exit": rc1,
                                "demo_with_change_tail": out1[-600:], "suite_with_change": outb.strip().splitlines()[0] if outb.strip() else "",
                                "suite_ok": rcb == 0}
        print(json.dumps(meta["confirmation"], indent=1))
        ok = rc0 == 0 and rc1 != 0 and rcb == 0
    finally:
        sh(f"git worktree remove --force {scratch}", "/repo")
    if not ok:
        print("NOT CONFIRMED - not filed"); sys.exit(3)
rc, out = sh(f"git apply {patch}", "/repo"); assert rc == 0, out
try:
    for pid in a.checks.split(","):
        t0 = time.time()
        rc, out = sh(f"./check {pid} --tier {a.tier}", "/verif", None, 3600)
        lines = [l for l in out.splitlines() if l.startswith(("VIOLATION", "KNOWN-FINDING")) or "theorems=" in l]
        print(f"--- {pid}: exit={rc}"); print("\n".join(l[:300] for l in lines))
        meta["ran"] = [r for r in meta["ran"] if r.get("check") != pid] + [
            {"check": pid, "tier": a.tier, "exit": rc, "detected": rc == 1, "lines": [l[:400] for l in lines if l.startswith("VIOLATION")],
             "wall_s": round(time.time() - t0, 1)}]
finally:
    rc, out = sh("git checkout -- . && git status --porcelain", "/repo")
    assert out.strip() == "", out
    # evidence files were rewritten by a run on a mutated tree: restore the committed ones
    sh("git checkout -- evidence", "/verif")
os.makedirs(dst, exist_ok=True)
if src != dst:
    shutil.copy(patch, f"{dst}/patch.diff"); shutil.copy(demo, f"{dst}/demo.py")
json.dump(meta, open(f"{dst}/meta.json", "w"), indent=1)
print("filed", dst, "detected by:", [r["check"] for r in meta["ran"] if r["detected"]])
