#!/bin/bash
# tools/run_all.sh [tier] [jobs]: run every claimed check, print one summary line each
cd "$(dirname "$0")/.."
TIER=${1:-quick}; J=${2:-4}
mkdir -p /tmp/verif_runall
python3 -c "import json;[print(c['property_id']) for c in json.load(open('MANIFEST.json'))['checks']]" | \
 xargs -P $J -I{} bash -c "(/usr/bin/time -f '{} %es' ./check {} --tier $TIER > /tmp/verif_runall/{}.log 2>&1; echo \"{} exit=\$?\" >> /tmp/verif_runall/{}.log)"
for f in /tmp/verif_runall/*.log; do grep -h "VIOLATION\|KNOWN-FINDING\|exit=\|theorems=" $f | cut -c1-220; done
