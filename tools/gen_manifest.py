#!/usr/bin/env python3
"""Regenerates /verif/MANIFEST.json from harness/registry.py and properties.jsonl."""
import json
import sys
from pathlib import Path

V = Path(__file__).resolve().parent.parent
sys.path.insert(0, str(V))
from harness.registry import COMMON_NOTE, PENDING_REASON, PROPS  # noqa: E402

ids = [json.loads(l)["id"] for l in (V / "properties.jsonl").read_text().splitlines() if l.strip()]
hooks_file = V / "hooks.json"
hooks = json.loads(hooks_file.read_text()) if hooks_file.exists() else {"source_commits": []}
checks, na = [], []
for i in ids:
    if i in PROPS and (V / "harness" / "props" / f"{i.lower()}.py").exists():
        p = PROPS[i]
        checks.append({
            "property_id": i,
            "quick_cmd": f"./check {i} --tier quick",
            "thorough_cmd": f"./check {i} --tier thorough",
            "evidence_file": f"/verif/evidence/{i}.json",
            "replay_cmd_template": f"./check {i} --replay {{path}}",
            "engine": "coq-proof+correspondence",
            "level_claimed": {"category": "proof", "text": p["text"], "design_ref": p.get("design", "DESIGN.md §3")},
            "level_note": COMMON_NOTE + p["note"],
            "technique": p["technique"],
        })
    else:
        na.append({"property_id": i, "reason": PROPS.get(i, {}).get("na_reason", PENDING_REASON)})
manifest = {
    "version": 1,
    "setup_cmd": "./setup.sh",
    "hooks": {
        "guard": "REPID_VERIF",
        "enable": "checks export REPID_VERIF=1; /repo is pure Python and is imported from its working tree (PYTHONPATH=/repo), nothing is built",
        "baseline_off_cmd": "cd /repo && env -u REPID_VERIF /venv/bin/python -m pytest -ra -q -p no:cacheprovider --timeout=900 --continue-on-collection-errors",
        "source_commits": hooks.get("source_commits", []),
        "add_only": True,
    },
    "engines": [{
        "name": "coq-proof+correspondence", "path": "/verif/coq + /verif/harness",
        "serves_properties": [c["property_id"] for c in checks],
        "kind_free_text": "Coq 8.16 theorems over hand-written executable Gallina models; models tied to /repo by running the real "
                          "code (virtual-time asyncio loop, pinned clock, fakes) and the model (vm_compute in coqc) on the same cases",
    }],
    "checks": checks,
    "notes": "See DESIGN.md. Known findings: known_findings.json. Seeded mutants: seeded/.",
    "not_applicable": na,
}
(V / "MANIFEST.json").write_text(json.dumps(manifest, indent=1) + "\n")
print(f"{len(checks)} checks, {len(na)} not claimed")
