"""Printing Python values as Coq terms (Z scope)."""
from __future__ import annotations

from datetime import datetime, timedelta, timezone
from typing import Any, Iterable

_EPOCH = datetime(1970, 1, 1)
_EPOCH_AWARE = datetime(1970, 1, 1, tzinfo=timezone.utc)
_US = timedelta(microseconds=1)


def us_of_dt(dt: datetime) -> int:
    """Exact integer microseconds since the epoch (naive datetimes are read as UTC)."""
    if dt.tzinfo is None:
        return (dt - _EPOCH) // _US
    return (dt - _EPOCH_AWARE) // _US


def dt_of_us(us: int) -> datetime:
    return _EPOCH + timedelta(microseconds=us)


def us_of_td(td: timedelta) -> int:
    return td // _US


def Z(n: int) -> str:
    n = int(n)
    return str(n) if n >= 0 else f"({n})"


def B(b: bool) -> str:
    return "true" if b else "false"


def opt(x: Any, f=Z) -> str:
    return "None" if x is None else f"(Some {f(x)})"


def lst(items: Iterable[str]) -> str:
    return "[" + "; ".join(items) + "]"


def zlist(items: Iterable[int]) -> str:
    return lst(Z(i) for i in items)


def pair(a: str, b: str) -> str:
    return f"({a}, {b})"


def app(ctor: str, *args: str) -> str:
    return "(" + " ".join((ctor,) + args) + ")"


# ---- observation encoders mirroring Base.v (enc_*) ----
def enc_optZ(x) -> list[int]:
    return [0] if x is None else [1, int(x)]


class Interner:
    """Maps strings (ids, topics, queues, payloads) to small numbers and back."""

    def __init__(self, start: int = 1) -> None:
        self.fwd: dict[Any, int] = {}
        self.bwd: dict[int, Any] = {}
        self.next = start

    def __call__(self, s: Any) -> int:
        if s not in self.fwd:
            self.fwd[s] = self.next
            self.bwd[self.next] = s
            self.next += 1
        return self.fwd[s]
