"""Paths, environment and small shared helpers of the verification harness."""
from __future__ import annotations

import json
import os
import random
import sys
import time
from dataclasses import dataclass, field
from pathlib import Path
from typing import Any

VERIF = Path(__file__).resolve().parent.parent
REPO = Path(os.environ.get("VERIF_REPO", "/repo"))
COQ = VERIF / "coq"
CASES = COQ / "_cases"
EVIDENCE = VERIF / "evidence"
REPLAYS = VERIF / "replays"
CORPUS = VERIF / "corpus"
GUARD = "REPID_VERIF"

if str(REPO) not in sys.path:
    sys.path.insert(0, str(REPO))


@dataclass
class Failure:
    """One failing case. kind = signature used to match known findings."""

    kind: str
    what: str
    case: Any
    detail: Any = None


@dataclass
class Result:
    evaluations: int = 0
    distinct: set = field(default_factory=set)          # canonical encodings of non-trivial cases
    samples: list = field(default_factory=list)
    failures: list = field(default_factory=list)        # oracle failures on the implementation
    mismatches: list = field(default_factory=list)      # model != implementation
    traces_validated: int = 0
    model_cases: int = 0
    distribution: dict = field(default_factory=dict)
    rule: str = ""
    notes: list = field(default_factory=list)
    relations: list = field(default_factory=list)       # names of correspondence relations checked
    exhaustive: bool = False

    def count(self, key: str, n: int = 1) -> None:
        self.distribution[key] = self.distribution.get(key, 0) + n

    def add_case(self, enc: str, nontrivial: bool = True) -> None:
        self.evaluations += 1
        if nontrivial:
            self.distinct.add(hash(enc))

    def sample(self, s: Any, limit: int = 6) -> None:
        if len(self.samples) < limit:
            self.samples.append(s)


@dataclass
class Ctx:
    pid: str
    tier: str
    seed: int
    t0: float = field(default_factory=time.time)
    replay: Any = None

    @property
    def thorough(self) -> bool:
        return self.tier == "thorough"

    def rng(self, salt: str = "") -> random.Random:
        return random.Random(f"{self.pid}:{self.seed}:{salt}")

    def scale(self, quick: int, thorough: int) -> int:
        return thorough if self.thorough else quick


def jdump(obj: Any, path: Path) -> None:
    path.parent.mkdir(parents=True, exist_ok=True)
    tmp = path.with_suffix(path.suffix + ".tmp")
    tmp.write_text(json.dumps(obj, indent=1, default=str) + "\n")
    tmp.replace(path)
