"""FakeRedis — the subset of Redis the repid client uses, as an object-level replacement of `RedisMessageBroker.conn`.

Semantics (the trusted description of the real server, mirrored by coq/RedisSrv.v): single-threaded command execution;
MULTI/EXEC atomic; LPUSH at the head, RPUSH at the tail, LRANGE with negative indices, LREM count<0 from the tail; ZADD
overwrites the score; ZRANGE by index and BYSCORE(+LIMIT) ordered by (score, member bytes); HSETNX only when the field is
absent; SCAN/ZSCAN return every key / member once.  Every command (and every EXEC) is one atomic step with a suspension
before and after it, so client calls interleave at command granularity and can be cut between commands.  Every step is
logged with its issuer (a context variable set by the harness) and its reply."""
from __future__ import annotations

import asyncio
import contextvars
import fnmatch

ISSUER = contextvars.ContextVar("verif_redis_issuer", default=None)


def _b(x) -> bytes:
    if isinstance(x, bytes):
        return x
    return str(x).encode()


class FakeRedis:
    def __init__(self) -> None:
        self.hashes: dict[str, dict[str, bytes]] = {}
        self.lists: dict[str, list[bytes]] = {}
        self.zsets: dict[str, dict[bytes, float]] = {}
        self.log: list = []
        self.fail_next = 0          # number of upcoming steps that raise ConnectionError (before taking effect)
        self.latency = 0            # extra loop iterations a step spends on the wire, each way (a round trip takes time)

    # ---- server-side primitives (synchronous: one atomic step each) ----
    def _zsorted(self, name: str) -> list:
        return sorted(self.zsets.get(name, {}).items(), key=lambda kv: (kv[1], kv[0]))

    def _apply(self, cmd: tuple):
        op = cmd[0]
        if len(cmd) > 1 and isinstance(cmd[1], bytes):          # key names: bytes and str name the same key
            cmd = (op, cmd[1].decode()) + tuple(cmd[2:])
        if op in ("hget", "hdel", "hsetnx") and isinstance(cmd[2], bytes):
            cmd = cmd[:2] + (cmd[2].decode(),) + tuple(cmd[3:])
        if op == "hsetnx":
            _, name, field, value = cmd
            h = self.hashes.setdefault(name, {})
            if field in h:
                return 0
            h[field] = _b(value)
            return 1
        if op == "hset":
            _, name, mapping = cmd
            h = self.hashes.setdefault(name, {})
            n = sum(1 for k in mapping if k not in h)
            for k, v in mapping.items():
                h[k] = _b(v)
            return n
        if op == "hget":
            return self.hashes.get(cmd[1], {}).get(cmd[2])
        if op == "hmget":
            return [self.hashes.get(cmd[1], {}).get(k) for k in cmd[2]]
        if op == "hdel":
            h = self.hashes.get(cmd[1])
            if h is None or cmd[2] not in h:
                return 0
            del h[cmd[2]]
            if not h:
                del self.hashes[cmd[1]]
            return 1
        if op == "delete":
            n = 0
            for d in (self.hashes, self.lists, self.zsets):
                if cmd[1] in d:
                    del d[cmd[1]]
                    n = 1
            return n
        if op == "lpush":
            self.lists.setdefault(cmd[1], []).insert(0, _b(cmd[2]))
            return len(self.lists[cmd[1]])
        if op == "rpush":
            self.lists.setdefault(cmd[1], []).append(_b(cmd[2]))
            return len(self.lists[cmd[1]])
        if op == "lrange":
            _, name, start, end = cmd
            l = self.lists.get(name, [])
            n = len(l)
            if start < 0:
                start = max(n + start, 0)
            if end < 0:
                end = n + end
            end = min(end, n - 1)
            if start > end or start >= n:
                return []
            return list(l[start:end + 1])
        if op == "lrem":
            _, name, count, value = cmd
            l = self.lists.get(name, [])
            v = _b(value)
            removed = 0
            if count < 0:
                i = len(l) - 1
                while i >= 0 and removed < -count:
                    if l[i] == v:
                        del l[i]
                        removed += 1
                    i -= 1
            else:
                i = 0
                while i < len(l) and (count == 0 or removed < count):
                    if l[i] == v:
                        del l[i]
                        removed += 1
                    else:
                        i += 1
            if not l and name in self.lists:
                del self.lists[name]
            return removed
        if op == "zadd":
            _, name, mapping = cmd
            z = self.zsets.setdefault(name, {})
            n = 0
            for k, v in mapping.items():
                kb = _b(k)
                if kb not in z:
                    n += 1
                z[kb] = float(v)
            return n
        if op == "zrem":
            z = self.zsets.get(cmd[1])
            if z is None or _b(cmd[2]) not in z:
                return 0
            del z[_b(cmd[2])]
            if not z:
                del self.zsets[cmd[1]]
            return 1
        if op == "zrange":
            _, name, start, end, byscore, offset, num = cmd
            items = self._zsorted(name)
            if byscore:
                lo = float("-inf") if start == "-inf" else float(start)
                hi = float("inf") if end == "+inf" else float(end)
                sel = [k for k, s in items if lo <= s <= hi]
                if offset is not None:
                    sel = sel[offset:offset + num] if num is not None and num >= 0 else sel[offset:]
                return sel
            keys = [k for k, _ in items]
            n = len(keys)
            if start < 0:
                start = max(n + start, 0)
            if end < 0:
                end = n + end
            end = min(end, n - 1)
            if start > end or start >= n:
                return []
            return keys[start:end + 1]
        if op == "zscan":
            return list(self._zsorted(cmd[1]))
        if op == "scan":
            keys = sorted(set(self.hashes) | set(self.lists) | set(self.zsets))
            return [k.encode() for k in keys if fnmatch.fnmatchcase(k, cmd[1])]
        if op == "ping":
            return True
        raise NotImplementedError(op)

    async def _step(self, kind: str, cmds: list):
        """one atomic server step: a single command, or the commands of one MULTI/EXEC"""
        await asyncio.sleep(0)
        for _ in range(self.latency):
            await asyncio.sleep(0)
        if self.fail_next > 0:
            self.fail_next -= 1
            self.log.append({"issuer": ISSUER.get(), "kind": kind, "cmds": cmds, "replies": None, "failed": True})
            raise ConnectionError("injected redis failure")
        replies = [self._apply(c) for c in cmds]
        self.log.append({"issuer": ISSUER.get(), "kind": kind, "cmds": cmds, "replies": replies, "failed": False})
        await asyncio.sleep(0)
        for _ in range(self.latency):
            await asyncio.sleep(0)
        return replies

    # ---- client API used by repid ----
    async def ping(self):
        return (await self._step("cmd", [("ping",)]))[0]

    async def aclose(self, close_connection_pool=None):
        return None

    async def hget(self, name, key):
        return (await self._step("cmd", [("hget", name, key)]))[0]

    async def hmget(self, name, keys):
        return (await self._step("cmd", [("hmget", name, list(keys))]))[0]

    async def lrange(self, name, start, end):
        return (await self._step("cmd", [("lrange", name, start, end)]))[0]

    async def zrange(self, name, start, end, byscore=False, offset=None, num=None):
        return (await self._step("cmd", [("zrange", name, start, end, bool(byscore), offset, num)]))[0]

    async def zrem(self, name, *values):
        return sum((await self._step("cmd", [("zrem", name, v) for v in values])))

    async def zscan_iter(self, name):
        for item in (await self._step("cmd", [("zscan", name)]))[0]:
            yield item

    async def scan_iter(self, match=None):
        for k in (await self._step("cmd", [("scan", match or "*")]))[0]:
            yield k

    def pipeline(self, transaction=True):
        return _Pipe(self, transaction)


class _Pipe:
    def __init__(self, srv: FakeRedis, transaction: bool) -> None:
        self.srv = srv
        self.transaction = transaction
        self.cmds: list = []

    async def __aenter__(self):
        return self

    async def __aexit__(self, *exc):
        self.cmds = []
        return False

    def hsetnx(self, name, key, value):
        self.cmds.append(("hsetnx", name, key, value))
        return self

    def hset(self, name, key=None, value=None, mapping=None):
        m = dict(mapping or {})
        if key is not None:
            m[key] = value
        self.cmds.append(("hset", name, m))
        return self

    def hdel(self, name, *keys):
        for k in keys:
            self.cmds.append(("hdel", name, k))
        return self

    def delete(self, *names):
        for n in names:
            self.cmds.append(("delete", n if isinstance(n, str) else n.decode()))
        return self

    def lpush(self, name, *values):
        for v in values:
            self.cmds.append(("lpush", name, v))
        return self

    def rpush(self, name, *values):
        for v in values:
            self.cmds.append(("rpush", name, v))
        return self

    def lrem(self, name, count, value):
        self.cmds.append(("lrem", name, count, value))
        return self

    def zadd(self, name, mapping):
        self.cmds.append(("zadd", name, dict(mapping)))
        return self

    def zrem(self, name, *values):
        for v in values:
            self.cmds.append(("zrem", name, v))
        return self

    async def execute(self):
        cmds, self.cmds = self.cmds, []
        return await self.srv._step("multi" if self.transaction else "pipe", cmds)
