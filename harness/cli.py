"""./check <ID> [--tier quick|thorough] [--replay FILE]"""
from __future__ import annotations

import argparse
import importlib
import json
import os
import sys
import time
import traceback

from . import findings as kf
from . import proofs
from .common import EVIDENCE, REPLAYS, VERIF, Ctx, Failure, Result, jdump

TRUSTED_COMMON = [
    "Coq 8.16.1 kernel and vm_compute (no native_compute); no Axiom/Parameter/Admitted declared in /verif/coq",
    "hand-written Gallina model of the anchored repid functions; fidelity checked by the correspondence run (and, for the schedule arithmetic, by the translator: coq/GenSched.v is regenerated from the source on every run and proved equal to the model)",
    "harness: pinned/virtual clock, generators, Coq term printer, comparison code",
    "CPython 3.12 / asyncio semantics, json, datetime.isoformat/fromisoformat as trusted runtime",
]


def main(argv=None) -> int:
    ap = argparse.ArgumentParser()
    ap.add_argument("pid")
    ap.add_argument("--tier", default=os.environ.get("VERIF_TIER") or "quick", choices=["quick", "thorough"])
    ap.add_argument("--replay", default=None)
    args = ap.parse_args(argv)
    pid = args.pid.upper()
    seed = int(os.environ.get("VERIF_SEED") or 0)
    ctx = Ctx(pid=pid, tier=args.tier, seed=seed)
    mod = importlib.import_module(f"harness.props.{pid.lower()}")

    if args.replay:
        ctx.replay = json.loads(open(args.replay).read())
        out = mod.replay(ctx, ctx.replay)
        print(json.dumps(out, indent=1, default=str))
        return 1 if out.get("fails") else 0

    t0 = time.time()
    violations: list[tuple[str, str]] = []   # (replay path, suffix)
    known_lines: list[str] = []

    # 1. proofs
    pinfo = proofs.check_props(pid)
    proof_ok = pinfo["build_ok"] and not pinfo.get("forbidden") and not pinfo.get("print_assumptions_missing")

    # 2./3. correspondence + oracle
    res = Result()
    harness_error = None
    try:
        res = mod.run(ctx)
    except Exception:  # noqa: BLE001
        harness_error = traceback.format_exc()

    findings = kf.load(pid)
    reproduced: dict[str, Failure] = {}
    new_failures: dict[str, Failure] = {}
    for f in res.failures:
        k = kf.match(findings, f.kind)
        if k is not None:
            reproduced.setdefault(f.kind, f)
        else:
            new_failures.setdefault(f.kind, f)

    for kind, f in reproduced.items():
        k = kf.match(findings, kind)
        known_lines.append(f"KNOWN-FINDING: property={pid} {k['what']}")

    def write_replay(name: str, payload: dict) -> str:
        path = REPLAYS / pid / f"{name}.json"
        jdump(payload, path)
        return str(path)

    for kind, f in new_failures.items():
        path = write_replay(kind, {"property": pid, "kind": kind, "what": f.what, "case": f.case,
                                   "detail": f.detail, "how": f"./check {pid} --replay <this file>"})
        violations.append((path, ""))

    if res.mismatches and not new_failures:
        m = res.mismatches[0]
        path = write_replay("correspondence", {
            "property": pid, "kind": "correspondence",
            "what": "the Coq model and the implementation disagree; the theorems of "
                    f"coq/Props/{pid}.v no longer describe /repo",
            "relation": m.get("relation"), "first_diverging_case": m,
            "n_mismatches": len(res.mismatches)})
        violations.append((path, " no-failing-input-found"))
    if not proof_ok and not new_failures:
        path = write_replay("proof", {"property": pid, "kind": "proof",
                                      "what": f"coq/Props/{pid}.v (or a file it depends on) no longer checks",
                                      "info": pinfo})
        violations.append((path, " no-failing-input-found"))
    if harness_error and not violations:
        path = write_replay("harness_error", {"property": pid, "kind": "harness_error", "traceback": harness_error})
        violations.append((path, " no-failing-input-found"))

    axioms = sorted({a for v in pinfo.get("axioms", {}).values() for a in v})
    n_thm = len(pinfo.get("theorems", []))
    trusted = list(TRUSTED_COMMON) + list(getattr(mod, "TRUSTED", []))
    trusted.append("axioms reported by Print Assumptions: " + (", ".join(axioms) if axioms else "none (Closed under the global context)"))
    evidence = {
        "property_id": pid, "tier": args.tier, "seed": seed, "level": "proof",
        "coverage": {
            "obligations": max(n_thm, 1),
            "discharged": n_thm if proof_ok else 0,
            "checker_cmd": f"make -C /verif/coq && coqc -Q /verif/coq Repid /verif/coq/Props/{pid}.v",
            "trusted_base": trusted,
            "theorems": pinfo.get("theorems", []),
            "print_assumptions": pinfo.get("axioms", {}),
            "closed_under_global_context": pinfo.get("closed", 0),
            "evaluations": res.evaluations,
            "distinct_nontrivial": len(res.distinct),
            "rule": res.rule or getattr(mod, "RULE", ""),
            "samples": res.samples or [{"note": "no case was run"}],
            "traces_validated_against_impl": res.traces_validated,
            "model_cases_evaluated_in_coq": res.model_cases,
            "correspondence_relations": res.relations,
            "disagreements_checked": len(res.mismatches),
            "oracle_failures": len(res.failures),
            "known_findings_reproduced": sorted(reproduced),
            "input_distribution": res.distribution,
            "notes": res.notes,
            "exhaustive": res.exhaustive,
        },
        "assumptions": list(getattr(mod, "ASSUMPTIONS", [])),
        "wall_s": round(time.time() - t0, 2),
        "violations": len(violations),
    }
    if harness_error:
        evidence["coverage"]["harness_error"] = harness_error[-2000:]
    jdump(evidence, EVIDENCE / f"{pid}.json")

    for line in known_lines:
        print(line)
    print(f"{pid}: theorems={n_thm} proof_ok={proof_ok} evaluations={res.evaluations} "
          f"distinct_nontrivial={len(res.distinct)} model_cases={res.model_cases} "
          f"mismatches={len(res.mismatches)} oracle_failures={len(res.failures)} "
          f"wall={evidence['wall_s']}s")
    if harness_error:
        print(harness_error, file=sys.stderr)
    for path, suffix in violations:
        print(f"VIOLATION property={pid} replay={path}{suffix}")
    return 1 if violations else 0


if __name__ == "__main__":
    sys.exit(main())
