"""A recording world around the real repid code: in-memory brokers subclassed at the public broker
API (so middleware wrapping, signals and everything inside repid stay untouched), an event log in
virtual time, fault injection at the broker boundary, and helpers to run a real Worker."""
from __future__ import annotations

import asyncio
import contextvars
from datetime import timedelta
from typing import Any

from . import coqterm as ct
from .clock import CLOCK, install

install()

from repid import (  # noqa: E402
    BasicConverter,
    Connection,
    InMemoryBucketBroker,
    InMemoryMessageBroker,
    Queue,
    Router,
    Worker,
)
from repid.connections.in_memory.consumer import _InMemoryConsumer  # noqa: E402
from repid.connections.in_memory.utils import DummyQueue  # noqa: E402
from repid.connections.in_memory.utils import Message as MemMessage  # noqa: E402
from repid.data._key import RoutingKey  # noqa: E402
from repid.message import MessageCategory  # noqa: E402

_nested = contextvars.ContextVar("verif_nested", default=0)

EXC_CODES = {"TimeoutError": 9001, "KeyError": 9002, "TypeError": 9003, "ValidationError": 9004,
             "JSONDecodeError": 9005, "ValueError": 9006, "ConnectionError": 9007, "RuntimeError": 9008}


def make_exc(n: int) -> Exception:
    cls = type(f"E{n}", (Exception,), {})
    return cls(str(n))


def exc_code(text: str | None, name: str | None) -> int:
    """Number of an exception from (str(exc), type(exc).__name__); -1 when the two disagree."""
    if name is None:
        return -2
    if name.startswith("E") and name[1:].isdigit():
        n = int(name[1:])
        return n if text == str(n) else -1
    return EXC_CODES.get(name, 9999)


class Log:
    def __init__(self) -> None:
        self.events: list[dict] = []

    def add(self, kind: str, **kw: Any) -> dict:
        try:
            cur = asyncio.current_task()
        except RuntimeError:
            cur = None
        e = {"kind": kind, "t": CLOCK.now_us(), "tq": getattr(cur, "qualname", None), "tv": getattr(cur, "vid", None),
             "it": getattr(CLOCK.loop, "iteration", None), **kw}
        self.events.append(e)
        return e

    def of(self, kind: str) -> list[dict]:
        return [e for e in self.events if e["kind"] == kind]


class RecConsumer(_InMemoryConsumer):
    async def consume(self):
        if getattr(self.broker, "fail_consume_queue", None) == self.queue_name:
            self.broker.log.add("consumer_failure", queue=self.queue_name)
            raise RuntimeError("injected consumer failure")
        res = await super().consume()
        if getattr(self.broker, "fail_consume_queue", None) == self.queue_name:
            # the failure was requested while this consume() was polling: give the message back first
            self.broker.queues[self.queue_name].processing.discard
            self.broker.log.add("consumer_failure", queue=self.queue_name)
            for m in list(self._queue.processing):
                if m.key.id_ == res[0].id_:
                    self._queue.processing.remove(m)
                    self._queue.simple.put_nowait(m)
            raise RuntimeError("injected consumer failure")
        self.broker.log.add("consume", id=res[0].id_, topic=res[0].topic, queue=res[0].queue, params=res[2],
                            payload=res[1], cat=self.category.value, consumer=id(self))
        return res

    async def finish(self):
        self.broker.log.add("consumer_finish", queue=self.queue_name, consumer=id(self))
        res = await super().finish()
        self.broker.log.add("consumer_finish_done", queue=self.queue_name, consumer=id(self))
        return res

    async def pause(self):
        self.broker.log.add("pause", queue=self.queue_name)
        if getattr(self.broker, "pause_round_trip", 0.0):
            await asyncio.sleep(self.broker.pause_round_trip)       # a consumer whose pause is a round trip (RabbitMQ: basic.qos)
        return await super().pause()

    async def unpause(self):
        self.broker.log.add("unpause", queue=self.queue_name)
        if getattr(self.broker, "pause_round_trip", 0.0):
            await asyncio.sleep(self.broker.pause_round_trip)
        return await super().unpause()


class RecBroker(InMemoryMessageBroker):
    CONSUMER_CLASS = RecConsumer

    def __init__(self, log: Log) -> None:
        super().__init__()
        self.log = log
        self.fail_next: dict[str, int] = {}      # op -> number of upcoming top-level calls that raise
        self.fail_ids: set = set()               # (op, id) pairs that raise
        self.fail_next_any = 0                   # number of upcoming top-level terminal calls that raise
        self.fail_any_ids: set = set()           # message ids whose next top-level terminal call raises
        self.round_trip = 0.0                    # seconds a top-level terminal call spends on its way before it takes effect

    def _top(self) -> bool:
        return _nested.get() == 0

    def _maybe_fail(self, op: str, key) -> bool:
        if op in ("ack", "nack", "reject", "requeue") and self.fail_next_any > 0:
            self.fail_next_any -= 1
            return True
        if op in ("ack", "nack", "reject", "requeue") and key.id_ in self.fail_any_ids:
            self.fail_any_ids.discard(key.id_)
            return True
        if self.fail_next.get(op, 0) > 0:
            self.fail_next[op] -= 1
            return True
        if (op, key.id_) in self.fail_ids:
            self.fail_ids.discard((op, key.id_))
            return True
        return False

    async def _call(self, op: str, key, fn, params=None, payload=None):
        top = self._top()
        failed = top and self._maybe_fail(op, key)
        self.log.add("broker" if top else "effect", op=op, id=key.id_, queue=key.queue, topic=key.topic,
                     params=params, payload=payload, ok=not failed)
        if failed:
            raise ConnectionError(f"injected failure of {op}")
        if top and self.round_trip and op in ("ack", "nack", "reject", "requeue"):
            await asyncio.sleep(self.round_trip)
        tok = _nested.set(_nested.get() + 1)
        try:
            res = await fn()
        finally:
            _nested.reset(tok)
        if top:
            self.log.add("broker_done", op=op, id=key.id_, queue=key.queue)
        return res

    async def enqueue(self, key, payload="", params=None):
        return await self._call("enqueue", key, lambda: InMemoryMessageBroker.enqueue(self, key, payload, params), params, payload)

    async def ack(self, key):
        return await self._call("ack", key, lambda: InMemoryMessageBroker.ack(self, key))

    async def nack(self, key):
        return await self._call("nack", key, lambda: InMemoryMessageBroker.nack(self, key))

    async def reject(self, key):
        return await self._call("reject", key, lambda: InMemoryMessageBroker.reject(self, key))

    async def requeue(self, key, payload="", params=None):
        return await self._call("requeue", key, lambda: InMemoryMessageBroker.requeue(self, key, payload, params), params, payload)


class RecBuckets(InMemoryBucketBroker):
    def __init__(self, log: Log, role: str, *, use_result_bucket: bool = False) -> None:
        super().__init__(use_result_bucket=use_result_bucket)
        self.log = log
        self.role = role
        self.fail_store = 0
        self.fail_store_ids: set = set()
        self.fail_get = 0

    async def store_bucket(self, id_, payload):
        failed = False
        if self.fail_store > 0:
            self.fail_store -= 1
            failed = True
        elif id_ in self.fail_store_ids:
            failed = True
        self.log.add("store", role=self.role, id=id_, bucket=payload, ok=not failed)
        if failed:
            raise ConnectionError("injected failure of store_bucket")
        return await super().store_bucket(id_, payload)

    async def get_bucket(self, id_):
        if self.fail_get > 0:
            self.fail_get -= 1
            self.log.add("get", role=self.role, id=id_, ok=False)
            raise ConnectionError("injected failure of get_bucket")
        res = await super().get_bucket(id_)
        self.log.add("get", role=self.role, id=id_, ok=True, found=res is not None)
        return res


class World:
    def __init__(self, *, results: bool = True, args: bool = True) -> None:
        self.log = Log()
        self.mb = RecBroker(self.log)
        self.ab = RecBuckets(self.log, "args") if args else None
        self.rb = RecBuckets(self.log, "results", use_result_bucket=True) if results else None
        self.conn = Connection(self.mb, self.ab, self.rb)

    async def declare(self, *queues: str) -> None:
        for q in queues:
            await self.mb.queue_declare(q)

    def worker(self, routers, **kw) -> Worker:
        kw.setdefault("handle_signals", [])
        kw.setdefault("graceful_shutdown_time", 1.0)
        return Worker(routers=routers, _connection=self.conn, **kw)

    def queue(self, name: str) -> Queue:
        return Queue(name, _connection=self.conn)

    # ---- state abstraction (public DummyQueue fields; the asyncio.Queue is drained and refilled atomically) ----
    def snapshot(self, qname: str) -> dict:
        q: DummyQueue = self.mb.queues[qname]
        simple = []
        while not q.simple.empty():
            simple.append(q.simple.get_nowait())
        for m in simple:
            q.simple.put_nowait(m)
        return {
            "simple": simple,
            "delayed": sorted(((t, list(ms)) for t, ms in q.delayed.items()), key=lambda x: x[0]),
            "dead": list(q.dead),
            "processing": sorted(q.processing, key=lambda m: m.key.id_),
        }

    def place_of(self, qname: str, mid: str) -> list[str]:
        s = self.snapshot(qname)
        places = []
        places += ["simple"] * sum(1 for m in s["simple"] if m.key.id_ == mid)
        places += ["delayed"] * sum(1 for _, ms in s["delayed"] for m in ms if m.key.id_ == mid)
        places += ["dead"] * sum(1 for m in s["dead"] if m.key.id_ == mid)
        places += ["processing"] * sum(1 for m in s["processing"] if m.key.id_ == mid)
        return places


def key(mid: str, topic: str = "act", queue: str = "q", priority: int = 5) -> RoutingKey:
    return RoutingKey(id_=mid, topic=topic, queue=queue, priority=priority)


def jump_to(loop, us: int) -> None:
    """Advance the virtual clock (never backwards) to the absolute instant `us`."""
    from .clock import T0_US

    target = (us - T0_US) / 1_000_000
    if target > loop.vtime:
        loop.vtime = target
        # float round-trip may land one microsecond short
        while CLOCK.now_us() < us:
            loop.vtime += 5e-7
