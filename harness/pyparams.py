"""Conversions between repid's data objects and the model's records (Base.v)."""
from __future__ import annotations

from datetime import timedelta

from . import coqterm as ct


def mk_params(*, timeout_us=600_000_000, result=None, max_amount=0, tried=0, until=None, by=None,
              nxt=None, ts=0, ttl=None):
    """Build a real repid Parameters from integer microseconds."""
    from repid.data._parameters import DelayProperties, Parameters, ResultProperties, RetriesProperties

    return Parameters(
        execution_timeout=timedelta(microseconds=timeout_us),
        result=None if result is None else ResultProperties(
            id_=result[0], ttl=None if result[1] is None else timedelta(microseconds=result[1])),
        retries=RetriesProperties(max_amount=max_amount, already_tried=tried),
        delay=DelayProperties(
            delay_until=None if until is None else ct.dt_of_us(until),
            defer_by=None if by is None else timedelta(microseconds=by),
            cron=None,
            next_execution_time=None if nxt is None else ct.dt_of_us(nxt)),
        timestamp=ct.dt_of_us(ts),
        ttl=None if ttl is None else timedelta(microseconds=ttl),
    )


def params_fields(p, intern) -> dict:
    """Integer view of a Parameters object."""
    return {
        "timeout": ct.us_of_td(p.execution_timeout),
        "result": None if p.result is None else (intern(p.result.id_), None if p.result.ttl is None else ct.us_of_td(p.result.ttl)),
        "max": p.retries.max_amount, "tried": p.retries.already_tried,
        "until": None if p.delay.delay_until is None else ct.us_of_dt(p.delay.delay_until),
        "by": None if p.delay.defer_by is None else ct.us_of_td(p.delay.defer_by),
        "next": None if p.delay.next_execution_time is None else ct.us_of_dt(p.delay.next_execution_time),
        "ts": ct.us_of_dt(p.timestamp),
        "ttl": None if p.ttl is None else ct.us_of_td(p.ttl),
    }


def params_term(p, intern) -> str:
    f = params_fields(p, intern)
    res = "None" if f["result"] is None else f"(Some (mkResultp {ct.Z(f['result'][0])} {ct.opt(f['result'][1])}))"
    return (f"(mkParams {ct.Z(f['timeout'])} {res} (mkRetries {ct.Z(f['max'])} {ct.Z(f['tried'])}) "
            f"(mkDelay {ct.opt(f['until'])} {ct.opt(f['by'])} {ct.opt(f['next'])}) {ct.Z(f['ts'])} {ct.opt(f['ttl'])})")


def enc_params(p, intern) -> list[int]:
    """Mirrors Base.enc_params."""
    f = params_fields(p, intern)
    out = [f["timeout"]]
    out += [0] if f["result"] is None else [1, f["result"][0]] + ct.enc_optZ(f["result"][1])
    out += [f["max"], f["tried"]]
    out += ct.enc_optZ(f["until"]) + ct.enc_optZ(f["by"]) + ct.enc_optZ(f["next"])
    out += [f["ts"]] + ct.enc_optZ(f["ttl"])
    return out
