"""Evaluate the Coq model on generated cases (vm_compute inside coqc) and report disagreements."""
from __future__ import annotations

import os
import re
import shutil
import subprocess
from concurrent.futures import ThreadPoolExecutor
from pathlib import Path

from .common import CASES, COQ
from . import coqterm as ct

SHARD = 400
_INT = re.compile(r"-?\d+")


def _coqc(path: Path, timeout: int = 600) -> tuple[int, str]:
    p = subprocess.run(
        ["coqc", "-Q", str(COQ), "Repid", "-w", "-all", str(path)],
        capture_output=True, text=True, timeout=timeout, cwd=str(path.parent),
    )
    return p.returncode, p.stdout + p.stderr


def _parse_eval(out: str) -> list[list[int]]:
    """Returns, for every `= ... : type` answer in the output, the integers it contains."""
    res = []
    for m in re.finditer(r"^\s*= (.*?)^\s*: ", out, re.S | re.M):
        res.append([int(x) for x in _INT.findall(m.group(1).replace("%Z", ""))])
    return res


class ModelError(RuntimeError):
    pass


def run_cases(tag: str, imports: str, fn: str, cases: list[tuple[str, list[int]]],
              shard: int = SHARD) -> tuple[list[int], dict[int, list[int]]]:
    """cases: (Coq input term, implementation observation). Returns (bad global indices,
    {index: model observation}) — the model is evaluated by vm_compute inside coqc."""
    if not cases:
        return [], {}
    d = CASES / f"{tag}_{os.getpid()}"
    if d.exists():
        shutil.rmtree(d)
    d.mkdir(parents=True)
    try:
        files = []
        for k in range(0, len(cases), shard):
            chunk = cases[k:k + shard]
            f = d / f"cases_{tag}_{k // shard}.v"
            body = ";\n".join(ct.pair(i, ct.zlist(o)) for i, o in chunk)
            f.write_text(
                f"From Repid Require Import Base CaseLib {imports}.\nOpen Scope Z_scope.\n"
                f"Definition cases := [\n{body}\n].\n"
                f"Eval vm_compute in (bad_indices {fn} cases).\n")
            files.append((k, f))
        bad: list[int] = []
        with ThreadPoolExecutor(max_workers=min(16, len(files))) as ex:
            outs = list(ex.map(lambda kf: (kf[0], _coqc(kf[1])), files))
        for k, (rc, out) in outs:
            if rc != 0:
                raise ModelError(f"coqc failed on generated cases ({tag}, shard {k}):\n{out[-3000:]}")
            ans = _parse_eval(out)
            if len(ans) != 1:
                raise ModelError(f"unexpected coqc output ({tag}):\n{out[-2000:]}")
            bad.extend(k + i for i in ans[0])
        model_obs: dict[int, list[int]] = {}
        if bad:
            show = bad[:40]
            f = d / f"show_{tag}.v"
            evals = "\n".join(f"Eval vm_compute in ({fn} {cases[i][0]})." for i in show)
            f.write_text(f"From Repid Require Import Base CaseLib {imports}.\nOpen Scope Z_scope.\n{evals}\n")
            rc, out = _coqc(f)
            if rc == 0:
                for i, a in zip(show, _parse_eval(out)):
                    model_obs[i] = a
        return bad, model_obs
    finally:
        shutil.rmtree(d, ignore_errors=True)


def eval_terms(tag: str, imports: str, terms: list[str]) -> list[list[int]]:
    """Evaluate arbitrary closed terms of type list Z."""
    d = CASES / f"{tag}_{os.getpid()}_e"
    d.mkdir(parents=True, exist_ok=True)
    try:
        f = d / f"eval_{tag}.v"
        evals = "\n".join(f"Eval vm_compute in ({t})." for t in terms)
        f.write_text(f"From Repid Require Import Base CaseLib {imports}.\nOpen Scope Z_scope.\n{evals}\n")
        rc, out = _coqc(f)
        if rc != 0:
            raise ModelError(out[-3000:])
        return _parse_eval(out)
    finally:
        shutil.rmtree(d, ignore_errors=True)
