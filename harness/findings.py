"""Known findings: genuine defects of repid recorded rather than repaired (never written at run time)."""
from __future__ import annotations

import json

from .common import VERIF

FILE = VERIF / "known_findings.json"


def load(pid: str) -> list[dict]:
    if not FILE.exists():
        return []
    data = json.loads(FILE.read_text())
    return [f for f in data.get("findings", []) if f.get("property") == pid and f.get("status", "open") == "open"]


def match(findings: list[dict], kind: str) -> dict | None:
    for f in findings:
        if f.get("kind") == kind:
            return f
    return None
