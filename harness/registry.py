"""Per-property metadata used to generate MANIFEST.json (tools/gen_manifest.py)."""

COMMON_NOTE = ("Trusted base: Coq 8.16.1 kernel + vm_compute (no native_compute), no axioms declared (Print Assumptions output "
               "is copied into the evidence on every run); hand-written Gallina model tied to /repo only by the differential "
               "correspondence run (real code under a pinned/virtual clock vs. the model evaluated by vm_compute in coqc) and by "
               "the property oracle evaluated on every implementation trace; CPython/asyncio/json/datetime as trusted runtime. ")

PROPS = {
    "C19": {
        "text": "Machine-checked proofs (lia/nia over Z, all inputs) of the range, monotonicity and representability of the default "
                "back-off, of now < next <= now+period on the grid with the deferred_until case split, and of the expiry rule; the "
                "model functions are tied to retry_policy.py, _parameters.py, _buckets.py, job.py and the three brokers' wait_until "
                "helpers by ~50k differential cases per quick run (boundary grid + seeded random).",
        "note": "Time is integer microseconds; Redis' int(datetime.timestamp()) is modelled as floor(us/10^6), which is exact for "
                "instants before 2^32 s (year 2106) and not generated beyond; cron schedules are outside the model (croniter absent).",
        "technique": "Coq proof (lia/nia) over an executable Z model + differential correspondence by vm_compute",
        "design": "DESIGN.md §3 C19",
    },
}

PENDING_REASON = "machinery for this property is not built yet in this revision of /verif (construction order: DESIGN.md §5)"
