"""Per-property metadata used to generate MANIFEST.json (tools/gen_manifest.py)."""

COMMON_NOTE = ("Trusted base: Coq 8.16.1 kernel + vm_compute (no native_compute), no axioms declared (Print Assumptions output "
               "is copied into the evidence on every run); hand-written Gallina model tied to /repo only by the differential "
               "correspondence run (real code under a pinned/virtual clock vs. the model evaluated by vm_compute in coqc) and by "
               "the property oracle evaluated on every implementation trace; CPython/asyncio/json/datetime as trusted runtime. ")

PROPS = {
    "C19": {
        "text": "Machine-checked proofs (lia/nia over Z, all inputs) of the range, monotonicity and representability of the default "
                "back-off, of now < next <= now+period on the grid with the deferred_until case split, and of the expiry rule; the "
                "model functions are tied to retry_policy.py, _parameters.py, _buckets.py, job.py and the three brokers' wait_until "
                "helpers TWICE: by a translator (harness/translate.py regenerates coq/GenSched.v from /repo's source on every run; "
                "C19_source_is_model_*: each generated definition is proved equal to the model's) and by ~50k differential cases per "
                "quick run (boundary grid + seeded random).",
        "note": "Time is integer microseconds; Redis' math.ceil(datetime.timestamp()) is modelled as ceil(us/10^6), which is exact for "
                "instants before 2^32 s (year 2106) and not generated beyond; cron schedules are outside the model (croniter absent). "
                "The translator is fail-closed (unknown syntax = broken tie) and trusted for its conventions: datetime.now() = the "
                "parameter now, timedelta/datetime = integer microseconds, deepcopy = identity, object.__setattr__ = functional update.",
        "technique": "Coq proof (lia/nia) over an executable Z model + model regenerated from source by a translator (equalities proved) + differential correspondence by vm_compute",
        "design": "DESIGN.md §3 C19",
    },
}

PROPS.update({
    "C02": {
        "text": "Theorem C02_process_one_terminal: for every actor behaviour (any sequence of message-API calls, any ending, callbacks "
                "and result store failing or not) the model of _Processor.process emits exactly one terminal broker call; "
                "C02_disposition_table characterises it (iff) as ack/retry/reschedule/nack; C02_eager_nothing_more. The ladder itself is tied by "
                "the translator: GenLadder.gen_decide is regenerated from _Processor.report_to_broker on every run and proved equal to "
                "Ladder.decide (C02_source_is_model_ladder). The rest of the model "
                "(Handle.v+Ladder.v) is tied to /repo by ~1.4k deliveries per quick run through a real Worker (cross product of "
                "endings x eager actions x retry states x recurring x result x converter, plus concurrent mixes of up to 8). Oracle-only families on top: an eager response racing the actor's time limit over a broker whose calls take 0 / 30 ms (168 runs; fix 13f6c0a recorded) and two overlapping deliveries of one message id (16 runs; fix 3608da2 recorded): exactly one terminal action per delivery, at most one place afterwards.",
        "note": "In-memory broker only; a raising broker call is excluded by hypothesis (no_faults); actor bodies that catch "
                "BaseException are outside the model; thread/process-pool actors are not exercised.",
        "technique": "Coq proof by invariant over API-call sequences + disposition ladder regenerated from source by a translator (equality proved) + differential correspondence via a real Worker in virtual time",
        "design": "DESIGN.md §3 C02",
    },
    "C04": {
        "text": "Theorems over the retry chain of the ladder model for all N, all policies (arbitrary function), all outcome lists: "
                "exactly N-tried+1 executions then nack/reschedule (chain_all_fail), counter strictly increasing and <= N "
                "(chain_counter), success stops the chain, k-th retry due at failure instant + policy(k) (retry_due) and filed under "
                "it by wait_until. Tied to /repo by ~400 jobs per quick run followed through all attempts by real Workers in "
                "virtual time (all failure patterns for N<=3, jump and continuous modes).",
        "note": "In-memory broker only; that the broker does not deliver before the due time is C05's claim (here only observed).",
        "technique": "Coq proof by induction on the outcome list + differential correspondence of whole chains",
        "design": "DESIGN.md §3 C04",
    },
    "C06": {
        "text": "Theorems on prepare_reschedule/compute_next for all inputs: one successor (same id, single terminal call), counter "
                "reset and ttl clock restarted, now < next <= now+period or = deferred_until while ahead, no slot twice, first run "
                "deferred; the cadence clause is REFUTED on the faithful model (two witnesses) and characterised exactly "
                "(cadence_iff, cadence_aligned, cadence_partial). Known finding cadence_grid_anchored_at_timestamp is reproduced "
                "on the real code on every run. Tie: ~1.5k reschedule sequences under the pinned clock + ~120 recurring jobs end "
                "to end per quick run.",
        "note": "cron recurrence not modelled; in-memory broker only.",
        "technique": "Coq proof (nia) + refutation witness by vm_compute + differential correspondence",
        "design": "DESIGN.md §3 C06",
    },
    "C13": {
        "text": "Theorems: the trace of a plain delivery is [disposition; store(success flag, value | exception text+type, configured ttl)] "
                "(result_matches_outcome); set_result/set_exception overwrite (last wins, with C16_callback_order); results "
                "disabled => no store event for any behaviour; a failing store leaves the broker calls of process unchanged for "
                "every behaviour (store_failure_harmless, true since fix 54a2ceb); latest store wins. Tie: ~800 deliveries/chains "
                "per quick run, every failing-store case paired with its non-failing twin.",
        "note": "In-memory bucket broker only (Redis bucket encoding: C07); started<=finished relies on a non-decreasing clock.",
        "technique": "Coq proof (store-independence lemma over call sequences) + differential correspondence",
        "design": "DESIGN.md §3 C13",
    },
    "C16": {
        "text": "Theorems over all sequences of message-API calls of any length: at most one broker call succeeds, afterwards every "
                "action is refused and nothing reaches the broker (single_use, spent_handle_refuses); refusals and failing broker "
                "calls leave the handle unchanged; category and budget rules; callback order with the lazily positioned store; "
                "_NoAction ends the body. The guards, their order and the broker call of the six terminal methods are tied by the "
                "translator: GenHandle.v is regenerated from repid/message.py and message_dependency.py on every run and proved equal to "
                "Handle.wanted (C16_source_is_model_handle / _dependency / _default_success). Tie of the rest: exhaustive call sequences up to length 3 (Message) / 2 (MessageDependency) x "
                "categories x retry states, plus random longer ones with injected failures (~3.5k per quick run).",
        "note": "In-memory broker; plain Message has no set_result/add_callback; actor bodies catching BaseException are outside the model.",
        "technique": "Coq proof by induction over call sequences + handle guards regenerated from source by a translator (equalities proved) + exhaustive-to-a-length differential correspondence",
        "design": "DESIGN.md §3 C16",
    },
})

PROPS["C08"] = {
    "text": "Theorems over a model of Python's call binding and of both converters, for all signatures and payloads: every value "
            "handed to a parameter is the payload entry of its name or else its default; a payload lacking a parameter without "
            "default fails the execution under both converters; an argument-less job converts when all parameters have defaults; "
            "Basic and Pydantic produce equal calls on every signature both accept; unsupported declarations are rejected at "
            "declaration. The *args-after-keyword spill is REFUTED by witness (known finding). The binding model itself is tied "
            "to CPython by ~6k generated signature x payload x converter cases per quick run with real exec'd functions.",
    "note": "pydantic validation is modelled as lookup/default/error with extras ignored (values already of the annotated type); "
            "that the call binds defaults for an empty payload is established on the executable model by correspondence, not by a "
            "general theorem about pycall; return-value round trip is a test.",
    "technique": "Coq proof over an executable model of call binding + differential correspondence against exec'd functions",
    "design": "DESIGN.md §3 C08",
}

PROPS["C20"] = {
    "text": "Theorems over the request handler as a pure function of (endpoint, status, decoded bytes), for all inputs: it is total "
            "and answers only 200/503/404 or aborts that connection; status iff the parsed request line is GET <endpoint>; 404 iff "
            "parsed and different; abort iff unparsable; parse soundness and acceptance of every well-formed request; the outcome "
            "class never depends on the status. Tie: ~800 byte strings per quick run over real loopback sockets against a real "
            "running Worker, before and after an injected consumer failure, plus port-lifetime checks (normal return, cancelled run).",
    "note": "Sockets, asyncio transports and the kernel are runtime: that an exception in data_received closes only that transport "
            "is observed, not proved; sends larger than 16 kB or split across packets are checked by the oracle and on their "
            "first packet only; real time (no virtual clock) in this check.",
    "technique": "Coq proof over a pure handler model (lists of code points) + differential correspondence over real sockets",
    "design": "DESIGN.md §3 C20",
}

PENDING_REASON = "machinery for this property is not built yet in this revision of /verif (construction order: DESIGN.md §5)"

MEM_NOTE = ("Brokers: in-memory (full histories incl. concurrency and cancellation: every in-memory call is one atomic block "
            "between two sleep(0) awaits, exercised with real task.cancel() at 0..5 loop iterations) and the Redis client for ONE "
            "client doing one call at a time, over harness/fakeredis.py whose command semantics are coq/RedisSrv.v (trusted as the "
            "description of the real server; fake and model are compared on the whole command/reply stream of every run); Redis "
            "theorems are in Props/<ID>_redis.v. The RabbitMQ client is NOT covered (DESIGN.md §8.5). ")

PROPS["C01"] = {
    "text": "Theorems over the in-memory broker model (MemBroker.v) for ALL finite histories of enqueue / poll / ack / nack / "
            "reject / requeue / finish by well-behaved clients: every id is in exactly one of waiting, delayed, dead, held "
            "(counting invariant Partition, conservation law live_run), ack removes, nack dead-letters, reject returns to the "
            "category of origin, requeue replaces in one atomic effect, delivery marks exactly one holder. Tie: ~700 random "
            "histories per quick run on the real InMemoryMessageBroker in virtual time (concurrent consumers, cancelled calls), "
            "abstract state compared with the model after every call, full messages at the end. Redis (RedisBroker.v over RedisSrv.v): enqueue / ack / nack / reject / requeue / take keep every name in exactly one place, each is ONE server transaction (reject: a read, then one), other names untouched; and - unbounded - from the empty server through ANY sequential history of API calls incl. takes (window reads, take transaction, burial, dead-lettering) and maintenance runs, by a caller that enqueues fresh names and disposes only of what it holds, no name is ever in two places (C01_redis_no_duplicates_from_empty, RedisRun.v); tie: ~150 sequential histories per quick run, the client's whole command/reply stream equal to the model's. RabbitMQ (RabbitBroker.v over AmqpSrv.v): every AMQP method changes the number of places of an id by exactly its delta (publish +1, ack -1, reject 0, nack 0 = dead-lettered), the server's own steps (TTL expiry + dead-lettering, delivery) by 0, and - unbounded - from the empty server through ANY history of API calls by well-behaved callers, with all deliveries, callbacks, sleeping rejects and expiries in between, no id is ever in two places (C01_rabbit_no_duplicates_from_empty over the whole client+server simulation); refuted by witness and recorded: nack of a message taken through the DEAD category discards it, through the DELAYED category promotes it, requeue = ack then publish; tie: ~120 histories per quick run.",
    "note": MEM_NOTE,
    "technique": "Coq proof by counting invariant over all histories + differential correspondence of broker histories",
    "design": "DESIGN.md §3 C01",
}
PROPS["C05"] = {
    "text": "Theorems (in-memory model, all reachable states, non-decreasing clock): a message handed to a normal consumer at "
            "`now` was filed under a due time strictly before now (DueInv is preserved by every call incl. reject/finish of "
            "delayed-category messages); before its due time it is not in the waiting list; enqueue/requeue file under "
            "wait_until; every update pass moves every due entry. 'Never forgotten' is PARTIAL in Coq (no bound on polls between "
            "update passes) and checked by the oracle on the real consumer: a listening consumer receives the message within "
            "1 s + 3 ms + 1 ms per waiting message after T. Tie: ~500 histories per quick run with due times at every phase of "
            "the clock and enqueues racing a polling consumer. Redis: due times are stored rounded UP to the second (fix recorded for C05) and the due-window query returns only scores <= floor(now): never early (C05_redis_*); lateness on Redis is bounded by the 0.1 s polling + 1 s rounding (observed, not proved). RabbitMQ: the delay is a per-message TTL rounded UP to the millisecond (fix recorded for C05) that runs out at the due time or later, and the server lets the message out of the delayed queue only then (C05_rabbit_*); 'never forgotten' is REFUTED (C05_rabbit_delayed_head_of_line_refuted: TTLs run out at the head of the queue only) and recorded.",
    "note": MEM_NOTE,
    "technique": "Coq proof by invariant (due-time invariant over all histories) + schedule arithmetic and RabbitMQ expiration regenerated from source by a translator (equalities proved) + differential correspondence in virtual time",
    "design": "DESIGN.md §3 C05",
}
PROPS["C12"] = {
    "text": "Theorems (in-memory model): a poll never delivers an overdue message to a normal consumer; the overdue head of the "
            "waiting list goes to the dead-letter list and is retrievable through the dead category; a poll dead-letters "
            "nothing else (live or ttl-less messages are never dropped); overdue is strict (at the expiry instant still live); "
            "reschedule restarts the ttl clock, retry keeps it. Tie: ~600 histories per quick run with clock advances to "
            "expiry-1us / =expiry / +1us, delayed / retried / rescheduled messages (real _prepare_retry/_prepare_reschedule). Redis: since the fix recorded for C12 only the normal category dead-letters expired messages (a dead-category consumer receives them) and a prefetched message is checked again when handed out; checked by ~150 sequential histories against the model and the oracle. RabbitMQ: an expired message delivered to a normal consumer is nacked into <q>:dead and never buffered; one that expires in the buffer is nacked by consume() (fix recorded for C12) (C12_rabbit_*).",
    "note": MEM_NOTE + "Delivery = return of consume(); the in-memory consumer has no prefetch buffer.",
    "technique": "Coq proof over the poll function (all states, all instants) + differential correspondence at exact expiry instants",
    "design": "DESIGN.md §3 C12",
}
PROPS["C14"] = {
    "text": "Theorems (in-memory model, any number of consumers, any interleaving of their atomic polls): a delivered message was "
            "held by nobody and is afterwards held exactly once; a held message is not delivered again until it leaves the "
            "processing set; Partition holds in every reachable state; finish() of one consumer returns only its own messages. "
            "Tie: ~600 histories per quick run with 2-5 consumers polling concurrently on one queue, holders compared after every call. Redis: for one consumer the take is one transaction that moves a present name into 'processing' (C01_redis_grab_places_*) and in every sequential history a name is in at most one place (C14_redis_sequential_one_place); with two consumers it is NOT exclusive - refuted by witness (C14_redis_double_delivery_refuted) and reproduced on the real client on every run as known finding redis_double_delivery_two_consumers. RabbitMQ: in a state without duplicates a delivered message was unacknowledged by nobody and gets a fresh delivery tag, and that premise holds in every reachable state of every history (C14_rabbit_one_place_always) (C14_rabbit_*); ~100 histories with 1-3 consumers.",
    "note": MEM_NOTE + "All consumers share one process and event loop (the only way to share the in-memory broker). "
            "The 'executed exactly once' corollary is observed through deliveries, not through a worker.",
    "technique": "Coq proof by counting invariant + differential correspondence with concurrently polling consumers",
    "design": "DESIGN.md §3 C14",
}
PROPS["C15"] = {
    "text": "Theorems (in-memory model, ANY number of consumers with any topic filters, all histories): the waiting list is in "
            "arrival order in every reachable state (FifoInv, preserved by every call: since the full-turn poll, fix 4c9afb3, "
            "nothing is rotated); the delivered message is the OLDEST live message of the consumer's queue and topics "
            "(fifo_oldest_first) and arrived before every matching message still waiting; a returned message gets the next "
            "stamp, i.e. is ahead of everything enqueued later. Tie: ~600 histories per quick run, backlogs 0..35 with foreign "
            "topics, interleaved enqueues, rejects and restarts; oracle: no delivery overtakes an earlier matching live message. Redis (since the fix recorded for C15): the list fetch returns the oldest served name for EVERY list length (C15_redis_take_list_oldest, via the tail-window identity of LRANGE); tie: ~150 sequential histories with backlogs around the window of ten. RabbitMQ: a published message goes behind, a returned one in front of the waiting messages of its priority, other priorities untouched, the head (oldest of the highest priority) is what is delivered (C15_rabbit_*); ~120 single-consumer histories with the delivery-order oracle.",
    "note": MEM_NOTE + "The in-memory broker keeps one FIFO per queue regardless of priority.",
    "technique": "Coq proof by order invariant over arrival stamps + differential correspondence of delivery sequences",
    "design": "DESIGN.md §3 C15",
}

PROPS["C11"] = {
    "text": "Theorems: every router reachable by ANY sequence of actor declarations (incl. overrides that move a name to another "
            "queue) and inclusions keeps topics_by_queue consistent with actors (a name is listed under a queue iff that is the "
            "queue of the actor registered under it; true since the fix recorded for C11, refuted by witness for the code before "
            "it); inclusion = union with the last registration winning, for one inclusion and for a worker made of any list of "
            "routers; dispatch_exact: the worker runs function f for a job (t, q) iff the actor registered under t has queue q and "
            "function f, otherwise it leaves the message alone; in-memory broker: deliveries match the consumer's queue and topic "
            "filter; live messages of other topics and other queues are untouched by a poll (same records, same order) and NEVER "
            "BLOCK it: a poll delivers exactly when a live message of its queue and topics waits anywhere in the list, and delivers "
            "the first one (C11_mem_foreign_never_blocks; since fix 4c9afb3, which removed the lock-step finding). Tie: ~900 router worlds per quick run compared with the real "
            "Router/Worker objects, ~260 of them with a real Worker run in virtual time on a shared in-memory queue (1-2 workers), "
            "plus ~250 shared-queue broker histories. RabbitMQ: deliveries respect queue and topic filter (oracle on ~80 histories); 'never blocks on foreign messages' is REFUTED by witness (C11_rabbit_foreign_head_of_line_refuted: reject+requeue returns the foreign message to the front) and recorded.",
    "note": "Worker dispatch runs use the in-memory broker; the Redis prefix filter is covered by C15/C01's Redis histories, the RabbitMQ "
            "reject+requeue filter by the RabbitMQ histories here. An EXPIRED foreign message may be dead-lettered by any consumer of its queue (C12). "
            "Actor functions are identified by a number attached to the function object.",
    "technique": "Coq proof by invariant over all declaration/inclusion sequences + differential correspondence on real Router/Worker objects",
    "design": "DESIGN.md §3 C11",
}

PROPS["C18"] = {
    "text": "Theorems over a model of Depends graphs (mutable nodes shared by reference, the message dependency, providers as an "
            "arbitrary function): for ANY acyclic graph and any providers, a dependency resolves to its provider applied by "
            "keyword to its own resolved sub-dependencies (resolve_denotes), resolution terminates and is independent of the "
            "recursion budget, the actor receives exactly those resolutions under the parameters' names, an override replaces "
            "provider and sub-dependency set for every later resolution wherever the node is used, a failing provider fails every "
            "dependency above it (their providers are not called) and the actor run, which then follows the retry ladder "
            "(with C02/C04's table), and unsupported declarations are refused at declaration (iff characterisation). Tie: ~220 "
            "generated graphs x run/override sequences through a real Worker with real Depends objects (sync and async "
            "providers), ~1.5k provider signatures declared through Depends()/override().",
    "note": "asyncio.gather's choice among several simultaneously failing providers is abstracted to 'one of them'; sibling "
            "resolutions of a failed gather are assumed to run to completion in the background (observed, 20 ms grace). "
            "run_in_process providers are not exercised. In-memory broker; real-time loop.",
    "technique": "Coq proof by induction on a rank (fuel-independent resolution) + differential correspondence on real Depends graphs",
    "design": "DESIGN.md §3 C18",
}

PROPS["C17"] = {
    "text": "Theorems over a model of the middleware wrapper on operation trees (a wrapped operation, the wrapped operations its "
            "body calls, its outcome), for all trees, all subscriber sets and both call styles: a succeeding operation emits "
            "exactly [before; ...; effect; after(result)] to the subscribers of its own connection with its arguments by name, a "
            "failing one only the before signal, nested operations emit nothing at any depth (nested_silent), subscribers cannot "
            "change result, exception or effects (noninterference, for every tree), a subscriber is called with exactly the named "
            "arguments its signature accepts, positional and keyword call styles name the arguments identically; actor_run signals "
            "go to the processor's own connection for any creation history (true since the fix recorded for C17, refuted by "
            "witness for the class-level wrapper). Tie: ~260 sequences of directly called wrapped operations on 1-2 connections "
            "with generated subscribers (each re-run without subscribers), ~70 deliveries through Workers of two live connections; on the Redis and RabbitMQ consumers: consume() with suspending before_/after_consume subscribers, finish() and the caller's cancellation on a grid of loop iterations (~290 runs): nothing left behind (oracle only; the same grid is model-checked step by step under C03).",
    "note": "In-memory brokers only. Subscribers raising BaseException, cancellation inside emit_signal and the relative order of "
            "sync (thread-pool) subscribers within one signal are outside the model. The accepted-keyword rule is "
            "getfullargspec(fn).args (keyword-only names are not passed), as the code does.",
    "technique": "Coq proof by induction over operation trees + differential correspondence on real brokers with generated subscribers",
    "design": "DESIGN.md §3 C17",
}

RUNNER_NOTE = ("The worker model (Runner.v) is an event-labelled transition system whose events are the atomic blocks of _run_consumer / "
               "_task_callback / run_one_queue and of CPython 3.12's asyncio.Semaphore (value + FIFO waiters, release hands over at "
               "once); theorems hold for every event sequence the step function accepts, i.e. for every schedule. The tie is trace "
               "acceptance: every recorded run of the real Worker must be accepted event by event and end in the observed counters. "
               "Events are labelled by reading the runner's limiter / stop-event identities and task frame locals. In-memory broker "
               "only; thread/process-pool actors and actors ignoring cancellation are outside. EvPause is pause() + the start of the wait in one "
               "step (what the in-memory and Redis consumers do); a consumer whose pause() / unpause() are round trips (RabbitMQ's basic.qos; "
               "30 % of the C09 scenarios, 0.5-50 ms) goes through EvPauseStart and then EvPause or EvAcquireFast + EvUnpauseHold "
               "(C09_pause_start_keeps_going, C09_unpause_hold_enabled, C09_paused_consumer_never_delivers). ")

PROPS["C09"] = {
    "text": "Theorems over all accepted event sequences of the worker model: value + running tasks + loops holding a slot = "
            "tasks_limit and value >= 0 (limiter_inv), hence never more than tasks_limit processing tasks; every task end releases "
            "exactly one slot and is counted once; consumption pauses iff the limiter is locked and a release hands the slot to the "
            "first waiting loop at once; while a loop waits either every slot is in use or a loop that was handed a slot has not resumed yet and passes the "
            "spare slot on when it does (no lost wake-up, with CPython 3.12's Semaphore.locked() counting granted waiters); PARTIAL liveness: a loop that "
            "has work and is not waiting for a slot always has an enabled step (fairness of the event loop assumed, eventual "
            "execution checked by the oracle). Tie: ~260 real Worker runs per quick run in virtual time (limits 1-5, 1-3 queues, "
            "1-30 jobs, bursts and arrivals at the instants slots free), traces accepted by the model; oracle: running maximum <= "
            "limit, every job executed once, completion within the list-scheduling bound.",
    "note": RUNNER_NOTE,
    "technique": "Coq proof by invariants over all event sequences of a transition-system model + trace acceptance of real worker runs",
    "design": "DESIGN.md §3 C09",
}
PROPS["C10"] = {
    "text": "Theorems over all accepted event sequences: with messages_limit = M at most M executions start (started_le_M; true since "
            "the fix recorded for C10, refuted by witness for the loop before it: M=2, backlog 5, 5 executions), started = finished + "
            "in progress, once M have finished the stop event is set, and a message taken beyond the limit goes back to its queue "
            "unchanged with nothing started or counted. Tie: ~260 real Worker(messages_limit=M) runs per quick run (M 1-5, backlog "
            "M..M+10, 1-3 queues, tasks_limit 1/M/>M, durations 0..400 ms, arrivals during the run; 30 % over a consumer whose pause() / "
            "unpause() are round trips of 0.5-50 ms), traces accepted by the model; the stop is decided on executions STARTED (fix "
            "f5e55c6 recorded; C10_old_stop_condition_fires_early); "
            "oracle: executions <= M, run returns, M finish, surplus messages waiting unchanged; run-on-enqueue mode (M = 1).",
    "note": RUNNER_NOTE + "Reaching the limit starts the documented graceful shutdown: an in-flight actor that outlives the graceful "
            "period is cancelled and its message rejected (C03), not counted against C10.",
    "technique": "Coq proof by invariants over all event sequences of a transition-system model + trace acceptance of real worker runs",
    "design": "DESIGN.md §3 C10",
}

PROPS["C07"] = {
    "text": "Theorems: decode(encode(x)) = x for Parameters (timeout, result settings, retries, delay incl. cron, timestamp, "
            "time-to-live) and for both bucket classes, over a JSON-value model of asdict/decode (params_roundtrip, ...); a "
            "duration of n microseconds survives the binary64 float-seconds wire format exactly for every 0 <= n < 2^32 s "
            "(td_roundtrip, Flocq, all roundings to nearest); every name/id the validators accept and every priority survive the "
            "Redis message/queue-name encodings (parse_mnc, parse_short, full_from_short, queue_marker) and the encodings are "
            "injective (Redis mnc/qnc, RabbitMQ qnc); the Redis topic prefix test is exact; the bucket marker round-trips and "
            "marker_check_spec characterises exactly the excluded payloads. Tie: ~1.2k encoded/decoded objects, ~16k codec and "
            "validator cases against the real functions, ~400 Job.enqueue -> consume round trips on the in-memory broker with "
            "inline and bucket transport per quick run.",
    "note": "json/isoformat are trusted inverses (round trip checked directly by the oracle); C07_td_roundtrip is about the real-number "
            "functions RN(n/10^6) and CPython's delta_new (read off its source) and depends on the axioms of Coq's Reals and "
            "classical logic (sig_not_dec, sig_forall_dec, functional_extensionality_dep, classic), all other theorems are closed; "
            "the Redis/RabbitMQ codecs are verified as pure functions, their server round trip (and RabbitMQ's `priority or MEDIUM`, "
            "DESIGN.md §4 #16) is NOT exercised in this revision; delivery equality is shown for the in-memory broker only.",
    "technique": "Coq proof (codec round-trips by induction on text, Flocq rounding-error bound) + differential correspondence of codecs",
    "design": "DESIGN.md §3 C07",
}

PROPS["C03"] = {
    "text": "Theorems over an ownership model of message handling and shutdown (Shutdown.v; events = atomic blocks: delivery to the "
            "loop, spawn, give-back, loop cancellation, begin/effect of the terminal broker call, task end, cancel event, the "
            "wrapper's cancel + reject, consumer.finish()), for ALL accepted event sequences - i.e. the stop request, the forced "
            "cancellation and the consumers' shutdown landing on any step of any phase: every message exists exactly once at every "
            "moment (exactly_one_place), and once the consumers are finished nothing is in flight and every message is either "
            "disposed or back in the waiting list, never both, never neither (stop_no_loss; true since the fix recorded for C03, "
            "refuted by a six-step witness for the old order). Tie: the real Worker in virtual time with the stop signal injected at "
            "chosen event-loop iterations (a stratified sample per scenario in quick, EVERY busy iteration in thorough: ~18k runs), "
            "each single-queue run's trace accepted by the model and ending in the observed places; oracle on every run: place, "
            "parameters (retry counter unchanged), terminal calls, return within graceful + 7 s. Shutdown of the Redis consumer: finish() at every loop iteration of its background task (4 scenarios x 70 cut points per quick run) must leave every message in one place and none marked as processing (fix e1e0137 recorded); consume() of the Redis and of the RabbitMQ consumer cancelled at every loop iteration while a buffered message has expired (fixes 22dfaf1, de034a6 recorded). finish() of the Redis consumer over a slow wire (every round trip some loop iterations long) and of the RabbitMQ consumer while a consume() is blocked and a delivery arrives, at every iteration; buffers holding runs of expired messages. A real Worker over the fake Redis and RabbitMQ servers with SIGINT at every loop iteration (9 scenarios - 1-2 queues, messages_limit none/1/2, with and without suspending consume subscribers - x 90+ cut points x 2 brokers per quick run; oracle: run() returns, nothing in flight, everything in one place afterwards; fixes 53b80e5, 55cf787, 51d7ee3, aeff44b recorded). The consumer's hand-over pipeline (take on the wire / taken / in hand / buffer / returning through the middleware wrapper / kept undelivered / with the caller / nack or reject on the wire) is modelled in Handover.v for ALL interleavings of the background task, the caller of consume(), its cancellation, finish() and expiry: once finish() has returned every message is back in its queue, dead-lettered or with the caller, or on a way that ends there by itself - the one exception, a caller cancelled while a message is being handed over AFTER finish() collected, is named (`late`), shown to be the only one and real in the model (C03_handover_*); tie: the real Redis consumer over the fake server and the real RabbitMQ consumer over the fake channel (the model's push variant: deliveries pushed by the server, bounced when the consumer is paused or finished) with finish() at k and the caller's cancellation at c for a grid of (k, c) (10 scenarios, ~1900 runs, ~600 distinct traces per quick run), the custody of every message read off the client's fields and the server before EVERY loop iteration, each step between snapshots accepted by the model (Coq decides: some order of the inferred events leads exactly to the observed state). Death clause (Redis): maintenance returns a message marked as processed exactly when its execution timeout has elapsed since the second it was taken, never before, and the returned message is in one deliverable place (C03_redis_*); tie: ~120 sequential Redis histories with takes that are never disposed, clock jumps around 600 s and maintenance runs, command stream equal to the model's.",
    "note": "Shutdown (stop / cancel / finish) is shown for the in-memory broker; the process-death clause for the Redis client in "
            "sequential histories over the fake server (no real process is killed: a 'dead' worker is one that never disposes of "
            "what it took). "
            "The return bound is checked by the oracle in virtual time, not proved. Actors are assumed to end when cancelled; cancelled "
            "tasks are assumed to end within the runner's 1 s allowance. Two-queue runs are checked by the oracle only.",
    "technique": "Coq proof by ownership/counting invariants over all event sequences (worker shutdown; consumer hand-over pipeline) + crash-point enumeration with trace acceptance and refinement by state observation + Redis time-out test regenerated from source by a translator",
    "design": "DESIGN.md §3 C03",
}
