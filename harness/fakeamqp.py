"""FakeAmqp — the part of a RabbitMQ server the repid client relies on, as an object-level replacement of the aiormq
channel of `RabbitMessageBroker` (the client's own code issues every method and receives every delivery).

Semantics: coq/AmqpSrv.v, line by line (see the header there for the documented RabbitMQ behaviour it describes and for
the fact that neither can be compared with a real server in this sandbox).  Every method is one atomic step with a
suspension before and after it; after every step, and whenever the TTL of a queue head runs out (virtual-time timer), the
server is pumped: expiries first, then deliveries, each delivery starting the consumer callback as a task, as aiormq does.
Every method is logged with its issuer (a context variable set by the harness), its instant and its reply; every delivery
and expiry is logged too."""
from __future__ import annotations

import asyncio
import contextvars

from pamqp import commands as spec
from pamqp.header import ContentHeader

from .clock import CLOCK

ISSUER = contextvars.ContextVar("verif_amqp_issuer", default=None)


class _Delivered:
    """what aiormq hands to a consumer callback (aiormq.abc.DeliveredMessage: delivery, header, body, channel)"""

    def __init__(self, delivery, header, body, channel) -> None:
        self.delivery, self.header, self.body, self.channel = delivery, header, body, channel

    @property
    def delivery_tag(self):
        return self.delivery.delivery_tag

    @property
    def redelivered(self):
        return self.delivery.redelivered

    @property
    def routing_key(self):
        return self.delivery.routing_key

    @property
    def consumer_tag(self):
        return self.delivery.consumer_tag


def dl_target(qname: str):
    if qname.endswith(":dead"):
        return None
    if qname.endswith(":delayed"):
        return qname[: -len(":delayed")]
    return qname + ":dead"


class FakeAmqp:
    """server + the one channel the broker object uses"""

    is_closed = False

    def __init__(self) -> None:
        self.queues: dict[str, list[dict]] = {}
        self.unacked: list[dict] = []            # {"tag", "msg", "q", "ctag"}
        self.cons: list[dict] = []               # {"ctag", "q", "prefetch"} in round-robin order
        self.qos = 0
        self.next_tag = 1
        self.next_ctag = 1
        self.consumers = {}                      # aiormq: consumer tag -> callback (replaced by the client's _Consumers())
        self.log: list = []
        self._timer = None
        self.number = 1
        self._cb_tasks: list = []

    # ---- schedule: an API call's method is applied when the callbacks started so far have run as far as they can ----
    def _callbacks_runnable(self) -> bool:
        self._cb_tasks = [t for t in self._cb_tasks if not t.done()]
        for t in self._cb_tasks:
            w = getattr(t, "_fut_waiter", None)
            if w is None or w.done():
                return True
        return False

    async def quiesce(self) -> None:
        for _ in range(10_000):
            if not self._callbacks_runnable():
                return
            await asyncio.sleep(0)
        raise RuntimeError("callbacks never settle")

    # ---- server-side primitives ----
    @staticmethod
    def _enq(m: dict, l: list) -> None:
        for j, x in enumerate(l):
            if x["prio"] < m["prio"]:
                l.insert(j, m)
                return
        l.append(m)

    @staticmethod
    def _enq_front(m: dict, l: list) -> None:
        for j, x in enumerate(l):
            if x["prio"] <= m["prio"]:
                l.insert(j, m)
                return
        l.append(m)

    def _route(self, qname: str, m: dict) -> bool:
        if qname not in self.queues:
            return False
        self._enq(m, self.queues[qname])
        return True

    def _dead_letter(self, frm: str, m: dict) -> None:
        t = dl_target(frm)
        if t is not None:
            self._route(t, dict(m, expire=None, redel=False))

    def _take_tag(self, tag: int):
        for j, u in enumerate(self.unacked):
            if u["tag"] == tag:
                return self.unacked.pop(j)
        return None

    def _expire_one(self, now: int) -> bool:
        for qname, l in self.queues.items():
            if l and l[0]["expire"] is not None and l[0]["expire"] <= now:
                m = l.pop(0)
                self.log.append(("expire", now, qname, m["id"]))
                self._dead_letter(qname, m)
                return True
        return False

    def _deliver_one(self, now: int) -> bool:
        for j, c in enumerate(self.cons):
            n = sum(1 for u in self.unacked if u["ctag"] == c["ctag"])
            if (c["prefetch"] == 0 or n < c["prefetch"]) and self.queues.get(c["q"]):
                m = self.queues[c["q"]].pop(0)
                tag = self.next_tag
                self.next_tag += 1
                self.unacked.append({"tag": tag, "msg": m, "q": c["q"], "ctag": c["ctag"]})
                self.cons.append(self.cons.pop(j))
                self.log.append(("deliver", now, c["ctag"], tag, m["id"], m["redel"]))
                cb = self.consumers.get(f"ctag{c['ctag']}")
                if cb is not None:
                    props = spec.Basic.Properties(message_id=m["mid"], priority=m["prio"], headers=m["headers"],
                                                  delivery_mode=m["delivery_mode"], timestamp=m["timestamp"])
                    msg = _Delivered(spec.Basic.Deliver(consumer_tag=f"ctag{c['ctag']}", delivery_tag=tag, redelivered=m["redel"],
                                                        exchange="", routing_key=c["q"]),
                                     ContentHeader(properties=props, body_size=len(m["body"])), m["body"], self)
                    tok = ISSUER.set(("callback", c["ctag"], tag))
                    try:
                        self._cb_tasks.append(asyncio.get_running_loop().create_task(cb(msg)))
                    finally:
                        ISSUER.reset(tok)
                return True
        return False

    def _pump(self) -> None:
        now = CLOCK.now_us()
        for _ in range(100_000):
            if self._expire_one(now):
                continue
            if self._deliver_one(now):
                continue
            break
        self._arm_timer(now)

    def _next_expiry(self):
        es = [l[0]["expire"] for l in self.queues.values() if l and l[0]["expire"] is not None]
        return min(es) if es else None

    def _arm_timer(self, now: int) -> None:
        if self._timer is not None:
            self._timer.cancel()
            self._timer = None
        e = self._next_expiry()
        if e is not None:
            loop = asyncio.get_running_loop()
            self._timer = loop.call_at(loop.time() + max(e - now, 0) / 1_000_000, self._on_timer)

    def _on_timer(self) -> None:
        self._timer = None
        self._pump()

    async def _step(self, name: str, args: tuple, fn):
        await asyncio.sleep(0)
        iss = ISSUER.get()
        if iss is not None and iss[0] == "api":
            await self.quiesce()
        now = CLOCK.now_us()
        reply = fn(now)
        self.log.append(("method", now, ISSUER.get(), name, args, reply))
        self._pump()
        await asyncio.sleep(0)
        return reply

    # ---- the aiormq channel API used by repid ----
    async def basic_publish(self, body: bytes, *, exchange: str = "", routing_key: str = "", properties=None,
                            mandatory: bool = False, immediate: bool = False, timeout=None, wait: bool = True):
        p = properties

        def fn(now):
            exp = None if p.expiration is None else int(p.expiration)
            m = {"mid": p.message_id, "id": p.message_id, "prio": p.priority or 0, "headers": dict(p.headers or {}),
                 "body": body, "expire": None if exp is None else now + exp * 1000, "redel": False,
                 "delivery_mode": p.delivery_mode, "timestamp": p.timestamp, "exp_ms": exp}
            return 1 if self._route(routing_key, m) else 0
        ok = await self._step("publish", (routing_key, p.message_id, p.priority, dict(p.headers or {}), body, p.expiration,
                                          exchange, mandatory), fn)
        return spec.Basic.Ack() if ok else spec.Basic.Nack()

    def _tags_upto(self, delivery_tag: int, multiple: bool) -> list:
        """AMQP: with `multiple` the method settles EVERY outstanding delivery of the channel up to and including the tag"""
        if not multiple:
            return [delivery_tag]
        return [u["tag"] for u in self.unacked if u["tag"] <= delivery_tag]

    async def basic_ack(self, delivery_tag: int, multiple: bool = False, wait: bool = True) -> None:
        def fn(now):
            n = 0
            for t in self._tags_upto(delivery_tag, multiple):
                n += 1 if self._take_tag(t) is not None else 0
            return 1 if n else 0
        await self._step("ack", (delivery_tag, multiple), fn)

    async def basic_nack(self, delivery_tag: int, multiple: bool = False, requeue: bool = True, wait: bool = True) -> None:
        def fn(now):
            n = 0
            for t in reversed(self._tags_upto(delivery_tag, multiple)):
                u = self._take_tag(t)
                if u is None:
                    continue
                n += 1
                if requeue:
                    self._enq_front(dict(u["msg"], redel=True), self.queues[u["q"]])
                else:
                    self._dead_letter(u["q"], u["msg"])
            return 1 if n else 0
        await self._step("nack", (delivery_tag, multiple, requeue), fn)

    async def basic_reject(self, delivery_tag: int, *, requeue: bool = True, wait: bool = True) -> None:
        def fn(now):
            u = self._take_tag(delivery_tag)
            if u is None:
                return 0
            if requeue:
                self._enq_front(dict(u["msg"], redel=True), self.queues[u["q"]])
            else:
                self._dead_letter(u["q"], u["msg"])
            return 1
        await self._step("reject", (delivery_tag, requeue), fn)

    async def basic_qos(self, *, prefetch_size=None, prefetch_count=None, global_: bool = False, timeout=None):
        def fn(now):
            self.qos = prefetch_count or 0
            return 1
        await self._step("qos", (prefetch_size, prefetch_count, global_), fn)
        return spec.Basic.QosOk()

    async def basic_consume(self, queue: str, consumer_callback, *, no_ack: bool = False, exclusive: bool = False,
                            arguments=None, consumer_tag=None, timeout=None):
        holder = {}

        def fn(now):
            ct = self.next_ctag
            self.next_ctag += 1
            self.consumers[f"ctag{ct}"] = consumer_callback      # aiormq registers the callback before the rpc
            self.cons.append({"ctag": ct, "q": queue, "prefetch": self.qos})
            holder["ct"] = ct
            return ct
        await self._step("consume", (queue, no_ack, exclusive), fn)
        return spec.Basic.ConsumeOk(consumer_tag=f"ctag{holder['ct']}")

    async def basic_cancel(self, consumer_tag: str, *, nowait: bool = False, timeout=None):
        def fn(now):
            ct = int(consumer_tag[4:])
            self.cons = [c for c in self.cons if c["ctag"] != ct]
            return 1
        await self._step("cancel", (consumer_tag,), fn)
        self.consumers.pop(consumer_tag, None)                   # aiormq: on the CancelOk frame
        return spec.Basic.CancelOk(consumer_tag=consumer_tag)

    async def queue_declare(self, queue: str = "", *, passive=False, durable=False, exclusive=False, auto_delete=False,
                            nowait=False, arguments=None, timeout=None):
        def fn(now):
            self.queues.setdefault(queue, [])
            return 1
        await self._step("declare", (queue, durable, dict(arguments or {})), fn)
        return spec.Queue.DeclareOk(queue=queue, message_count=len(self.queues[queue]), consumer_count=0)

    async def queue_purge(self, queue: str = "", nowait=False, timeout=None):
        def fn(now):
            if queue in self.queues:
                self.queues[queue] = []
            return 1
        await self._step("purge", (queue,), fn)
        return spec.Queue.PurgeOk(message_count=0)

    async def queue_delete(self, queue: str = "", if_unused=False, if_empty=False, nowait=False, timeout=None):
        def fn(now):
            self.queues.pop(queue, None)
            return 1
        await self._step("delete", (queue,), fn)
        return spec.Queue.DeleteOk(message_count=0)

    async def close(self, *a, **k) -> None:
        self.is_closed = True
