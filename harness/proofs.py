"""Build the Coq development and re-check one property's Props file, capturing Print Assumptions."""
from __future__ import annotations

import fcntl
import re
import subprocess
import time
from pathlib import Path

from .common import COQ, VERIF

LOCK = VERIF / ".coq.lock"


def _run(cmd, cwd, timeout):
    p = subprocess.run(cmd, cwd=cwd, capture_output=True, text=True, timeout=timeout)
    return p.returncode, p.stdout + p.stderr


def build(jobs: int = 16, timeout: int = 1500) -> tuple[bool, str]:
    """Incremental full .vo build (no -vos), serialised between concurrently running checks."""
    with open(LOCK, "w") as lk:
        fcntl.flock(lk, fcntl.LOCK_EX)
        # the translated parts of the model are regenerated from /repo's current source on every run.  A source the translator
        # cannot translate leaves a file that does not compile: the properties whose theorems depend on it (and only those) are
        # no longer shown - everything else is still built (make -k) and judged on its own
        from . import translate
        from .common import REPO
        notes = []
        for fname, fn in (("GenSched.v", translate.translate), ("GenLadder.v", translate.translate_ladder),
                          ("GenHandle.v", translate.translate_handle), ("GenRabbit.v", translate.translate_rabbit), ("GenRedisMaint.v", translate.translate_redis_maintenance)):
            try:
                text = fn(str(REPO))
            except Exception as ex:  # noqa: BLE001
                msg = f"translator (harness/translate.py) cannot translate the current source for {fname}: {type(ex).__name__}: {ex}"
                notes.append(msg)
                text = "(* " + msg.replace("*)", "* )") + " *)\nDefinition the_translator_failed : False := I.\n"
            gen = COQ / fname
            if not gen.exists() or gen.read_text() != text:
                gen.write_text(text)
        mk = COQ / "Makefile"
        if mk.exists() and mk.stat().st_mtime < (COQ / "_CoqProject").stat().st_mtime:
            mk.unlink()
        if not (COQ / "Makefile").exists():
            rc, out = _run(["coq_makefile", "-f", "_CoqProject", "-o", "Makefile"], COQ, 120)
            if rc != 0:
                return False, out
        rc, out = _run(["make", "-k", f"-j{jobs}"], COQ, timeout)
        if rc != 0:
            # no stale object of a file that failed to build may be loaded by what depends on it
            for name in set(re.findall(r"\*\*\* \[[^\]]*?:\s*([\w/]+)\.vo\]", out)) | set(re.findall(r'File "\./([\w/]+)\.v"', out)):
                for ext in (".vo", ".vos", ".vok", ".glob"):
                    (COQ / f"{name}{ext}").unlink(missing_ok=True)
        return rc == 0, "\n".join(notes) + ("\n" if notes else "") + out


def theorems_in(path: Path) -> list[str]:
    return re.findall(r"^\s*(?:Theorem|Corollary)\s+([A-Za-z0-9_']+)", path.read_text(), re.M)


FORBIDDEN = re.compile(r"\b(Admitted|admit|Axiom|Parameter|Conjecture|Unset Guard|bypass_check|Admit Obligations)\b")


def scan_forbidden() -> list[str]:
    bad = []
    for f in sorted(COQ.rglob("*.v")):
        if "_cases" in f.parts:
            continue
        text = re.sub(r"\(\*.*?\*\)", "", f.read_text(), flags=re.S)
        for m in FORBIDDEN.finditer(text):
            bad.append(f"{f.relative_to(COQ)}: {m.group(1)}")
    return bad


def check_props(pid: str) -> dict:
    """Re-compiles Props/<pid>.v and every Props/<pid>_*.v (to scratch .vo files) and parses their Print Assumptions output."""
    t0 = time.time()
    ok, out = build()
    infos = [_check_one(pid, src, ok, out) for src in [COQ / "Props" / f"{pid}.v"] + sorted((COQ / "Props").glob(f"{pid}_*.v"))]
    info = infos[0]
    for extra in infos[1:]:
        info["file"] += ", " + extra["file"]
        info["build_ok"] = info["build_ok"] and extra["build_ok"]
        info["theorems"] += extra["theorems"]
        info["axioms"].update(extra["axioms"])
        info["closed"] += extra["closed"]
        info["errors"] += extra["errors"]
        info["print_assumptions_missing"] = info.get("print_assumptions_missing", []) + extra.get("print_assumptions_missing", [])
    info["forbidden"] = scan_forbidden()
    info["wall_s"] = round(time.time() - t0, 2)
    return info


def _check_one(pid: str, src: Path, ok: bool, out: str) -> dict:
    info: dict = {"file": str(src.relative_to(VERIF)), "build_ok": ok, "theorems": [], "axioms": {},
                  "closed": 0, "errors": ""}
    if not src.exists():
        info["errors"] = f"{src} missing"
        info["build_ok"] = False
        return info
    names = theorems_in(src)
    info["theorems"] = names
    if not ok:
        # something in the development does not build: this property is affected only if ITS statements no longer compile
        m = re.findall(r'File "\./([^"]+)", line (\d+)', out)
        info["build_failures_elsewhere"] = [f"{a}:{b}" for a, b in m][:5] + [l for l in out.splitlines() if l.startswith("translator")][:3]
    import os
    import shutil
    scratch = COQ / "_cases" / f"props_{src.stem}_{os.getpid()}"
    scratch.mkdir(parents=True, exist_ok=True)
    vo = scratch / f"{src.stem}.vo"
    rc, pout = _run(["coqc", "-Q", str(COQ), "Repid", "-o", str(vo), str(src)], COQ, 900)
    shutil.rmtree(scratch, ignore_errors=True)
    if rc != 0:
        info["build_ok"] = False
        info["errors"] = pout[-4000:]
        return info
    info["build_ok"] = True          # the statements of this property compile against what the development has built
    # Print Assumptions answers come in the order of the Print commands
    printed = re.findall(r"Print Assumptions\s+([A-Za-z0-9_']+)\s*\.", src.read_text())
    blocks = re.split(r"(?=Closed under the global context|Axioms:)", pout)
    blocks = [b for b in blocks if b.startswith(("Closed under", "Axioms:"))]
    for name, b in zip(printed, blocks):
        if b.startswith("Closed under"):
            info["closed"] += 1
            info["axioms"][name] = []
        else:
            ax = re.findall(r"^([A-Za-z_][\w\.']*)\s*:", b, re.M)
            info["axioms"][name] = ax
    info["print_assumptions_missing"] = [n for n in names if n not in printed]
    return info
