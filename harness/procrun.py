"""Runs "handle" and "process" cases on the real code (Message / MessageDependency / _Processor via a real
Worker on the recording in-memory world) and encodes what happened the way Handle.v / Ladder.v do."""

import asyncio
from datetime import timedelta
from typing import Annotated, Any

from . import coqterm as ct
from .clock import CLOCK
from .pyparams import enc_params, mk_params, params_term
from .world import (EXC_CODES, MemMessage, MessageCategory, Router, World, exc_code, key, make_exc)

S = 1_000_000
CATS = {0: MessageCategory.NORMAL, 1: MessageCategory.DELAYED, 2: MessageCategory.DEAD}
CAT_TERM = {0: "Normal", 1: "DelayedC", 2: "DeadC"}
TERMINAL = ("ack", "nack", "reject", "reschedule", "retry", "force_retry")


def make_policy(pol):
    if pol[0] == "default":
        from repid.retry_policy import default_retry_policy_factory
        return default_retry_policy_factory(*pol[1:])
    if pol[0] == "const":
        d = pol[1]
        return lambda retry_number=1: timedelta(microseconds=d)
    a, b = pol[1], pol[2]
    return lambda retry_number=1: timedelta(microseconds=a * retry_number + b)


def pol_term(pol) -> str:
    if pol[0] == "default":
        return f"(PolDefault {pol[1]} {pol[2]} {pol[3]} {pol[4]})"
    if pol[0] == "const":
        return f"(PolConst {ct.Z(pol[1])})"
    return f"(PolLinear {ct.Z(pol[1])} {ct.Z(pol[2])})"


def call_term(c) -> str:
    name, arg, bfail = c
    if name == "add_callback":
        t = f"(HAddCallback {ct.Z(arg[0])} {ct.B(arg[1])})"
    elif name == "retry":
        t = f"(HRetry {ct.opt(arg)})"
    elif name == "force_retry":
        t = f"(HForceRetry {ct.opt(arg)})"
    elif name == "set_result":
        t = f"(HSetResult {ct.Z(arg)})"
    elif name == "set_exception":
        t = f"(HSetException {ct.Z(arg)})"
    else:
        t = {"ack": "HAck", "nack": "HNack", "reject": "HReject", "reschedule": "HReschedule"}[name]
    return f"({t}, {ct.B(bfail)})"


def fin_term(fin) -> str:
    if fin[0] == "return":
        return f"(FReturn {ct.Z(fin[1])})"
    return f"(FFail {ct.Z(fin_code(fin))})"


def fin_code(fin, converter="basic") -> int:
    k = fin[0]
    if k == "raise" or k == "depfail":
        return fin[1]
    if k == "timeout":
        return EXC_CODES["TimeoutError"]
    if k in ("convfail", "outfail"):
        return fin[1]
    raise ValueError(k)


def rel_params(spec: dict, start: int):
    """spec holds offsets relative to the case start for until/next/ts."""
    def rel(x):
        return None if x is None else start + x
    return mk_params(timeout_us=spec.get("timeout", 600 * S), result=spec.get("result"), max_amount=spec.get("max", 0),
                     tried=spec.get("tried", 0), until=rel(spec.get("until")), by=spec.get("by"),
                     nxt=rel(spec.get("next")), ts=rel(spec.get("ts", 0)), ttl=spec.get("ttl"))


def _enc_bucket(b, intern_res) -> list[int]:
    """EStore payload: success, data, exc, ttl (ok flag appended by the caller)."""
    if b.success:
        try:
            d = int(b.data)
        except (TypeError, ValueError):
            d = -7
        e = None if b.exception is None else -8
    else:
        d = exc_code(b.data, b.exception)
        e = d
    return [1 if b.success else 0, d] + ct.enc_optZ(e) + ct.enc_optZ(None if b.ttl is None else ct.us_of_td(b.ttl))


def _enc_call(op: str, params, intern) -> list[int]:
    if op == "ack":
        return [1]
    if op == "nack":
        return [2]
    if op == "reject":
        return [3]
    return [4] + enc_params(params, intern)


def encode_log(events: list[dict], mid: str, rid: str | None, intern) -> list[int]:
    out: list[int] = []
    for e in events:
        k = e["kind"]
        if k == "broker" and e["op"] in ("ack", "nack", "reject", "requeue") and e["id"] == mid:
            out += [101 if e["ok"] else 102] + _enc_call(e["op"], e["params"], intern)
        elif k == "api" and e["mid"] == mid:
            if e["res"] == "refused":
                out += [103]
            elif e["res"] == "done":
                out += [107]
            elif e["res"] == "noaction":
                out += [106, 1 if e["success"] else 0] + ct.enc_optZ(e["data"]) + ct.enc_optZ(e["exc"])
        elif k == "callback" and e["mid"] == mid:
            out += [104, e["cb"], 1 if e["ok"] else 0]
        elif k == "store" and e["role"] == "results" and rid is not None and e["id"] == rid:
            out += [105] + _enc_bucket(e["bucket"], intern) + [1 if e["ok"] else 0]
    return out


async def _do_calls(w: World, m, calls, mid: str) -> None:
    """Makes the API calls on a Message / MessageDependency, catching what a call may raise."""
    log = w.log
    for name, arg, bfail in calls:
        if bfail:
            w.mb.fail_any_ids.add(mid)
        try:
            if name in ("retry", "force_retry"):
                await getattr(m, name)(None if arg is None else timedelta(microseconds=arg))
            elif name in TERMINAL:
                await getattr(m, name)()
            elif name == "set_result":
                m.set_result(arg)
            elif name == "set_exception":
                m.set_exception(make_exc(arg))
            elif name == "add_callback":
                cid, fails = arg

                def cb(cid=cid, fails=fails):
                    log.add("callback", mid=mid, cb=cid, ok=not fails)
                    if fails:
                        raise RuntimeError("callback failed")
                m.add_callback(cb if cid % 2 else _async(cb))
            log.add("api", mid=mid, res="done", call=name)
        except ValueError:
            log.add("api", mid=mid, res="refused", call=name)
        except Exception:  # noqa: BLE001  (injected broker failure, failing callback, failing store)
            pass
        finally:
            w.mb.fail_any_ids.discard(mid)


def _async(fn):
    async def inner():
        return fn()
    return inner


def build_actor(w: World, case: dict, mid: str):
    """The actor function for a process case."""
    from repid import Depends, MessageDependency
    from repid._utils import _NoAction

    calls, fin = case["calls"], case["fin"]
    log = w.log

    async def body(m) -> Any:
        log.add("actor_start", mid=mid)
        try:
            await _do_calls(w, m, calls, mid)
        except _NoAction as na:
            log.add("api", mid=mid, res="noaction", success=na.success,
                    data=None if na.data is None else int(na.data),
                    exc=None if na.exception is None else exc_code(str(na.exception), type(na.exception).__name__))
            raise
        if case.get("report_fails"):
            w.mb.fail_any_ids.add(mid)
        if fin[0] == "return":
            return fin[1]
        if fin[0] == "raise":
            raise make_exc(fin[1])
        if fin[0] == "timeout":
            await asyncio.sleep(3600)
        if fin[0] == "outfail":
            return object()          # the converter cannot encode it: convert_outputs raises TypeError
        raise AssertionError("unreachable")

    if fin[0] == "convfail":
        async def act(m: MessageDependency, required_arg):  # payload lacks required_arg
            return await body(m)
    elif fin[0] == "depfail":
        async def failing() -> int:
            log.add("provider", mid=mid)
            raise make_exc(fin[1])

        async def act(m: MessageDependency, d: Annotated[int, Depends(failing)]):
            return await body(m)
    else:
        async def act(m: MessageDependency, x: int = 0):
            return await body(m)
    return act


def converter_of(name: str):
    from repid import BasicConverter
    from repid.converter import DefaultConverter, PydanticConverter
    return {"basic": BasicConverter, "pydantic": PydanticConverter, "default": DefaultConverter}[name]


async def run_process_mix(cases: list, loop, intern, *, tasks_limit=None) -> list:
    """The given deliveries processed concurrently by ONE real Worker (one message, topic and actor per case).
    Returns, per case, the Coq term, the observation and facts for the oracles."""
    w = World(results=cases[0].get("rbb", True))
    w.mb.round_trip = max(c.get("round_trip", 0.0) for c in cases)
    await w.declare("q")
    start = CLOCK.now_us()
    router = Router()
    metas = []
    for i, case in enumerate(cases):
        mid, rid, topic = f"m{i+1}", f"r{i+1}", f"act{i+1}"
        spec = dict(case["params"])
        if spec.get("result") is not None:
            spec["result"] = (rid, spec["result"][1])
        p = rel_params(spec, start)
        router.actor(build_actor(w, case, mid), name=topic, queue="q", retry_policy=make_policy(case["pol"]),
                     converter=converter_of(case.get("converter", "basic")))
        payload = "{" if case["fin"][0] == "convfail" else case.get("payload", '{"x": 1}')   # malformed JSON
        # straight into the waiting list (public DummyQueue field): the delivery under test must not wait for a due time
        w.mb.queues["q"].simple.put_nowait(MemMessage(key(mid, topic), payload, p))
        if case.get("store_fails") and w.rb is not None:
            w.rb.fail_store_ids.add(rid)
        if case.get("report_fails") and case["fin"][0] in ("convfail", "depfail", "timeout"):
            w.mb.fail_any_ids.add(mid)
        metas.append((mid, rid, spec, p))
    loop.max_iterations = loop.iteration + 400_000
    n = len(cases)
    worker = w.worker([router], messages_limit=n, tasks_limit=tasks_limit or n, graceful_shutdown_time=60.0)
    run_error = None
    try:
        await worker.run()
    except Exception as e:  # noqa: BLE001
        run_error = f"{type(e).__name__}: {e}"
    all_events = w.log.events
    out = []
    for case, (mid, rid, spec, p) in zip(cases, metas):
        # one case = one delivery: a message that comes back at once (reject, reschedule of a non-recurring job) may be
        # delivered again inside the same run; everything from its second delivery on belongs to another delivery
        # (callers keep such cases out of concurrent mixes, so deliveries of one message never overlap)
        consumes = [i for i, e in enumerate(all_events) if e["kind"] == "consume" and e["id"] == mid]
        starts = [i for i, e in enumerate(all_events) if e["kind"] == "actor_start" and e["mid"] == mid]
        cut = starts[1] if len(starts) > 1 else len(all_events)
        events = all_events[:cut]
        obs = encode_log(events, mid, rid if spec.get("result") is not None else None, intern)
        terms = [e for e in events if e["kind"] == "broker" and e["op"] in ("ack", "nack", "reject", "requeue") and e["id"] == mid]
        now = terms[-1]["t"] if terms else CLOCK.now_us()
        fin = case["fin"]
        fterm = f"(FReturn {ct.Z(fin[1])})" if fin[0] == "return" else f"(FFail {ct.Z(fin_code(fin))})"
        term = (f"(mkPCase {params_term(p, intern)} {ct.B(case.get('rbb', True))} {pol_term(case['pol'])} {ct.Z(now)} "
                f"{ct.B(bool(case.get('store_fails')))} {ct.B(bool(case.get('report_fails')))} "
                f"{ct.lst(call_term(c) for c in case['calls'])} {fterm})")
        mine = [e for e in events if e.get("mid") == mid or e.get("id") in (mid, rid)]
        out.append({"term": term, "obs": obs, "events": mine, "world": w, "params": p, "now": now, "start": start,
                    "run_error": run_error, "terminal_ok": [e for e in terms if e["ok"]], "terminal_all": terms,
                    "places": w.place_of("q", mid), "mid": mid, "rid": rid, "deliveries": len(consumes),
                    "actor_starts": sum(1 for e in events if e["kind"] == "actor_start" and e["mid"] == mid),
                    "noaction": any(e["kind"] == "api" and e["res"] == "noaction" and e["mid"] == mid for e in events),
                    "stores": [e for e in events if e["kind"] == "store" and e["role"] == "results" and e["id"] == rid],
                    "bucket": None if w.rb is None else await w.rb.get_bucket(rid)})
    return out


async def run_process_case(case: dict, loop, intern) -> dict:
    return (await run_process_mix([case], loop, intern))[0]


async def run_handle_case(case: dict, loop, intern) -> dict:
    """A plain Message obtained by iterating a queue (standalone use of the message API)."""
    w = World(results=case.get("rbb", True))
    w.mb.round_trip = case.get("round_trip", 0.0)
    await w.declare("q")
    mid = "m1"
    start = CLOCK.now_us()
    spec = dict(case["params"])
    cat = case["cat"]
    if cat == 1 and spec.get("next") is None and spec.get("by") is None and spec.get("until") is None:
        spec["next"] = 3600 * S
    p = rel_params(spec, start)
    loop.max_iterations = loop.iteration + 400_000
    if cat == 2:
        w.mb.queues["q"].dead.append(MemMessage(key(mid), "", p))
    elif cat == 1:
        await w.mb.enqueue(key(mid), "", p)
    else:
        w.mb.queues["q"].simple.put_nowait(MemMessage(key(mid), "", p))
    got = None
    async for msg in w.queue("q").get_messages(category=CATS[cat]):
        got = msg
        await _do_calls(w, msg, case["calls"], mid)
        break
    obs = encode_log(w.log.events, mid, None, intern)
    terms = [e for e in w.log.events if e["kind"] == "broker" and e["op"] in ("ack", "nack", "reject", "requeue") and e["id"] == mid]
    now = terms[-1]["t"] if terms else CLOCK.now_us()
    term = (f"(mkHCase false {CAT_TERM[cat]} {params_term(p, intern)} {ct.B(case.get('rbb', True))} {pol_term(case['pol'])} "
            f"{ct.Z(now)} false {ct.lst(call_term(c) for c in case['calls'])})")
    return {"term": term, "obs": obs, "events": w.log.events, "world": w, "params": p, "now": now,
            "terminal_ok": [e for e in terms if e["ok"]], "terminal_all": terms, "got": got is not None,
            "read_only": None if got is None else got.read_only}


# ---------------- generators ----------------
def gen_params_spec(rng, *, result=None, recurring=None) -> dict:
    mx = rng.choice([0, 0, 1, 2, 3])
    tried = rng.choice([0, 0, max(mx - 1, 0), mx, mx + 1])
    by = rng.choice([None, None, 10 * S, 3 * S + 7]) if recurring is None else (10 * S if recurring else None)
    res = result if result is not None else rng.choice([None, ("r", None), ("r", 60 * S)])
    if res is False:
        res = None
    return {"timeout": rng.choice([2 * S, 5 * S, 600 * S]), "result": res, "max": mx, "tried": tried,
            "until": rng.choice([None, None, -5 * S, 7 * S]) if by else None, "by": by, "next": None,
            "ts": rng.choice([0, -3 * S, -100 * S]), "ttl": rng.choice([None, 3600 * S])}


def gen_pol(rng):
    return rng.choice([("default", 10, 86400, 5, 15), ("default", 1, 7, 2, 2), ("const", 0), ("const", 5 * S),
                       ("linear", 2 * S, 1)])


def gen_calls(rng, n: int, *, dep: bool, faults: bool = True) -> list:
    names = list(TERMINAL) + (["set_result", "set_exception", "add_callback"] if dep else [])
    out = []
    cbid = 1
    for _ in range(n):
        name = rng.choice(names)
        bfail = faults and name in TERMINAL and rng.random() < 0.12
        if name in ("retry", "force_retry"):
            arg = rng.choice([None, 0, 3 * S])
        elif name == "set_result":
            arg = rng.randint(1, 50)
        elif name == "set_exception":
            arg = rng.randint(51, 99)
        elif name == "add_callback":
            arg = (cbid, faults and rng.random() < 0.15)
            cbid += 1
        else:
            arg = None
        out.append((name, arg, bfail))
    return out


def returns_at_once(case: dict, horizon: int = 5 * S) -> bool:
    """True when the delivery may put its message back within `horizon` (it could then be delivered again inside the same
    worker run, overlapping with its own first delivery): such cases are kept out of concurrent mixes."""
    pol = make_policy(case["pol"])
    tried = case["params"].get("tried", 0)
    if ct.us_of_td(pol(retry_number=tried + 1)) < horizon:
        return True
    for name, arg, _ in case["calls"]:
        if name == "reject":
            return True
        if name == "reschedule" and case["params"].get("by") is None:
            return True
        if name in ("retry", "force_retry") and arg is not None and arg < horizon:
            return True
    if case["params"].get("by") is not None and case["params"]["by"] < horizon:
        return True
    return False


# ---------------- chains: one message followed over its retries / recurrences ----------------
async def run_chain(case: dict, loop, intern) -> dict:
    """case: N (retries), pattern (list of "ok" | "raise" | "timeout" per attempt), pol, by (period or None),
    result (bool), durations (list, us, per attempt), latencies (list, us: how long after the due time the worker
    looks), mode "jump" (one Worker.run per attempt, clock jumped to the due time) or "continuous" (one Worker.run
    polling through the back-offs in virtual time), until (relative, optional)."""
    from repid import Job

    from .world import jump_to

    w = World(results=True)
    await w.declare("q")
    start = CLOCK.now_us()
    pattern = case["pattern"]
    state = {"k": 0}
    log = w.log
    mid, rid = "c1", "rc1"

    from repid import MessageDependency

    async def act(m: MessageDependency, x: int = 0):
        k = state["k"]
        state["k"] += 1
        log.add("actor_start", mid=mid, k=k)
        d = case.get("durations", [0] * len(pattern))[k] if k < len(pattern) else 0
        kind = pattern[k] if k < len(pattern) else "ok"
        if kind == "timeout":
            await asyncio.sleep(3600)
        if kind == "force":
            # an explicitly forced retry (allowed to go beyond the budget), zero back-off
            await m.force_retry(timedelta(microseconds=case.get("force_backoff", 1000)))
        if d:
            await asyncio.sleep(d / 1_000_000)
        log.add("actor_end", mid=mid, k=k)
        if kind == "raise":
            raise make_exc(100 + k)
        return 200 + k

    router = Router()
    router.actor(act, name="chainact", queue="q", retry_policy=make_policy(case["pol"]))
    timeout = case.get("timeout", 2 * S)
    job = Job("chainact", queue=w.queue("q"), id_=mid, retries=case["N"], timeout=timedelta(microseconds=timeout),
              deferred_by=None if case.get("by") is None else timedelta(microseconds=case["by"]),
              deferred_until=None if case.get("until") is None else ct.dt_of_us(start + case["until"]),
              ttl=None if case.get("ttl") is None else timedelta(microseconds=case["ttl"]),
              result_id=rid, result_ttl=timedelta(seconds=77), store_result=bool(case.get("result", True)),
              args={"x": 1}, use_args_bucketer=False, _connection=w.conn)
    _, _, p0 = await job.enqueue()
    loop.max_iterations = loop.iteration + 3_000_000
    run_errors = []
    dues: list = []
    copies: list = []
    if case.get("mode") == "continuous":
        worker = w.worker([router], messages_limit=len(pattern), tasks_limit=1, graceful_shutdown_time=60.0)
        try:
            await worker.run()
        except Exception as e:  # noqa: BLE001
            run_errors.append(f"{type(e).__name__}: {e}")
    else:
        lat = case.get("latencies", [1] * len(pattern))
        for k in range(len(pattern)):
            snap = w.snapshot("q")
            copies.append(len(w.place_of("q", mid)))
            if snap["delayed"]:
                due = ct.us_of_dt(snap["delayed"][0][0])
                dues.append(due)
                jump_to(loop, due + max(1, lat[k] if k < len(lat) else 1))
            elif not snap["simple"]:
                break
            else:
                dues.append(None)
            worker = w.worker([router], messages_limit=1, tasks_limit=1, graceful_shutdown_time=60.0)
            try:
                await worker.run()
            except Exception as e:  # noqa: BLE001
                run_errors.append(f"{type(e).__name__}: {e}")
    ev = log.events
    consumes = [e for e in ev if e["kind"] == "consume" and e["id"] == mid]
    terms = [e for e in ev if e["kind"] == "broker" and e["op"] in ("ack", "nack", "reject", "requeue") and e["id"] == mid]
    stores = [e for e in ev if e["kind"] == "store" and e["role"] == "results" and e["id"] == rid]
    starts = [e for e in ev if e["kind"] == "actor_start"]
    attempts = []
    for k, c in enumerate(consumes):
        t = terms[k] if k < len(terms) else None
        attempts.append({"k": k, "delivered_at": c["t"], "params_at_delivery": c["params"],
                         "started_at": starts[k]["t"] if k < len(starts) else None,
                         "op": None if t is None else t["op"], "op_at": None if t is None else t["t"],
                         "params_out": None if t is None else t["params"],
                         "success": (pattern[k] == "ok") if k < len(pattern) else None,
                         "kind": pattern[k] if k < len(pattern) else None})
    return {"world": w, "p0": p0, "attempts": attempts, "stores": stores, "places": w.place_of("q", mid),
            "run_errors": run_errors, "start": start, "dues": dues, "copies": copies + [len(w.place_of("q", mid))], "bucket": await w.rb.get_bucket(rid), "job": job,
            "job_result": await job.result, "n_terms": len(terms), "n_consumes": len(consumes)}


def chain_terms(case: dict, r: dict, intern) -> list[tuple[str, list[int]]]:
    """Correspondence items for a chain: one `chain_obs` per scheduling (maximal run of attempts ending in a
    non-retry decision)."""
    items = []
    cur_p, outs, obs = None, [], []
    for a in r["attempts"]:
        if a["op"] is None:
            break
        if cur_p is None:
            cur_p = a["params_at_delivery"]
        if a.get("kind") == "force":
            # a forced retry is the actor's own eager action, not a decision of the ladder: it ends the segment compared
            # with `chain`; what the ladder does with the over-budget counter afterwards is the next segment
            if len(outs) > 0:
                pass
            cur_p, outs, obs = None, [], []
            continue
        outs.append(f"({ct.B(a['success'])}, {ct.Z(a['op_at'])})")
        p_in, q = a["params_at_delivery"], a["params_out"]
        if a["op"] == "requeue" and q.retries.already_tried == p_in.retries.already_tried + 1:
            obs += [1] + enc_params(q, intern)
            continue
        if a["op"] == "requeue":
            obs += [2] + enc_params(q, intern)
        elif a["op"] == "ack":
            obs += [3]
        elif a["op"] == "nack":
            obs += [4]
        else:
            obs += [99]
        items.append((f"({pol_term(case['pol'])}, {params_term(cur_p, intern)}, {ct.lst(outs)})", obs))
        cur_p, outs, obs = None, [], []
    if cur_p is not None:
        items.append((f"({pol_term(case['pol'])}, {params_term(cur_p, intern)}, {ct.lst(outs)})", obs))
    return items
