"""Histories of broker-API calls on the real Redis client (RedisMessageBroker + _RedisConsumer) over FakeRedis, in virtual
time.  The abstract state is read off the fake server (lists, sorted sets, hashes) and the consumers' local buffers."""
import asyncio
from datetime import timedelta

from . import coqterm as ct
from .clock import CLOCK
from .fakeredis import ISSUER, FakeRedis
from .pyparams import enc_params, mk_params, params_term
from .world import MessageCategory, key

S = 1_000_000
CATS = {0: MessageCategory.NORMAL, 1: MessageCategory.DELAYED, 2: MessageCategory.DEAD}
PRIOS = (9, 5, 0)


def num(s: str) -> int:
    return int(s[1:])


class RedisWorld:
    def __init__(self, queues: list[int]) -> None:
        from repid.connections.redis.message_broker import RedisMessageBroker
        self.mb = RedisMessageBroker("redis://fake-host-never-contacted:1/0")
        self.srv = FakeRedis()
        self.mb.conn = self.srv
        self.qs = queues
        self.consumers: dict[int, object] = {}
        self.cspec: dict[int, tuple] = {}
        self.delivered: dict[int, int] = {}        # id -> consumer it was handed to by consume() and not yet returned
        self.rand: list = []

    async def add_consumer(self, c: int, q: int, cat: int, topics, max_unacked) -> None:
        cons = self.mb.get_consumer(f"q{q}", None if topics is None else [f"t{t}" for t in topics], max_unacked, CATS[cat])
        self.consumers[c] = cons
        self.cspec[c] = (q, cat, topics, max_unacked)
        tok = ISSUER.set(("bg", c))
        try:
            await cons.start()           # the background task inherits the context: its commands are attributed to ("bg", c)
        finally:
            ISSUER.reset(tok)

    async def settle(self, dt: float = 0.0) -> None:
        """let every task run until it waits for a timer"""
        if dt:
            await asyncio.sleep(dt)
        for _ in range(80):
            await asyncio.sleep(0)

    # ---- abstract state ----
    def places(self) -> dict:
        """id -> list of places; a place is (kind, queue, prio, extra)"""
        out: dict = {}

        def add(i, p):
            out.setdefault(i, []).append(p)
        for name, l in self.srv.lists.items():
            _, q, prio, kind = name.split(":")
            for pos, short in enumerate(l):
                add(num(short.decode().split(":")[1]), ("dead" if kind == "dead" else "normal", num(q), int(prio), pos))
        for name, z in self.srv.zsets.items():
            if name == "processing":
                for short, score in z.items():
                    add(num(short.decode().split(":")[1]), ("processing", None, None, int(score)))
                continue
            _, q, prio, kind = name.split(":")
            for short, score in z.items():
                add(num(short.decode().split(":")[1]), ("delayed", num(q), int(prio), int(score)))
        return out

    def hashes(self) -> dict:
        out = {}
        for name, h in self.srv.hashes.items():
            _, q, prio, topic, mid = name.split(":")
            out[num(mid)] = {"queue": num(q), "prio": int(prio), "topic": num(topic), "payload": h.get("payload"),
                             "parameters": h.get("parameters"), "reject_to": h.get("_reject_to")}
        return out

    def buffers(self) -> dict:
        """consumer -> ids in its local buffer (prefetched, not yet handed out)"""
        return {c: [num(k.id_) for (k, _, _) in list(cons.queue._queue)] for c, cons in self.consumers.items()}


def build_params(spec: dict, now: int):
    def rel(x):
        return None if x is None else now + x
    return mk_params(timeout_us=spec.get("timeout", 600 * S), max_amount=spec.get("max", 0), tried=spec.get("tried", 0),
                     until=rel(spec.get("until")), by=spec.get("by"), nxt=rel(spec.get("next")),
                     ts=now + spec.get("ts", 0), ttl=spec.get("ttl"))


async def exec_op(w: RedisWorld, o: dict, loop, trace: list) -> None:
    mb = w.mb
    now = CLOCK.now_us()
    kind = o["op"]
    n_log = len(w.srv.log)
    e = {"op": kind, "t": now}
    if kind == "tick":
        await w.settle(o["d"] / 1_000_000)
        e["d"] = o["d"]
    elif kind == "put":
        p = build_params(o["params"], now)
        k = key(f"m{o['id']}", f"t{o['topic']}", f"q{o['queue']}", o.get("prio", 5))
        tok = ISSUER.set(("api", "enqueue", o["id"]))
        try:
            await mb.enqueue(k, f"p{o['id']}", p)
        finally:
            ISSUER.reset(tok)
        e.update(id=o["id"], params=p, queue=o["queue"], topic=o["topic"], prio=o.get("prio", 5), payload=f"p{o['id']}")
    elif kind in ("ack", "nack", "reject", "requeue"):
        i = o["id"]
        k = key(f"m{i}", f"t{o['topic']}", f"q{o['queue']}", o.get("prio", 5))
        tok = ISSUER.set(("api", kind, i))
        try:
            if kind == "requeue":
                p = o.get("params_obj") or build_params(o["params"], now)
                await mb.requeue(k, f"p{i}r{o.get('rev', 1)}", p)
                e.update(params=p, payload=f"p{i}r{o.get('rev', 1)}")
            else:
                await getattr(mb, kind)(k)
        finally:
            ISSUER.reset(tok)
        w.delivered.pop(i, None)
        e.update(id=i, queue=o["queue"], topic=o["topic"], prio=o.get("prio", 5))
    elif kind == "consume":
        c = o["c"]
        cons = w.consumers[c]
        got = None
        try:
            got = await asyncio.wait_for(cons.consume(), o.get("timeout", 0.35))
        except asyncio.TimeoutError:
            pass
        e.update(c=c, got=got, delivered=None if got is None else num(got[0].id_), t_return=CLOCK.now_us())
        if got is not None:
            w.delivered[num(got[0].id_)] = c
    elif kind == "finish":
        c = o["c"]
        tok = ISSUER.set(("api", "finish", c))
        try:
            await w.consumers[c].finish()
        finally:
            ISSUER.reset(tok)
        q, cat, topics, mu = w.cspec[c]
        await w.settle()
        await w.add_consumer(c, q, cat, topics, mu)
        e.update(c=c)
    elif kind == "maintenance":
        tok = ISSUER.set(("api", "maintenance", 0))
        try:
            await mb.maintenance()
        finally:
            ISSUER.reset(tok)
    await w.settle()
    e["log"] = w.srv.log[n_log:]
    e["after"] = {"places": w.places(), "hashes": w.hashes(), "buffers": w.buffers(), "delivered": dict(w.delivered),
                  "t": CLOCK.now_us()}
    trace.append(e)


async def run_history(hist: dict, loop, rng) -> dict:
    """hist: queues, consumers {c: (q, cat, topics, max_unacked)}, ops.  'terminal' ops are resolved against the messages
    handed out by consume() (well-behaved clients)."""
    from repid.connections.redis import utils as ru
    w = RedisWorld(hist["queues"])
    # the priority order draw is an input of the run: recorded
    orig_random = ru.random.random
    draws = []

    def rec_random():
        x = rng.random()
        draws.append(x)
        return x
    ru.random.random = rec_random
    trace: list = []
    try:
        for c, spec in hist["consumers"].items():
            await w.add_consumer(c, *spec)
        loop.max_iterations = loop.iteration + 3_000_000
        for o in hist["ops"]:
            if o["op"] == "terminal":
                if not w.delivered:
                    continue
                i = rng.choice(sorted(w.delivered))
                h = w.hashes().get(i)
                if h is None:
                    w.delivered.pop(i, None)
                    continue
                kind = rng.choice(hist.get("terminal_kinds") or ["ack", "nack", "reject", "reject", "requeue", "requeue"])
                o = {"op": kind, "id": i, "queue": h["queue"], "topic": h["topic"], "prio": h["prio"]}
                if kind == "requeue":
                    spec = {"tried": rng.randint(0, 2), "max": 2}
                    if rng.random() < 0.6:
                        spec["next"] = rng.choice([-5, 0, 400_000, 1_300_000, 3 * S])
                    if rng.random() < 0.3:
                        spec["ttl"] = rng.choice([300_000, 10 * S])
                    o.update(params=spec, rev=rng.randint(1, 9))
            await exec_op(w, o, loop, trace)
        # shut the background tasks down
        for cons in w.consumers.values():
            if cons.consume_task is not None:
                cons.consume_task.cancel()
        await w.settle()
    finally:
        ru.random.random = orig_random
    return {"trace": trace, "world": w, "draws": draws}


# ---------------------------------------------------------------------------------------------------------------------
# sequential mode: one client, one call at a time, consumers driven through consume_or_none(); the whole command/reply
# stream is compared with RedisBroker.redis_obs
# ---------------------------------------------------------------------------------------------------------------------
FIELD = {"payload": 1, "parameters": 2, "_reject_to": 3}
MARKER = {"n": 1, "d": 2, "dead": 3}


class Coder:
    def __init__(self, shorts: list[str]) -> None:
        self.name = {s: i + 1 for i, s in enumerate(sorted(set(shorts), key=lambda x: x.encode()))}
        self.payload = ct.Interner(start=500)
        self.pcode = ct.Interner(start=9000)
        self.params: dict[int, object] = {}

    def member(self, b) -> int:
        s = b.decode() if isinstance(b, bytes) else b
        return self.name[s]

    def hkey(self, name) -> list[int]:
        if isinstance(name, bytes):
            name = name.decode()
        _, q, prio, topic, mid = name.split(":")
        return [num(q), int(prio), self.name[f"{topic}:{mid}"]]

    def lkey(self, name: str) -> list[int]:
        _, q, prio, kind = name.split(":")
        return [num(q), int(prio), 1 if kind == "dead" else 0]

    def zkey(self, name: str) -> list[int]:
        if name == "processing":
            return [2, 0, 0]
        _, q, prio, _ = name.split(":")
        return [1, num(q), int(prio)]

    def value(self, field: str, v) -> int:
        s = v.decode() if isinstance(v, bytes) else str(v)
        if field == "payload":
            return self.payload(s)
        if field == "parameters":
            return self.pcode(s)
        return MARKER[s]

    def opt_value(self, field: str, v) -> list[int]:
        return [0] if v is None else [1, self.value(field, v)]

    def enc_cmd(self, c: tuple, reply) -> tuple[list[int], list[int]]:
        op = c[0]
        if op == "hsetnx":
            return [1] + self.hkey(c[1]) + [FIELD[c[2]], self.value(c[2], c[3])], [reply]
        if op == "hset":
            items = [(FIELD[k], self.value(k, v)) for k, v in c[2].items()]
            return [2] + self.hkey(c[1]) + [len(items)] + [x for kv in items for x in kv], [reply]
        if op == "hget":
            return [3] + self.hkey(c[1]) + [FIELD[c[2]]], self.opt_value(c[2], reply)
        if op == "hdel":
            return [4] + self.hkey(c[1]) + [FIELD[c[2]]], [reply]
        if op == "delete":
            return [5] + self.hkey(c[1]), [reply]
        if op == "lpush":
            return [6] + self.lkey(c[1]) + [self.member(c[2])], [reply]
        if op == "rpush":
            return [7] + self.lkey(c[1]) + [self.member(c[2])], [reply]
        if op == "lrange":
            return [8] + self.lkey(c[1]) + [c[2], c[3]], [len(reply)] + [self.member(x) for x in reply]
        if op == "lrem":
            return [9] + self.lkey(c[1]) + [self.member(c[3])], [reply]
        if op == "zadd":
            (m, sc), = c[2].items()
            return [10] + self.zkey(c[1]) + [self.member(m), int(float(sc))], [reply]
        if op == "zrem":
            return [11] + self.zkey(c[1]) + [self.member(c[2])], [reply]
        if op == "zrange":
            _, name, start, end, byscore, offset, num_ = c
            rep = [len(reply)] + [self.member(x) for x in reply]
            if byscore:
                return [12] + self.zkey(name) + [int(end), offset, num_], rep
            return [13] + self.zkey(name) + [start, end], rep
        if op == "zscan":
            return [14] + self.zkey(c[1]), [len(reply)] + [x for m, sc in reply for x in (self.member(m), int(sc))]
        if op == "scan":
            short = c[1].split(":", 2)[2] if c[1].startswith("m:*:") else None
            ks = [self.hkey(k.decode()) for k in reply]
            return [15, self.name[short]], [len(ks)] + [x for k in ks for x in k[:2]]
        raise NotImplementedError(op)

    def enc_step(self, entry: dict) -> list[int]:
        cmds, replies = entry["cmds"], entry["replies"]
        if len(cmds) == 1 and cmds[0][0] == "hmget":
            _, name, fields = cmds[0]
            cmds = [("hget", name, f) for f in fields]
            replies = list(replies[0])
        out = [-1, len(cmds)]
        reps: list[int] = []
        for c, r in zip(cmds, replies):
            a, b = self.enc_cmd(c, r)
            out += a
            reps += b
        return out + [-2] + reps


async def run_sequential(hist: dict, loop, rng) -> dict:
    """hist: queues, consumers {c: (q, cat, topics)}, ops (put / take / terminal / tick).  Returns the Coq term of the
    history, the observation (command/reply stream, taken messages, final server state) and a trace for the oracles."""
    from repid.connections.redis import utils as ru
    w = RedisWorld(hist["queues"])
    shorts = [f"t{o['topic']}:m{o['id']}" for o in hist["ops"] if o["op"] == "put"]
    cd = Coder(shorts)
    consumers = {}
    for c, (q, cat, topics) in hist["consumers"].items():
        consumers[c] = w.mb.get_consumer(f"q{q}", None if topics is None else [f"t{t}" for t in topics], None, CATS[cat])
    orig_random = ru.random.random
    choice = {"v": 0}
    ru.random.random = lambda: {0: 0.0, 1: 0.8, 2: 0.99}[choice["v"]]     # 10/3/1: <=0.714 HIGH first, <=0.929 MEDIUM first, else LOW
    terms, obs, trace = [], [], []
    held: dict[int, dict] = {}          # id -> info of messages handed out and not yet disposed
    intern_topic = {}
    try:
        for o in hist["ops"]:
            now = CLOCK.now_us()
            n0 = len(w.srv.log)
            kind = o["op"]
            taken = None
            if kind == "tick":
                await asyncio.sleep(o["d"] / 1_000_000)
                continue
            if kind == "terminal":
                if not held:
                    continue
                i = rng.choice(sorted(held))
                h = held.pop(i)
                kind = rng.choice(hist.get("terminal_kinds") or ["ack", "nack", "reject", "reject", "requeue", "requeue"])
                o = {"op": kind, "id": i, **h}
                if kind == "requeue":
                    spec = {"tried": rng.randint(0, 2), "max": 2}
                    if rng.random() < 0.6:
                        spec["next"] = rng.choice([-5, 0, 400_000, 1_300_000, 3 * S])
                    if rng.random() < 0.3:
                        spec["ttl"] = rng.choice([300_000, 10 * S])
                    if rng.random() < 0.3:
                        # a recurring job that is being retried: a period AND an explicit retry time, which must win
                        spec["by"] = rng.choice([1 * S, 5 * S])
                        spec["ts"] = rng.choice([0, -300_000])
                        spec["next"] = rng.choice([400_000, 1_300_000, 4 * S])
                    o.update(params=spec, rev=rng.randint(1, 9))
            if kind == "put":
                p = build_params(o["params"], now)
                k = key(f"m{o['id']}", f"t{o['topic']}", f"q{o['queue']}", o.get("prio", 5))
                await w.mb.enqueue(k, f"p{o['id']}", p)
                pc = cd.pcode(p.encode())
                cd.params[pc] = p
                short = "t%d:m%d" % (o["topic"], o["id"])
                rk = f"(mkRK {cd.name[short]} {o['queue']} {o.get('prio', 5)})"
                terms.append(f"(ROEnqueue {rk} {cd.payload('p%d' % o['id'])} {pc} {ct.Z(now)})")
                trace.append({"op": "put", "id": o["id"], "t": now, "params": p, "queue": o["queue"], "topic": o["topic"], "prio": o.get("prio", 5)})
            elif kind in ("ack", "nack", "reject", "requeue"):
                i = o["id"]
                k = key(f"m{i}", f"t{o['topic']}", f"q{o['queue']}", o["prio"])
                rk = f"(mkRK {cd.name['t%d:m%d' % (o['topic'], i)]} {o['queue']} {o['prio']})"
                if kind == "requeue":
                    p = build_params(o["params"], now)
                    payload = f"p{i}r{o['rev']}"
                    await w.mb.requeue(k, payload, p)
                    pc = cd.pcode(p.encode())
                    cd.params[pc] = p
                    terms.append(f"(RORequeue {rk} {cd.payload(payload)} {pc} {ct.Z(now)})")
                    trace.append({"op": "requeue", "id": i, "t": now, "params": p, "queue": o["queue"], "topic": o["topic"], "prio": o["prio"]})
                else:
                    await getattr(w.mb, kind)(k)
                    terms.append({"ack": f"(ROAck {rk})", "nack": f"(RONack {rk})", "reject": f"(ROReject {rk} {ct.Z(now)})"}[kind])
                    trace.append({"op": kind, "id": i, "t": now, "queue": o["queue"], "topic": o["topic"], "prio": o["prio"]})
            elif kind == "maintenance":
                await w.mb.maintenance()
                terms.append(f"(ROMaintenance {ct.Z(now)})")
                trace.append({"op": "maintenance", "t": now})
                # whatever maintenance gave back is no longer in a worker's hands
                pl = w.places()
                for i in list(held):
                    if not any(p[0] == "processing" for p in pl.get(i, [])):
                        held.pop(i)
            elif kind == "take":
                c = o["c"]
                q, cat, topics = hist["consumers"][c]
                choice["v"] = o.get("choice", 0)
                got = await consumers[c].consume_or_none()
                # the clock at the start of each priority's attempt: +0.1 s after every empty one (read off the log)
                tl = "[]" if topics is None else ct.zlist(topics)
                terms.append(f"(ROTake {q} {['Normal', 'DelayedC', 'DeadC'][cat]} {tl} {o.get('choice', 0)} {ct.Z(now)})")
                if got is not None:
                    kk, payload, params = got
                    taken = [1, cd.name[f"{kk.topic}:{kk.id_}"], cd.payload(payload), cd.pcode(params.encode())]
                    held[num(kk.id_)] = {"queue": num(kk.queue), "topic": num(kk.topic), "prio": kk.priority}
                trace.append({"op": "take", "c": c, "cat": cat, "t": now, "t_return": CLOCK.now_us(), "got": got,
                              "delivered": None if got is None else num(got[0].id_), "topics": topics, "queue": q})
            steps = [cd.enc_step(entry) for entry in w.srv.log[n0:]]
            if kind == "maintenance":
                steps.sort()          # concurrent rejects: compared as a multiset of steps (see RedisBroker.enc_trace_sorted)
            for st in steps:
                obs += st
            obs += [-3] + (taken or [0])
            trace[-1]["after"] = {"places": w.places(), "hashes": w.hashes()}
    finally:
        ru.random.random = orig_random
    # final state in a canonical key order
    lks = sorted({tuple(cd.lkey(n)) for n in w.srv.lists} | {(q, p, k) for q in hist["queues"] for p in PRIOS for k in (0, 1)})
    zks = sorted({tuple(cd.zkey(n)) for n in w.srv.zsets} | {(1, q, p) for q in hist["queues"] for p in PRIOS} | {(2, 0, 0)})
    obs += [-7]
    for (q, p, k) in lks:
        l = w.srv.lists.get(f"q:q{q}:{p}:{'dead' if k else 'n'}", [])
        obs += [len(l)] + [cd.member(x) for x in l]
    obs += [-8]
    for (t, q, p) in zks:
        z = w.srv._zsorted("processing" if t == 2 else f"q:q{q}:{p}:d")
        obs += [len(z)] + [x for m, sc in z for x in (cd.member(m), int(sc))]
    obs += [-9, len(w.srv.hashes)]
    topic_tab = ct.lst(f"({c}, {num(s.split(':')[0])})" for s, c in sorted(cd.name.items(), key=lambda kv: kv[1]))
    ptab = ct.lst(f"({c}, {params_term(p, ct.Interner())})" for c, p in sorted(cd.params.items()))
    lks_t = ct.lst(f"(mkLK {q} {p} {'LDead' if k else 'LNormal'})" for q, p, k in lks)
    zks_t = ct.lst("ZProcessing" if t == 2 else f"(ZDelayed {q} {p})" for t, q, p in zks)
    term = f"(mkEnv {topic_tab} {ptab}, {ct.lst(terms)}, {lks_t}, {zks_t})"
    return {"term": term, "obs": obs, "trace": trace, "world": w, "coder": cd}
