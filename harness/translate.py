"""Translator: the pure schedule arithmetic of /repo's current source -> Gallina (coq/GenSched.v), regenerated on every run.

Fail-closed: only the statement and expression forms listed here are accepted; anything else raises TranslateError
(reported as a broken tie).  The generated definitions are proved EQUAL to the hand-written model of Sched.v in
coq/GenSchedProofs.v, so that every theorem about Sched.v is a theorem about what the code says now; an edit of the source
that changes its meaning breaks those equalities, a harmless rewrite usually does not.

Source functions (located by name, not by line):
  repid/data/_parameters.py  Parameters.is_overdue / compute_next_execution_time / _prepare_reschedule / _prepare_retry
  repid/retry_policy.py      default_retry_policy_factory.inner
  repid/connections/in_memory/utils.py, rabbitmq/utils.py   wait_until
  repid/connections/redis/utils.py                           wait_timestamp

Modelling conventions (trusted): datetimes and timedeltas are integers (microseconds), `datetime.now(...)` is the parameter
`now`, `timedelta(seconds=n)` is n * 1000000, `x.timestamp()` followed by `math.ceil` is `ceil_s`; `self.delay.cron` is the
constant None (cron schedules are outside every model); `params is None` / `params.delay is None` are false (the model's
parameters are total); `deepcopy(self)` is the identity on immutable values; `object.__setattr__(copy.<part>, "<field>", e)`
is a functional record update."""
from __future__ import annotations

import ast
from pathlib import Path


class TranslateError(Exception):
    pass


# attribute paths below `self` / `params` / `copy`: Coq accessor and type
FIELDS = {
    ("ttl",): ("(p_ttl {p})", "optZ"),
    ("timestamp",): ("(p_ts {p})", "Z"),
    ("execution_timeout",): ("(p_timeout {p})", "Z"),
    ("delay", "delay_until"): ("(d_until (p_delay {p}))", "optZ"),
    ("delay", "defer_by"): ("(d_by (p_delay {p}))", "optZ"),
    ("delay", "next_execution_time"): ("(d_next (p_delay {p}))", "optZ"),
    ("delay", "cron"): ("(@None Z)", "optZ"),
    ("retries", "already_tried"): ("(r_tried (p_retries {p}))", "Z"),
    ("retries", "max_amount"): ("(r_max (p_retries {p}))", "Z"),
}
PROPERTIES = {"compute_next_execution_time": ("(gen_compute_next {p} now)", "optZ"),
              "is_overdue": ("(gen_is_overdue {p} now)", "bool")}
# functional updates: (part, field) -> lambda(record expr, value expr) -> new params expr
UPDATES = {
    ("retries", "already_tried"): lambda r, v: f"(upd_tried {r} {v})",
    ("delay", "next_execution_time"): lambda r, v: f"(upd_next {r} {v})",
    (None, "timestamp"): lambda r, v: f"(upd_ts {r} {v})",
}
UPDATE_TYPES = {("retries", "already_tried"): "Z", ("delay", "next_execution_time"): "optZ", (None, "timestamp"): "Z"}


def find_func(tree: ast.AST, path: list[str]) -> ast.FunctionDef:
    node = tree
    for name in path:
        found = None
        for ch in ast.walk(node) if node is tree else ast.iter_child_nodes(node):
            if isinstance(ch, (ast.FunctionDef, ast.AsyncFunctionDef, ast.ClassDef)) and ch.name == name:
                found = ch
                break
        if found is None:
            # one level deeper (function nested in a function body)
            for ch in ast.walk(node):
                if isinstance(ch, (ast.FunctionDef, ast.ClassDef)) and ch.name == name:
                    found = ch
                    break
        if found is None:
            raise TranslateError(f"{'.'.join(path)}: not found")
        node = found
    if not isinstance(node, (ast.FunctionDef, ast.AsyncFunctionDef)):
        raise TranslateError(f"{'.'.join(path)}: not a function")
    return node


class Fn:
    def __init__(self, name: str, ret: str, recvars: dict, zvars: dict) -> None:
        self.name, self.ret = name, ret
        self.rec = dict(recvars)          # python name -> Coq expr of a params record
        self.vars = dict(zvars)           # python name -> (Coq expr, type)
        self.narrow: dict[str, str] = {}  # ast.dump of an option expression -> Coq variable holding its value
        self.fresh = 0

    def var(self) -> str:
        self.fresh += 1
        return f"v{self.fresh}"

    # ---- expressions ----
    def attr_path(self, e: ast.AST):
        path = []
        while isinstance(e, ast.Attribute):
            path.append(e.attr)
            e = e.value
        if isinstance(e, ast.Name) and e.id in self.rec:
            return e.id, tuple(reversed(path))
        return None, None

    def expr(self, e: ast.AST) -> tuple[str, str]:
        key = ast.dump(e)
        if key in self.narrow:
            return self.narrow[key], "Z"
        if isinstance(e, ast.Constant):
            if e.value is None:
                return "None", "optZ"
            if isinstance(e.value, bool):
                return ("true" if e.value else "false"), "bool"
            if isinstance(e.value, int):
                return f"({e.value})", "Z"
            raise TranslateError(f"constant {e.value!r}")
        if isinstance(e, ast.Name):
            if e.id in self.vars:
                return self.vars[e.id]
            if e.id in self.rec:
                return self.rec[e.id], "params"
            raise TranslateError(f"unknown name {e.id}")
        if isinstance(e, ast.Attribute):
            base, path = self.attr_path(e)
            if base is not None:
                if path in FIELDS:
                    c, t = FIELDS[path]
                    return c.format(p=self.rec[base]), t
                if len(path) == 1 and path[0] in PROPERTIES:
                    c, t = PROPERTIES[path[0]]
                    return c.format(p=self.rec[base]), t
            raise TranslateError(f"attribute {ast.unparse(e)}")
        if isinstance(e, ast.Call):
            f = ast.unparse(e.func)
            if f == "datetime.now":
                return "now", "Z"
            if f in ("min", "max") and len(e.args) == 2 and not e.keywords:
                a, ta = self.expr(e.args[0])
                b, tb = self.expr(e.args[1])
                self.want(ta, "Z", e)
                self.want(tb, "Z", e)
                return f"(Z.{f} {a} {b})", "Z"
            if f == "timedelta" and not e.args and len(e.keywords) == 1 and e.keywords[0].arg == "seconds":
                a, ta = self.expr(e.keywords[0].value)
                self.want(ta, "Z", e)
                return f"({a} * 1000000)", "Z"
            if f == "math.ceil" and len(e.args) == 1 and isinstance(e.args[0], ast.Call) and \
                    isinstance(e.args[0].func, ast.Attribute) and e.args[0].func.attr == "timestamp" and not e.args[0].args:
                a, ta = self.expr(e.args[0].func.value)
                self.want(ta, "Z", e)
                return f"(ceil_s {a})", "Z"
            raise TranslateError(f"call {ast.unparse(e)}")
        if isinstance(e, ast.BinOp):
            a, ta = self.expr(e.left)
            b, tb = self.expr(e.right)
            self.want(ta, "Z", e)
            self.want(tb, "Z", e)
            op = {ast.Add: "+", ast.Sub: "-", ast.Mult: "*", ast.FloorDiv: "/", ast.Pow: "^"}.get(type(e.op))
            if op is None:
                raise TranslateError(f"operator in {ast.unparse(e)}")
            return f"({a} {op} {b})", "Z"
        if isinstance(e, ast.Compare) and len(e.ops) == 1:
            op, rhs = e.ops[0], e.comparators[0]
            if isinstance(op, (ast.Is, ast.IsNot)) and isinstance(rhs, ast.Constant) and rhs.value is None:
                if isinstance(e.left, ast.Name) and e.left.id in self.rec:
                    return ("false" if isinstance(op, ast.Is) else "true"), "bool"      # params is None: never
                base, path = self.attr_path(e.left)
                if base is not None and path == ("delay",):
                    return ("false" if isinstance(op, ast.Is) else "true"), "bool"      # params.delay is None: never
                a, ta = self.expr(e.left)
                self.want(ta, "optZ", e)
                return (f"(is_none {a})" if isinstance(op, ast.Is) else f"(negb (is_none {a}))"), "bool"
            a, ta = self.expr(e.left)
            b, tb = self.expr(rhs)
            self.want(ta, "Z", e)
            self.want(tb, "Z", e)
            c = {ast.Gt: f"({b} <? {a})", ast.Lt: f"({a} <? {b})", ast.GtE: f"({b} <=? {a})", ast.LtE: f"({a} <=? {b})",
                 ast.Eq: f"({a} =? {b})"}.get(type(op))
            if c is None:
                raise TranslateError(f"comparison in {ast.unparse(e)}")
            return c, "bool"
        if isinstance(e, ast.BoolOp):
            if isinstance(e.op, ast.Or) and len(e.values) == 2:
                a, ta = self.expr(e.values[0])
                if ta == "optZ":          # `x or y` on optional datetimes (a datetime is never falsy)
                    b, tb = self.expr(e.values[1])
                    self.want(tb, "optZ", e)
                    v = self.var()
                    return f"(match {a} with Some {v} => Some {v} | None => {b} end)", "optZ"
            parts = []
            for v in e.values:
                c, t = self.expr(v)
                self.want(t, "bool", e)
                parts.append(c)
            return "(" + (" && " if isinstance(e.op, ast.And) else " || ").join(parts) + ")", "bool"
        raise TranslateError(f"expression {ast.unparse(e)}")

    @staticmethod
    def want(t: str, w: str, e: ast.AST) -> None:
        if t != w:
            raise TranslateError(f"type {t} where {w} is needed in {ast.unparse(e)}")

    def to_ret(self, c: str, t: str, e: ast.AST) -> str:
        if t == self.ret:
            return c
        if self.ret == "optZ" and t == "Z":
            return f"(Some {c})"
        raise TranslateError(f"returns {t}, function returns {self.ret}: {ast.unparse(e)}")

    # ---- conditions with narrowing: `X is not None [and rest]` / `X is None` ----
    def cond(self, test: ast.AST, then_k, else_k) -> str:
        """Gallina for `if test then then_k() else else_k()`; the continuations are called with the narrowing in force."""
        if isinstance(test, ast.BoolOp) and isinstance(test.op, ast.And):
            first, rest = test.values[0], test.values[1:]
            rest_test = rest[0] if len(rest) == 1 else ast.BoolOp(op=ast.And(), values=rest)
            return self.cond(first, lambda: self.cond(rest_test, then_k, else_k), else_k)
        if isinstance(test, ast.Compare) and len(test.ops) == 1 and isinstance(test.ops[0], (ast.Is, ast.IsNot)) and \
                isinstance(test.comparators[0], ast.Constant) and test.comparators[0].value is None:
            subject = test.left
            bind = None
            if isinstance(subject, ast.NamedExpr):          # (computed := e) is not None
                bind, subject = subject.target.id, subject.value
            c, t = self.expr(subject)
            if t == "optZ" and c not in ("None",):
                v = self.var()
                saved_n, saved_v = dict(self.narrow), dict(self.vars)
                self.narrow[ast.dump(subject)] = v
                if bind:
                    self.vars[bind] = (v, "Z")
                some_branch = (then_k if isinstance(test.ops[0], ast.IsNot) else else_k)()
                self.narrow, self.vars = saved_n, saved_v
                none_branch = (else_k if isinstance(test.ops[0], ast.IsNot) else then_k)()
                return f"(match {c} with Some {v} => {some_branch} | None => {none_branch} end)"
        c, t = self.expr(test)
        self.want(t, "bool", test)
        return f"(if {c} then {then_k()} else {else_k()})"

    # ---- statements ----
    def block(self, stmts: list[ast.stmt]) -> str:
        if not stmts:
            raise TranslateError(f"{self.name}: control reaches the end of the function without a return")
        s, rest = stmts[0], stmts[1:]
        if isinstance(s, ast.Expr) and isinstance(s.value, ast.Constant) and isinstance(s.value.value, str):
            return self.block(rest)                                   # docstring
        if isinstance(s, ast.Return):
            if s.value is None:
                raise TranslateError("bare return")
            c, t = self.expr(s.value)
            return self.to_ret(c, t, s.value)
        if isinstance(s, ast.Raise):
            return "UNREACHABLE"
        if isinstance(s, ast.If):
            def then_k():
                return self.block(s.body + (rest if not self.ends(s.body) else []))

            def else_k():
                return self.block((s.orelse + rest) if s.orelse else rest)
            out = self.cond(s.test, then_k, else_k)
            return out
        if isinstance(s, ast.Assign) and len(s.targets) == 1 and isinstance(s.targets[0], ast.Name):
            tgt = s.targets[0].id
            if isinstance(s.value, ast.Call) and ast.unparse(s.value.func) == "deepcopy" and \
                    isinstance(s.value.args[0], ast.Name) and s.value.args[0].id in self.rec:
                self.rec[tgt] = self.rec[s.value.args[0].id]
                return self.block(rest)
            c, t = self.expr(s.value)
            v = self.var()
            self.vars[tgt] = (v, t)
            return f"(let {v} := {c} in {self.block(rest)})"
        if isinstance(s, ast.Expr) and isinstance(s.value, ast.Call) and ast.unparse(s.value.func) == "object.__setattr__":
            obj, fld, val = s.value.args
            if not (isinstance(fld, ast.Constant) and isinstance(fld.value, str)):
                raise TranslateError(ast.unparse(s))
            if isinstance(obj, ast.Name) and obj.id in self.rec:
                base, part = obj.id, None
            elif isinstance(obj, ast.Attribute) and isinstance(obj.value, ast.Name) and obj.value.id in self.rec:
                base, part = obj.value.id, obj.attr
            else:
                raise TranslateError(ast.unparse(s))
            if (part, fld.value) not in UPDATES:
                raise TranslateError(f"update of {part}.{fld.value}")
            c, t = self.expr(val)
            want = UPDATE_TYPES[(part, fld.value)]
            if t == "Z" and want == "optZ":
                c = f"(Some {c})"
            elif t != want:
                raise TranslateError(f"update of {part}.{fld.value} with a {t}")
            v = self.var()
            new = UPDATES[(part, fld.value)](self.rec[base], c)
            self.rec[base] = v
            return f"(let {v} := {new} in {self.block(rest)})"
        raise TranslateError(f"{self.name}: statement {ast.unparse(s)[:80]}")

    @staticmethod
    def ends(body: list[ast.stmt]) -> bool:
        return bool(body) and isinstance(body[-1], (ast.Return, ast.Raise))


def translate(repo: str) -> str:
    src = {}
    for rel in ("repid/data/_parameters.py", "repid/data/_buckets.py", "repid/job.py", "repid/retry_policy.py",
                "repid/connections/in_memory/utils.py",
                "repid/connections/rabbitmq/utils.py", "repid/connections/redis/utils.py"):
        src[rel] = ast.parse(Path(repo, rel).read_text())
    out = ["(* GENERATED by harness/translate.py from /repo's current source - do not edit. *)",
           "From Repid Require Import Base Sched.", "",
           "Definition is_none {A} (o : option A) : bool := match o with None => true | Some _ => false end.",
           "Definition upd_tried (p : params) (t : Z) : params :=",
           "  mkParams (p_timeout p) (p_result p) (mkRetries (r_max (p_retries p)) t) (p_delay p) (p_ts p) (p_ttl p).",
           "Definition upd_next (p : params) (n : option Z) : params :=",
           "  mkParams (p_timeout p) (p_result p) (p_retries p) (mkDelay (d_until (p_delay p)) (d_by (p_delay p)) n) (p_ts p) (p_ttl p).",
           "Definition upd_ts (p : params) (t : Z) : params :=",
           "  mkParams (p_timeout p) (p_result p) (p_retries p) (p_delay p) t (p_ttl p).", ""]

    def emit(defname: str, args: str, ret: str, fn: Fn, node: ast.FunctionDef, origin: str) -> None:
        body = fn.block(node.body)
        if "UNREACHABLE" in body:
            # a raise is accepted only in a branch that the conventions make unreachable (`cron is not None`)
            raise TranslateError(f"{origin}: a raise statement is reachable")
        coq_ret = {"bool": "bool", "optZ": "option Z", "Z": "Z", "params": "params"}[ret]
        out.append(f"(* {origin} *)")
        out.append(f"Definition {defname} {args} : {coq_ret} :=\n  {body}.\n")

    P = "repid/data/_parameters.py"
    emit("gen_is_overdue", "(p : params) (now : Z)", "bool", Fn("is_overdue", "bool", {"self": "p"}, {}),
         find_func(src[P], ["Parameters", "is_overdue"]), P + " Parameters.is_overdue")
    # expiry of argument buckets, result buckets and jobs: the same two fields (`timestamp`, `ttl`) and the same clock; the
    # object is represented by a params record of which only p_ts / p_ttl can be mentioned (any other attribute path that a
    # bucket or a job has is unknown to FIELDS and makes the translation fail)
    for rel, cls, name in (("repid/data/_buckets.py", "ArgsBucket", "gen_args_bucket_is_overdue"),
                           ("repid/data/_buckets.py", "ResultBucket", "gen_result_bucket_is_overdue"),
                           ("repid/job.py", "Job", "gen_job_is_overdue")):
        emit(name, "(p : params) (now : Z)", "bool", FnExpiry("is_overdue", "bool", {"self": "p"}, {}),
             find_func(src[rel], [cls, "is_overdue"]), f"{rel} {cls}.is_overdue")
    # the cron branch: `self.delay.cron` is the constant None, so its body (with the raise) must disappear
    emit("gen_compute_next", "(p : params) (now : Z)", "optZ", FnCron("compute_next_execution_time", "optZ", {"self": "p"}, {}),
         find_func(src[P], ["Parameters", "compute_next_execution_time"]), P + " Parameters.compute_next_execution_time")
    emit("gen_prepare_reschedule", "(p : params) (now : Z)", "params", Fn("_prepare_reschedule", "params", {"self": "p"}, {}),
         find_func(src[P], ["Parameters", "_prepare_reschedule"]), P + " Parameters._prepare_reschedule")
    emit("gen_prepare_retry", "(p : params) (now : Z) (next_retry : Z)", "params",
         Fn("_prepare_retry", "params", {"self": "p"}, {"next_retry": ("next_retry", "Z")}),
         find_func(src[P], ["Parameters", "_prepare_retry"]), P + " Parameters._prepare_retry")
    R = "repid/retry_policy.py"
    emit("gen_backoff_us", "(min_backoff max_backoff multiplier max_exponent retry_number : Z)", "Z",
         Fn("inner", "Z", {}, {k: (k, "Z") for k in ("min_backoff", "max_backoff", "multiplier", "max_exponent", "retry_number")}),
         find_func(src[R], ["default_retry_policy_factory", "inner"]), R + " default_retry_policy_factory.inner")
    for rel, name in (("repid/connections/in_memory/utils.py", "gen_wait_until_mem"), ("repid/connections/rabbitmq/utils.py", "gen_wait_until_rabbit")):
        emit(name, "(p : params) (now : Z)", "optZ", Fn("wait_until", "optZ", {"params": "p"}, {}),
             find_func(src[rel], ["wait_until"]), rel + " wait_until")
    rel = "repid/connections/redis/utils.py"
    emit("gen_wait_timestamp_redis", "(p : params) (now : Z)", "optZ", Fn("wait_timestamp", "optZ", {"params": "p"}, {}),
         find_func(src[rel], ["wait_timestamp"]), rel + " wait_timestamp")
    return "\n".join(out)


class FnExpiry(Fn):
    """is_overdue of buckets and jobs: only `self.timestamp` and `self.ttl` exist on the object."""

    def expr(self, e: ast.AST) -> tuple[str, str]:
        if isinstance(e, ast.Attribute):
            base, path = self.attr_path(e)
            if base is not None and path not in (("ttl",), ("timestamp",)):
                raise TranslateError(f"attribute {ast.unparse(e)} of a bucket / job in is_overdue")
        return super().expr(e)


class FnCron(Fn):
    """compute_next_execution_time: a branch guarded by `self.delay.cron is not None` is dropped (cron is the constant None)."""

    def cond(self, test, then_k, else_k):
        if isinstance(test, ast.Compare) and ast.unparse(test) == "self.delay.cron is not None":
            return else_k()
        return super().cond(test, then_k, else_k)


if __name__ == "__main__":
    import sys
    print(translate(sys.argv[1] if len(sys.argv) > 1 else "/repo"))



class FnReport(Fn):
    """_Processor.report_to_broker: an if / elif / else chain over the outcome and the parameters in which every branch awaits
    exactly ONE call of the message broker; translated to Ladder.decision (which call, with which new parameters)."""

    def expr(self, e: ast.AST) -> tuple[str, str]:
        if isinstance(e, ast.Attribute) and ast.unparse(e) == "result.success":
            return "success", "bool"
        if isinstance(e, ast.UnaryOp) and isinstance(e.op, ast.Not):
            c, t = self.expr(e.operand)
            self.want(t, "bool", e)
            return f"(negb {c})", "bool"
        return super().expr(e)

    def decision(self, stmts: list[ast.stmt]) -> str:
        stmts = [s for s in stmts if not (isinstance(s, ast.Expr) and isinstance(s.value, ast.Constant))]
        if len(stmts) != 1:
            raise TranslateError(f"report_to_broker: a branch with {len(stmts)} statements (one broker call expected)")
        s = stmts[0]
        if isinstance(s, ast.If):
            if not s.orelse:
                raise TranslateError("report_to_broker: an `if` without `else`: a delivery could end without a broker call")
            c, t = self.expr(s.test)
            self.want(t, "bool", s.test)
            return f"(if {c} then {self.decision(s.body)} else {self.decision(s.orelse)})"
        if isinstance(s, ast.Expr) and isinstance(s.value, ast.Await) and isinstance(s.value.value, ast.Call):
            call = s.value.value
            f = ast.unparse(call.func)
            args = [ast.unparse(a) for a in call.args]
            if call.keywords:
                raise TranslateError(f"report_to_broker: keyword arguments in {ast.unparse(call)}")
            if f == "self._conn.message_broker.ack" and args == ["key"]:
                return "DAck"
            if f == "self._conn.message_broker.nack" and args == ["key"]:
                return "DNack"
            if f == "self._conn.message_broker.requeue" and len(args) == 3 and args[:2] == ["key", "payload"]:
                new = call.args[2]
                if ast.unparse(new) == "parameters._prepare_reschedule()":
                    return "(DResched (gen_prepare_reschedule p now))"
                if isinstance(new, ast.Call) and ast.unparse(new.func) == "parameters._prepare_retry" and len(new.args) == 1 and not new.keywords:
                    back = new.args[0]
                    if isinstance(back, ast.Call) and ast.unparse(back.func) == "actor.retry_policy" and len(back.args) == 1 and not back.keywords:
                        n, tn = self.expr(back.args[0])
                        self.want(tn, "Z", back)
                        return f"(DRetry (gen_prepare_retry p now (pol {n})))"
            raise TranslateError(f"report_to_broker: unexpected broker call {ast.unparse(call)}")
        raise TranslateError(f"report_to_broker: unexpected statement {ast.unparse(s)[:80]}")


def translate_ladder(repo: str) -> str:
    """coq/GenLadder.v: the disposition ladder of repid/_processor.py, regenerated from the current source."""
    rel = "repid/_processor.py"
    tree = ast.parse(Path(repo, rel).read_text())
    node = find_func(tree, ["_Processor", "report_to_broker"])
    names = [a.arg for a in node.args.args]
    if names != ["self", "actor", "key", "payload", "parameters", "result"]:
        raise TranslateError(f"report_to_broker: parameters {names}")
    body = FnReport("report_to_broker", "decision", {"parameters": "p"}, {}).decision(node.body)
    return "\n".join([
        "(* GENERATED by harness/translate.py from /repo's current source - do not edit. *)",
        "From Repid Require Import Base Sched GenSched Handle Ladder.", "",
        f"(* {rel} _Processor.report_to_broker: which broker call ends the delivery, with which parameters; `pol` is the actor's",
        "   retry policy (microseconds), `success` is result.success *)",
        "Definition gen_decide (pol : Z -> Z) (p : params) (success : bool) (now : Z) : decision :=",
        f"  {body}.", ""])



class FnHandle(Fn):
    """A terminal method of repid/message.py Message: guards that raise ValueError, then ONE broker call handed to
    `self._dispose(...)`, then `self.__read_only = True`.  Translated to `option bcall` (None = refused)."""

    def attr_path(self, e: ast.AST):
        base, path = super().attr_path(e)
        if base == "self" and path and path[0] == "parameters":
            return base, path[1:]                       # self.parameters.<...> is the record itself
        return base, path

    def expr(self, e: ast.AST) -> tuple[str, str]:
        src = ast.unparse(e)
        if src in ("self.__read_only", "self._Message__read_only"):
            return "ro", "bool"
        if isinstance(e, ast.Compare) and len(e.ops) == 1 and ast.unparse(e.left) == "self._category" and \
                ast.unparse(e.comparators[0]) == "MessageCategory.NORMAL" and isinstance(e.ops[0], (ast.Eq, ast.NotEq)):
            return ("(cat_eqb c Normal)" if isinstance(e.ops[0], ast.Eq) else "(negb (cat_eqb c Normal))"), "bool"
        if isinstance(e, ast.IfExp) and ast.unparse(e.test) == "next_retry is None":
            a, ta = self.expr(e.body)
            self.want(ta, "Z", e)
            if ast.unparse(e.orelse) != "next_retry":
                raise TranslateError(f"handle: {src}")
            return f"(match next_retry with Some d => d | None => {a} end)", "Z"
        return super().expr(e)

    def broker_call(self, call: ast.Call) -> str:
        f = ast.unparse(call.func)
        args = [ast.unparse(a) for a in call.args]
        if call.keywords:
            raise TranslateError(f"handle: keyword arguments in {ast.unparse(call)}")
        for name, ctor in (("ack", "BAck"), ("nack", "BNack"), ("reject", "BReject")):
            if f == f"self._connection.message_broker.{name}" and args == ["self._key"]:
                return ctor
        if f == "self._connection.message_broker.requeue" and len(args) == 3 and args[:2] == ["self._key", "self.raw_payload"]:
            new = call.args[2]
            if ast.unparse(new) == "self.parameters._prepare_reschedule()":
                return "(BRequeue (gen_prepare_reschedule p now))"
            if isinstance(new, ast.Call) and ast.unparse(new.func) == "self.parameters._prepare_retry" and not new.args and \
                    len(new.keywords) == 1 and new.keywords[0].arg == "next_retry":
                b, tb = self.expr(new.keywords[0].value)
                self.want(tb, "Z", new)
                return f"(BRequeue (gen_prepare_retry p now {b}))"
        raise TranslateError(f"handle: unexpected broker call {ast.unparse(call)}")

    def method(self, stmts: list[ast.stmt]) -> str:
        if not stmts:
            raise TranslateError(f"{self.name}: no broker call")
        s, rest = stmts[0], stmts[1:]
        if isinstance(s, ast.If) and not s.orelse and len(s.body) == 1 and isinstance(s.body[0], ast.Raise):
            c, t = self.expr(s.test)
            self.want(t, "bool", s.test)
            return f"(if {c} then None else {self.method(rest)})"
        if isinstance(s, ast.Expr) and isinstance(s.value, ast.Await) and isinstance(s.value.value, ast.Call) and \
                ast.unparse(s.value.value.func) == "self._dispose" and len(s.value.value.args) == 1 and \
                isinstance(s.value.value.args[0], ast.Call):
            tail = [ast.unparse(x) for x in rest]
            if tail != ["self.__read_only = True"]:
                raise TranslateError(f"{self.name}: after the broker call: {tail} (the read-only flag must be set, nothing else)")
            return f"(Some {self.broker_call(s.value.value.args[0])})"
        raise TranslateError(f"{self.name}: unexpected statement {ast.unparse(s)[:80]}")


def translate_handle(repo: str) -> str:
    """coq/GenHandle.v: guards and broker call of the six terminal methods of repid/message.py Message."""
    rel = "repid/message.py"
    tree = ast.parse(Path(repo, rel).read_text())
    out = ["(* GENERATED by harness/translate.py from /repo's current source - do not edit. *)",
           "From Repid Require Import Base Sched GenSched Handle.", "",
           f"(* {rel} Message: what a terminal method asks of the broker (None = refused with ValueError); ro = the read-only flag,",
           "   c = the category the message was taken from *)"]
    dispose = find_func(tree, ["Message", "_dispose"])
    if [ast.unparse(x) for x in dispose.body] != ["await broker_call"]:
        raise TranslateError("Message._dispose is not `await broker_call`")
    for name in ("ack", "nack", "reject", "reschedule", "retry", "force_retry"):
        node = find_func(tree, ["Message", name])
        params = [a.arg for a in node.args.args]
        extra = " (next_retry : option Z)" if name in ("retry", "force_retry") else ""
        if params != (["self", "next_retry"] if extra else ["self"]):
            raise TranslateError(f"Message.{name}: parameters {params}")
        zvars = {"next_retry": ("next_retry", "optZ")} if extra else {}
        body = FnHandle(f"Message.{name}", "bcall", {"self": "p"}, zvars).method(node.body)
        out.append(f"Definition gen_msg_{name} (ro : bool) (c : cat) (p : params) (now : Z){extra} : option bcall :=\n  {body}.")
    # the eager actions of MessageDependency: the Message action (retry / force_retry with the actor's policy as the default
    # back-off), then the callbacks, then _NoAction with a default success flag
    rel2 = "repid/dependencies/message_dependency.py"
    tree2 = ast.parse(Path(repo, rel2).read_text())
    out += ["", f"(* {rel2} MessageDependency: the same through super(), the default back-off of retry / force_retry is the actor's retry",
            "   policy; `gen_dep_default_success_*` is the success flag _NoAction carries when no result was set *)"]
    for name in ("ack", "nack", "reject", "reschedule", "retry", "force_retry"):
        node = find_func(tree2, ["MessageDependency", name])
        stmts = list(node.body)
        if len(stmts) != 3:
            raise TranslateError(f"MessageDependency.{name}: {len(stmts)} statements (super call, callbacks, _NoAction expected)")
        first = stmts[0]
        ok = isinstance(first, ast.Expr) and isinstance(first.value, ast.Await) and isinstance(first.value.value, ast.Call)
        call = first.value.value if ok else None
        if not ok or ast.unparse(call.func) != f"super().{name}" or call.args:
            raise TranslateError(f"MessageDependency.{name}: first statement is not `await super().{name}(...)`")
        if ast.unparse(stmts[1]) != "await self.__execute_callbacks()":
            raise TranslateError(f"MessageDependency.{name}: second statement {ast.unparse(stmts[1])[:60]}")
        third = stmts[2]
        if not (isinstance(third, ast.Raise) and isinstance(third.exc, ast.Call) and ast.unparse(third.exc.func) == "_NoAction"):
            raise TranslateError(f"MessageDependency.{name}: third statement is not `raise _NoAction(...)`")
        succ = {k.arg: k.value for k in third.exc.keywords}.get("success")
        if not (isinstance(succ, ast.IfExp) and ast.unparse(succ.test) == "self.__result_success is not None" and
                ast.unparse(succ.body) == "self.__result_success" and isinstance(succ.orelse, ast.Constant) and
                isinstance(succ.orelse.value, bool)):
            raise TranslateError(f"MessageDependency.{name}: success flag of _NoAction")
        out.append(f"Definition gen_dep_default_success_{name} : bool := {'true' if succ.orelse.value else 'false'}.")
        if name in ("retry", "force_retry"):
            if len(call.keywords) != 1 or call.keywords[0].arg != "next_retry":
                raise TranslateError(f"MessageDependency.{name}: arguments of the super call")
            v = call.keywords[0].value
            if not (isinstance(v, ast.IfExp) and ast.unparse(v.test) == "next_retry is None" and ast.unparse(v.orelse) == "next_retry" and
                    isinstance(v.body, ast.Call) and ast.unparse(v.body.func) == "self._actor_data.retry_policy" and not v.body.args and
                    len(v.body.keywords) == 1 and v.body.keywords[0].arg == "retry_number"):
                raise TranslateError(f"MessageDependency.{name}: default back-off")
            n, tn = FnHandle(f"MessageDependency.{name}", "bcall", {"self": "p"}, {}).expr(v.body.keywords[0].value)
            out.append(f"Definition gen_dep_{name} (pol : Z -> Z) (ro : bool) (c : cat) (p : params) (now : Z) (next_retry : option Z) : option bcall :=\n"
                       f"  gen_msg_{name} ro c p now (Some (match next_retry with Some d => d | None => pol {n} end)).")
        elif call.keywords:
            raise TranslateError(f"MessageDependency.{name}: arguments of the super call")
    return "\n".join(out) + "\n"



class FnRabbit(Fn):
    def expr(self, e: ast.AST) -> tuple[str, str]:
        if isinstance(e, ast.UnaryOp) and isinstance(e.op, ast.USub):
            c, t = self.expr(e.operand)
            self.want(t, "Z", e)
            return f"(- {c})", "Z"
        if isinstance(e, ast.Call) and ast.unparse(e.func) == "timedelta" and not e.args and len(e.keywords) == 1 and \
                e.keywords[0].arg == "milliseconds":
            a, ta = self.expr(e.keywords[0].value)
            self.want(ta, "Z", e)
            return f"({a} * 1000)", "Z"
        return super().expr(e)


def translate_rabbit(repo: str) -> str:
    """coq/GenRabbit.v: how RabbitMessageBroker.enqueue turns the due time into the per-message TTL (`expiration`, whole
    milliseconds) that keeps the message in the delayed queue - and that it files the message there exactly when it sets one."""
    rel = "repid/connections/rabbitmq/message_broker.py"
    tree = ast.parse(Path(repo, rel).read_text())
    node = find_func(tree, ["RabbitMessageBroker", "enqueue"])
    body = list(node.body)
    idx = next((i for i, st in enumerate(body) if isinstance(st, ast.AnnAssign) and ast.unparse(st.target) == "exp"), None)
    if idx is None or ast.unparse(body[idx].value) != "None":
        raise TranslateError("enqueue: `exp: ... = None` not found")
    cond = body[idx + 1]
    if not (isinstance(cond, ast.If) and not cond.orelse and ast.unparse(cond.test) == "(delayed := wait_until(params)) is not None"):
        raise TranslateError("enqueue: `if (delayed := wait_until(params)) is not None:` not found after exp")
    inner = [st for st in cond.body if not (isinstance(st, ast.Expr) and isinstance(st.value, ast.Constant))]
    if not (len(inner) == 2 and isinstance(inner[0], ast.Assign) and ast.unparse(inner[0].targets[0]) == "millis" and
            isinstance(inner[1], ast.If) and not inner[1].orelse and len(inner[1].body) == 1 and
            ast.unparse(inner[1].body[0]) == "exp = str(millis)"):
        raise TranslateError("enqueue: the body of the delay branch is not `millis = ...; if ...: exp = str(millis)`")
    fn = FnRabbit("enqueue", "optZ", {"params": "p"}, {"delayed": ("d", "Z")})
    millis, t = fn.expr(inner[0].value)
    fn.want(t, "Z", inner[0].value)
    fn.vars["millis"] = ("millis", "Z")
    test, tt = fn.expr(inner[1].test)
    fn.want(tt, "bool", inner[1].test)
    rest = "\n".join(ast.unparse(st) for st in body[idx + 2:])
    for needle in ("routing_key=self.qnc(key.queue, delayed=exp is not None)", "expiration=exp"):
        if needle not in rest:
            raise TranslateError(f"enqueue: `{needle}` not found in the publish call")
    if "exp =" in rest or "exp:" in rest:
        raise TranslateError("enqueue: exp is assigned again after the delay branch")
    return "\n".join([
        "(* GENERATED by harness/translate.py from /repo's current source - do not edit. *)",
        "From Repid Require Import Base Sched GenSched.", "",
        f"(* {rel} RabbitMessageBroker.enqueue: the per-message TTL (ms) under which a message is filed in the delayed queue;",
        "   None = published to the normal queue without expiration (the publish call uses `delayed=exp is not None`, `expiration=exp`) *)",
        "Definition gen_rabbit_expiration (p : params) (now : Z) : option Z :=",
        f"  match gen_wait_until_rabbit p now with",
        f"  | Some d => let millis := {millis} in if {test} then Some millis else None",
        "  | None => None",
        "  end.", ""])



class FnRedisMaint(Fn):
    def expr(self, e: ast.AST) -> tuple[str, str]:
        if isinstance(e, ast.Call) and ast.unparse(e.func) == "datetime.fromtimestamp" and len(e.args) == 1 and not e.keywords:
            a, ta = self.expr(e.args[0])
            self.want(ta, "Z", e)
            return f"({a} * 1000000)", "Z"           # the score of the processing set is a whole number of seconds
        return super().expr(e)


def translate_redis_maintenance(repo: str) -> str:
    """coq/GenRedisMaint.v: the test by which RedisMessageBroker.maintenance decides that a message marked as processing has
    timed out (and is handed back by reject)."""
    rel = "repid/connections/redis/message_broker.py"
    tree = ast.parse(Path(repo, rel).read_text())
    node = find_func(tree, ["RedisMessageBroker", "maintenance"])
    if not any(isinstance(st, ast.Assign) and ast.unparse(st) == "now = datetime.now()" for st in node.body):
        raise TranslateError("maintenance: `now = datetime.now()` not found")
    tests = [n for n in ast.walk(node) if isinstance(n, ast.If) and "execution_timeout" in ast.unparse(n.test)]
    if len(tests) != 1:
        raise TranslateError(f"maintenance: {len(tests)} tests on execution_timeout (one expected)")
    cond = tests[0]
    if "self.reject(" not in "\n".join(ast.unparse(st) for st in cond.body) or cond.orelse:
        raise TranslateError("maintenance: the timed-out branch does not reject the message (or has an else)")
    fn = FnRedisMaint("maintenance", "bool", {"params": "p"}, {"now": ("now", "Z"), "processing_start_time": ("start_s", "Z")})
    c, t = fn.expr(cond.test)
    fn.want(t, "bool", cond.test)
    return "\n".join([
        "(* GENERATED by harness/translate.py from /repo's current source - do not edit. *)",
        "From Repid Require Import Base Sched.", "",
        f"(* {rel} RedisMessageBroker.maintenance: a message taken at second `start_s` is handed back (reject) iff *)",
        "Definition gen_redis_timed_out (p : params) (start_s now : Z) : bool :=",
        f"  {c}.", ""])
