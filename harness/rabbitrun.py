"""Sequential histories of broker-API calls on the real RabbitMQ client over FakeAmqp (virtual time), and their
translation into RabbitBroker.v histories and observations."""
from __future__ import annotations

import asyncio
import json

from . import coqterm as ct
from .clock import CLOCK
from .fakeamqp import ISSUER, FakeAmqp
from .pyparams import mk_params, params_term
from .world import MessageCategory, key

S = 1_000_000
CATS = {0: MessageCategory.NORMAL, 1: MessageCategory.DELAYED, 2: MessageCategory.DEAD}
CAT_TERM = {0: "Normal", 1: "DelayedC", 2: "DeadC"}
KIND = {"": 0, "delayed": 1, "dead": 2}
KIND_TERM = {0: "QNormal", 1: "QDelayed", 2: "QDead"}
ZONE = {0: "normal", 1: "delayed", 2: "dead"}


def num(s: str) -> int:
    return int(s[1:])


def qk(name: str) -> tuple[int, int]:
    parts = name.split(":")
    return num(parts[0]), KIND[parts[1] if len(parts) > 1 else ""]


class _FakeConn:
    async def close(self) -> None:
        return None


class RabbitWorld:
    def __init__(self) -> None:
        from repid.connections.rabbitmq.message_broker import RabbitMessageBroker
        from repid.connections.rabbitmq.utils import _Consumers
        self.mb = RabbitMessageBroker("amqp://fake-host-never-contacted/")
        self.srv = FakeAmqp()
        self.srv.consumers = _Consumers()
        self.mb._RabbitMessageBroker__channel = self.srv
        self.mb._RabbitMessageBroker__connection = _FakeConn()
        self.consumers: dict[int, object] = {}
        self.cspec: dict[int, tuple] = {}
        self.payloads = ct.Interner()
        self.pcodes = ct.Interner()
        self.ptab: dict[int, object] = {}

    async def settle(self) -> None:
        for _ in range(6):
            await asyncio.sleep(0)
        await self.srv.quiesce()
        for _ in range(4):
            await asyncio.sleep(0)
        await self.srv.quiesce()

    # ---- interning of bodies ----
    def body_codes(self, body: bytes) -> tuple[int, int]:
        d = json.loads(body)
        return self.payloads(d["payload"]), self.pcode(d["parameters"])

    def pcode(self, encoded: str) -> int:
        c = self.pcodes(encoded)
        if c not in self.ptab:
            self.ptab[c] = self.mb.PARAMETERS_CLASS.decode(encoded) if encoded else None
        return c

    # ---- encoding of the fake's state, as AmqpSrv.srv_obs / RabbitBroker.world_obs ----
    def enc_msg(self, m: dict) -> list[int]:
        pl, pc = self.body_codes(m["body"])
        return [num(m["id"]), m["prio"], num(m["headers"]["topic"]), num(m["headers"]["queue"]), pl, pc,
                -1 if m["expire"] is None else m["expire"], 1 if m["redel"] else 0]

    def obs(self) -> list[int]:
        out: list[int] = []
        for name, l in self.srv.queues.items():
            out += [-10, *qk(name)]
            for m in l:
                out += self.enc_msg(m)
        out += [-11]
        for u in self.srv.unacked:
            out += [u["tag"], num(u["msg"]["id"]), u["ctag"]]
        out += [-12]
        for c in self.srv.cons:
            out += [c["ctag"], c["prefetch"]]
        out += [-13, self.srv.qos, self.srv.next_tag, self.srv.next_ctag]
        for c, cons in self.consumers.items():
            tag = cons._consumer_tag
            registered = tag is not None and tag in self.srv.consumers
            out += [-30, c, int(tag[4:]) if registered else 0, 1 if cons._RabbitConsumer__is_paused else 0,
                    1 if cons._RabbitConsumer__is_consuming else 0]
            out += [num(k.id_) for (k, _, _) in list(cons.queue._queue)]
        out += [-31]
        for i, t in reversed(list(self.mb._id_to_delivery_tag.items())):
            out += [num(i), t]
        return out

    def enc_method(self, rec: tuple) -> list[int]:
        _, now, iss, name, args, reply = rec
        by = 0 if (iss is not None and iss[0] == "api") else 1
        if name == "publish":
            rk, mid, prio, headers, body, expiration, exchange, mandatory = args
            pl, pc = self.body_codes(body)
            e = [1, *qk(rk), num(mid), prio, num(headers["topic"]), num(headers["queue"]), pl, pc,
                 -1 if expiration is None else int(expiration)]
            if exchange != "" or not mandatory:
                e[0] = 101          # not the publish the model knows
        elif name == "ack":
            e = [2, args[0]] if not args[1] else [102, args[0]]
        elif name == "nack":
            e = [3, args[0]] if (not args[1] and not args[2]) else [103, args[0], int(args[1]), int(args[2])]
        elif name == "reject":
            e = [4, args[0]] if args[1] else [104, args[0]]
        elif name == "qos":
            e = [5, args[1] or 0] if not args[2] and not args[0] else [105, args[1] or 0]
        elif name == "consume":
            e = [6, *qk(args[0])] if not args[1] and not args[2] else [106, *qk(args[0])]
        elif name == "cancel":
            e = [7, int(args[0][4:])]
        elif name == "declare":
            e = [8, *qk(args[0])]
        elif name == "purge":
            e = [9, *qk(args[0])]
        else:
            e = [199]
        return [-20, by] + e + [reply]


# ---------------- execution of a history ----------------
async def run_history(hist: dict, loop) -> dict:
    w = RabbitWorld()
    terms: list[str] = []
    obs: list[int] = []
    trace: list[dict] = []
    held: dict[int, int] = {}                 # id -> consumer it was handed to by consume() and not yet disposed of

    async def api(coro):
        tok = ISSUER.set(("api",))
        try:
            return await coro
        finally:
            ISSUER.reset(tok)

    rng = hist.get("rng")
    known: dict[int, dict] = {}
    for o in hist["ops"]:
        if o["op"] == "terminal":
            if not held:
                continue
            i = rng.choice(sorted(held))
            k_ = rng.choice(o.get("kinds") or ["ack", "nack", "reject", "reject", "requeue", "requeue"])
            if k_ == "requeue":
                spec = o["respec"]
                o = dict(known[i], op="requeue", rev=rng.randint(1, 9), build=spec)
            else:
                o = {"op": k_, "id": i, "q": known[i]["q"]}
        if o["op"] == "put":
            known[o["id"]] = o
        kind = o["op"]
        now = CLOCK.now_us()
        n0 = len(w.srv.log)
        res = 0
        ev = {"op": kind, "t": now, "held_before": dict(held)}
        if kind == "declare":
            await api(w.mb.queue_declare(f"q{o['q']}"))
            term = f"(RDeclare {o['q']})"
        elif kind == "consumer":
            c, q, cat, topics, mx = o["c"], o["q"], o["cat"], o["topics"], o["max"]
            cons = w.mb.get_consumer(f"q{q}", None if topics is None else [f"t{t}" for t in topics], mx, CATS[cat])
            w.consumers[c] = cons
            w.cspec[c] = (q, cat, topics, mx)
            await api(cons.start())
            term = f"(RAddConsumer {c} {q} {CAT_TERM[cat]} {'[]' if topics is None else ct.zlist(topics)} {mx or 0})"
            ev.update(c=c)
        elif kind in ("put", "requeue"):
            p = o["build"](now)
            k = key(f"m{o['id']}", f"t{o['topic']}", f"q{o['q']}", o["prio"])
            payload = f"p{o['id']}r{o.get('rev', 0)}"
            pc = w.pcode(p.encode())
            if kind == "put":
                await api(w.mb.enqueue(k, payload, p))
                term = f"(RPut {o['id']} {o['topic']} {o['q']} {o['prio']} {w.payloads(payload)} {pc})"
            else:
                await api(w.mb.requeue(k, payload, p))
                held.pop(o["id"], None)
                term = f"(RRequeue {o['id']} {o['topic']} {o['q']} {o['prio']} {w.payloads(payload)} {pc})"
            ev.update(id=o["id"], params=p, q=o["q"], prio=o["prio"], topic=o["topic"])
        elif kind == "take":
            c = o["c"]
            t = asyncio.ensure_future(api(w.consumers[c].consume()))
            for _ in range(40):
                # consume() may first dead-letter expired buffered messages (one method each): give it loop iterations for as
                # long as it makes progress; no virtual time passes
                n_log = len(w.srv.log)
                await w.settle()
                if t.done() or len(w.srv.log) == n_log:
                    break
            got = None
            if t.done():
                got = t.result()
            else:
                t.cancel()
                try:
                    await t
                except asyncio.CancelledError:
                    pass
            if got is not None:
                res = num(got[0].id_)
                held[res] = c
                ev.update(got=got)
            term = f"(RTake {c})"
            ev.update(c=c, delivered=res)
        elif kind in ("ack", "nack", "reject"):
            i = o["id"]
            k = key(f"m{i}", "t1", f"q{o['q']}")
            await api(getattr(w.mb, kind)(k))
            held.pop(i, None)
            term = f"({ {'ack': 'RAck', 'nack': 'RNack', 'reject': 'RReject'}[kind]} {i})"
            ev.update(id=i)
        elif kind in ("pause", "unpause", "finish"):
            c = o["c"]
            await api(getattr(w.consumers[c], kind)())
            term = f"({ {'pause': 'RPause', 'unpause': 'RUnpause', 'finish': 'RFinish'}[kind]} {c})"
            ev.update(c=c)
            if kind == "finish":
                for i in [i for i, cc in held.items() if cc == c]:
                    pass           # what the caller holds stays with it (unacknowledged on the server)
        elif kind == "tick":
            await asyncio.sleep(o["d"] / S)
            term = f"(RTick {o['d']})"
            ev.update(d=o["d"])
        else:
            raise ValueError(kind)
        await w.settle()
        recs = [r for r in w.srv.log[n0:] if r[0] == "method"]
        enc = []
        for r in recs:
            enc += w.enc_method(r)
        terms.append(f"({ct.Z(now)}, {term})")
        obs += [-40, res] + enc + [-41] + w.obs()
        ev.update(methods=[(r[2], r[3], r[4][:2] if r[3] != "publish" else (r[4][0], r[4][1], r[4][5]), r[5]) for r in recs],
                  log=w.srv.log[n0:], held=dict(held), state=w_state(w))
        trace.append(ev)
    env = "(mkEnv " + ct.lst([f"({c}, {params_term(p, ct.Interner())})" for c, p in sorted(w.ptab.items()) if p is not None]) + ")"
    return {"term": f"({env}, {ct.lst(terms)})", "obs": obs, "trace": trace, "world": w}


def w_state(w: RabbitWorld) -> dict:
    """model-free view for the oracles: where every id is"""
    places: dict[int, list] = {}
    for name, l in w.srv.queues.items():
        q, kd = qk(name)
        for pos, m in enumerate(l):
            places.setdefault(num(m["id"]), []).append((("ready", "delayed", "dead")[kd], q, pos, ZONE[kd]))
    for u in w.srv.unacked:
        q, kd = qk(u["q"])
        places.setdefault(num(u["msg"]["id"]), []).append(("unacked", q, u["ctag"], ZONE[kd]))
    buffers = {c: [num(k.id_) for (k, _, _) in list(cons.queue._queue)] for c, cons in w.consumers.items()}
    return {"places": places, "buffers": buffers}
