"""Histories of broker-API calls on the real in-memory broker (virtual time), with cancellation cuts, and
their translation into MemBroker.v op lists and observations."""
import asyncio
from datetime import timedelta

from . import coqterm as ct
from .clock import CLOCK
from .pyparams import enc_params, mk_params, params_term
from .world import MemMessage, MessageCategory, World, key

S = 1_000_000
CATS = {0: MessageCategory.NORMAL, 1: MessageCategory.DELAYED, 2: MessageCategory.DEAD}
CAT_TERM = {0: "Normal", 1: "DelayedC", 2: "DeadC"}


import contextvars  # noqa: E402

_CUR = contextvars.ContextVar("verif_cur_consumer", default=None)


class RecQueue(asyncio.Queue):
    """asyncio.Queue that logs every get_nowait (= one poll of a NORMAL consumer)."""

    def __init__(self, events: list) -> None:
        super().__init__()
        self.events = events

    def get_nowait(self):
        ev = ["get", CLOCK.now_us(), _CUR.get(), self.empty()]
        self.events.append(ev)
        return super().get_nowait()


class RecList(list):
    """list that logs the emptiness test made by every poll of a DEAD-category consumer."""

    def __init__(self, events: list) -> None:
        super().__init__()
        self.events = events

    def __len__(self):
        n = super().__len__()
        if _CUR.get() is not None:
            self.events.append(("dpoll", CLOCK.now_us(), _CUR.get(), n == 0))
        return n


    def append(self, m):  # noqa: A003
        if _CUR.get() is not None:
            # dead-lettering by a consumer's poll (c None marks it as "not a poll" for polls_of; the barrier it sets is harmless)
            self.events.append(("dead_append", CLOCK.now_us(), None, num(m.key.id_)))
        return super().append(m)


class RecDict(dict):
    """dict that logs items() (= one __update_delayed pass) and the emptiness test of a DELAYED-category poll."""

    def __init__(self, events: list) -> None:
        super().__init__()
        self.events = events

    def __len__(self):
        n = super().__len__()
        if _CUR.get() is not None:
            self.events.append(("dpoll", CLOCK.now_us(), _CUR.get(), n == 0))
        return n

    def items(self):
        self.events.append(("update", CLOCK.now_us(), _CUR.get(), False))
        return super().items()


_SUB = contextvars.ContextVar("verif_sub_call", default=None)
_FIN = contextvars.ContextVar("verif_finish_call", default=None)


class RecSet(set):
    """the processing set: logs which concurrent sub-call removed which message (order of effects under asyncio.gather)"""

    def __init__(self) -> None:
        super().__init__()
        self.removals: list = []
        self.events = None

    def __iter__(self):
        # finish() walks the processing set in its one atomic block: the instant of a concurrent finish's effect
        if _FIN.get() is not None and self.events is not None:
            self.events.append(("fin_effect", CLOCK.now_us(), None, False))
        return super().__iter__()

    def remove(self, m):
        self.removals.append((_SUB.get(), num(m.key.id_)))
        return super().remove(m)

    def discard(self, m):
        if m in self:
            self.removals.append((_SUB.get(), num(m.key.id_)))
        return super().discard(m)


def num(s: str) -> int:
    return int(s[1:])


class MemWorld:
    def __init__(self, queues: list[int]) -> None:
        self.w = World()
        self.qs = queues
        self.events: list = []
        self.consumers: dict[int, object] = {}
        self.cspec: dict[int, tuple] = {}
        self.intern = ct.Interner()
        self.book: dict[int, int] = {}      # id -> consumer it was last delivered to (harness bookkeeping)
        self.n_compressed = 0

    async def setup(self, consumers: dict) -> None:
        for q in self.qs:
            await self.w.mb.queue_declare(f"q{q}")
            dq = self.w.mb.queues[f"q{q}"]
            dq.simple = RecQueue(self.events)
            dq.delayed = RecDict(self.events)
            dq.dead = RecList(self.events)
            dq.processing = RecSet()
            dq.processing.events = self.events
        for c, (q, cat, topics) in consumers.items():
            cons = self.w.mb.get_consumer(f"q{q}", None if topics is None else [f"t{t}" for t in topics], None, CATS[cat])
            await cons.start()
            self.consumers[c] = cons
            self.cspec[c] = (q, cat, topics)
            self._mark_polls(cons, c, q)

    def _mark_polls(self, cons, c: int, q: int) -> None:
        """One poll = one call of the consumer's per-category fetch function (consume() looks it up in a dict of the
        instance): wrap the entries so that every poll is logged with its instant and whether the container was empty.
        Falls back on the containers' own logging (get_nowait / emptiness tests) when the dict is not there."""
        table = getattr(cons, "_InMemoryConsumer__category_to_consume", None)
        self.poll_marks = isinstance(table, dict) and getattr(self, "poll_marks", True)
        if not isinstance(table, dict):
            return
        dq = self.w.mb.queues[f"q{q}"]

        def empty_of(cat_):
            if cat_ == MessageCategory.NORMAL:
                return dq.simple.empty()
            if cat_ == MessageCategory.DELAYED:
                return dict.__len__(dq.delayed) == 0
            return list.__len__(dq.dead) == 0

        for cat_, fn in list(table.items()):
            def wrapped(fn=fn, cat_=cat_):
                self.events.append(("poll", CLOCK.now_us(), c, empty_of(cat_)))
                return fn()
            table[cat_] = wrapped

    def owner_of(self, dq, m) -> int:
        """Which consumer holds m: the queue's own record when it keeps one, else what the harness saw being delivered."""
        tb = getattr(dq, "taken_by", None)
        if tb is not None and m.key.id_ in tb:
            return self.cnum(tb[m.key.id_])
        return self.book.get(num(m.key.id_), -1)

    def cnum(self, obj) -> int:
        for c, o in self.consumers.items():
            if o is obj:
                return c
        return -1

    # ---- state ----
    def enc_state(self) -> list[int]:
        out = []
        for q in self.qs:
            s = self.w.snapshot(f"q{q}")
            dq = self.w.mb.queues[f"q{q}"]
            out += [len(s["simple"])] + [num(m.key.id_) for m in s["simple"]]
            items = list(dict.items(dq.delayed))
            out += [len(items)]
            for t, ms in items:
                out += [ct.us_of_dt(t), len(ms)] + [num(m.key.id_) for m in ms]
            out += [len(s["dead"])] + [num(m.key.id_) for m in s["dead"]]
            pr = sorted(dq.processing, key=lambda m: num(m.key.id_))
            out += [len(pr)]
            for m in pr:
                o = getattr(dq, "taken_from", {}).get(m.key.id_)
                out += [num(m.key.id_), self.owner_of(dq, m)]
                out += [0] if o is None else ([2] if o == "dead" else [1, ct.us_of_dt(o)])
        return out

    def enc_msg(self, m) -> list[int]:
        return [num(m.key.id_), num(m.key.topic), num(m.key.queue), m.key.priority, self.intern(m.payload)] + \
            enc_params(m.parameters, self.intern)

    def enc_full(self) -> list[int]:
        out = []
        for q in self.qs:
            s = self.w.snapshot(f"q{q}")
            dq = self.w.mb.queues[f"q{q}"]
            for m in s["simple"]:
                out += self.enc_msg(m)
            out += [-1]
            for t, ms in dict.items(dq.delayed):
                for m in ms:
                    out += self.enc_msg(m)
            out += [-1]
            for m in s["dead"]:
                out += self.enc_msg(m)
            out += [-1]
            for m in sorted(dq.processing, key=lambda m: num(m.key.id_)):
                out += self.enc_msg(m)
        return out

    def abstract(self) -> dict:
        """Model-free view of the broker for the oracles: where every id is, with payload and parameters."""
        places: dict[int, list] = {}
        msgs: dict[int, tuple] = {}
        for q in self.qs:
            s = self.w.snapshot(f"q{q}")
            dq = self.w.mb.queues[f"q{q}"]
            for pos, m in enumerate(s["simple"]):
                places.setdefault(num(m.key.id_), []).append(("simple", q, pos))
                msgs[num(m.key.id_)] = (m.payload, m.parameters, num(m.key.topic))
            for t, ms in dict.items(dq.delayed):
                for m in ms:
                    places.setdefault(num(m.key.id_), []).append(("delayed", q, ct.us_of_dt(t)))
                    msgs[num(m.key.id_)] = (m.payload, m.parameters, num(m.key.topic))
            for m in s["dead"]:
                places.setdefault(num(m.key.id_), []).append(("dead", q, None))
                msgs[num(m.key.id_)] = (m.payload, m.parameters, num(m.key.topic))
            for m in dq.processing:
                places.setdefault(num(m.key.id_), []).append(("held", q, self.owner_of(dq, m)))
                msgs[num(m.key.id_)] = (m.payload, m.parameters, num(m.key.topic))
        return {"places": places, "msgs": msgs}

    def held(self) -> dict:
        """id -> (consumer, queue) for everything in processing."""
        out = {}
        for q in self.qs:
            dq = self.w.mb.queues[f"q{q}"]
            for m in dq.processing:
                out[num(m.key.id_)] = (self.owner_of(dq, m), q)
        return out

    def msg_term(self, i, t, q, prio, payload, p) -> str:
        return f"(M {i} {t} {q} {prio} {self.intern(payload)} {params_term(p, self.intern)})"


async def run_cut(coro, k):
    """Run a call; with k not None cancel it after k loop iterations. Returns (result, cancelled)."""
    t = asyncio.ensure_future(coro)
    if k is not None:
        for _ in range(k):
            await asyncio.sleep(0)
        t.cancel()
    try:
        return await t, False
    except asyncio.CancelledError:
        return None, True


def build_params(spec: dict, now: int):
    def rel(x):
        return None if x is None else now + x
    return mk_params(timeout_us=spec.get("timeout", 600 * S), max_amount=spec.get("max", 0), tried=spec.get("tried", 0),
                     until=rel(spec.get("until")), by=spec.get("by"), nxt=rel(spec.get("next")),
                     ts=now + spec.get("ts", 0), ttl=spec.get("ttl"))


class _Trace(list):
    def __init__(self, base: list, mw) -> None:
        super().__init__()
        self.base, self.mw = base, mw

    def append(self, e):  # noqa: A003
        if "after" not in e or e["after"] is None:
            e["after"] = self.mw.abstract()
        self.base.append(e)


async def exec_ops(mw: MemWorld, ops: list, loop, terms: list, obs: list, trace: list) -> None:
    """Executes ops on the real broker of `mw`, appending MemBroker.v op terms, the observation and a trace."""
    mb = mw.w.mb
    trace = _Trace(trace, mw)
    for o in ops:
        kind = o["op"]
        now = CLOCK.now_us()
        before = mw.enc_state()
        held_before = mw.held()
        if kind == "tick":
            loop.vtime += o["d"] / 1_000_000
            continue
        if kind == "put":
            p = build_params(o["params"], now)
            k = key(f"m{o['id']}", f"t{o['topic']}", f"q{o['queue']}", o.get("prio", 5))
            _, cancelled = await run_cut(mb.enqueue(k, f"p{o['id']}", p), o.get("cut"))
            after = mw.enc_state()
            if after != before:
                terms.append(f"(OPut {mw.msg_term(o['id'], o['topic'], o['queue'], o.get('prio', 5), 'p%d' % o['id'], p)} {ct.Z(now)})")
                obs += [0] + after
            trace.append({"op": "put", "id": o["id"], "t": now, "applied": after != before, "cancelled": cancelled, "params": p})
        elif kind in ("ack", "nack", "reject"):
            i = o["id"]
            q = o["queue"]
            k = key(f"m{i}", "t1", f"q{q}")
            _, cancelled = await run_cut(getattr(mb, kind)(k), o.get("cut"))
            after = mw.enc_state()
            if after != before or o.get("cut") is None:
                terms.append(f"({ {'ack': 'OAck', 'nack': 'ONack', 'reject': 'OReject'}[kind]} {i} {q})")
                obs += [0] + after
            trace.append({"op": kind, "id": i, "queue": q, "t": now, "applied": after != before, "cancelled": cancelled,
                          "held_before": held_before.get(i)})
        elif kind == "requeue":
            i, q = o["id"], o["queue"]
            p = o.get("params_obj") or build_params(o["params"], now)
            k = key(f"m{i}", f"t{o['topic']}", f"q{q}", o.get("prio", 5))
            payload = f"p{i}r{o.get('rev', 1)}"
            _, cancelled = await run_cut(mb.requeue(k, payload, p), o.get("cut"))
            after = mw.enc_state()
            if after != before:
                terms.append(f"(ORequeue {i} {q} {mw.msg_term(i, o['topic'], q, o.get('prio', 5), payload, p)} {ct.Z(now)})")
                obs += [0] + after
            trace.append({"op": "requeue", "id": i, "queue": q, "t": now, "applied": after != before, "cancelled": cancelled,
                          "params": p, "payload": payload, "held_before": held_before.get(i), "how": o.get("how"),
                          "params_before": o.get("params_before")})
        elif kind == "consume":
            c = o["c"]
            q, cat, topics = mw.cspec[c]
            cons = mw.consumers[c]
            mw.events.clear()
            got = None
            tok = _CUR.set(c)
            try:
                got = await asyncio.wait_for(cons.consume(), o.get("timeout", 0.0035))
            except asyncio.TimeoutError:
                pass
            finally:
                _CUR.reset(tok)
            if got is not None:
                mw.book[num(got[0].id_)] = c
            for i in mw.held():
                if i not in held_before:
                    mw.book.setdefault(i, c) if got is None else None
                    if got is None:
                        mw.book[i] = c
            held_after = mw.held()
            new = [i for i, (cc, qq) in held_after.items() if i not in held_before]
            delivered = num(got[0].id_) if got is not None else (new[0] if new else 0)
            tl = "[]" if topics is None else ct.zlist(topics)
            polls = [(t, u) for (_, t, u) in polls_of(mw, list(mw.events))]
            for j, (t, u) in enumerate(polls):
                terms.append(f"(OPoll {c} {q} {CAT_TERM[cat]} {tl} {ct.Z(t)} {ct.B(u)})")
                obs.append(delivered if j == len(polls) - 1 else 0)
            trace.append({"op": "consume", "c": c, "queue": q, "cat": cat, "topics": topics, "t": now, "polls": polls,
                          "delivered": delivered, "returned": got is not None, "got": got,
                          "t_return": CLOCK.now_us(), "dead_appends": dead_appends(mw.events)})
        elif kind == "consume_with_put":
            # a consumer is already polling when a message is enqueued `after` seconds later
            c = o["c"]
            q, cat, topics = mw.cspec[c]
            mw.events.clear()
            p_holder = {}

            async def do_put():
                await asyncio.sleep(o["after"])
                tnow = CLOCK.now_us()
                p = build_params(o["params"], tnow)
                k = key(f"m{o['id']}", f"t{o['topic']}", f"q{o['queue']}", 5)
                await mb.enqueue(k, f"p{o['id']}", p)
                p_holder["p"], p_holder["t"] = p, tnow
                p_holder["after"] = mw.abstract()
                mw.events.append(("put_done", tnow, None, False))

            async def do_consume():
                tok = _CUR.set(c)
                try:
                    return await asyncio.wait_for(mw.consumers[c].consume(), o["timeout"])
                except asyncio.TimeoutError:
                    return None
                finally:
                    _CUR.reset(tok)

            got, _ = await asyncio.gather(do_consume(), do_put())
            if got is not None:
                mw.book[num(got[0].id_)] = c
            delivered = num(got[0].id_) if got is not None else 0
            tl = "[]" if topics is None else ct.zlist(topics)
            evs = [tuple(ev) for ev in mw.events]
            cut_at = next((k_ for k_, ev in enumerate(evs) if ev[0] == "put_done"), len(evs))
            before_p = polls_of(mw, evs[:cut_at])
            all_p = polls_of(mw, evs)
            after_p = all_p[len(before_p):]
            for j, (_, t, u) in enumerate(before_p):
                terms.append(f"(OPoll {c} {q} {CAT_TERM[cat]} {tl} {ct.Z(t)} {ct.B(u)})")
                obs.append(delivered if (not after_p and j == len(before_p) - 1) else 0)
            if "p" in p_holder:
                terms.append(f"(OPut {mw.msg_term(o['id'], o['topic'], o['queue'], 5, 'p%d' % o['id'], p_holder['p'])} {ct.Z(p_holder['t'])})")
                terms[-1] = "Q" + terms[-1]     # Quiet: no snapshot right after a concurrent put
                obs.append(0)
            for j, (_, t, u) in enumerate(after_p):
                terms.append(f"(OPoll {c} {q} {CAT_TERM[cat]} {tl} {ct.Z(t)} {ct.B(u)})")
                obs.append(delivered if j == len(after_p) - 1 else 0)
            trace.append({"op": "put", "id": o["id"], "t": p_holder.get("t", now), "applied": "p" in p_holder, "cancelled": False,
                          "params": p_holder.get("p"), "after": p_holder.get("after")})
            trace.append({"op": "consume", "c": c, "queue": q, "cat": cat, "topics": topics, "t": now,
                          "polls": [(t, u) for (_, t, u) in all_p], "delivered": delivered, "returned": got is not None,
                          "got": got, "t_return": CLOCK.now_us(), "n_updates": sum(1 for (_, _, u) in all_p if u),
                          "put_at": p_holder.get("t"), "dead_appends": dead_appends(mw.events)})
        elif kind == "consume_with_finish":
            # consumer c is inside consume() when ANOTHER consumer f of the same queue is finished, `k` loop iterations
            # after c's call started (k sweeps the iterations between c's processing.add and its return)
            c, f = o["c"], o["f"]
            q, cat, topics = mw.cspec[c]
            fq = mw.cspec[f][0]
            mw.events.clear()
            places_before = mw.abstract()["places"]
            mine = sorted(i for i, (cc, qq) in held_before.items() if cc == f and qq == fq)
            for q_ in mw.qs:
                mw.w.mb.queues[f"q{q_}"].processing.removals.clear()

            async def do_fin():
                if o.get("after"):
                    await asyncio.sleep(o["after"])          # virtual time passes first (the other consumer keeps polling)
                for _ in range(o["k"]):
                    await asyncio.sleep(0)
                _FIN.set(f)
                _SUB.set("fin")
                await mw.consumers[f].finish()
                await mw.consumers[f].start()

            async def do_consume2():
                tok = _CUR.set(c)
                try:
                    return await asyncio.wait_for(mw.consumers[c].consume(), o["timeout"])
                except asyncio.TimeoutError:
                    return None
                finally:
                    _CUR.reset(tok)

            got, _ = await asyncio.gather(do_consume2(), do_fin())
            if got is not None:
                mw.book[num(got[0].id_)] = c
            held_after = mw.held()
            new = [i for i in held_after if i not in held_before]
            delivered = num(got[0].id_) if got is not None else (new[0] if new else 0)
            tl = "[]" if topics is None else ct.zlist(topics)
            evs = [tuple(ev) for ev in mw.events]
            cut_at = next((k_ for k_, ev in enumerate(evs) if ev[0] == "fin_effect"), len(evs))
            before_p = polls_of(mw, evs[:cut_at])
            all_p = polls_of(mw, evs)
            after_p = all_p[len(before_p):]
            removed = [i for q_ in mw.qs for (j, i) in mw.w.mb.queues[f"q{q_}"].processing.removals if j == "fin"]
            order = [i for i in removed if i in mine] + [i for i in mine if i not in removed]
            for j, (_, t, u) in enumerate(before_p):
                terms.append(f"(OPoll {c} {q} {CAT_TERM[cat]} {tl} {ct.Z(t)} {ct.B(u)})")
                obs.append(delivered if (not after_p and j == len(before_p) - 1) else 0)
            terms.append(f"Q(OFinish {f} {fq} {ct.zlist(order)})")
            obs.append(0)
            for j, (_, t, u) in enumerate(after_p):
                terms.append(f"(OPoll {c} {q} {CAT_TERM[cat]} {tl} {ct.Z(t)} {ct.B(u)})")
                obs.append(delivered if j == len(after_p) - 1 else 0)
            trace.append({"op": "finish_concurrent", "c": f, "queue": fq, "t": now, "returned": mine, "concurrent_with_consume_of": c,
                          "took_from_others": [i for i in removed if i not in mine]})
            trace.append({"op": "consume", "c": c, "queue": q, "cat": cat, "topics": topics, "t": now,
                          "polls": [(t, u) for (_, t, u) in all_p], "delivered": delivered, "returned": got is not None,
                          "got": got, "t_return": CLOCK.now_us(), "dead_appends": dead_appends(mw.events), "before": places_before})
        elif kind == "consume_many":
            # several consumers polling concurrently: polls interleave, each poll is attributed through a context variable
            mw.events.clear()
            results = {}

            async def one(c):
                _CUR.set(c)
                try:
                    results[c] = await asyncio.wait_for(mw.consumers[c].consume(), o.get("timeout", 0.0035))
                except asyncio.TimeoutError:
                    results[c] = None

            await asyncio.gather(*(one(c) for c in o["cs"]))
            for c, r_ in results.items():
                if r_ is not None:
                    mw.book[num(r_[0].id_)] = c
            held_after = mw.held()
            new = {i: cq for i, cq in held_after.items() if i not in held_before}
            polls = polls_of(mw, list(mw.events))
            last_poll = {}
            for j, (c, t, u) in enumerate(polls):
                last_poll[c] = j
            for j, (c, t, u) in enumerate(polls):
                q, cat, topics = mw.cspec[c]
                tl = "[]" if topics is None else ct.zlist(topics)
                terms.append(f"(OPoll {c} {q} {CAT_TERM[cat]} {tl} {ct.Z(t)} {ct.B(u)})")
                d = 0
                if last_poll[c] == j:
                    got = results.get(c)
                    mine = [i for i, (cc, qq) in new.items() if cc == c]
                    d = num(got[0].id_) if got is not None else (mine[0] if mine else 0)
                obs.append(d)
            trace.append({"op": "consume_many", "cs": o["cs"], "t": now, "polls": polls,
                          "delivered": {c: (None if r is None else num(r[0].id_)) for c, r in results.items()},
                          "new_held": new, "t_return": CLOCK.now_us(), "dead_appends": dead_appends(mw.events)})
        elif kind == "finish":
            c = o["c"]
            q, cat, topics = mw.cspec[c]
            cons = mw.consumers[c]
            snap_before = mw.w.snapshot(f"q{q}")
            mine = sorted(i for i, (cc, qq) in held_before.items() if cc == c and qq == q)
            await cons.finish()
            await cons.start()
            after = mw.enc_state()
            # the order in which the set iteration returned the messages: read off the containers' new tails
            snap = mw.w.snapshot(f"q{q}")
            dq = mw.w.mb.queues[f"q{q}"]
            seq_after = [num(m.key.id_) for m in snap["simple"]] + \
                        [num(m.key.id_) for _, ms in dict.items(dq.delayed) for m in ms] + [num(m.key.id_) for m in snap["dead"]]
            order = [i for i in seq_after if i in mine]
            order += [i for i in mine if i not in order]
            terms.append(f"(OFinish {c} {q} {ct.zlist(order)})")
            obs += [0] + after
            trace.append({"op": "finish", "c": c, "queue": q, "t": now, "returned": mine})

        elif kind == "together":
            # several broker calls started in the same loop iteration (asyncio.gather): every in-memory call is one atomic
            # block after one sleep(0), so on the code as modelled their effects happen in start order
            subs = o["subs"]
            mine = {}
            coros = []
            for sb in subs:
                if sb["k"] == "finish":
                    c = sb["c"]
                    q = mw.cspec[c][0]
                    mine[c] = sorted(i for i, (cc, qq) in held_before.items() if cc == c and qq == q)

                    async def fin(c=c):
                        await mw.consumers[c].finish()
                        await mw.consumers[c].start()
                    coros.append(fin())
                elif sb["k"] == "requeue":
                    sb["params_obj"] = build_params(sb["params"], now)
                    kk = key(f"m{sb['id']}", f"t{sb['topic']}", f"q{sb['queue']}", 5)
                    coros.append(mb.requeue(kk, f"p{sb['id']}r{sb.get('rev', 1)}", sb["params_obj"]))
                else:
                    coros.append(getattr(mb, sb["k"])(key(f"m{sb['id']}", "t1", f"q{sb['queue']}")))
            async def run_sub(j, coro):
                _SUB.set(j)
                return await coro

            for q_ in mw.qs:
                mw.w.mb.queues[f"q{q_}"].processing.removals.clear()
            await asyncio.gather(*(run_sub(j, co) for j, co in enumerate(coros)))
            after = mw.enc_state()
            # order of effects = order of the first removal made by each sub-call; calls that removed nothing found
            # their message already gone (or hold nothing): they are no-ops wherever they are placed
            first = {}
            for q_ in mw.qs:
                for j, _i in mw.w.mb.queues[f"q{q_}"].processing.removals:
                    first.setdefault(j, len(first))
            order_subs = sorted(range(len(subs)), key=lambda j: (first.get(j, 10**6), j))
            subs = [subs[j] for j in order_subs]
            new_terms = []
            for sb in subs:
                if sb["k"] == "finish":
                    c = sb["c"]
                    q = mw.cspec[c][0]
                    snap = mw.w.snapshot(f"q{q}")
                    dq = mw.w.mb.queues[f"q{q}"]
                    seq_after = [num(m.key.id_) for m in snap["simple"]] + \
                                [num(m.key.id_) for _, ms in dict.items(dq.delayed) for m in ms] + [num(m.key.id_) for m in snap["dead"]]
                    order = [i for i in seq_after if i in mine[c]] + [i for i in mine[c] if i not in seq_after]
                    new_terms.append(f"(OFinish {c} {q} {ct.zlist(order)})")
                elif sb["k"] == "requeue":
                    new_terms.append(f"(ORequeue {sb['id']} {sb['queue']} "
                                     f"{mw.msg_term(sb['id'], sb['topic'], sb['queue'], 5, 'p%dr%d' % (sb['id'], sb.get('rev', 1)), sb['params_obj'])} {ct.Z(now)})")
                else:
                    new_terms.append(f"({ {'ack': 'OAck', 'nack': 'ONack', 'reject': 'OReject'}[sb['k']]} {sb['id']} {sb['queue']})")
            for j, t_ in enumerate(new_terms):
                if j < len(new_terms) - 1:
                    terms.append("Q" + t_)
                    obs.append(0)
                else:
                    terms.append(t_)
                    obs += [0] + after
            trace.append({"op": "together", "t": now, "held_before": dict(held_before), "mine": mine,
                          "subs": [{k_: v for k_, v in sb.items() if k_ != "params_obj"} | ({"params": sb["params_obj"]} if "params_obj" in sb else {}) for sb in subs]})


def finish_history(mw: MemWorld, terms: list, obs: list, trace: list) -> dict:
    obs = obs + [-7] + mw.enc_state() + [-8] + mw.enc_full()
    wrapped = [f"(Quiet {t[1:]})" if t.startswith("Q(") else f"(Obs {t})" for t in terms]
    term = f"({ct.zlist(mw.qs)}, {ct.lst(wrapped)})"
    return {"term": term, "obs": obs, "trace": trace, "mw": mw, "n_model_ops": len(terms)}


async def run_history(hist: dict, loop) -> dict:
    """hist: {"queues": [..], "consumers": {c: (q, cat, topics)}, "ops": [...]}. Returns Coq term + observation + trace."""
    mw = MemWorld(hist["queues"])
    await mw.setup(hist["consumers"])
    loop.max_iterations = loop.iteration + 2_000_000
    terms, obs, trace = [], [], []
    await exec_ops(mw, hist["ops"], loop, terms, obs, trace)
    return finish_history(mw, terms, obs, trace)


def dead_appends(events: list) -> list:
    """(time, id) of every message a consumer's poll put on the dead-letter list."""
    return [(ev[1], ev[3]) for ev in events if ev[0] == "dead_append"]


def polls_of(mw: MemWorld, events: list) -> list:
    """(consumer, time, upd) for every poll, in the order they really happened.  A run of consecutive polls of one
    consumer that found its container empty and made no update pass is reported as its last poll only: on an empty
    container a poll changes nothing but the clock high-water mark, so the model state after the run and after that one
    poll are equal (and if the model's container is not empty there, that poll disagrees)."""
    upd: dict = {}
    polls = []
    idle = []        # parallel to polls: was this an empty poll without update
    barrier = False
    for name, t, c, empty in events:
        if c is None:
            barrier = True       # something else happened (a concurrent enqueue): never merge polls across it
            continue
        cat = mw.cspec[c][1]
        if name == "update":
            upd[c] = True
        elif name == "poll" if getattr(mw, "poll_marks", False) else ((name == "get" and cat == 0) or (name == "dpoll" and cat != 0)):
            u = upd.pop(c, False)
            is_idle = bool(empty) and not u
            if is_idle and polls and idle[-1] and polls[-1][0] == c and not barrier:
                polls[-1] = (c, t, False)
                mw.n_compressed += 1
            else:
                polls.append((c, t, u))
                idle.append(is_idle)
            barrier = False
    return polls


# ---------------- generator ----------------
def gen_history(rng, *, n_ops: int, cuts: bool = True, delays: bool = True, ttls: bool = True) -> dict:
    queues = [1, 2] if rng.random() < 0.6 else [1]
    consumers = {1: (1, 0, rng.choice([None, None, [1, 2], [1]])),
                 2: (1, 0, rng.choice([None, [2, 3], [3]])),
                 3: (1, rng.choice([1, 2]), None)}
    if 2 in queues:
        consumers[4] = (2, 0, None)
        consumers[5] = (2, rng.choice([0, 1, 2]), rng.choice([None, [1]]))
    ops = []
    next_id = 1
    known: dict[int, tuple] = {}     # id -> (queue, topic)
    for _ in range(n_ops):
        r = rng.random()
        if r < 0.30 or not known:
            q = rng.choice(queues)
            t = rng.choice([1, 2, 3])
            spec = {}
            if delays and rng.random() < 0.45:
                spec["next"] = rng.choice([-S, 0, 1000, 2500, 30000, 5 * S])
            elif delays and rng.random() < 0.15:
                spec["by"] = rng.choice([1 * S, 10 * S])
                spec["until"] = rng.choice([None, 2000, -5])
                spec["ts"] = rng.choice([0, -1500])
            if ttls and rng.random() < 0.35:
                spec["ttl"] = rng.choice([2000, 20000, 10 * S])
                spec["ts"] = rng.choice([0, -1000, -15000, -S])
            ops.append({"op": "put", "id": next_id, "queue": q, "topic": t, "params": spec,
                        "cut": rng.choice([0, 1, 2, 3, 4]) if cuts and rng.random() < 0.12 else None})
            known[next_id] = (q, t)
            next_id += 1
        elif r < 0.56:
            ops.append({"op": "consume", "c": rng.choice(list(consumers)), "timeout": rng.choice([0.0005, 0.0035, 0.0035, 0.0105])})
        elif r < 0.62:
            ops.append({"op": "consume_many", "cs": rng.sample(list(consumers), rng.randint(2, min(3, len(consumers)))),
                        "timeout": rng.choice([0.0035, 0.0105])})
        elif r < 0.82:
            ops.append({"op": "terminal"})          # resolved at run time against what is held
        elif r < 0.85:
            ops.append({"op": "finish", "c": rng.choice(list(consumers))})
        elif r < 0.87:
            c_ = rng.choice(list(consumers))
            same_q = [x for x in consumers if x != c_ and consumers[x][0] == consumers[c_][0]]
            if same_q:
                ops.append({"op": "consume_with_finish", "c": c_, "f": rng.choice(same_q), "k": rng.choice([0, 1, 1, 2, 2, 3]),
                            "timeout": rng.choice([0.0035, 0.0105])})
        elif r < 0.89:
            ops.append({"op": "together_gen"})      # finish() of a holder concurrently with terminal calls on held messages
        else:
            ops.append({"op": "tick", "d": rng.choice([0, 500, 1000, 3000, 50000, 2 * S])})
    return {"queues": queues, "consumers": consumers, "ops": ops, "known": known}


async def run_generated(hist: dict, loop, rng) -> dict:
    """Like run_history, but 'terminal' ops are resolved against the messages actually held (well-behaved clients)."""
    mw = MemWorld(hist["queues"])
    await mw.setup(hist["consumers"])
    loop.max_iterations = loop.iteration + 2_000_000
    terms, obs, trace = [], [], []
    for o in hist["ops"]:
        if o["op"] == "together_gen":
            held = mw.held()
            by_c: dict = {}
            for i, (c, q) in held.items():
                by_c.setdefault(c, []).append((i, q))
            if not by_c:
                continue
            c = rng.choice(sorted(by_c, key=lambda c: (-len(by_c[c]), c))[:2])
            subs = [{"k": "finish", "c": c}]
            pool = sorted(held)
            rng.shuffle(pool)
            for i in pool[:rng.randint(1, 3)]:
                kq = held[i][1]
                k = rng.choice(["reject", "reject", "reject", "ack", "nack"])
                if k == "requeue":
                    subs.append({"k": "requeue", "id": i, "queue": kq, "topic": hist["known"][i][1], "params": {}, "rev": rng.randint(1, 9)})
                else:
                    subs.append({"k": k, "id": i, "queue": kq})
            if rng.random() < 0.5:
                subs = subs[1:] + subs[:1]
            elif rng.random() < 0.5:
                rng.shuffle(subs)
            await exec_ops(mw, [{"op": "together", "subs": subs}], loop, terms, obs, trace)
            continue
        if o["op"] == "terminal":
            held = mw.held()
            if not held:
                continue
            i = rng.choice(sorted(held))
            c, q = held[i]
            kind = rng.choice(hist.get("terminal_kinds") or ["ack", "nack", "reject", "reject", "requeue", "requeue"])
            cut = rng.choice([0, 1, 2, 3, 4, 5]) if rng.random() < 0.15 else None
            if kind in ("requeue_retry", "requeue_resched"):
                # what the worker does: the real Parameters methods on the held message's own parameters
                held_msg = next(m for m in mw.w.mb.queues[f"q{q}"].processing if num(m.key.id_) == i)
                pp = held_msg.parameters
                if kind == "requeue_retry":
                    pobj = pp._prepare_retry(timedelta(microseconds=rng.choice([0, 1000, 3000, 2 * S])))
                else:
                    pobj = pp._prepare_reschedule()
                o = {"op": "requeue", "id": i, "queue": q, "topic": hist["known"][i][1], "params": {}, "params_obj": pobj,
                     "cut": cut, "rev": rng.randint(1, 9), "how": kind, "params_before": pp}
            elif kind == "requeue":
                spec = {"tried": rng.randint(0, 2), "max": 2}
                if rng.random() < 0.6:
                    spec["next"] = rng.choice([-5, 0, 1500, 40000, 3 * S])
                if rng.random() < 0.3:
                    spec["ttl"] = rng.choice([3000, 10 * S])
                o = {"op": "requeue", "id": i, "queue": q, "topic": hist["known"][i][1], "params": spec, "cut": cut,
                     "rev": rng.randint(1, 9)}
            else:
                o = {"op": kind, "id": i, "queue": q, "cut": cut}
        await exec_ops(mw, [o], loop, terms, obs, trace)
    return finish_history(mw, terms, obs, trace)
