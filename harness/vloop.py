"""Deterministic virtual-time asyncio loop.

The selector never blocks: when nothing is ready the loop clock jumps to the next timer.
Iterations are counted and a per-iteration hook lets the harness inject events (stop request,
forced cancel, enqueue, death) at exactly iteration k. Signal handlers are recorded so "a signal"
is "call the recorded handler". A Task subclass installed through the task factory logs creation,
cancel() and completion with the coroutine's qualified name."""
from __future__ import annotations

import asyncio
import heapq
import itertools
import selectors
from typing import Any, Callable


class VirtualDeadlock(RuntimeError):
    pass


class _Selector(selectors.BaseSelector):
    def __init__(self, loop: "VirtualLoop") -> None:
        self._loop = loop
        self._map: dict = {}

    def register(self, fileobj, events, data=None):
        key = selectors.SelectorKey(fileobj, fileobj if isinstance(fileobj, int) else fileobj.fileno(), events, data)
        self._map[fileobj] = key
        return key

    def unregister(self, fileobj):
        return self._map.pop(fileobj)

    def modify(self, fileobj, events, data=None):
        self.unregister(fileobj)
        return self.register(fileobj, events, data)

    def select(self, timeout=None):
        if timeout is None:
            raise VirtualDeadlock("event loop has nothing to do (virtual deadlock)")
        if timeout > 0:
            self._loop.vtime += timeout
        return []

    def get_map(self):
        return self._map

    def close(self):
        self._map.clear()


class VTask(asyncio.Task):
    def __init__(self, coro, *, loop=None, **kw):
        super().__init__(coro, loop=loop, **kw)
        self.qualname = getattr(coro, "__qualname__", type(coro).__name__)
        lp = loop
        if isinstance(lp, VirtualLoop) and lp.task_log is not None:
            self.vid = lp._next_task_id
            lp._next_task_id += 1
            cur = asyncio.current_task(lp) if lp.is_running() else None
            loc = getattr(getattr(coro, "cr_frame", None), "f_locals", None) or {}
            self.vlabel = {"key": getattr(loc.get("key"), "id_", None),
                           "queue": getattr(loc.get("consumer"), "queue_name", None) or loc.get("queue_name")}
            lp.task_log.append(("create", self.vid, self.qualname, getattr(cur, "vid", None), lp.iteration, self.vlabel))
            if lp.task_hook is not None:
                lp.task_hook("task_create", self)
                self.add_done_callback(lambda t: lp.task_hook and lp.task_hook("task_done", self))
            self.add_done_callback(lambda t: lp.task_log.append(
                ("done", self.vid, self.qualname, "cancelled" if t.cancelled() else
                 ("exc:" + type(t.exception()).__name__ if t.exception() is not None else "ok"), lp.iteration)))

    def cancel(self, msg=None):
        lp = self._loop
        if isinstance(lp, VirtualLoop) and lp.task_log is not None and hasattr(self, "vid"):
            lp.task_log.append(("cancel", self.vid, self.qualname, None, lp.iteration))
            if lp.task_hook is not None and not self.done():
                lp.task_hook("task_cancel", self)
        return super().cancel(msg)


class _SeqTimerHandle(asyncio.TimerHandle):
    """Timers due at the same virtual instant fire in the order they were set.  (With a real clock two timers set one after
    the other never have the same deadline and fire in that order; asyncio's heap leaves the order of exact ties to chance.)"""
    __slots__ = ("_seq",)
    _counter = itertools.count()

    def __init__(self, *a, **k) -> None:
        super().__init__(*a, **k)
        self._seq = next(_SeqTimerHandle._counter)

    def _key(self):
        return (self._when, self._seq)

    def __lt__(self, o):
        return self._key() < o._key()

    def __le__(self, o):
        return self._key() <= o._key()

    def __gt__(self, o):
        return self._key() > o._key()

    def __ge__(self, o):
        return self._key() >= o._key()


class VirtualLoop(asyncio.SelectorEventLoop):
    def __init__(self, record_tasks: bool = False) -> None:
        self.vtime = 0.0
        self.iteration = 0
        self.busy_iterations: list[int] = []
        self.step_hook: Callable[["VirtualLoop"], None] | None = None
        self.signal_handlers: dict[int, Callable] = {}
        self.task_log: list | None = [] if record_tasks else None
        self.task_hook = None
        self._next_task_id = 1
        self.max_iterations = 5_000_000
        super().__init__(selector=_Selector(self))
        self.set_task_factory(lambda loop, coro, **kw: VTask(coro, loop=loop, **kw))

    def time(self) -> float:
        return self.vtime

    def call_at(self, when, callback, *args, context=None):
        self._check_closed()
        timer = _SeqTimerHandle(when, callback, args, self, context)
        heapq.heappush(self._scheduled, timer)
        timer._scheduled = True
        return timer

    def run_in_executor(self, executor, func, *args):
        """Synchronous user code (a sync actor, subscriber or callback goes through repid's asyncify) runs on the loop's own thread,
        one iteration later - not in a real thread: a virtual clock does not wait for real threads (with nothing ready it jumps to
        the next timer, e.g. the actor's time limit, while the thread is still on its way: a race that made one C02 case fail on
        a fresh copy of the sandbox and pass here)."""
        fut = self.create_future()

        def run():
            if fut.cancelled():
                return
            try:
                fut.set_result(func(*args))
            except BaseException as ex:  # noqa: BLE001
                fut.set_exception(ex)
        self.call_soon(run)
        return fut

    def _run_once(self) -> None:
        self.iteration += 1
        if self.iteration > self.max_iterations:
            raise VirtualDeadlock("iteration budget exhausted")
        if self.step_hook is not None:
            self.step_hook(self)
        if self._ready:
            self.busy_iterations.append(self.iteration)
        super()._run_once()

    # signals are recorded, not installed
    def add_signal_handler(self, sig, callback, *args):
        self.signal_handlers[int(sig)] = lambda: callback(*args)

    def remove_signal_handler(self, sig):
        return self.signal_handlers.pop(int(sig), None) is not None


def run_virtual(main_factory: Callable[[VirtualLoop], Any], *, record_tasks: bool = False,
                step_hook=None, max_iterations: int = 5_000_000):
    """Run `await main_factory(loop)` to completion in a fresh virtual loop with the clock attached."""
    from .clock import CLOCK

    loop = VirtualLoop(record_tasks=record_tasks)
    loop.step_hook = step_hook
    loop.max_iterations = max_iterations
    CLOCK.attach(loop)
    asyncio.set_event_loop(loop)
    try:
        return loop.run_until_complete(main_factory(loop)), loop
    finally:
        try:
            pending = [t for t in asyncio.all_tasks(loop) if not t.done()]
            for t in pending:
                t.cancel()
            if pending:
                loop.step_hook = None
                loop.run_until_complete(asyncio.gather(*pending, return_exceptions=True))
        except Exception:  # noqa: BLE001
            pass
        CLOCK.set(CLOCK.now_us())
        asyncio.set_event_loop(None)
        loop.close()
