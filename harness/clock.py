"""Pinned / virtual clock for repid: replaces the `datetime` and `time` names inside repid's
modules (attribute assignment from outside; no source change)."""
from __future__ import annotations

import datetime as _dtmod
import sys
import time as _real_time
from datetime import timedelta

REAL_DATETIME = _dtmod.datetime
_EPOCH = REAL_DATETIME(1970, 1, 1)
T0_US = 1_700_000_000_000_000  # base of virtual time (2023-11-14T22:13:20Z)


class Clock:
    def __init__(self) -> None:
        self.fixed_us: int | None = T0_US
        self.loop = None

    def now_us(self) -> int:
        if self.loop is not None:
            return T0_US + int(round(self.loop.vtime * 1_000_000))
        assert self.fixed_us is not None
        return self.fixed_us

    def set(self, us: int) -> None:
        self.loop = None
        self.fixed_us = int(us)

    def attach(self, loop) -> None:
        self.loop = loop


CLOCK = Clock()


class FakeDatetime(REAL_DATETIME):
    @classmethod
    def now(cls, tz=None):  # type: ignore[override]
        naive = _EPOCH + timedelta(microseconds=CLOCK.now_us())
        if tz is None:
            return naive
        return naive.replace(tzinfo=_dtmod.timezone.utc).astimezone(tz)

    @classmethod
    def utcnow(cls):  # type: ignore[override]
        return _EPOCH + timedelta(microseconds=CLOCK.now_us())


class FakeTime:
    def __getattr__(self, name):
        return getattr(_real_time, name)

    @staticmethod
    def time() -> float:
        return CLOCK.now_us() / 1_000_000

    @staticmethod
    def time_ns() -> int:
        return CLOCK.now_us() * 1000


FAKE_TIME = FakeTime()


def install() -> list[str]:
    """Patch every imported repid module. Returns the list of patched attributes."""
    import importlib
    import pkgutil

    import repid

    for m in pkgutil.walk_packages(repid.__path__, "repid."):
        if any(x in m.name for x in ("testing", "redis", "rabbitmq")):
            # optional modules: import when their third-party dependency is available
            try:
                importlib.import_module(m.name)
            except Exception:  # noqa: BLE001
                continue
        else:
            importlib.import_module(m.name)
    patched = []
    for name, mod in list(sys.modules.items()):
        if not name.startswith("repid") or mod is None:
            continue
        d = getattr(mod, "__dict__", {})
        if d.get("datetime") is REAL_DATETIME:
            setattr(mod, "datetime", FakeDatetime)
            patched.append(f"{name}.datetime")
        if d.get("time") is _real_time:
            setattr(mod, "time", FAKE_TIME)
            patched.append(f"{name}.time")
    return patched
